# c17.py — property C17: bufr_subset_find_descriptor / bufr_subset_find_values return the FIRST match, honouring value,
# range, missing and qualifier keys.  Proof (Properties_C17.v) + correspondence Search.v <-> bufr_api.c/bufr_value.c/
# bufr_dataset.c/bufr_meta.c + an independent brute-force oracle written from the property statement (exact rationals).
import glob, itertools, os, random, struct
from fractions import Fraction
import vlib, tables

# ----------------------------------------------------------------------------------------------- small helpers
def dbits(x):
    return struct.pack(">d", float(x)).hex()


def fbits(x):
    return struct.pack(">f", float(x)).hex()


def d_of_bits(h):
    return struct.unpack(">d", bytes.fromhex(h))[0]


def f_of_bits(h):
    return struct.unpack(">f", bytes.fromhex(h))[0]


def qstr(fr):
    """exact rational -> the model driver's [-]hexnum/hexden"""
    return "%s%x/%x" % ("-" if fr < 0 else "", abs(fr.numerator), fr.denominator)


MISSING = "M"       # a missing numeric value


class Elem:
    __slots__ = ("desc", "typ", "scale", "cls", "val", "tok")

    def __init__(self, tok):
        d, t, sc, cls, v = tok.split(":")
        self.tok = tok
        self.desc, self.typ, self.scale, self.cls = int(d), t, int(sc), cls == "1"
        if t in ("i", "l"):
            self.val = MISSING if int(v) == -1 else Fraction(int(v))
        elif t == "d":
            self.val = MISSING if v == "M" else Fraction(d_of_bits(v))
        elif t == "f":
            self.val = MISSING if v == "M" else Fraction(f_of_bits(v))
        elif t == "s":
            self.val = b"" if v == "-" else bytes.fromhex(v)
        else:
            self.val = None          # no value / unknown type

    def is_missing(self):
        if self.typ == "s":
            s = self.val
            n = len(s)
            while n > 1 and s[n - 1] == 32:
                n -= 1
            return all(c == 255 for c in s[:n])
        return self.val == MISSING or self.val is None

    def model_tok(self):
        if self.typ in ("d", "f"):
            v = "M" if self.val == MISSING else qstr(self.val)
            return "%d:%s:%d:%d:%s" % (self.desc, self.typ, self.scale, 1 if self.cls else 0, v)
        return self.tok


class Key:
    """one token of the key list (see harness/c17.c)"""
    __slots__ = ("kind", "desc", "vals", "tok")

    def __init__(self, tok):
        self.tok = tok
        k = tok[:2] if tok[0] in "QC" else tok[:1]
        rest = tok[len(k):]
        if "=" in rest:
            d, vs = rest.split("=", 1)
            raw = vs.split(",")
        else:
            d, raw = rest, []
        self.kind, self.desc = k, int(d)
        vals = []
        for r in raw:
            if k in ("I", "QI", "CQ"):
                vals.append(("int", int(r)))
            elif k in ("F", "QF"):
                vals.append(("f32", MISSING if r == "M" else Fraction(f_of_bits(r))))
            elif k in ("W", "QW"):
                vals.append(("f64", MISSING if r == "M" else Fraction(d_of_bits(r))))
            elif k in ("S", "QS"):
                vals.append(("str", b"" if r == "-" else bytes.fromhex(r)))
        self.vals = vals

    def is_qual(self):
        return self.kind[0] == "Q" or self.kind == "CQ"

    def model_tok(self):
        if self.kind in ("F", "QF", "W", "QW"):
            return "%s%d=%s" % (self.kind, self.desc, ",".join("M" if v == MISSING else qstr(v) for _, v in self.vals))
        return self.tok


# ----------------------------------------------------------------------------------------------- the oracle
# Written from the property statement.  All arithmetic is exact (Fraction): an element's value is the rational its
# double holds, a key's value the rational of the float/double/int handed to the API.
ABSTAIN = "abstain"
DEVS = ("between", "misskey", "qualeps", "qualany")


class Crash(Exception):
    pass


def key_number(kv, dev, etyp="d"):
    """numeric value of a key value: Fraction or MISSING"""
    t, v = kv
    if t == "int":
        if v == -1:
            # known defect: (float)-1 is stored for the missing int; an integer-typed element still reads it back as -1 = missing
            return Fraction(-1) if ("misskey" in dev and not is_int_typed(etyp)) else MISSING
        return Fraction(v)
    return v


def is_int_typed(typ):
    return typ in ("i", "l")


def values_equal(ev, etyp, escale, kv, dev):
    """element/qualifier value ev of type etyp, precision 10^-escale, against one key value -> True/False/ABSTAIN"""
    t, _ = kv
    if etyp == "s":
        if t != "str":
            return ABSTAIN                     # type-mismatched key: outside the property's domain
        e = ev.rstrip(b" ")
        k = kv[1].rstrip(b" ")
        if len(kv[1]) > len(ev):
            return ABSTAIN                     # key longer than the field
        if k != e and e.startswith(k):
            return ABSTAIN                     # proper prefix: the library compares strncmp over the shorter length (documented @bug)
        return k == e
    if t == "str" or ev is None:
        return ABSTAIN if t == "str" else False
    k = key_number(kv, dev, etyp)
    if k == MISSING or ev == MISSING:
        if is_int_typed(etyp) and k != MISSING and k == -1:
            return ABSTAIN                     # -1 IS the missing integer in this library: a non-missing key -1 has no meaning for integer elements
        return k == MISSING and ev == MISSING
    if is_int_typed(etyp):
        if k.denominator != 1:
            return ABSTAIN                     # fractional key on an integer-typed element (the library truncates it): outside the domain
        if k == -1:
            return ABSTAIN
    eps = Fraction(1, 2) / (Fraction(10) ** escale)
    diff = abs(ev - k)
    if diff != eps and abs(diff - eps) < eps * Fraction(1, 10 ** 6):
        return ABSTAIN                         # a near tie is decided by floating-point rounding
    return diff <= eps


def f32_round(fr):
    return Fraction(struct.unpack(">f", struct.pack(">f", float(fr)))[0])


def in_range(e, lo, hi, dev):
    if e.typ == "s" or lo[0] == "str" or hi[0] == "str":
        return ABSTAIN
    if e.val is None:
        return False
    a, b = key_number(lo, dev, e.typ), key_number(hi, dev, e.typ)
    if is_int_typed(e.typ) and e.val == MISSING and a != MISSING and b != MISSING and a <= -1 <= b:
        return ABSTAIN                         # -1 IS the missing integer: a range containing -1 has no meaning for integer elements
    if "between" in dev:
        # known defect: bounds must have exactly the element's value type, and FLT64 elements are rounded to single first
        kt = {"int": "i", "f32": "f", "f64": "d"}
        ta = "f" if (lo[0] == "int" and lo[1] == -1) else kt[lo[0]]
        tb = "f" if (hi[0] == "int" and hi[1] == -1) else kt[hi[0]]
        et = "i" if e.typ == "i" else e.typ
        if ta != et or tb != et:
            return False
        big = Fraction(10) ** 400                # the missing float is the largest float; the missing integer is -1
        miss = Fraction(-1) if et == "i" or et == "l" else big
        a = miss if a == MISSING else a
        b = miss if b == MISSING else b
        v = miss if e.val == MISSING else (f32_round(e.val) if et == "d" else e.val)
        return a <= v <= b
    if a == MISSING or b == MISSING:
        return ABSTAIN
    if e.val == MISSING:
        return False
    return a <= e.val <= b


def qualifier_in_effect(elems, p, qd):
    """most recent occurrence (position < p, not class 31/33, with a value) of the class 01-09 descriptor qd; missing cancels"""
    x = (qd // 1000) % 100
    if qd // 100000 != 0 or not (1 <= x <= 9):
        return None
    for i in range(p - 1, -1, -1):
        e = elems[i]
        if e.cls or e.desc != qd or e.val is None:
            continue
        return None if e.is_missing() else e
    return None


def qual_holds(elems, p, k, dev):
    e = elems[p]
    if e.cls:
        return False                      # class 31 / quality elements carry no qualifiers
    q = qualifier_in_effect(elems, p, k.desc)
    if k.kind == "CQ":
        if q is None:
            return False
        if not is_int_typed(q.typ):
            return ABSTAIN
        return q.val != MISSING and q.val == k.vals[0][1]
    if q is None:
        return False
    if k.kind == "QN":
        if "qualany" in dev:
            raise Crash()
        return True
    scale = e.scale if "qualeps" in dev else q.scale
    return values_equal(q.val, q.typ, scale, k.vals[0], dev)


def value_holds(e, k, dev):
    if k.kind == "E":
        return True
    if k.kind == "CM":
        return e.val is not None and e.is_missing()
    if k.kind == "CN":
        return e.val is not None and not e.is_missing()
    if e.val is None:
        return False
    if len(k.vals) == 2:
        return in_range(e, k.vals[0], k.vals[1], dev)
    res = False
    for kv in k.vals:
        r = values_equal(e.val, e.typ, e.scale, kv, dev)
        if r is True:
            return True
        if r == ABSTAIN:
            res = ABSTAIN
    return res


def in_domain(elems, query):
    """static check: every key is typed for the elements (qualifiers) of its descriptor and no comparison is a near tie"""
    if query[0] != "K":
        return True
    for k in query[1]:
        if k.kind in ("E", "CM", "CN", "QN"):
            continue
        for e in elems:
            if e.desc != k.desc or e.val is None:
                continue
            if k.kind == "CQ":
                if not is_int_typed(e.typ):
                    return False
                continue
            if len(k.vals) == 2 and not k.is_qual():
                if in_range(e, k.vals[0], k.vals[1], frozenset()) == ABSTAIN:
                    return False
                continue
            for kv in k.vals:
                if values_equal(e.val, e.typ, e.scale, kv, frozenset()) == ABSTAIN:
                    return False
    return True


def oracle(elems, query, dev=frozenset()):
    """expected results for start = -2 .. count+2; ABSTAIN when the case leaves the property's domain; 'CRASH' under qualany"""
    count = len(elems)
    if not in_domain(elems, query):
        return ABSTAIN
    starts = range(-2, count + 3)
    if query[0] == "D":
        d = query[1]
        out = []
        for s in starts:
            s0 = max(s, 0)
            r = -1
            for p in range(s0, count):
                if elems[p].desc == d:
                    r = p
                    break
            out.append(r)
        return out
    keys = query[1]
    ekeys = [k for k in keys if not k.is_qual()]
    qkeys = [k for k in keys if k.is_qual()]
    n = len(ekeys)
    memo = {}

    def match(p, j):
        if (p, j) in memo:
            return memo[(p, j)]
        e, k = elems[p], ekeys[j]
        if e.desc != k.desc:
            r = False
        else:
            r = True
            for qk in qkeys:
                h = qual_holds(elems, p, qk, dev)
                if h is not True:
                    r = h
                    break
            if r is True:
                r = value_holds(e, k, dev)
        memo[(p, j)] = r
        return r

    def matches_at(p):
        for j in range(n):               # evaluated in key order, as a sequential comparison does
            if p + j >= count:
                return False
            r = match(p + j, j)
            if r is not True:
                return r
        return True

    out = []
    try:
        for s in starts:
            if count == 0 or s >= count:
                out.append(-1)
                continue
            s0 = max(s, 0)
            if len(keys) == 0:
                out.append(s0)
                continue
            r = -1
            for p in range(s0, count):
                m = matches_at(p)
                if m == ABSTAIN:
                    return ABSTAIN
                if m:
                    r = p
                    break
            out.append(r)
    except Crash:
        return "CRASH"
    return out


def partial_matches(elems, query):
    """number of positions where the first key matches but the sequence does not (the backtracking paths)"""
    if query[0] != "K":
        return 0
    ekeys = [k for k in query[1] if not k.is_qual()]
    if len(ekeys) < 2:
        return 0
    n = 0
    for p in range(len(elems)):
        if elems[p].desc == ekeys[0].desc and not all(p + j < len(elems) and elems[p + j].desc == ekeys[j].desc for j in range(len(ekeys))):
            n += 1
    return n


# ----------------------------------------------------------------------------------------------- parsing C lines
def parse_query(toks):
    if toks[0] == "D":
        return ("D", int(toks[1]))
    nk = int(toks[1])
    return ("K", [Key(t) for t in toks[2:2 + nk]])


def case_query(line):
    t = line.split()
    if t[0] == "G":
        n = int(t[1])
        return parse_query(t[2 + n:])
    if t[0] == "M":
        return parse_query(t[4:])
    raise ValueError(line)


def parse_c_output(out):
    """'<count> | elems | quals | R results' -> (elems, quals string, results list) or None"""
    crashed = out.startswith("<crash> ")
    if crashed:
        out = out[8:].split(" ## ")[0]
    parts = out.split("|")
    if len(parts) != 4 or not parts[3].strip().startswith("R"):
        return None
    elems = [Elem(t) for t in parts[1].split()]
    quals = " ".join(parts[2].split())
    res = ["CRASH"] if crashed else parts[3].split()[1:]
    return elems, quals, res


def model_line(vbits, elems, query):
    if query[0] == "D":
        q = "D %d" % query[1]
    else:
        q = "K %d %s" % (len(query[1]), " ".join(k.model_tok() for k in query[1]))
    return "%s S %d %s %s" % (vbits, len(elems), " ".join(e.model_tok() for e in elems), q)


# ----------------------------------------------------------------------------------------------- generation
QUAL_POOL = [4004, 4005, 4024, 8021, 1001, 2001, 7004, 5002, 6002, 7001, 8002, 1063]
DATA_POOL = [12101, 12001, 11001, 11002, 10004, 20003, 13003, 20011, 10051, 33007, 1015]
CLS_POOL = [31021, 31031]


class Gen:
    def __init__(self, rng, tb):
        self.rng = rng
        self.tb = tb          # desc -> table B entry
        self.pool = {}        # desc -> list of value tokens usable in a G line (without the missing one)
        for d in QUAL_POOL + DATA_POOL + CLS_POOL:
            if d in tb:
                self.pool[d] = self.value_pool(d)

    def expected_type(self, d):
        e = self.tb[d]
        if e["kind"] == "str":
            return "s"
        if e["kind"] in ("code", "flag"):
            return "i" if e["width"] <= 32 else "l"
        if e["scale"] == 0 and e["ref"] >= 0:
            rb = e["ref"].bit_length() if e["ref"] else 0
            if e["width"] + rb <= 32:
                return "i"
            if e["width"] + rb <= 64:
                return "l"
        return "d"

    def value_pool(self, d):
        """a few on-grid values: scaled integers n (value n/10^scale) inside the representable range, |n| <= 10^5"""
        e = self.tb[d]
        t = self.expected_type(d)
        if t == "s":
            w = e["width"] // 8
            names = [b"CYUL", b"CYUT", b"CY", b"KJFK", b"A"]
            return [("s", nm[:w]) for nm in names]
        top = (1 << e["width"]) - 2
        raws = sorted({min(top, max(0, r)) for r in (0, 1, top // 3, top // 3 + 1, top // 2, (top // 2) // 25 * 25, top)})
        ns = [r + e["ref"] for r in raws]
        ns = [n for n in ns if abs(n) <= 100000 and not (t in ("i", "l") and n == -1)]
        if d == 31031:
            ns = [0, 0]
        return [(t, n) for n in ns[:6]]

    def gtok(self, d, v):
        """G-line token for descriptor d with pool value v (or None = missing)"""
        if v is None:
            return "%d=m" % d
        t, x = v
        if t == "s":
            return "%d=s%s" % (d, x.hex())
        if t == "i":
            return "%d=i%d" % (d, x)
        if t == "l":
            return "%d=l%d" % (d, x)
        sc = self.tb[d]["scale"]
        val = x / (10 ** sc) if sc >= 0 else float(x * 10 ** (-sc))
        return "%d=d%s" % (d, dbits(val))

    def subset(self, kind):
        rng = self.rng
        items = []
        if kind == "pattern":       # few descriptors, few values: many partial matches
            ds = rng.sample([d for d in DATA_POOL if d in self.pool and d != 1015], rng.choice([1, 2, 2, 3]))
            n = rng.randint(3, 12)
            for _ in range(n):
                d = rng.choice(ds)
                items.append((d, rng.choice(self.pool[d][:2] + [None] * (rng.random() < 0.2))))
        else:                       # qualifiers (set, replaced, cancelled) interleaved with data
            qs = rng.sample([d for d in QUAL_POOL if d in self.pool], rng.randint(1, 4))
            ds = rng.sample([d for d in DATA_POOL if d in self.pool], rng.randint(1, 3))
            n = rng.randint(2, 14)
            for _ in range(n):
                r = rng.random()
                if r < 0.4:
                    d = rng.choice(qs)
                    v = None if rng.random() < 0.3 else rng.choice(self.pool[d][:3])
                elif r < 0.93:
                    d = rng.choice(ds)
                    v = None if rng.random() < 0.15 else rng.choice(self.pool[d][:3])
                else:
                    d = rng.choice([c for c in CLS_POOL if c in self.pool])
                    v = rng.choice(self.pool[d])
                items.append((d, v))
        return items

    # ---- keys ----
    def num_of(self, d, v):
        """Fraction value of a pool value"""
        return Fraction(v[1]) / (Fraction(10) ** self.tb[d]["scale"])

    def value_key(self, d, v, others):
        """an element key on descriptor d aimed at pool value v (None = missing)"""
        rng = self.rng
        t = self.expected_type(d)
        r = rng.random()
        if r < 0.12:
            return "E%d" % d
        if r < 0.17:
            return "%s%d" % (rng.choice(["CM", "CN"]), d)
        if t == "s":
            cands = [x[1] for x in self.pool[d]]
            if v is None:
                return "S%d=%s" % (d, rng.choice(cands).hex())
            c = rng.random()
            if c < 0.5:
                s = v[1]
            elif c < 0.7:
                s = v[1] + b" " * rng.randint(1, 2)
            elif c < 0.8:
                s = v[1][:-1] + b"Z"
            else:
                s = rng.choice(cands)
            w = self.tb[d]["width"] // 8
            vals = [s[:w]]
            if rng.random() < 0.2:
                vals += [rng.choice(cands), b"QQ"]
            return "S%d=%s" % (d, ",".join(x.hex() if x else "-" for x in vals))
        if v is None:      # missing element: missing keys of every flavour, or some value
            c = rng.random()
            if c < 0.35:
                return "I%d=-1" % d
            if c < 0.6:
                return "F%d=M" % d
            if c < 0.7:
                return "W%d=M" % d
            v = rng.choice(self.pool[d])
        x = self.num_of(d, v)
        sc = self.tb[d]["scale"]
        step = Fraction(1) / (Fraction(10) ** sc)
        oth = [self.num_of(d, o) for o in others] or [x + step]
        c = rng.random()
        if c < 0.3:                                        # exact, in every key type that can express it
            return self.fmt_num_key(d, [x], t)
        if c < 0.45:                                       # within / just outside half the precision
            k = rng.choice([-4, -3, -1, 1, 2, 4, 6, 7, 9, -6, -8])
            kind = rng.choice(["F", "W"])
            return self.fmt_key(kind, d, [x + step * Fraction(k, 10)])
        if c < 0.55:                                       # another value
            return self.fmt_num_key(d, [rng.choice(oth)], t)
        if c < 0.68:                                       # list of >= 3 values (any of)
            vals = [rng.choice(oth + [x + 3 * step, x - 2 * step]) for _ in range(rng.randint(3, 4))]
            if rng.random() < 0.6:
                vals[rng.randrange(len(vals))] = x
            if rng.random() < 0.35 and all(Fraction(v_).denominator == 1 and v_ != -1 for v_ in vals):
                # "missing" listed among the values (first, in the middle or last): the key matches a missing element or any listed value
                vals = [int(v_) for v_ in vals]
                vals.insert(rng.choice([0, 0, 1, len(vals)]), -1)
                return self.fmt_key("I", d, vals)
            return self.fmt_num_key(d, vals, t)
        if c < 0.95:                                       # inclusive range, bounds on and off the value
            lo = x + step * rng.choice([0, 0, -1, -2, 1, -10])
            hi = x + step * rng.choice([0, 0, 1, 2, -1, 10])
            if rng.random() < 0.1:
                lo, hi = hi, lo
            return self.fmt_num_key(d, [lo, hi], t, rangekey=True)
        return self.fmt_key("I", d, [-1]) if rng.random() < 0.5 else "F%d=M" % d

    def fmt_key(self, kind, d, vals, prefix=""):
        out = []
        for v in vals:
            if kind == "I":
                out.append("%d" % int(v))
            elif kind == "F":
                out.append(fbits(v))
            else:
                out.append(dbits(v))
        return "%s%s%d=%s" % (prefix, kind, d, ",".join(out))

    def fmt_num_key(self, d, vals, t, rangekey=False):
        kinds = ["F", "W"]
        if all(Fraction(v).denominator == 1 and v != -1 for v in vals):
            kinds += ["I", "I"]
        return self.fmt_key(self.rng.choice(kinds), d, vals)

    def qual_key(self, items, pos):
        """a qualifier condition, usually about a qualifier present before position pos"""
        rng = self.rng
        before = [(d, v) for d, v in items[:pos] if d in QUAL_POOL]
        if before and rng.random() < 0.85:
            d, v = rng.choice(before)
        else:
            d = rng.choice([q for q in QUAL_POOL if q in self.pool])
            v = rng.choice(self.pool[d])
        if v is None or rng.random() < 0.25:
            v = rng.choice(self.pool[d])
        t = self.expected_type(d)
        c = rng.random()
        if c < 0.08:
            return "QN%d" % d
        if t == "s":
            return "QS%d=%s" % (d, v[1].hex())
        x = self.num_of(d, v)
        sc = self.tb[d]["scale"]
        step = Fraction(1) / (Fraction(10) ** sc)
        if t == "i" and c < 0.2:
            return "CQ%d=%d" % (d, int(x))
        if c < 0.45 and t != "i":                          # off the qualifier's grid: inside / outside half ITS precision
            k = rng.choice([-4, -2, 3, 4, 6, 8, 20, 45, -30])
            return self.fmt_key(rng.choice(["F", "W"]), d, [x + step * Fraction(k, 10)], prefix="Q")
        kinds = ["F", "W"] + (["I", "I"] if x.denominator == 1 and x != -1 else [])
        return self.fmt_key(rng.choice(kinds), d, [x], prefix="Q")

    def keys_for(self, items):
        """key sequence of 1..4 element keys (+ 0..2 qualifier keys), mostly taken from a window of the subset"""
        rng = self.rng
        n = len(items)
        L = rng.choice([1, 1, 2, 2, 3, 4])
        p = rng.randrange(n)
        keys = []
        for j in range(L):
            if p + j < n and rng.random() < 0.9:
                d, v = items[p + j]
            else:
                d = rng.choice(list(self.pool))
                v = rng.choice(self.pool[d])
            if d in CLS_POOL:
                keys.append(rng.choice(["E%d" % d, "I%d=%d" % (d, (v or ("i", 0))[1])]))
                continue
            if rng.random() < 0.08:                       # an absent / other descriptor
                d = rng.choice([x for x in self.pool if x not in CLS_POOL] + [2002, 12345])
                if d not in self.pool:
                    keys.append("E%d" % d)
                    continue
                v = rng.choice(self.pool[d])
            others = [o for o in self.pool[d] if o != v]
            keys.append(self.value_key(d, v, others))
        nq = rng.choice([0, 0, 0, 1, 1, 2])
        for _ in range(nq):
            keys.insert(rng.randint(0, len(keys)), self.qual_key(items, p))
        return keys


def gen_generated(rng, tb, tier):
    g = Gen(rng, tb)
    lines = []
    # (a) exhaustive: every subset of length 1..N over two descriptors x every descriptor key sequence of length 1..3 (+ absent)
    a, b, c = 11001, 11002, 13003
    N = 5 if tier == "quick" else 7
    for n in range(1, N + 1):
        for ds in itertools.product((a, b), repeat=n):
            sub = " ".join("%d=m" % d for d in ds)
            for L in (1, 2, 3):
                for ks in itertools.product((a, b), repeat=L):
                    lines.append("G %d %s K %d %s" % (n, sub, L, " ".join("E%d" % k for k in ks)))
            lines.append("G %d %s K 2 E%d E%d" % (n, sub, a, c))
            lines.append("G %d %s D %d" % (n, sub, a))
            lines.append("G %d %s D %d" % (n, sub, c))
    # (b) random subsets x key sequences
    nsub = 260 if tier == "quick" else 3000
    for i in range(nsub):
        items = g.subset("pattern" if i % 3 == 0 else "quals")
        sub = " ".join(g.gtok(d, v) for d, v in items)
        nq = 7 if tier == "quick" else 12
        for _ in range(nq):
            ks = g.keys_for(items)
            lines.append("G %d %s K %d %s" % (len(items), sub, len(ks), " ".join(ks)))
        d = rng.choice([x for x, _ in items] + [2002])
        lines.append("G %d %s D %d" % (len(items), sub, d))
        if i % 10 == 0:
            lines.append("G %d %s K 0" % (len(items), sub))
    return lines, g


def sample_key(rng, elems, p, j):
    """a key aimed at the decoded element elems[p+j]"""
    e = elems[min(p + j, len(elems) - 1)]
    if e.desc >= 100000 or e.val is None:
        return None
    c = rng.random()
    if c < 0.2:
        return "E%d" % e.desc
    if e.typ == "s":
        s = e.val.rstrip(b" ")
        if not s or any(ch in s for ch in b", ") or e.is_missing():
            return "E%d" % e.desc
        return "S%d=%s" % (e.desc, s.hex())
    if e.typ not in ("i", "l", "d"):
        return "E%d" % e.desc
    if e.val == MISSING:
        return rng.choice(["I%d=-1", "F%d=M", "CM%d", "E%d"]) % e.desc
    x = e.val
    if abs(x) > 10 ** 5 * (Fraction(10) ** -min(e.scale, 0)) or (e.typ == "d" and abs(x * Fraction(10) ** e.scale) > 10 ** 5):
        return "E%d" % e.desc if c < 0.6 else "W%d=%s" % (e.desc, dbits(float(x)))
    step = Fraction(1) / (Fraction(10) ** e.scale)
    if e.typ in ("i", "l"):
        if c < 0.55:
            return "I%d=%d" % (e.desc, int(x))
        if c < 0.7:
            return "I%d=%d" % (e.desc, int(x) + 1)
        if c < 0.85:
            return "I%d=%d,%d" % (e.desc, int(x) - rng.randint(0, 2), int(x) + rng.randint(0, 2))
        return "F%d=%s" % (e.desc, fbits(float(x)))
    if c < 0.45:
        return ("F%d=%s" % (e.desc, fbits(float(x)))) if rng.random() < 0.5 else ("W%d=%s" % (e.desc, dbits(float(x))))
    if c < 0.6:
        return "W%d=%s" % (e.desc, dbits(float(x + step * Fraction(rng.choice([-4, 3, 7, -8]), 10))))
    if c < 0.85:
        lo, hi = x - step * rng.randint(0, 3), x + step * rng.randint(0, 3)
        k = rng.choice(["F", "W"])
        return "%s%d=%s,%s" % (k, e.desc, (fbits if k == "F" else dbits)(float(lo)), (fbits if k == "F" else dbits)(float(hi)))
    return "W%d=%s" % (e.desc, dbits(float(x + step)))


def sample_qual_key(rng, elems, p):
    cands = [e for e in elems[:p] if not e.cls and e.val is not None and e.desc < 100000 and 1 <= (e.desc // 1000) % 100 <= 9 and e.typ in ("i", "d")]
    if not cands:
        return None
    q = rng.choice(cands[-6:])
    if q.val == MISSING:
        return "QI%d=%d" % (q.desc, rng.randint(0, 5))
    if q.typ == "i":
        v = int(q.val) + (1 if rng.random() < 0.25 else 0)
        return rng.choice(["QI%d=%d", "CQ%d=%d"]) % (q.desc, v)
    if abs(q.val * Fraction(10) ** q.scale) > 10 ** 5:
        return "QW%d=%s" % (q.desc, dbits(float(q.val)))
    step = Fraction(1) / (Fraction(10) ** q.scale)
    x = q.val + step * Fraction(rng.choice([0, 0, 0, 3, -4, 7, 25]), 10)
    return rng.choice(["QF%d=%s" % (q.desc, fbits(float(x))), "QW%d=%s" % (q.desc, dbits(float(x)))])


def gen_samples(rng, listing, tier):
    """listing: [(path, msg, subset, elems)] -> M lines"""
    lines = []
    per = 6 if tier == "quick" else 14
    for path, k, s, elems in listing:
        n = len(elems)
        if n == 0:
            continue
        for _ in range(per):
            L = rng.choice([1, 2, 2, 3, 4])
            p = rng.randrange(n)
            ks = []
            for j in range(L):
                kk = sample_key(rng, elems, p, j)
                if kk:
                    ks.append(kk)
            if not ks:
                continue
            if rng.random() < 0.2:          # break the tail of the sequence: forces a restart after a partial match
                d = Key(ks[-1]).desc
                numeric = all(e.typ in ("i", "l", "d") for e in elems if e.desc == d)     # never a numeric key on a character element
                ks[-1] = "I%d=%d" % (d, 12345) if (numeric and rng.random() < 0.5) else "E%d" % rng.choice([e.desc for e in elems if e.desc < 100000] or [1001])
            if rng.random() < 0.4:
                qk = sample_qual_key(rng, elems, p)
                if qk:
                    ks.insert(rng.randint(0, len(ks)), qk)
            lines.append("M %s %d %d K %d %s" % (path, k, s, len(ks), " ".join(ks)))
        d = rng.choice(elems).desc
        lines.append("M %s %d %d D %d" % (path, k, s, d))
    return lines


WITNESS = {   # canonical witnesses of the four defects found in the current code (also the Coq *_refuted witnesses)
    "between": "G 1 12101=d%s K 1 F12101=%s,%s" % (dbits(273.15), fbits(270.0), fbits(280.0)),
    "misskey": "G 1 12101=m K 1 I12101=-1",
    "qualeps": "G 2 5002=d%s 11001=i225 K 2 QF5002=%s E11001" % (dbits(45.12), fbits(45.30)),
    "qualany": "G 2 4005=i11 12101=d%s K 2 QN4005 E12101" % dbits(280.5),
}
WITNESS_FIXED = {"between": "0", "misskey": "0", "qualeps": "-1", "qualany": "1"}     # result at start 0 required by the property
FINDING_MATCH = {"between": "range_key_types", "misskey": "missing_int_key", "qualeps": "qualifier_epsilon", "qualany": "qualifier_any_null"}
DEV_TEXT = {
    "between": "two-value (range) key never matches: bufr_between_values requires the bounds to have exactly the element's value type (FLT32/INT32 keys against a FLT64 element) and rounds a FLT64 element to single precision",
    "misskey": "a missing integer key (-1) does not match a missing FLT64 element: bufr_set_key_int32 stores (float)-1 instead of the missing float",
    "qualeps": "a qualifier key is compared with half the precision of the ELEMENT instead of the qualifier",
    "qualany": "bufr_set_key_qualifier(cv,desc,NULL) (qualifier present, any value) dereferences a NULL pointer in bufr_subset_find_values",
}


# ----------------------------------------------------------------------------------------------- running
def run_c_all(exe, lines, chunk=400):
    """run the harness chunk by chunk; when it dies on a case, record '<crash> partial-line ## sanitizer summary' and
    continue with the next case"""
    outs, errs = [], []
    restarts = 0
    for c0 in range(0, len(lines), chunk):
        part = lines[c0:c0 + chunk]
        i = 0
        while i < len(part):
            text = "\n".join(part[i:]) + "\n"
            rc, out, err = vlib.run_cases(exe, text, timeout=3000)
            # UBSan reports (non fatal) are collected; a fatal ASan report shows up as a dead harness and is judged per case below
            marker = err.find("AddressSanitizer")
            head = err if marker < 0 else err[:marker]
            hl = [l for l in head.split("\n") if l.strip()]
            rl = [l for l in hl if "runtime error" in l]
            if marker >= 0 and hl and rl and hl[-1] is rl[-1]:
                rl = rl[:-1]                      # the UBSan line announcing the fatal access itself
            errs += rl
            partial = out[-1] if out and out[-1] != "" else ""     # the harness died in the middle of a line
            complete = out[:-1]
            if len(complete) >= len(part) - i:
                outs += complete[:len(part) - i]
                break
            outs += complete
            i += len(complete)
            if restarts > 3000:
                outs += ["<no output: too many crashes>"] * (len(part) - i)
                break
            summ = " ; ".join(l.strip() for l in err.split("\n") if "ERROR" in l or "SUMMARY" in l or "runtime error" in l)[:300]
            outs.append("<crash> " + partial + " ## " + summ)
            i += 1
            restarts += 1
    return outs, "\n".join(errs)


def run(rep, tier, seed, replay=None):
    rep.level = "proof"
    proved = vlib.proof_step(rep, "Properties_C17")
    exe = vlib.build_harness("c17")
    drv = vlib.extract_and_build_driver("c17")
    rng = random.Random(seed)
    b, _ = tables.master_tables(vlib.REPO)
    tb = {}
    for e in b:
        tb.setdefault(e["desc"], e)
    kf = {f.get("match"): f for f in vlib.known_findings("C17")}

    g = Gen(random.Random(0), tb)
    if replay:
        lines = list(replay.get("cases", []))
    else:
        lines = [WITNESS[k] for k in DEVS]
        # inclusive bounds exactly on the value, in every key type (the FLT64 bounds are the element's own double)
        lines.append("G 1 12101=d%s K 1 W12101=%s,%s" % (dbits(273.15), dbits(273.15), dbits(280.0)))
        lines.append("G 1 12101=d%s K 1 W12101=%s,%s" % (dbits(273.15), dbits(270.0), dbits(273.15)))
        lines.append("G 1 12101=d%s K 1 F12101=%s,%s" % (dbits(273.25), fbits(273.25), fbits(273.25)))
        lines.append("G 1 11001=i225 K 1 I11001=225,225")
        gl, g = gen_generated(rng, tb, tier)
        lines += gl
        # sample messages
        files = sorted(glob.glob(os.path.join(vlib.REPO, "Test", "BUFR", "*.bufr")))
        maxsize = 20000 if tier == "quick" else 400000
        files = [f for f in files if os.path.getsize(f) <= maxsize]
        louts, lerr = run_c_all(exe, ["L " + f for f in files])
        listing = []
        maxcount = 130 if tier == "quick" else 500
        for f, lo in zip(files, louts):
            if not lo.startswith("L"):
                continue
            subs = lo.split(" ; ")[1:]
            picked = 0
            for sb in subs:
                head, el, ql = sb.split("|")
                k, s, cnt = [int(x) for x in head.split()]
                if cnt == 0 or cnt > maxcount:
                    continue
                if picked >= (2 if tier == "quick" else 6):
                    break
                listing.append((f, k, s, [Elem(t) for t in el.split()]))
                picked += 1
        lines += gen_samples(rng, listing, tier)

    # ---------------- the library
    couts, cerr = run_c_all(exe, lines)
    parsed = [None if o.startswith("<no") else parse_c_output(o) for o in couts]

    # which variant of the four known defects does this library show?  (the model mirrors the code that exists)
    vbits = {}
    if replay:
        wl = [WITNESS[k] for k in DEVS]
        wouts, _ = run_c_all(exe, wl)
        wparsed = [None if o.startswith("<no") else parse_c_output(o) for o in wouts]
    else:
        wparsed = parsed[:4]
    for k, pr in zip(DEVS, wparsed):
        vbits[k] = bool(pr) and len(pr[2]) > 2 and pr[2][2] == WITNESS_FIXED[k]
    vstr = "".join("1" if vbits[k] else "0" for k in DEVS)

    # ---------------- the model, on the subsets as the library presents them
    mlines, midx = [], []
    for i, (ln, pr) in enumerate(zip(lines, parsed)):
        if pr is not None:
            mlines.append(model_line(vstr, pr[0], case_query(ln)))
            midx.append(i)
    rc2, mout, merr = vlib.sh([drv], input=("\n".join(mlines) + "\n").encode(), timeout=3000)
    mres = {}
    for i, l in zip(midx, mout.split("\n")):
        mres[i] = l

    # ---------------- compare
    dist = {"find_descriptor": 0, "find_values": 0, "generated": 0, "sample": 0, "found_some": 0, "none_found": 0, "oracle_abstains": 0,
            "with_partial_matches": 0, "qualifier_keys": 0, "range_keys": 0, "missing_keys": 0, "multi_value_keys": 0, "callback_keys": 0,
            "string_keys": 0, "keylen_1": 0, "keylen_2": 0, "keylen_3": 0, "keylen_4": 0, "start_positions": 0,
            "known_defect_cases": 0}
    nbad = 0
    ncorr = 0
    sanity_reported = False
    for i, ln in enumerate(lines):
        rep.count(ln)
        co = couts[i] if i < len(couts) else "<no output>"
        pr = parsed[i]
        q = case_query(ln)
        dist["generated" if ln[0] == "G" else "sample"] += 1
        if q[0] == "D":
            dist["find_descriptor"] += 1
        else:
            dist["find_values"] += 1
            ek = [k for k in q[1] if not k.is_qual()]
            if 1 <= len(ek) <= 4:
                dist["keylen_%d" % len(ek)] += 1
            for k in q[1]:
                if k.is_qual():
                    dist["qualifier_keys"] += 1
                elif len(k.vals) == 2:
                    dist["range_keys"] += 1
                elif len(k.vals) > 2:
                    dist["multi_value_keys"] += 1
                if k.kind in ("CM", "CN", "CQ"):
                    dist["callback_keys"] += 1
                if k.kind in ("S", "QS"):
                    dist["string_keys"] += 1
                if any(v == ("int", -1) or v[1] == MISSING for v in k.vals):
                    dist["missing_keys"] += 1
        if pr is None:
            rep.violation("C17: the harness gave no usable answer (%s)  [case: %s]" % (co[:200], ln[:300]),
                          {"kind": "search", "cases": [ln], "impl": co[:500]})
            nbad += 1
            if nbad > 12:
                break
            continue
        elems, cquals, cres = pr
        dist["start_positions"] += len(elems) + 5
        # sanity of generated subsets: the library must have built what was requested
        if ln[0] == "G" and not sanity_reported:
            t = ln.split()
            n = int(t[1])
            for tok, e in zip(t[2:2 + n], elems):
                d, v = tok.split("=")
                ok = int(d) == e.desc and (int(d) not in tb or g.expected_type(int(d)) == e.typ)
                if v[0] == "d":
                    ok = ok and e.tok.endswith(":" + v[1:])
                elif v[0] in "il":
                    ok = ok and e.tok.endswith(":" + v[1:])
                elif v[0] == "m":
                    ok = ok and e.is_missing()
                elif v[0] == "s":
                    ok = ok and e.val.rstrip(b" ") == bytes.fromhex(v[1:]).rstrip(b" ")
                if not ok:
                    rep.violation("C17: the subset built through the API differs from the request (%s became %s)  [case: %s]" % (tok, e.tok, ln[:300]),
                                  {"kind": "search", "cases": [ln], "impl": co[:500]}, no_input=True)
                    sanity_reported = True
                    break
        ml = mres.get(i, "<no model output>")
        mparts = ml.split("|")
        mquals = " ".join(mparts[0].split()[1:]) if len(mparts) == 2 else "?"
        mr = mparts[1].split()[1:] if len(mparts) == 2 else ["?"]
        if cres == ["CRASH"]:
            same = mr[-1:] == ["CRASH"]
        else:
            same = (mr == cres) and (mquals == cquals)
        want = oracle(elems, q)
        if partial_matches(elems, q):
            dist["with_partial_matches"] += 1
        if i % 997 == 0:
            rep.sample({"case": ln[:300], "impl": " ".join(cres)[:120], "model": " ".join(mr)[:120]})
        fail = None
        if want == ABSTAIN:
            dist["oracle_abstains"] += 1
        else:
            wants = [str(x) for x in want]
            if any(x != "-1" for x in wants):
                dist["found_some"] += 1
            else:
                dist["none_found"] += 1
            if wants != cres:
                # is it one of the recorded defects (and nothing else)?
                explained = None
                shown = [d for d in DEVS if not vbits[d]]       # only defects this library actually shows on their witnesses
                for r in range(1, len(shown) + 1):
                    for combo in itertools.combinations(shown, r):
                        w2 = oracle(elems, q, frozenset(combo))
                        if w2 == "CRASH":
                            if cres == ["CRASH"]:
                                explained = combo
                        elif w2 != ABSTAIN and [str(x) for x in w2] == cres:
                            explained = combo
                        if explained:
                            break
                    if explained:
                        break
                if cres == ["CRASH"]:
                    what = "the library crashes (%s)" % co[8:200]
                else:
                    j = next((jj for jj in range(min(len(wants), len(cres))) if wants[jj] != cres[jj]), 0)
                    what = "search from start %d returned %s, the first match is %s" % (j - 2, cres[j] if j < len(cres) else "?", wants[j])
                if explained and all(FINDING_MATCH[d] in kf for d in explained):
                    for d in explained:
                        rep.finding(kf[FINDING_MATCH[d]].get("what", DEV_TEXT[d]))
                    dist["known_defect_cases"] += 1
                else:
                    extra = (" (" + "; ".join(DEV_TEXT[d] for d in explained) + ")") if explained else ""
                    fail = "%s%s" % (what, extra)
        if fail:
            rep.violation("C17: %s  [case: %s]" % (fail, ln[:400]),
                          {"kind": "search", "cases": [ln], "impl": co[:800], "model": ml[:400], "oracle": str(want)[:400]})
            nbad += 1
        elif not same and ncorr > 4:
            ncorr += 1           # keep looking for a failing input; enough correspondence reports are recorded
        elif not same:
            rep.violation("C17: correspondence Search.v (variant %s) <-> bufr_subset_find_values/bufr_expand_qualifiers broken on case %s (impl quals [%s] results [%s]; model quals [%s] results [%s]); the brute-force oracle %s"
                          % (vstr, ln[:200], cquals[:80], " ".join(cres)[:80], mquals[:80], " ".join(mr)[:80],
                             "abstains (input outside the property's domain)" if want == ABSTAIN else "accepts the implementation's behaviour or the difference is a recorded defect"),
                          {"kind": "search", "correspondence": "Search.find_values/expand_qualifiers vs bufr_api.c/bufr_dataset.c", "cases": [ln], "impl": co[:800], "model": ml[:400]},
                          no_input=True)
            ncorr += 1
        if nbad > 12:
            break
    rep.violations.sort(key=lambda v: bool(v[2]))      # failing inputs first, correspondence-only reports after
    if "runtime error" in cerr and not rep.violations:
        rep.violation("C17: UBSan report while running the search cases: " + " | ".join(l for l in cerr.split("\n") if "runtime error" in l)[:600],
                      {"kind": "search", "stderr": cerr[-3000:]}, no_input=True)
    if not proved and not rep.violations:
        rep.violation("C17: proof obligations no longer check (see log) and no failing input was found by the correspondence run",
                      getattr(rep, "proof_broken", {}), no_input=True)
    rep.cov["traces_validated_against_impl"] = len(lines)
    rep.cov["rule"] = ("exhaustive: every subset of length 1..5 (thorough 7) over two descriptors x every descriptor-key sequence of length 1..3 x every start -2..count+2; "
                       "random flat subsets (repeated descriptors, class 01-09 qualifiers set/replaced/cancelled by a missing value, class 31 elements, numeric values on the "
                       "quantisation grid, code values, strings, missing values) x key sequences of 1..4 element keys taken from a window of the subset and mutated (exact in INT32/FLT32/FLT64, "
                       "within and outside half the precision, lists of 3-4 values, inclusive ranges with bounds on/off the value, missing keys, callbacks, absent descriptors) plus 0..2 qualifier "
                       "conditions (value on/off the qualifier's grid, any-value, callback) x EVERY start position; subsets decoded from Test/BUFR/*.bufr with keys drawn from their own elements. "
                       "Each case is compared library vs extracted model (results for every start and the qualifier list of every element) and library vs brute-force oracle. "
                       "distinct = distinct case lines; every case performs count+5 searches")
    dist["library_variant(between,misskey,qualeps,qualany fixed?)"] = vstr
    rep.cov["distribution"] = dist
    rep.cov["exhaustive"] = False
    rep.assumptions = ["a C double/float is identified with the exact rational it holds; the only rounding in the mirrored code (f1-f2, 0.5/pow(10,scale)) matters for near ties only, which are not generated (the oracle abstains within 1e-6 relative of a tie)",
                       "time/location (TLC) keys are outside the model",
                       "keys are typed for the element: integer-typed elements take integral keys, strings take full (not prefix) strings; other inputs are compared model<->library only"]
