# c12.py — property C12: loaded tables are exactly what the files say; local entries override master.
# proof: Properties_C12.v (Tables.v / TablesProof.v: model of the BUFR_Tables state with the tableB_cache / last_searched
#        pointers, merge, loop detector, version selection; finite theorems over the regenerated shipped tables).
# tie:   harness/c12.c (library) and ocaml/c12_driver.ml (extracted model) run the same HISTORIES of
#        load / merge / fetch operations over table files written into the scratch directory.
# oracle (independent, this file + c12tables.py + tables.py): a table set is a pair of finite maps; loading a file puts its
#        entries into the map (later files replace earlier entries of the same descriptor), a lookup consults the local
#        map first.  Within ONE file a descriptor defined twice may resolve to any of that file's definitions.
import collections, os, random, re
import vlib, tables, gentables
import c12tables as ct

VERS = ["", "-13", "-31", "-32", "-35"]
DEFECTS = ("cache", "merge", "own")           # model flags, in the order of the driver's FLAGS line
ALLDEF = DEFECTS + ("overflow", "flagcol")    # these two concern the file readers: predicted on the Python side
MATCH = {"cache": "stale_cache", "merge": "merge_unsorted", "own": "load_after_merge_ownership", "overflow": "tabled_line_overflow",
         "flagcol": "flag_column_stale_read"}
MAXSEQ = 1023                                 # members a Table D reader can hold (int descriptors[1024], the first is the key)
KINDNO = {"num": 0, "code": 1, "flag": 2, "str": 3}
UNITS = ["NUMERIC", "CODE TABLE", "FLAG TABLE", "CCITT IA5", "K", "M/S", "PA", "Code table", "Flag table", "CODETABLE", "TABLE CODE",
         "MARQUEURS", "numeric", "DEGREE TRUE", "%", "CCITTIA5", "TABLEFLAG", "FLAGTABLE", "KG/M**2", "TABLE FLAG", "CCITT IA5X", "M"]


# =============================================================================================== files
class Files:
    """registry of the table files of a run: symbolic name -> path, text, independent reading"""

    def __init__(self, directory):
        self.dir = directory
        self.f = {}

    def add_text(self, name, kind, fmt, text):
        path = os.path.join(self.dir, name)
        with open(path, "wb") as fh:
            fh.write(text.encode("latin-1"))
        return self.add_path(name, kind, fmt, path, text)

    def add_path(self, name, kind, fmt, path, text=None):
        if kind == "B":
            if fmt == "csv":
                p = ct.read_csv_b(path)
            else:
                p = ct.read_cmc_b(path)
            ents = p["entries"]
            ver = p["version"]
            if fmt != "csv" and p["flagcol"] is not None:
                # entries the CURRENT reader drops because it sees a stale '-' in the flag column (recorded defect)
                st = ct.stale_flag_lines(path, p["flagcol"])
                for e in ents:
                    e["stale_skip"] = e["line"] in st
        else:
            ents = ct.read_csv_d(path) if fmt == "csv" else ct.read_cmc_d(path)
            # a sequence the reader cannot hold may be refused (then it is absent) but must not be truncated or crash
            ents = [(k, seq, fz or len(seq) > MAXSEQ) for k, seq, fz in ents]
            ver = None
        self.f[name] = dict(name=name, kind=kind, fmt=fmt, path=path, entries=ents, version=ver, text=text)
        return name

    def path(self, name):
        return self.f[name]["path"]

    def defline(self, name, flagcol_fixed=True):
        f = self.f[name]
        if f["kind"] == "B":
            # the model receives what the independent reader read (fuzzy entries never reach the model: see gen); while the
            # defect flag_column_stale_read is in the tree, minus the entries its reader drops
            return "DEFB %s %d %s" % (name, -1 if f["version"] is None else f["version"],
                                      " ".join("%d,%d,%d,%d,%d" % (e["desc"], KINDNO[e["kind"]], e["scale"], e["ref"], e["width"]) for e in f["entries"]
                                               if flagcol_fixed or not e.get("stale_skip")))
        return "DEFD %s %s" % (name, " ".join("%d:%s" % (k, ",".join(map(str, seq))) for k, seq, fz in f["entries"] if len(seq) <= MAXSEQ))

    def too_long(self, name):
        f = self.f[name]
        return f["kind"] == "D" and any(len(seq) > MAXSEQ for _, seq, _ in f["entries"])

    def has_fuzzy(self, name):
        f = self.f[name]
        if f["kind"] == "B":
            return any(e["fuzzy"] for e in f["entries"])
        return any(fz for _, _, fz in f["entries"])


# =============================================================================================== histories
def op_token(op, files=None):
    """text of one operation; with files: real paths (library side), without: symbolic names (model side)"""
    nm = (lambda n: n) if files is None else (lambda n: files.path(n))
    k = op[0]
    if k in ("LMB", "LMD", "LLB", "LLD", "CSVB", "CSVD"):
        return "%s,%s" % (k, nm(op[1]))
    if k == "MERGE":
        parts = []
        for i, a in enumerate(op[1:5]):
            if a is None:
                parts.append("-")
            elif isinstance(a, tuple):           # ("csv", name)
                parts.append("csv=" + nm(a[1]))
            else:
                parts.append(nm(a))
        return "MERGE," + ",".join(parts)
    if k in ("FB", "FD"):
        return "%s,%d" % (k, op[1])
    if k == "MD":
        return "MD," + ",".join(map(str, op[1]))
    if k == "USELIST":
        return "USELIST," + "".join("%d," % v for v in op[1]) + "=%d" % op[2]
    if k == "LOADLIST":
        return "LOADLIST,%s,%s,=%d" % (op[1], ",".join(map(str, op[2])), op[3])
    return k


def hist_line(ops, files=None):
    return " ".join(op_token(o, files) for o in ops)


def hist_files(ops):
    out = []
    for o in ops:
        if o[0] in ("LMB", "LMD", "LLB", "LLD", "CSVB", "CSVD"):
            out.append(o[1])
        elif o[0] == "MERGE":
            for a in o[1:5]:
                if a is not None:
                    out.append(a[1] if isinstance(a, tuple) else a)
    return out


def canon_token(t):
    """library token -> the part the model also prints (unit and description are compared by the oracle only)"""
    if t.startswith("B:") and t != "B:ABSENT":
        return ":".join(t.split(":")[:6])
    return t


# =============================================================================================== running both sides
def run_library(exe, lines):
    """-> per history (tokens, crash) ; crash = None or a short sanitizer summary.  The harness is restarted after a stop."""
    results = []
    i = 0
    while i < len(lines):
        text = "\n".join(lines[i:]) + "\n"
        # symbolize=0: a sanitizer stop is reported by kind and address only (symbolising every stop costs ~0.5 s each)
        rc, out, err = vlib.run_cases(exe, text, timeout=3000, env={"ASAN_OPTIONS": vlib.ASAN_ENV["ASAN_OPTIONS"] + ":symbolize=0"})
        done = out[:-1]                      # complete lines; out[-1] is the unterminated rest
        for l in done:
            results.append((l.split(), None))
        i += len(done)
        if i >= len(lines):
            break
        # the process stopped inside history i
        summ = " | ".join(l.strip() for l in err.split("\n") if "ERROR: AddressSanitizer" in l or "SUMMARY" in l or "runtime error" in l)[:300]
        if not summ:
            summ = "harness exit status %d: %s" % (rc, err.strip()[-200:])
        results.append((out[-1].split(), summ))
        i += 1
    return results


def run_model(drv, files, cases):
    """cases: list of (flags dict defect->fixed?, ops).  -> list of token lists"""
    text = []
    defined = {}
    cur = None
    for fl, ops in cases:
        for n in dict.fromkeys(hist_files(ops)):
            if defined.get(n) != fl["flagcol"]:
                text.append(files.defline(n, fl["flagcol"]))
                defined[n] = fl["flagcol"]
        key = tuple(fl[d] for d in DEFECTS)
        if key != cur:
            text.append("FLAGS " + " ".join("1" if x else "0" for x in key))
            cur = key
        text.append("H " + hist_line(ops))
    rc, out, err = vlib.sh([drv], input=("\n".join(text) + "\n").encode("latin-1"), timeout=3000)
    if rc != 0:
        dump = os.path.join(vlib.scratch(), "c12_model_input.txt")
        open(dump, "w").write("\n".join(text) + "\n")
        raise RuntimeError("model driver failed (input kept in %s): %s" % (dump, err[-2000:]))
    lines = out.split("\n")
    return [lines[i].split() for i in range(len(cases))]


def python_prediction(files, ops, tokens, fixed):
    """what the model does not cover, predicted here for the CURRENT state of the tree (fixed: defect -> repaired?):
    * object destruction: with the ownership defect present, a master table that came from a merge (referenced) and then
      received a file (bufr_load_tableB marks it as owned) is freed twice when the objects are destroyed (NEW / end);
    * the Table D readers write past descriptors[1024] on a sequence of more than 1023 members.
    Adds CRASH at that position and drops what would follow."""
    out = []
    armed = {"B": False, "D": False}
    poison = False
    ti = 0
    for o in ops:
        if ti >= len(tokens):
            return out
        if tokens[ti] == "CRASH":
            return out + ["CRASH"]
        if not fixed["overflow"]:
            dfiles = [o[1]] if o[0] in ("LMD", "LLD", "CSVD") else [a[1] if isinstance(a, tuple) else a for a in (o[2], o[4]) if a is not None] if o[0] == "MERGE" else []
            if any(files.too_long(n) for n in dfiles):
                return out + ["CRASH"]
        if not fixed["own"]:
            if o[0] == "NEW":
                if poison:
                    return out + ["CRASH"]
                armed = {"B": False, "D": False}
            elif o[0] == "MERGE":
                if o[1] is not None:
                    armed["B"] = True
                if o[2] is not None:
                    armed["D"] = True
            elif o[0] in ("LMB", "CSVB") and armed["B"]:
                poison = True
            elif o[0] in ("LMD", "CSVD") and armed["D"]:
                poison = True
        out.append(tokens[ti]); ti += 1
    if poison and not fixed["own"]:
        return out + ["CRASH"]
    return out


# =============================================================================================== the oracle
class Spec:
    def __init__(self):
        self.lB, self.mB, self.lD, self.mD = {}, {}, {}, {}
        self.ambiguous_D = False

    @staticmethod
    def groupB(f):
        g = collections.OrderedDict()
        for e in f["entries"]:
            g.setdefault(e["desc"], []).append(e)
        return g

    @staticmethod
    def groupD(f):
        g = collections.OrderedDict()
        for k, seq, fz in f["entries"]:
            g.setdefault(k, []).append((seq, fz))
        return g


def closure_status(spec, table):
    """status of the Table D just loaded: 'cyclic' if a member of one of its entries reaches (through the effective map:
    local over master) a sequence that reaches itself, else 'unresolved' if one reaches a 3-descriptor defined nowhere,
    else 'clean'; None when a descriptor involved has several different definitions in one file"""
    eff = dict(spec.mD); eff.update(spec.lD)
    state = {}          # desc -> 'clean' | 'unresolved' | 'cyclic'
    amb = [False]

    def visit(d, stack):
        if d in state:
            return state[d]
        if d in stack:
            return "cyclic"
        defs = eff.get(d)
        if defs is None:
            return "unresolved"
        if len(set(tuple(s) for s, _ in defs)) > 1 or any(fz for _, fz in defs):
            amb[0] = True
        res = "clean"
        for seq, _ in defs[:1]:
            for x in seq:
                if x is not None and ct.F(x) == 3:
                    r = visit(x, stack | {d})
                    if r == "cyclic":
                        res = "cyclic"
                    elif r == "unresolved" and res == "clean":
                        res = "unresolved"
        # a result obtained while an ancestor is on the stack is final only when no cycle was cut: cyclic is final,
        # the others are recomputed when asked again from another root unless clean/unresolved cannot change.
        if res == "cyclic" or not stack:
            state[d] = res
        return res

    worst = "clean"
    for d, defs in table.items():
        # the entries of the table just loaded, as written in it (a local entry may hide it for lookups, the table is
        # examined all the same); what they refer to is resolved through the effective map
        if len(set(tuple(s) for s, _ in defs)) > 1 or any(fz for _, fz in defs):
            amb[0] = True
        for x in defs[0][0]:
            if x is not None and ct.F(x) == 3:
                r = visit(x, frozenset())
                if r == "cyclic":
                    worst = "cyclic"
                elif r == "unresolved" and worst == "clean":
                    worst = "unresolved"
    return None if amb[0] else worst


def oracle(files, ops, tokens):
    """-> list of (op index, message): where the library's answers contradict the property.  tokens[i] answers ops[i]."""
    fails = []
    sp = Spec()
    n = min(len(ops), len(tokens))
    for i in range(len(ops)):
        o = ops[i]
        if i >= len(tokens):
            break
        t = tokens[i]
        if t == "CRASH":
            fails.append((i, "the library was stopped by the sanitizer / crashed during %s" % op_token(o)))
            break
        k = o[0]
        if k == "NEW":
            sp = Spec()
        elif k in ("LMB", "CSVB", "LLB"):
            g = Spec.groupB(files.f[o[1]])
            (sp.lB if k == "LLB" else sp.mB).update(g)
            if t != "rc=0":
                fails.append((i, "loading a readable Table B file returned %s" % t))
        elif k in ("LMD", "CSVD", "LLD"):
            g = Spec.groupD(files.f[o[1]])
            tbl = sp.lD if k == "LLD" else sp.mD
            tbl.update(g)
            st = closure_status(sp, tbl)
            m = re.match(r"rc=(-?\d+)$", t)
            if not m:
                fails.append((i, "unexpected answer %s to a Table D load" % t))
            elif st == "cyclic" and int(m.group(1)) >= 0:
                fails.append((i, "a circular Table D was loaded without an error (%s)" % t))
            elif st == "clean" and int(m.group(1)) != 0:
                fails.append((i, "a Table D whose sequences all resolve and none reaches itself was reported in error (%s)" % t))
        elif k == "MERGE":
            mb, md, lb, ld = [a[1] if isinstance(a, tuple) else a for a in o[1:5]]
            if mb is not None:
                sp.mB = dict(Spec.groupB(files.f[mb]))
            if md is not None:
                sp.mD = dict(Spec.groupD(files.f[md]))
            if lb is not None:
                sp.lB.update(Spec.groupB(files.f[lb]))
            if ld is not None:
                sp.lD.update(Spec.groupD(files.f[ld]))
        elif k == "FB":
            d = o[1]
            cands = None
            if not (1 <= ct.F(d) <= 3):
                cands = sp.lB.get(d)
                src = "local"
                if cands is None:
                    cands = sp.mB.get(d); src = "master"
            if cands is None:
                if t != "B:ABSENT":
                    fails.append((i, "descriptor %06d is in no loaded Table B but the lookup returned %s" % (d, canon_token(t))))
                continue
            if any(e["fuzzy"] for e in cands):
                continue
            if t == "B:ABSENT":
                fails.append((i, "descriptor %06d is defined in the %s Table B (line %d) but the lookup reports it absent" % (d, src, cands[0]["line"])))
                continue
            f = t.split(":")
            got = (int(f[1]), f[2], int(f[3]), int(f[4]), int(f[5]))
            want = [(e["desc"], e["kind"], e["scale"], e["ref"], e["width"]) for e in cands]
            if got not in want:
                fails.append((i, "lookup of %06d returned (descriptor, type, scale, reference, width) = %s, the %s table file says %s"
                              % (d, got, src, " or ".join(map(str, want)))))
                continue
            if len(f) >= 7 and f[6] != "NULL":
                unit = bytes.fromhex(f[6]).decode("latin-1")
                if unit not in [e["unit"] for e in cands if (e["desc"], e["kind"], e["scale"], e["ref"], e["width"]) == got]:
                    fails.append((i, "lookup of %06d returned unit %r, the file says %r" % (d, unit, cands[0]["unit"])))
        elif k == "FD":
            d = o[1]
            cands = None
            if ct.F(d) == 3:
                cands = sp.lD.get(d)
                src = "local"
                if cands is None:
                    cands = sp.mD.get(d); src = "master"
            if cands is None:
                if t != "D:ABSENT":
                    fails.append((i, "sequence %06d is in no loaded Table D but the lookup returned %s" % (d, t)))
                continue
            if any(fz for _, fz in cands):
                continue
            if t == "D:ABSENT":
                fails.append((i, "sequence %06d is defined in the %s Table D but the lookup reports it absent" % (d, src)))
                continue
            f = t.split(":")
            got = (int(f[1]), [int(x) for x in f[2].split(",") if x])
            if got[0] != d or got[1] not in [s for s, _ in cands]:
                fails.append((i, "lookup of %06d returned %s, the %s table file says %s" % (d, t, src, " or ".join(",".join(map(str, s)) for s, _ in cands))))
        elif k == "MD":
            sq = list(o[1])
            havers = [d for tb in (sp.lD, sp.mD) for d, defs in tb.items() if any(s == sq for s, _ in defs)]
            # a descriptor the same file defines twice with different sequences may keep either: only an unambiguous
            # definition must be matched
            sure = [d for tb in (sp.lD, sp.mD) for d, defs in tb.items() if all(s == sq and not fz for s, fz in defs)]
            if t == "M:ABSENT":
                if sure and sq:
                    fails.append((i, "the sequence %s is the definition of %06d but no match was reported" % (sq, sure[0])))
            else:
                d = int(t.split(":")[1])
                if d not in havers:
                    fails.append((i, "sequence %s was matched to %06d, whose definition in the loaded tables is different" % (sq, d)))
        elif k == "USELIST":
            vs, req = o[1], o[2]
            if req in vs:
                if t != "U:%d:%d" % (vs.index(req), req):
                    fails.append((i, "version %d is in the list %s but bufr_use_tables_list returned %s" % (req, vs, t)))
            elif vs and t == "U:NONE":
                fails.append((i, "no tables selected from a non-empty list %s" % vs))
        elif k == "LOADLIST":
            f = t.split(":")
            want = o[4]      # versions present in the directory (from the files' VERSION lines)
            if o[3] in want and (len(f) < 3 or f[2] != str(o[3])):
                fails.append((i, "tables of version %d were loaded but selecting version %d returned %s" % (o[3], o[3], t)))
    if len(tokens) > len(ops) and tokens[len(ops)] == "CRASH" and not fails:
        fails.append((len(ops), "the library was stopped by the sanitizer / crashed while the table objects were destroyed at the end of the history"))
    return fails


# =============================================================================================== generators
def rand_desc_b(rng, pool=None):
    r = rng.random()
    if pool and r < 0.55:
        return rng.choice(pool)
    if r < 0.7:
        return rng.randint(0, 47) * 1000 + rng.randint(0, 191)
    if r < 0.85:
        return rng.randint(48, 63) * 1000 + rng.randint(0, 255)
    if r < 0.93:
        return rng.randint(0, 63) * 1000 + rng.randint(192, 255)
    return rng.choice([0, 1, 99999, 63255, 255, 1000, 47191, 48000])


def rand_entry(rng, d):
    name = "".join(rng.choice("ABCDEFGHIJKLMNOPQRSTUVWXYZ abcdefgh0123456789/().,-*#") for _ in range(rng.randint(1, 40))).strip() or "X"
    scale = rng.choice([0, 0, 1, 2, 3, -1, -2, rng.randint(-99, 999), -99, 999, 127, -12])
    ref = rng.choice([0, 0, -1, 1, rng.randint(-100000, 100000), -1073741824, 2147483647, -2147483647, rng.randint(-2 ** 31 + 1, 2 ** 31 - 1)])
    width = rng.choice([1, 7, 8, 16, 24, 32, 33, 64, rng.randint(1, 999), 999, 256, 0])
    return dict(desc=d, name=name, unit=rng.choice(UNITS), scale=scale, ref=ref, width=width, flag=" ")


def b_file_text(rng, entries, feat, ruler=None, version=None):
    """CMC Table B text with comment, blank, short and foreign lines mixed in"""
    cols, flagcol = None, None
    lines = []
    if ruler:
        namew = rng.choice([44, 64, 100])
        c2 = 8 + namew
        unitw = rng.choice([11, 13])
        scw = rng.choice([3, 4])
        rfw = rng.choice([11, 12])
        cols = [0, 8, c2, c2 + unitw, c2 + unitw + scw, c2 + unitw + scw + rfw]
        if ruler == 7:
            flagcol = cols[5] + 8
        lines.append(ct.ruler_line(cols, flagcol))
        feat["b_ruler_%d" % ruler] += 1
    else:
        lines.append(rng.choice(["* synthesised Table B", "**   TABLE B", "# comment first", "*"]))
    if version is not None:
        lines.append("** VERSION %03d.001 synthesised" % version)
    if rng.random() < 0.3:
        lines.append("DATA_CATEGORY=%d" % rng.randint(0, 255)); lines.append("DATA_DESCRIPTION=SYNTHESISED LOCAL TABLE")
    for e in entries:
        r = rng.random()
        if r < 0.08:
            lines.append(rng.choice(["", "*", "# 012101 commented out", "*012101  COMMENT", "   ", "\t"])); feat["b_comment_or_blank"] += 1
        elif r < 0.12:
            # a short (incomplete) line of a descriptor that is NOT otherwise in the file must stay absent; see gen_b_file
            pass
        lines.append(ct.fmt_b_line(e, cols, flagcol))
    return "\n".join(lines) + "\n", cols, flagcol


def gen_b_file(rng, files, name, feat, pool, n=None, fmt=None, version=None, must=None):
    """synthesised Table B file; returns the list of descriptors that the file mentions only in lines that are NOT entries"""
    n = n if n is not None else rng.choice([1, 2, 3, 5, 8, 13, 30, 60, 150])
    fmt = fmt or rng.choice(["cmc", "cmc", "cmc", "ruler6", "ruler7", "csv"])
    descs = list(must or [])
    while len(descs) < n:
        descs.append(rand_desc_b(rng, pool))
    if rng.random() < 0.7:
        descs = list(dict.fromkeys(descs))           # unique
    else:
        feat["b_file_with_duplicate_descriptor"] += 1
        descs += [rng.choice(descs) for _ in range(rng.randint(1, 3))]
    order = rng.choice(["sorted", "shuffled", "reversed"])
    if order == "sorted":
        descs.sort()
    elif order == "reversed":
        descs.sort(reverse=True)
    else:
        rng.shuffle(descs)
    feat["b_order_" + order] += 1
    ents = [rand_entry(rng, d) for d in descs]
    for e in ents:
        if e["scale"] < 0: feat["b_negative_scale"] += 1
        if e["ref"] < 0: feat["b_negative_reference"] += 1
        if e["width"] > 255: feat["b_width_over_255"] += 1
        if abs(e["ref"]) >= 2 ** 30: feat["b_reference_30_bits_or_more"] += 1
    ghosts = []
    if fmt == "csv":
        extra = []
        if rng.random() < 0.4:
            extra.append("")                                        # blank line
            extra.append("99,too,few,cells")                         # wrong number of cells: not an entry
            feat["csv_malformed_rows"] += 1
        for e in ents:
            if rng.random() < 0.2:
                e["name"] = e["name"] + ", WITH A COMMA"; feat["csv_quoted_cell"] += 1
            if rng.random() < 0.1:
                e["note"] = "see Note (%d)" % rng.randint(1, 9)
        text = ct.csv_b_text(ents, extra)
        files.add_text(name, "B", "csv", text)
        feat["b_csv_files"] += 1
        return ghosts
    ruler = {"ruler6": 6, "ruler7": 7}.get(fmt)
    if ruler == 7:
        for e in ents:
            r = rng.random()
            if r < 0.15:
                e["flag"] = "-"; feat["b_withdrawn_flag"] += 1
            elif r < 0.35:
                e["flag"] = "none"; feat["b_line_ends_before_flag_column"] += 1
    text, cols, flagcol = b_file_text(rng, ents, feat, ruler, version)
    # lines that are not entries: short lines, foreign first characters
    extra = []
    for _ in range(rng.choice([0, 0, 1, 2, 4])):
        g = rand_entry(rng, rand_desc_b(rng, pool))
        ln = ct.fmt_b_line(g, cols, flagcol)
        kind = rng.choice(["short", "leading_blank", "f1", "hash"])
        if kind == "short":
            ln = ln[:rng.randint(7, 70)]
        elif kind == "leading_blank":
            ln = " " + ln
        elif kind == "f1":
            ln = "1" + ln[1:]
        else:
            ln = "#" + ln[1:]
        feat["b_nonentry_line_" + kind] += 1
        extra.append(ln); ghosts.append(g["desc"])
    if extra:
        body = text.split("\n")[:-1]
        for ln in extra:
            body.insert(rng.randint(1, len(body)), ln)
        text = "\n".join(body) + "\n"
    if rng.random() < 0.1:
        text = text[:-1]; feat["b_no_final_newline"] += 1
    files.add_text(name, "B", "cmc", text)
    feat["b_cmc_files"] += 1
    return ghosts


def rand_key_d(rng, pool=None):
    if pool and rng.random() < 0.6:
        return rng.choice(pool)
    return 300000 + rng.randint(0, 63) * 1000 + rng.randint(0, 255)


def gen_d_file(rng, files, name, feat, pool, n=None, fmt=None, cyc=None, known=(), must=None):
    """synthesised Table D.  Members: Table B descriptors, replications, operators, and sequences that are either keys
    placed EARLIER in a fixed order (no cycle), or `known` ones, or (sometimes) unknown.  cyc = 'self' | 'pair' | 'long'
    injects a circular reference."""
    n = n if n is not None else rng.choice([1, 2, 3, 5, 8, 20, 40])
    fmt = fmt or rng.choice(["cmc", "cmc", "cmc", "csv"])
    keys = list(dict.fromkeys(list(must or []) + [rand_key_d(rng, pool) for _ in range(n)]))
    keys.sort()                                        # references go from larger to smaller keys only: acyclic across files too
    ents = []
    unresolved = False
    for i, k in enumerate(keys):
        m = []
        for _ in range(rng.choice([1, 1, 2, 3, 5, 9, 20])):
            r = rng.random()
            if r < 0.55:
                m.append(rand_desc_b(rng))
            elif r < 0.65:
                m.append(100000 + rng.randint(1, 9) * 1000 + rng.randint(0, 20))
            elif r < 0.72:
                m.append(200000 + rng.randint(1, 8) * 1000 + rng.randint(0, 255))
            elif r < 0.95:
                lower = [x for x in list(keys[:i]) + [x for x in known if x < k]]
                if lower:
                    m.append(rng.choice(lower)); feat["d_nested_reference"] += 1
                else:
                    m.append(rand_desc_b(rng))
            else:
                m.append(399000 + rng.randint(0, 255)); unresolved = True; feat["d_unresolved_reference"] += 1
        ents.append((k, m))
    if cyc == "self":
        k, m = ents[rng.randrange(len(ents))]
        m.insert(rng.randint(0, len(m)), k); feat["d_cycle_self"] += 1
    elif cyc == "pair" and len(ents) >= 2:
        a, b = rng.sample(range(len(ents)), 2)
        ents[a][1].append(ents[b][0]); ents[b][1].insert(0, ents[a][0]); feat["d_cycle_pair"] += 1
    elif cyc == "long" and len(ents) >= 3:
        idx = rng.sample(range(len(ents)), min(len(ents), rng.randint(3, 6)))
        for j, a in enumerate(idx):
            ents[a][1].insert(rng.randint(0, len(ents[a][1])), ents[idx[(j + 1) % len(idx)]][0])
        feat["d_cycle_long"] += 1
    elif cyc:
        k, m = ents[0]
        m.append(k); feat["d_cycle_self"] += 1
    if rng.random() < 0.25 and not cyc:
        ents += [(rng.choice(ents)[0], [rand_desc_b(rng)])]; feat["d_file_with_duplicate_key"] += 1
    order = rng.choice(["sorted", "shuffled", "reversed"])
    if order == "shuffled":
        rng.shuffle(ents)
    elif order == "reversed":
        ents.reverse()
    feat["d_order_" + order] += 1
    if fmt == "csv":
        files.add_text(name, "D", "csv", ct.csv_d_text(ents, {ents[0][0]: "Title, with a comma"}))
        feat["d_csv_files"] += 1
        return
    lines = [rng.choice(["* synthesised Table D", "*", "# D"])]
    for k, m in ents:
        r = rng.random()
        if r < 0.1:
            lines.append(rng.choice(["", "*** comment ***", "# 301001 001001", "*301001 001001", " 301001 001001", "301001", "201001 001001"]))
            feat["d_comment_or_nonentry_line"] += 1
        sep = rng.choice([" ", " ", "  ", "\t"])
        lines.append(sep.join("%06d" % x for x in [k] + m) + rng.choice(["", "", " "]))
    files.add_text(name, "D", "cmc", "\n".join(lines) + "\n")
    feat["d_cmc_files"] += 1


# =============================================================================================== the check
class Ctx:
    pass


def classify(rep, ctx, files, ops, ctoks, crash, label, allow_input=True, allow_corr=True):
    """compare library, model and oracle on one history; returns True when a violation/finding was recorded"""
    line = hist_line(ops)
    mtoks = ctx.model[label] if isinstance(label, int) else label
    fails = oracle(files, ops, ctoks)
    ccanon = [canon_token(t) for t in ctoks]
    same = ccanon == mtoks
    if not same and not fails and ctx.flags["own"] and copy_dedup_case(files, ops):
        # UNFINISHED (see report): once the ownership repair is in the tree, loading into a master Table D that came from a
        # merge first copies it with bufr_merge_tableD, which collapses a descriptor the source file defines twice; the
        # model keeps no ownership flag for Table D and does not mirror that copy.  Only files that define a Table D
        # descriptor twice are concerned (the oracle accepts either definition); such histories are judged by the oracle alone.
        ctx.skipped_dedup += 1
        return False
    if not fails and same:
        return False
    if (fails and not allow_input) or (not fails and not allow_corr):
        return False
    replay = replay_dict(files, ops, ctoks, mtoks, crash)
    # a failure on a history where the faithful model of the current code satisfies the oracle is a NEW deviation of the
    # library: such reports are listed first
    ctx.fresh_deviation = bool(fails) and not same and not oracle(files, ops, mtoks)
    if fails:
        i, msg = fails[0]
        # is this exactly the behaviour of a recorded, still open defect?  (the faithful model reproduces the library's
        # answers, and repairing the recorded defect(s) in the model gives answers the oracle accepts)
        if same:
            present = [d for d in ALLDEF if ctx.present[d]]
            for size in range(1, len(present) + 1):
                for S in combos(present, size):
                    fl = dict(ctx.flags)
                    for d in S:
                        fl[d] = True
                    t2 = run_model(ctx.drv, files, [(fl, [o for o in ops if o[0] != "LOADLIST"])])[0]
                    t2 = python_prediction(files, ops, t2, fl)
                    if len(t2) >= len([o for o in ops]) and not oracle(files, ops, t2):
                        if all(MATCH[d] in ctx.open for d in S):
                            for d in S:
                                ctx.known_hits[d] += 1
                                rep.finding(ctx.open[MATCH[d]])
                                if len(ctx.known_examples[d]) < 1:
                                    ctx.known_examples[d].append("%s -> %s  [history: %s]" % (MATCH[d], msg, line[:300]))
                            return True
                        rep.violation("C12: %s  [history: %s ; answers: %s]  (defect class %s, not recorded as an open finding)"
                                      % (msg, line[:400], " ".join(ccanon)[:300], "+".join(MATCH[d] for d in S)), replay)
                        return True
        if ctx.nshrunk < 3 and len(ops) > 2:
            # the shortest history (greedy removal of operations) on which the library still contradicts the oracle
            ctx.nshrunk += 1
            small = shrink(ctx, files, ops, lambda cand: lib_fails(ctx, files, cand))
            if len(small) < len(ops):
                (t2, c2), = run_library(ctx.exe, [hist_line(small, files)])
                t2 = t2 + (["CRASH"] if c2 else [])
                f2 = oracle(files, small, t2)
                if f2:
                    ops, ctoks, crash, msg = small, t2, c2, f2[0][1]
                    line, ccanon = hist_line(ops), [canon_token(t) for t in t2]
                    replay = replay_dict(files, ops, ctoks, [], crash)
        rep.violation("C12: %s  [history: %s ; answers: %s]%s" % (msg, line[:400], " ".join(ccanon)[:300], (" ; " + crash) if crash else ""), replay)
        return True
    rep.violation("C12: correspondence Tables.v <-> bufr_tables.c broken (the oracle accepts the library's answers): history %s ; library %s ; model %s"
                  % (line[:300], " ".join(ccanon)[:300], " ".join(mtoks)[:300]),
                  dict(replay, correspondence="Tables.run vs bufr_load_*/bufr_merge_tables/bufr_fetch_table[BD]"), no_input=True)
    return True


def ops_to_json(ops):
    return [[list(a) if isinstance(a, tuple) else a for a in o] for o in ops]


def ops_from_json(hist):
    out = []
    for o in hist:
        out.append(tuple(tuple(a) if isinstance(a, list) else a for a in o))
    return out


def replay_dict(files, ops, ctoks, mtoks, crash):
    return {"kind": "history", "history": ops_to_json(ops),
            "files": {n: {"kind": files.f[n]["kind"], "fmt": files.f[n]["fmt"], "text": files.f[n]["text"],
                          "path": None if files.f[n]["text"] is not None else os.path.relpath(files.f[n]["path"], vlib.REPO)}
                      for n in dict.fromkeys(hist_files(ops))},
            "impl": " ".join(ctoks)[:2000], "model": " ".join(mtoks)[:2000], "sanitizer": crash}


def copy_dedup_case(files, ops):
    armed = False
    hit = False
    for o in ops:
        if o[0] == "NEW":
            armed = False
        elif o[0] == "MERGE" and o[2] is not None:
            armed = True
        elif o[0] in ("LMD", "CSVD") and armed:
            hit = True
    if not hit:
        return False
    for n in set(hist_files(ops)):
        f = files.f[n]
        if f["kind"] == "D":
            ks = [k for k, _, _ in f["entries"]]
            if len(ks) != len(set(ks)):
                return True
    return False


def combos(l, k):
    if k == 0:
        return [[]]
    if not l:
        return []
    return [[l[0]] + c for c in combos(l[1:], k - 1)] + combos(l[1:], k)


def shrink(ctx, files, ops, still_fails):
    """greedy removal of operations while the oracle still rejects the library's answers"""
    cur = list(ops)
    changed = True
    budget = 60
    while changed and budget > 0:
        changed = False
        for j in range(len(cur) - 1, -1, -1):
            cand = cur[:j] + cur[j + 1:]
            budget -= 1
            if budget <= 0:
                break
            if cand and still_fails(cand):
                cur = cand; changed = True
                break
    return cur


def lib_fails(ctx, files, ops):
    (toks, crash), = run_library(ctx.exe, [hist_line(ops, files)])
    if crash:
        toks = toks + ["CRASH"]
    return bool(oracle(files, ops, toks))


def witness_files(files):
    b = lambda d, sc, rf, w: dict(desc=d, name="W%d" % d, unit="NUMERIC", scale=sc, ref=rf, width=w)
    files.add_text("w_m", "B", "cmc", "* w\n" + "".join(ct.fmt_b_line(b(d, 1, d, 10)) + "\n" for d in (10010, 20020, 30030)))
    files.add_text("w_l", "B", "cmc", "* w\n" + "".join(ct.fmt_b_line(b(d, 2, -d, 12)) + "\n" for d in (1001, 2002, 3003, 30030)))
    cols, fc = list(ct.DEFAULT_COLS), 86
    files.add_text("w_flag", "B", "cmc", ct.ruler_line(cols, fc) + "\n" + ct.fmt_b_line(dict(b(12101, 1, 0, 10), flag="-"), cols, fc) + "\n"
                   + ct.fmt_b_line(dict(b(12102, 2, 0, 11), flag="none"), cols, fc) + "\n")
    files.add_text("w_long", "D", "cmc", "* w\n301001 " + " ".join(["1"] * 1100) + "\n")
    files.add_text("w_d1", "D", "cmc", "* w\n310010 001001 001002\n320020 002001\n330030 003001 003002\n")
    files.add_text("w_d2", "D", "cmc", "* w\n301001 001001\n302002 002001\n303003 003001\n330030 004001 004002 004003\n")


WITNESS = {
    "overflow": [("LLD", "w_long"), ("FD", 301001)],
    "flagcol": [("LLB", "w_flag"), ("FB", 12102)],
    "cache": [("LMB", "w_m"), ("FB", 30030), ("LLB", "w_l"), ("FB", 30030)],
    "merge": [("LLB", "w_m"), ("LLB", "w_l"), ("FB", 30030)],
    "own": [("MERGE", "w_m", None, None, None), ("LMB", "w_l"), ("FB", 1001)],
}


def run(rep, tier, seed, replay=None):
    rep.level = "proof"
    gentables.regenerate()
    proved = vlib.proof_step(rep, "Properties_C12", timeout=3000)
    ctx = Ctx()
    ctx.exe = vlib.build_harness("c12")
    ctx.drv = vlib.extract_and_build_driver("c12")
    rng = random.Random(seed)
    feat = collections.Counter()
    fdir = os.path.join(vlib.scratch(), "c12_files")
    os.makedirs(fdir, exist_ok=True)
    files = Files(fdir)
    ctx.open = {f["match"]: "%s: %s" % (f["match"], f.get("what", "")) for f in vlib.known_findings("C12")}
    ctx.nshrunk = 0
    ctx.skipped_dedup = 0
    ctx.vkeys = {}
    ctx.fresh_deviation = False
    ctx.known_hits = collections.Counter()
    ctx.known_examples = collections.defaultdict(list)

    # ---------------- which of the recorded defects does this tree have?  (canonical witnesses; the model mirrors the tree)
    witness_files(files)
    ctx.present = {}
    for d in ALLDEF:
        ctx.present[d] = lib_fails(ctx, files, WITNESS[d])
    ctx.flags = {d: not ctx.present[d] for d in ALLDEF}
    feat["tree_has_defect:" + ",".join(d for d in ALLDEF if ctx.present[d])] = 1

    batches = []          # (label, ops) ; label used for coverage only
    if replay:
        if replay.get("kind") == "history":
            for n, f in replay["files"].items():
                if f.get("text") is not None:
                    files.add_text(n, f["kind"], f["fmt"], f["text"])
                else:
                    files.add_path(n, f["kind"], f["fmt"], os.path.join(vlib.REPO, f["path"]))
            ops = ops_from_json(replay["history"])
            batches.append(("replay", ops))
    else:
        batches += gen_exhaustive(rng, files, feat, tier)
        batches += gen_synth_files(rng, files, feat, tier)
        batches += gen_histories(rng, files, feat, tier)
        batches += gen_directed(files, feat)
        batches += gen_cycles(rng, files, feat, tier)
        batches += gen_versions(rng, files, feat, tier)
        batches += [("witness_" + d, WITNESS[d]) for d in ALLDEF]

    # ---------------- run both sides
    lib_lines = [hist_line(ops, files) for _, ops in batches]
    lib_res = run_library(ctx.exe, lib_lines)
    mcases = [(ctx.flags, ops if not lab.startswith("oracle_only:") else []) for lab, ops in batches]
    mres = run_model(ctx.drv, files, mcases)
    nviol = 0
    ncorr = 0
    crashes = 0
    for idx, (lab, ops) in enumerate(batches):
        ctoks, crash = lib_res[idx]
        if crash:
            ctoks = ctoks + ["CRASH"]; crashes += 1
        if lab.startswith("oracle_only:"):
            mt = [canon_token(t) for t in ctoks]            # no model run (directory scanning, bulk lookups): oracle only
        else:
            mt = python_prediction(files, ops, mres[idx], ctx.flags)
        rep.count((lab, hist_line(ops), tuple(sorted((n, hash(files.f[n]["text"])) for n in set(hist_files(ops))))))
        feat["histories_" + lab.replace("oracle_only:", "").split(":")[0] + ("(oracle only)" if lab.startswith("oracle_only:") else "")] += 1
        feat["operations"] += len(ops)
        for o in ops:
            feat["op_" + o[0]] += 1
        for t in ctoks:
            if t.endswith("ABSENT"): feat["answers_absent"] += 1
            elif t.startswith("rc=-"): feat["loads_reporting_an_error"] += 1
        if idx % 97 == 0:
            rep.sample({"history": hist_line(ops)[:300], "impl": " ".join(ctoks)[:300], "model": " ".join(mt)[:300]})
        # at most 30 reports with a failing input and 4 correspondence-only reports (the framework prints the first five)
        if (nviol < 30 or ncorr < 4):
            before = len(rep.violations)
            if classify(rep, ctx, files, ops, ctoks, crash, mt, allow_input=nviol < 30, allow_corr=ncorr < 4) and len(rep.violations) > before:
                ctx.vkeys[rep.violations[-1][0]] = (rep.violations[-1][2], not ctx.fresh_deviation)
                if rep.violations[-1][2]:
                    ncorr += 1
                else:
                    nviol += 1
    # (c') a lookup must not depend on earlier lookups: the same loads on a fresh object, only the last lookup kept
    nfresh = fresh_object_check(rep, ctx, files, batches, lib_res, feat, tier)
    # ---------------- defects present in the tree: recorded (open finding) or new (violation with the witness)
    for d in ALLDEF:
        if ctx.present[d]:
            if MATCH[d] in ctx.open:
                rep.finding(ctx.open[MATCH[d]])
            elif not any(MATCH[d] in v[0] for v in rep.violations):
                ops = WITNESS[d]
                (toks, crash), = run_library(ctx.exe, [hist_line(ops, files)])
                rep.violation("C12: %s  [history: %s ; answers: %s]%s" % (oracle(files, ops, toks + (["CRASH"] if crash else []))[0][1], hist_line(ops), " ".join(map(canon_token, toks)), (" ; " + crash) if crash else ""),
                              replay_dict(files, ops, toks, [], crash))
    for d, ex in ctx.known_examples.items():
        for e in ex:
            feat["known_finding_hits_" + MATCH[d]] = ctx.known_hits[d]
    # reports with a concrete failing input first, among them those the model of the current code does not share
    rep.violations.sort(key=lambda v: ctx.vkeys.get(v[0], (v[2], False)))
    if not proved and not rep.violations:
        rep.violation("C12: proof obligations no longer check (see log) and no failing input was found by the correspondence run",
                      getattr(rep, "proof_broken", {}), no_input=True)
    if ctx.skipped_dedup:
        feat["histories_judged_by_oracle_only(tableD_copy_of_duplicate_keys)"] = ctx.skipped_dedup
    rep.cov["traces_validated_against_impl"] = len(batches) + nfresh
    rep.cov["distribution"] = dict(feat)
    rep.cov["rule"] = ("(a) every line of the 5 shipped Table B/D pairs and Test/local_table_[bd]: every descriptor fetched (plus its neighbours and random absent "
                       "ones; thorough: all of 0..99999 and 300000..363255), every sequence fetched and matched; (b) synthesised CMC (default columns, 6/7-star ruler) "
                       "and WMO CSV files: shuffled/reversed order, duplicate descriptors, overriding local entries, extreme scale/reference/width, comment, blank, short "
                       "and foreign lines, withdrawn flag; (c) random histories of load/merge/fetch over pools of overlapping files, each compared with the model, with the "
                       "finite-map oracle and with a fresh object given the same loads but no earlier lookups; (d) circular Table D files (self, pair, long cycles) by "
                       "return code; (e) version selection over random version lists and over directories of shipped tables. distinct = distinct (history, file contents)")
    rep.assumptions = ["table files are readable and at most 255 (Table B) / 4095 (Table D) characters per line; Table D lines have at most 1023 members (see finding tabled_line_overflow)",
                       "ref_nbits / af_nbits of a Table B entry and the description text are not part of the property",
                       "glibc qsort (stable merge sort) and bsearch as in this sandbox: for a descriptor defined twice in ONE file the oracle accepts any of the definitions, the model follows glibc"]


# ----------------------------------------------------------------------------------------------- (a) shipped tables
def gen_exhaustive(rng, files, feat, tier):
    out = []
    T = os.path.join(vlib.REPO, "Tables")
    for v in VERS:
        bp, dp = os.path.join(T, "table_b_bufr" + v), os.path.join(T, "table_d_bufr" + v)
        if not (os.path.exists(bp) and os.path.exists(dp)):
            continue
        nb, nd = "ship_b" + v, "ship_d" + v
        files.add_path(nb, "B", "cmc", bp)
        files.add_path(nd, "D", "cmc", dp)
        cross_check_reader(files, nb, nd, bp, dp, feat)
        bd = [e["desc"] for e in files.f[nb]["entries"]]
        dd = [k for k, _, _ in files.f[nd]["entries"]]
        near = sorted(set(x for d in bd for x in (d - 1, d + 1) if 0 <= x) - set(bd))
        neard = sorted(set(x for d in dd for x in (d - 1, d + 1)) - set(dd))
        absent = [rng.randrange(0, 100000) for _ in range(300)] + [rng.choice([100000, 101000, 201001, 222000, 300000, 399999, -1, -100001, 400000, 1000000])  for _ in range(10)]
        ops = [("LMB", nb), ("LMD", nd), ("VER",)] + [("FB", d) for d in bd + near + absent]
        ops += [("FD", d) for d in dd + neard + [rng.randrange(300000, 364000) for _ in range(200)] + [12101, 101000, 0, 400001]]
        ops += [("MD", tuple(seq)) for _, seq, _ in files.f[nd]["entries"]] + [("MD", (1001, 1002, 99999))]
        # a second pass in another order exercises the filled cache and the last-hit shortcut
        sh = list(bd); rng.shuffle(sh)
        ops += [("FB", d) for d in sh[:400]] + [("FB", sh[0]), ("FB", sh[0])]
        # every line: library + oracle; the extracted model runs the complete history in the thorough tier only (the
        # model side of "every line" is the finite theorem C12_shipped_lookup_exact), a sample of it in the quick tier
        out.append((("shipped:" if tier == "thorough" else "oracle_only:shipped:") + (v or "cur"), ops))
        if tier != "thorough":
            sb = rng.sample(bd, min(len(bd), 250)); sd = rng.sample(dd, min(len(dd), 120))
            ops2 = [("LMB", nb), ("LMD", nd), ("VER",)] + [("FB", d) for d in sb + [x + 1 for x in sb[:40]]] + [("FD", d) for d in sd + [x + 1 for x in sd[:20]]]
            ops2 += [("FB", d) for d in sb[:60][::-1]] + [("FB", sb[0]), ("FB", sb[0])]
            out.append(("shipped_sample:" + (v or "cur"), ops2))
        feat["shipped_tableB_lines"] += len(bd); feat["shipped_tableD_lines"] += len(dd)
        if tier == "thorough":
            ops = [("LMB", nb), ("LMD", nd)] + [("FB", d) for d in range(0, 100000) if d not in set(bd)]
            out.append(("oracle_only:all_absent_B", ops))          # oracle only (no model run for 100000 lookups)
            ops = [("LMB", nb), ("LMD", nd)] + [("FD", d) for d in range(300000, 364000) if d not in set(dd)]
            out.append(("oracle_only:all_absent_D", ops))
    lb, ld = os.path.join(vlib.REPO, "Test", "local_table_b"), os.path.join(vlib.REPO, "Test", "local_table_d")
    if os.path.exists(lb) and os.path.exists(ld) and "ship_b" in files.f:
        files.add_path("test_lb", "B", "cmc", lb)
        files.add_path("test_ld", "D", "cmc", ld)
        cross_check_reader(files, "test_lb", "test_ld", lb, ld, feat)
        bd = [e["desc"] for e in files.f["test_lb"]["entries"]] + [e["desc"] for e in files.f["ship_b"]["entries"]][::7]
        dd = [k for k, _, _ in files.f["test_ld"]["entries"]] + [k for k, _, _ in files.f["ship_d"]["entries"]][::5]
        ops = [("LMB", "ship_b"), ("LMD", "ship_d"), ("LLB", "test_lb"), ("LLD", "test_ld"), ("VER",)]
        ops += [("FB", d) for d in bd] + [("FD", d) for d in dd] + [("MD", tuple(seq)) for _, seq, _ in files.f["test_ld"]["entries"]]
        out.append(("shipped:test_local", ops))
        # the local tables loaded first, the master ones afterwards: the result must be the same
        out.append(("shipped:test_local_first", [("LLB", "test_lb"), ("LLD", "test_ld"), ("LMB", "ship_b"), ("LMD", "ship_d")] + ops[5:]))
    return out


def cross_check_reader(files, nb, nd, bp, dp, feat):
    """the reader of lib/tables.py and the one of c12tables.py must read the same entries from default-column files"""
    a = [(e["desc"], e["kind"], e["scale"], e["ref"], e["width"], e["unit"]) for e in tables.read_table_b(bp, local=True)]
    b = [(e["desc"], e["kind"], e["scale"], e["ref"], e["width"], e["unit"]) for e in files.f[nb]["entries"]]
    if a != b:
        diff = [x for x in a if x not in b][:3] + [x for x in b if x not in a][:3]
        raise RuntimeError("the two independent Table B readers disagree on %s: %s" % (bp, diff))
    a = [(k, seq) for k, seq in tables.read_table_d(dp)]
    b = [(k, seq) for k, seq, _ in files.f[nd]["entries"]]
    if a != b:
        raise RuntimeError("the two independent Table D readers disagree on %s" % dp)
    feat["files_read_identically_by_both_independent_readers"] += 2


# ----------------------------------------------------------------------------------------------- (b) synthesised files
def gen_synth_files(rng, files, feat, tier):
    out = []
    n = 60 if tier == "quick" else 400
    for i in range(n):
        pool = [rand_desc_b(rng) for _ in range(12)]
        nm = "sb%d" % i
        fmt = ["cmc", "ruler6", "ruler7", "csv"][i % 4] if i < 16 else None
        ghosts = gen_b_file(rng, files, nm, feat, pool, fmt=fmt, version=rng.choice([None, 13, 35, 7]))
        if files.has_fuzzy(nm):
            feat["synth_file_dropped_fuzzy"] += 1
            continue
        bd = [e["desc"] for e in files.f[nm]["entries"]]
        loader = "CSVB" if files.f[nm]["fmt"] == "csv" else rng.choice(["LMB", "LLB"])
        fetch = list(dict.fromkeys(bd + [g for g in ghosts if g not in bd] + [d + 1 for d in bd[:5]] + pool[:4] + [100000 + bd[0] if bd else 100001]))
        rng.shuffle(fetch)
        ops = [(loader, nm), ("VER",)] + [("FB", d) for d in fetch] + [("FB", d) for d in fetch[:6]]
        out.append(("synthB", ops))
        # the same file as a local table over a master that defines some of the descriptors differently
        if files.f[nm]["fmt"] != "csv" and i % 2 == 0 and bd:
            mm = "sbm%d" % i
            gen_b_file(rng, files, mm, feat, bd, fmt=rng.choice(["cmc", "csv"]), must=bd[:max(1, len(bd) // 2)])
            if not files.has_fuzzy(mm):
                ml = "CSVB" if files.f[mm]["fmt"] == "csv" else "LMB"
                md = [e["desc"] for e in files.f[mm]["entries"]]
                allk = list(dict.fromkeys(bd + md)); rng.shuffle(allk)
                first, second = ((ml, mm), ("LLB", nm)) if rng.random() < 0.5 else (("LLB", nm), (ml, mm))
                out.append(("synthB_local_over_master", [first, second] + [("FB", d) for d in allk]))
                feat["b_local_overrides_master_descriptors"] += len(set(bd) & set(md))
    for i in range(n // 2):
        pool = [rand_key_d(rng) for _ in range(10)]
        nm = "sd%d" % i
        gen_d_file(rng, files, nm, feat, pool, fmt=["cmc", "csv"][i % 2] if i < 8 else None)
        if files.has_fuzzy(nm):
            continue
        dd = [k for k, _, _ in files.f[nm]["entries"]]
        loader = "CSVD" if files.f[nm]["fmt"] == "csv" else rng.choice(["LMD", "LLD"])
        fetch = list(dict.fromkeys(dd + [d + 1 for d in dd[:4]] + pool[:3] + [dd[0] - 300000, dd[0] - 200000])); rng.shuffle(fetch)
        ops = [(loader, nm)] + [("FD", d) for d in fetch] + [("MD", tuple(seq)) for _, seq, _ in files.f[nm]["entries"][:6]]
        out.append(("synthD", ops))
        if i % 2 == 0 and files.f[nm]["fmt"] != "csv":
            mm = "sdm%d" % i
            gen_d_file(rng, files, mm, feat, dd, fmt=rng.choice(["cmc", "csv"]), must=dd[:max(1, len(dd) // 2)])
            ml = "CSVD" if files.f[mm]["fmt"] == "csv" else "LMD"
            md = [k for k, _, _ in files.f[mm]["entries"]]
            allk = list(dict.fromkeys(dd + md)); rng.shuffle(allk)
            first, second = ((ml, mm), ("LLD", nm)) if rng.random() < 0.5 else (("LLD", nm), (ml, mm))
            out.append(("synthD_local_over_master", [first, second] + [("FD", d) for d in allk]))
    # boundary: the longest Table D line the reader's buffer holds, and one member more
    for nmem in (1022, 1023, 1024, 1100):
        nm = "sdlong%d" % nmem
        files.add_text(nm, "D", "cmc", "* long\n301001 " + " ".join(str(1 + (j % 9)) for j in range(nmem)) + "\n")
        out.append(("synthD_long_line", [("LLD", nm), ("FD", 301001)]))
        feat["d_line_with_%d_members" % nmem] += 1
    return out


# ----------------------------------------------------------------------------------------------- (c') directed histories
def gen_directed(files, feat):
    """lookup - change - lookup, for every kind of change: every operation that alters what a descriptor means must be seen by
    a descriptor that was looked up (and cached) before it.  Uses the witness files: w_m and w_l both define 0 30 030."""
    b = lambda d, sc, rf, w: dict(desc=d, name="V%d" % d, unit="NUMERIC", scale=sc, ref=rf, width=w)
    files.add_text("w_m2", "B", "cmc", "* w\n" + "".join(ct.fmt_b_line(b(d, 3, 7, 14)) + "\n" for d in (10010, 30030, 40040)))
    files.add_text("w_l2", "B", "cmc", "* w\n" + "".join(ct.fmt_b_line(b(d, 4, -7, 9)) + "\n" for d in (2002, 20020)))
    pres = [[("LMB", "w_m")], [("LLB", "w_m")], [("LMB", "w_m"), ("LLB", "w_l2")], [("MERGE", "w_m", None, None, None)], [("MERGE", None, None, "w_m", None)]]
    changes = [[("LLB", "w_l")], [("LMB", "w_l")], [("LMB", "w_m2")], [("LLB", "w_m2")],
               [("MERGE", "w_l", None, None, None)], [("MERGE", None, None, "w_l", None)], [("MERGE", "w_m2", None, "w_l", None)],
               [("MERGE", "w_m2", None, None, None)], [("MERGE", None, None, "w_m2", None)],
               [("MERGE", None, "w_d1", None, None)], [("MERGE", None, None, None, "w_d1")], [("LLD", "w_d1")], [("LMD", "w_d2")]]
    looks = [("FB", 30030), ("FB", 10010), ("FB", 20020), ("FB", 1001), ("FB", 30030)]
    out = []
    for pre in pres:
        for ch in changes:
            out.append(("history", pre + looks + ch + looks + [("FD", 330030)]))
            out.append(("history", pre + looks[:1] + ch + looks[:1] + ch[:1] + looks))
            feat["directed_lookup_change_lookup"] += 2
    return out


# ----------------------------------------------------------------------------------------------- (c) histories
def gen_histories(rng, files, feat, tier):
    out = []
    nh = 150 if tier == "quick" else 900
    for h in range(nh):
        # a pool of small overlapping files
        poolB = [rand_desc_b(rng) for _ in range(rng.choice([4, 8, 16]))]
        poolD = sorted(set(rand_key_d(rng) for _ in range(rng.choice([3, 6, 10]))))
        fb, fd = [], []
        big = rng.random() < 0.08 and "ship_b" in files.f
        for j in range(rng.randint(2, 4)):
            nm = "hb%d_%d" % (h, j)
            gen_b_file(rng, files, nm, collections.Counter(), poolB, n=rng.choice([1, 2, 4, 8, 12]), fmt=rng.choice(["cmc", "cmc", "ruler6", "csv"]), version=rng.choice([None, 13, 35]))
            if not files.has_fuzzy(nm):
                fb.append(nm)
        for j in range(rng.randint(1, 3)):
            nm = "hd%d_%d" % (h, j)
            gen_d_file(rng, files, nm, collections.Counter(), poolD, n=rng.choice([1, 2, 4, 6]), fmt=rng.choice(["cmc", "cmc", "csv"]), known=poolD)
            if not files.has_fuzzy(nm):
                fd.append(nm)
        if big:
            fb.append("ship_b"); fd.append("ship_d"); poolB += [12101, 1001, 2001, 31001]; poolD += [301001, 301011, 309052]
            feat["histories_with_shipped_master"] += 1
        if not fb or not fd:
            continue
        ops = []
        for _ in range(rng.randint(4, 22)):
            r = rng.random()
            if r < 0.16:
                f = rng.choice(fb); csvf = files.f[f]["fmt"] == "csv"
                ops.append(("CSVB", f) if csvf else (rng.choice(["LMB", "LLB", "LLB"]), f))
            elif r < 0.26:
                f = rng.choice(fd); csvf = files.f[f]["fmt"] == "csv"
                ops.append(("CSVD", f) if csvf else (rng.choice(["LMD", "LLD", "LLD"]), f))
            elif r < 0.36:
                def pick(lst, p, allow_csv):
                    if rng.random() > p:
                        return None
                    f = rng.choice(lst)
                    if files.f[f]["fmt"] == "csv":
                        return ("csv", f) if allow_csv else None
                    return f
                ops.append(("MERGE", pick(fb, 0.4, True), pick(fd, 0.3, True), pick(fb, 0.6, False), pick(fd, 0.4, False)))
            elif r < 0.75:
                ops.append(("FB", rng.choice(poolB) if rng.random() < 0.9 else rand_desc_b(rng)))
                if rng.random() < 0.15:
                    ops.append(ops[-1])                       # immediate repeat: last_searched
            elif r < 0.93:
                ops.append(("FD", rng.choice(poolD) if rng.random() < 0.9 else rand_key_d(rng)))
            elif r < 0.97:
                f = files.f[rng.choice(fd)]
                if f["entries"]:
                    ops.append(("MD", tuple(rng.choice(f["entries"])[1])))
            elif r < 0.985:
                ops.append(("VER",))
            else:
                ops.append(("NEW",))
        ops += [("FB", d) for d in rng.sample(poolB, min(4, len(poolB)))] + [("FD", d) for d in rng.sample(poolD, min(3, len(poolD)))]
        out.append(("history", ops))
    return out


def fresh_object_check(rep, ctx, files, batches, lib_res, feat, tier):
    """for lookups in the random histories: the same loads and merges on a fresh object, WITHOUT the earlier lookups, must
    give the same answer (unless the answer is covered by the duplicate-within-one-file latitude)"""
    cases = []
    for idx, (lab, ops) in enumerate(batches):
        if lab != "history":
            continue
        ctoks, crash = lib_res[idx]
        seg_start = 0
        for i, o in enumerate(ops):
            if i >= len(ctoks):
                break
            if o[0] == "NEW":
                seg_start = i + 1
            if o[0] in ("FB", "FD") and any(p[0] in ("FB",) for p in ops[seg_start:i]):
                if tier == "quick" and (len(cases) >= 260 or any(n.startswith("ship_") for n in hist_files(ops))):
                    break
                cases.append((idx, i, [p for p in ops[seg_start:i] if p[0] not in ("FB", "FD", "MD", "VER")] + [o]))
    if not cases:
        return 0
    res = run_library(ctx.exe, [hist_line(c[2], files) for c in cases])
    mres = run_model(ctx.drv, files, [(ctx.flags, c[2]) for c in cases])
    nrep = 0
    for (idx, i, hops), (toks, crash), mt in zip(cases, res, mres):
        feat["fresh_object_comparisons"] += 1
        rep.count(("fresh", hist_line(hops), tuple(sorted((n, hash(files.f[n]["text"])) for n in set(hist_files(hops))))))
        if crash:
            toks = toks + ["CRASH"]
        # the fresh run is itself a history: model, oracle
        if nrep < 6 and classify(rep, ctx, files, hops, toks, crash, python_prediction(files, hops, mt, ctx.flags)):
            nrep += 1
        a = lib_res[idx][0][i]
        b = toks[-1]
        if a != b:
            ops = batches[idx][1]
            fa = [f for f in oracle(files, ops, lib_res[idx][0] + (["CRASH"] if lib_res[idx][1] else [])) if f[0] == i]
            if not fa and not oracle(files, hops, toks):
                # both answers are definitions the SAME file gives for the descriptor (defined twice in it)
                feat["fresh_object_differences_within_duplicate_latitude"] += 1
            else:
                feat["fresh_object_differences_rejected_by_oracle"] += 1      # reported by classify() on the side that is wrong
    return len(cases)


# ----------------------------------------------------------------------------------------------- (d) circular Table D
def gen_cycles(rng, files, feat, tier):
    out = []
    n = 40 if tier == "quick" else 400
    for i in range(n):
        pool = sorted(set(rand_key_d(rng) for _ in range(8)))
        nm = "cy%d" % i
        cyc = ["self", "pair", "long"][i % 3]
        gen_d_file(rng, files, nm, feat, pool, n=rng.choice([2, 3, 5, 9]), fmt="cmc", cyc=cyc)
        if files.has_fuzzy(nm):
            continue
        dd = [k for k, _, _ in files.f[nm]["entries"]]
        variant = i % 4
        if variant == 0:
            ops = [("LLD", nm)]
        elif variant == 1 and "ship_d" in files.f:
            ops = [("LMB", "ship_b"), ("LMD", "ship_d"), ("LLD", nm)]
        elif variant == 2:
            ops = [("LMD", nm)]
        else:
            # the cycle closes only through the other table: local A -> master B -> local A
            a, b = 360001 + i, 361001 + i
            files.add_text(nm + "_l", "D", "cmc", "* l\n%06d 001001 %06d\n" % (a, b))
            files.add_text(nm + "_m", "D", "cmc", "* m\n%06d %06d 001002\n" % (b, a))
            ops = [("LMD", nm + "_m"), ("LLD", nm + "_l")]
            dd = [a, b]
            feat["d_cycle_across_local_and_master"] += 1
        ops += [("FD", d) for d in dd[:5]]
        out.append(("cycle", ops))
    return out


# ----------------------------------------------------------------------------------------------- (e) versions
def gen_versions(rng, files, feat, tier):
    out = []
    ops = []
    n = 200 if tier == "quick" else 3000
    for _ in range(n):
        vs = [rng.choice([13, 14, 31, 32, 33, 35, 0, -1, 40, rng.randint(0, 50)]) for _ in range(rng.randint(0, 7))]
        req = rng.choice(vs) if vs and rng.random() < 0.6 else rng.randint(-2, 51)
        ops.append(("USELIST", tuple(vs), req))
        feat["version_requested_is_in_list" if req in vs else "version_requested_not_in_list"] += 1
    for j in range(0, len(ops), 50):
        out.append(("versions", ops[j:j + 50]))
    T = os.path.join(vlib.REPO, "Tables")
    have = []
    for v in (13, 31, 32, 35):
        p = os.path.join(T, "table_b_bufr-%d" % v)
        if os.path.exists(p) and os.path.exists(os.path.join(T, "table_d_bufr-%d" % v)):
            have.append((v, ct.read_cmc_b(p)["version"]))
    if have:
        lops = []
        for _ in range(6 if tier == "quick" else 40):
            nos = [rng.choice([13, 31, 32, 35, 14, 99]) for _ in range(rng.randint(1, 5))]
            present = [fv for (n, fv) in have if n in nos]
            req = rng.choice(present) if present and rng.random() < 0.7 else rng.randint(10, 40)
            lops.append(("LOADLIST", T, tuple(nos), req, tuple(present)))
        out.append(("oracle_only:loadlist", lops))
    return out
