# c10.py — property C10: template expansion equals the regulated expansion, and always terminates.
# proof: Properties_C10.v (equations of the walk, rejections, the finite theorem over the regenerated shipped tables).
# tie: (1) exhaustive: every Table D entry of every shipped table version as a one-descriptor template: static expansion
# (library: descriptor list of a fresh subset) vs Fm94Exp.sexpand, and the element sequence after giving every delayed
# replication the count 1 vs Fm94.layout; (2) generated templates (depth <= 4, factors 0..255, all five factor descriptors)
# compared through layout; (3) ill-formed variants: the library must refuse what the regulation refuses, without crashing.
import os, random, collections
import vlib, codec, gen, bufrmsg, codecrun, tables, gentables

VERS = ["", "-13", "-31", "-32", "-35"]


def c_static_sequence(items):
    """descriptor list of a fresh subset without the markers of what has been expanded in place (Table D, fixed replication)"""
    EXPANDED = 2
    return [it["desc"] for it in items
            if not ((gen.F(it["desc"]) == 3 or (gen.F(it["desc"]) == 1 and gen.Y(it["desc"]) != 0)) and (it["flags"] & EXPANDED))]


def ill_formed(rng, T, base):
    """ill-formed variants of a well-formed template"""
    out = []
    t = list(base)
    reps = [i for i, d in enumerate(t) if gen.F(d) == 1]
    if reps:
        i = rng.choice(reps)
        d = t[i]
        v = list(t); v[i] = d + 1000 * rng.choice([1, 2, 5]); out.append(("span_longer", v))           # span longer: runs past the end or overlaps
        v = t[:i + 1 + (1 if gen.Y(d) == 0 else 0)]; out.append(("truncated_body", v))                    # body cut off
        if gen.Y(d) == 0:
            v = list(t); del v[i + 1]; out.append(("no_factor", v))                                       # delayed replication without class 31
            v = list(t); v[i + 1] = 31003; out.append(("bad_factor", v))
    v = list(t); v.insert(rng.randint(0, len(t)), rng.choice([399999, 363255, 300999])); out.append(("unknown_D", v))
    v = list(t); v.insert(rng.randint(0, len(t)), rng.choice([12999, 1255 if 1255 not in T.B else 2999, 63001 if False else 30999])); out.append(("unknown_B", v))
    out.append(("lone_replication", [100000 + 1000 * rng.randint(1, 3) + rng.randint(1, 4)]))
    out.append(("nested_overrun", [102002, 102002] + t[:1] + t[:1]))
    return out


def run(rep, tier, seed, replay=None):
    gentables.regenerate()
    proved = vlib.proof_step(rep, "Properties_C10", timeout=3000)
    ctx = codec.Ctx()
    rng = random.Random(seed)
    feat = collections.Counter()
    nviol = 0
    # ---------------- (1) every Table D entry of every shipped version
    vers = VERS if not replay else []
    for v in vers:
        bpath = os.path.join(vlib.REPO, "Tables", "table_b_bufr" + v)
        dpath = os.path.join(vlib.REPO, "Tables", "table_d_bufr" + v)
        if not (os.path.exists(bpath) and os.path.exists(dpath)):
            continue
        b = tables.read_table_b(bpath, local=True)
        d = tables.read_table_d(dpath)
        tl = ["TCLEAR"] + tables.model_table_lines(b, d)
        T = gen.Tables(b, d)
        keys = []
        seen = set()
        dup = set()
        for k, _ in d:
            if k not in seen:
                seen.add(k); keys.append(k)
            else:
                dup.add(k)
        # an entry defined twice in one file: which definition a lookup returns is unspecified (qsort + bsearch); leave those,
        # and every entry that reaches one, out of the comparison
        reach = {}
        dd = {}
        for k, seq in d:
            dd.setdefault(k, []).extend(seq)
        def touches_dup(k, depth=0):
            if k in reach:
                return reach[k]
            reach[k] = False
            r = k in dup or any(gen.F(x) == 3 and touches_dup(x, depth + 1) for x in dd.get(k, []))
            reach[k] = r
            return r
        ndup = len([k for k in keys if touches_dup(k)])
        feat["tableD_duplicate_definitions_skipped" + v] += ndup
        keys = [k for k in keys if not touches_dup(k)]
        clines = ["MTABLES %s %s" % (bpath, dpath)] + ["T 4 1 %d" % k for k in keys]
        couts = ctx.run_c(clines)
        if len(couts) < len(clines):
            rep.violation("C10: the library crashed expanding Table D entry %s of table version '%s': %s" % (clines[len(couts)], v or "current", ctx.sanitizer_summary()),
                          {"kind": "expand", "case": clines[len(couts)], "tables": [bpath, dpath]})
            nviol += 1
            continue
        couts = couts[1:]
        rc, mo, err = vlib.sh("ulimit -s unlimited 2>/dev/null || ulimit -s 1000000; exec %s" % ctx.drv, input=("\n".join(tl + ["SEXP 1 %d big" % k for k in keys]) + "\n").encode(), timeout=1800)
        mouts = [l for l in mo.split("\n") if l.startswith("SEXP")]
        # dynamic: count 1 for every delayed replication, everything else missing: element sequence vs layout
        dyn_lines, dyn_keys, dyn_cases = [], [], []
        for k in keys:
            def choose(f):
                if f["desc"] in gen.FACTORS:
                    return dict(raw=1, af=0)
                if f["kind"] in ("str", "chars"):
                    return dict(str=[255] * (f["width"] // 8), af=0)
                if f["kind"] == "refdef":
                    return dict(raw=0, af=0)
                return dict(raw=(1 << f["width"]) - 1 if not f.get("c31") else 1, af=0)
            try:
                s = gen.walk(T, 4, [k], choose, limit=30000)
                if all(gen.wf(f) for f, _ in s) and not any(f["kind"] == "num" and f["width"] > 32 for f, _ in s):
                    dyn_cases.append(dict(ed=4, tmpl=[k], subsets=[s]))
                    dyn_lines.append(gen.case_line(4, 0, [k], [s]))
                    dyn_keys.append(k)
            except gen.Reject:
                feat["tableD_outside_model_scope"] += 1
        douts = ctx.run_c(["MTABLES %s %s" % (bpath, dpath)] + dyn_lines)
        if len(douts) < len(dyn_lines) + 1:
            rep.violation("C10: the library crashed expanding %s (delayed counts 1): %s" % (dyn_lines[len(douts) - 1][:80], ctx.sanitizer_summary()),
                          {"kind": "expand", "case": dyn_lines[len(douts) - 1], "tables": [bpath, dpath]})
            nviol += 1
        douts = douts[1:]
        for k, co, mo1 in zip(keys, couts, mouts):
            rep.count(("D", v, k))
            feat["tableD_static" + v] += 1
            head, subs = codec.parse_c_listing(co)
            mt = mo1.split()
            if mt[1] != "ok":
                rep.violation("C10: Table D entry %06d of version '%s' does not expand under the regulation (%s)" % (k, v or "current", mo1), {"kind": "expand", "entry": k, "version": v}, no_input=True)
                nviol += 1
                continue
            if "accepts=false" in mo1:
                feat["tableD_names_unknown_descriptor"] += 1
                if head.get("rc") == "0":
                    rep.violation("C10: Table D entry %06d (version '%s') names a descriptor that is in no table, yet the library accepts it as a template" % (k, v or "current"),
                                  {"kind": "expand", "case": "T 4 1 %d" % k, "tables": [bpath, dpath]})
                    nviol += 1
            elif head.get("rc") != "0":
                rep.violation("C10: the library refuses Table D entry %06d of the shipped version '%s' as a template (rc=%s)" % (k, v or "current", head.get("rc")),
                              {"kind": "expand", "case": "T 4 1 %d" % k, "tables": [bpath, dpath]})
                nviol += 1
            else:
                cs = c_static_sequence(subs[0])
                mseq2 = [int(x) for x in mt[4:]]
                if cs != mseq2:
                    j = next((i for i, (a, bb) in enumerate(zip(cs, mseq2)) if a != bb), min(len(cs), len(mseq2)))
                    rep.violation("C10: static expansion of %06d (version '%s') differs from regulation 94.5 at position %d: library %s..., regulation %s..."
                                  % (k, v or "current", j, cs[j:j + 6], mseq2[j:j + 6]), {"kind": "expand", "case": "T 4 1 %d" % k, "tables": [bpath, dpath], "library": cs, "regulation": mseq2})
                    nviol += 1
            if nviol > 8:
                break
        for c, co, line in zip(dyn_cases, douts, dyn_lines):
            rep.count(("Ddyn", v, c["tmpl"][0]))
            feat["tableD_dynamic" + v] += 1
            head, subs = codec.parse_c_listing(co)
            if head.get("rc") != "0":
                fail = "the library failed (rc=%s) to build a subset of %06d with every delayed replication count 1" % (head.get("rc"), c["tmpl"][0])
            else:
                fail = codecrun.check_listing_against_intent(c, subs, check_values=False)
            if fail:
                rep.violation("C10: %s (version '%s')" % (fail, v or "current"), {"kind": "expand", "case": line[:3000], "tables": [bpath, dpath]})
                nviol += 1
                if nviol > 8:
                    break
    # back to the default tables
    ctx.run_c(["TABLES"])
    # ---------------- (2) generated templates, (3) ill-formed variants
    n = 300 if tier == "quick" else 3000
    good, _ = codecrun.gen_cases(ctx, rng, n, comp_mode=False, max_depth=4, ops=False) if not replay else ([], None)
    # large factors
    big = []
    for _ in range(20 if tier == "quick" else 200):
        e = rng.choice(ctx.T.pool["code"])
        fdesc = rng.choice([31001, 31002, 31000, 31011, 31012])
        cnt = rng.choice([0, 1, 2, 17, 100, 200, 255]) if fdesc in (31001, 31002) else rng.choice([0, 1]) if fdesc == 31000 else rng.choice([1, 3, 200])
        t = [101000, fdesc, e]
        w = ctx.T.B[e]["width"]
        s = [(dict(desc=fdesc, kind=ctx.T.B[fdesc]["kind"], width=ctx.T.B[fdesc]["width"], scale=0, ref=0, afw=0, c31=True), dict(raw=cnt, af=0))]
        nrep = gen.count_of(fdesc, cnt)
        s += [(dict(desc=e, kind="code", width=w, scale=0, ref=0, afw=0), dict(raw=rng.getrandbits(w) % ((1 << w) - 1) if w > 1 else 0, af=0)) for _ in range(nrep)]
        big.append(dict(ed=4, tmpl=t, subsets=[s], same=False))
    cases = good + big
    if replay and replay.get("case_obj"):
        cases = [replay["case_obj"]]
    clines = [gen.case_line(c["ed"], 0, c["tmpl"], c["subsets"]) for c in cases]
    couts = ctx.run_c(clines)
    codecrun.crash_violation(rep, "C10", ctx, clines, couts, "expanding a well-formed template")
    for c, co, line in zip(cases, couts, clines):
        rep.count(line)
        for ft in codecrun.features(c):
            feat[ft] += 1
        head, subs = codec.parse_c_listing(co)
        if head.get("rc") != "0":
            fail = "the library refuses / fails on (rc=%s) a well-formed template" % head.get("rc")
        else:
            fail = codecrun.check_listing_against_intent(c, subs, check_values=False)
        if fail:
            rep.violation("C10: %s  [case: %s]" % (fail, line[:300]), {"kind": "expand", "case": line, "case_obj": c})
            nviol += 1
            if nviol > 10:
                break
    # second construction path: zero delayed replication counts left at their default (set the outer count, expand once)
    zc = [(c, l) for c, l in zip(cases, clines) if "zero_count" in codecrun.features(c)]
    if zc:
        lo = ctx.run_c(["LAZY 1"] + [l for _, l in zc])[1:]
        ctx.run_c(["LAZY 0"])
        for (c, l), o in zip(zc, lo):
            rep.count(("lazy", l))
            feat["lazy_zero_count"] += 1
            h1, s1 = codec.parse_c_listing(o)
            fail = "building the dataset without setting the zero replication counts failed (rc=%s)" % h1.get("rc") if h1.get("rc") != "0" else codecrun.check_listing_against_intent(c, s1, check_values=False)
            if fail:
                rep.violation("C10: %s  [zero counts left at default; case: %s]" % (fail, l[:300]), {"kind": "expand", "case": l, "case_obj": c, "lazy": True})
                nviol += 1
                break
    # third construction path: two-step expansion.  The first delayed replication is expanded with count 0 (body skipped), the delayed
    # counts inside the skipped body are preset to J, then the outer count is set to K >= 1 and the subset expanded again: the nested
    # replications must come out with the preset counts (regulation 94.5 applied to the counts the application supplied)
    ts = []
    if replay and replay.get("two_step") is not None:
        ts = [(replay["two_step"], replay["case_obj"], gen.case_line(replay["case_obj"]["ed"], 0, replay["case_obj"]["tmpl"], replay["case_obj"]["subsets"]))]
    elif not replay:
        seqs = [d for d in (301011, 301012, 301013, 301021, 301023) if d in ctx.T.D]
        for _ in range(60 if tier == "quick" else 600):
            K = rng.choice([1, 1, 2, 3]); J = rng.choice([0, 1, 2, 2, 3])
            el = lambda: rng.choice(ctx.T.pool["code"])
            inner = rng.choice([[el()], [el(), el()], [rng.choice(seqs)] if seqs else [el()], [el(), rng.choice(seqs)] if seqs else [el()]])
            if rng.random() < 0.3:
                inner = inner + [101000, rng.choice([31001, 31002]), el()]          # a third level, preset to J as well
            pre = [el() for _ in range(rng.randint(0, 2))]
            post = [el() for _ in range(rng.randint(0, 1))]
            body = pre + [100000 + 1000 * len(inner), rng.choice([31001, 31002])] + inner + post
            t = [el() for _ in range(rng.randint(0, 1))] + [100000 + 1000 * len(body), rng.choice([31001, 31002])] + body + [el() for _ in range(rng.randint(0, 1))]
            st = {"first": True}
            def choose(f, K=K, J=J, st=st):
                if f["desc"] in gen.FACTORS:
                    if st["first"]:
                        st["first"] = False
                        return dict(raw=K, af=0)
                    return dict(raw=J, af=0)
                if f["kind"] in ("str", "chars"):
                    return dict(str=[255] * (f["width"] // 8), af=0)
                return dict(raw=(1 << f["width"]) - 1 if not f.get("c31") else 1, af=0)
            try:
                sq = gen.walk(ctx.T, 4, t, choose, limit=30000)
            except gen.Reject:
                continue
            if not all(gen.wf(f) for f, _ in sq) or any(f["kind"] == "num" and f["width"] > 32 for f, _ in sq):
                continue
            c = dict(ed=4, tmpl=t, subsets=[sq], same=False)
            ts.append((J, c, gen.case_line(4, 0, t, [sq])))
    for J in sorted(set(j for j, _, _ in ts)):
        grp = [(c, l) for j, c, l in ts if j == J]
        lo = ctx.run_c(["LAZY 2 %d" % J] + [l for _, l in grp])
        if len(lo) < len(grp) + 1:
            bad_l = grp[max(len(lo) - 1, 0)][1]
            rep.violation("C10: the library crashed in a two-step expansion (outer count 0, inner counts preset to %d, then outer count set and expanded again): %s  [case: %s]" % (J, ctx.sanitizer_summary()[:200], bad_l[:300]),
                          {"kind": "expand", "case": bad_l, "case_obj": grp[max(len(lo) - 1, 0)][0], "two_step": J})
            nviol += 1
            ctx = codec.Ctx()
            continue
        ctx.run_c(["LAZY 0"])
        for (c, l), o in zip(grp, lo[1:]):
            rep.count(("two_step", J, l))
            feat["two_step_preset_%d" % J] += 1
            h1, s1 = codec.parse_c_listing(o)
            fail = ("after the second expansion a nested delayed replication is not expanded with the count the application preset (harness rc=-5)" if h1.get("rc") == "-5"
                    else "the two-step construction failed (rc=%s)" % h1.get("rc")) if h1.get("rc") != "0" else codecrun.check_listing_against_intent(c, s1, check_values=False)
            if fail:
                rep.violation("C10: %s  [two-step expansion: first delayed replication expanded with count 0, the delayed counts of its skipped body preset to %d, then the outer count set and the subset expanded again; case: %s]"
                              % (fail, J, l[:300]), {"kind": "expand", "case": l, "case_obj": c, "two_step": J})
                nviol += 1
                break
    # ill-formed
    bad = []
    if replay and replay.get("template"):
        bad = [(replay.get("label", "replay"), replay["template"])]
    elif not replay:
        for c in good[: (150 if tier == "quick" else 1500)]:
            bad += ill_formed(rng, ctx.T, c["tmpl"])
    mo = ctx.run_model(["SEXP %d %s" % (len(t), " ".join(map(str, t))) for _, t in bad])
    todo = [(lab, t) for (lab, t), o in zip(bad, mo) if "accepts=true" not in o]        # the regulation refuses these
    feat["illformed_still_wellformed"] = len(bad) - len(todo)
    tl = ["T 4 %d %s" % (len(t), " ".join(map(str, t))) for _, t in todo]
    # one at a time on a crash, so every template is tried
    pos = 0
    while pos < len(tl):
        outs = ctx.run_c(tl[pos:])
        for (lab, t), o, line in zip(todo[pos:], outs, tl[pos:]):
            rep.count(line)
            feat["illformed_" + lab] += 1
            head, _ = codec.parse_c_listing(o)
            if head.get("rc") == "0":
                rep.violation("C10: an ill-formed template (%s) is accepted and expanded: %s" % (lab, line), {"kind": "expand", "template": t, "label": lab, "case": line})
                nviol += 1
        if len(outs) < len(tl) - pos:
            bad_line = tl[pos + len(outs)]
            rep.violation("C10: the library crashes / overflows its stack on an ill-formed template (%s) instead of refusing it: %s  [%s]" % (todo[pos + len(outs)][0], bad_line, ctx.sanitizer_summary()[:200]),
                          {"kind": "expand", "template": todo[pos + len(outs)][1], "label": todo[pos + len(outs)][0], "case": bad_line})
            nviol += 1
            pos += len(outs) + 1
        else:
            break
        if nviol > 12:
            break
    # circular local Table D (direct and indirect): use must be refused, not recursed on
    if not replay:
        ld = os.path.join(vlib.scratch(), "local_d_circular.txt")
        open(ld, "w").write("360001 001001 360002\n360002 001002 360003\n360003 001003 360001\n360004 001001 360004\n360005 001001 001002\n"
                            # cycles with a fan-out of two or more per level: refusal must not cost fan-out^depth steps
                            "360006 001001 101002 360006\n360007 360008 360008\n360008 360007 360007\n360009 360009 360009 001001\n360010 001001 102003 360010 001002\n")
        lines = ["TABLES - %s" % ld, "T 4 1 360005", "T 4 1 360001", "T 4 1 360004", "T 4 3 101002 360002 1001",
                 "T 4 1 360006", "T 4 1 360007", "T 4 1 360009", "T 4 1 360010", "T 4 3 101003 360008 1001"]
        import subprocess
        try:
            outs = ctx.run_c(lines, timeout=120)
        except subprocess.TimeoutExpired as te:
            got = (te.stdout or b"").decode("latin-1").split("\n")
            got = [l for l in got if l]
            outs = None
            rep.violation("C10: using a circular local Table D sequence does not return (no answer within 120 s; the other circular cases take milliseconds): %s" % lines[min(len(got), len(lines) - 1)],
                          {"kind": "expand", "case": lines[min(len(got), len(lines) - 1)], "local_table_d": open(ld).read()})
            ctx = codec.Ctx()
        if outs is None:
            pass
        elif len(outs) < len(lines):
            rep.violation("C10: using a circular local Table D sequence crashes the library (%s): %s" % (lines[len(outs)], ctx.sanitizer_summary()[:200]),
                          {"kind": "expand", "case": lines[len(outs)], "local_table_d": open(ld).read()})
        else:
            for line, o in zip(lines[1:], outs[1:]):
                rep.count(line)
                feat["circular_tableD"] += 1
                h, _ = codec.parse_c_listing(o)
                if line.endswith("360005"):
                    if h.get("rc") != "0":
                        rep.violation("C10: a well-formed local Table D entry next to circular ones is refused: %s" % line, {"kind": "expand", "case": line, "local_table_d": open(ld).read()})
                elif h.get("rc") == "0":
                    rep.violation("C10: a circular Table D sequence is expanded: %s" % line, {"kind": "expand", "case": line, "local_table_d": open(ld).read()})
        ctx.run_c(["TABLES"])
    if not proved and not rep.violations:
        rep.violation("C10: proof obligations no longer check (tables changed?) and no failing input was found", getattr(rep, "proof_broken", {}), no_input=True)
    rep.cov["traces_validated_against_impl"] = rep.cov["evaluations"]
    rep.cov["rule"] = ("exhaustive: every Table D entry of the 5 shipped table versions as a one-descriptor template (static expansion vs sexpand; with every delayed count = 1 vs layout); "
                       "generated well-formed templates nesting fixed/delayed replication and Table D to depth 4 incl. zero counts; two-step expansions (outer count 0, nested counts preset, outer count set, expanded again) of nested delayed replications; single delayed replications with factors up to 255 and all five factor descriptors; "
                       "ill-formed variants (span longer, body truncated, factor missing/invalid, unknown Table B/D descriptor, lone replication, nested overrun) that the regulation-level acceptance test refuses. "
                       "distinct = distinct templates / (version, entry) pairs")
    rep.cov["distribution"] = dict(feat)
    rep.cov["exhaustive"] = False
    rep.cov["exhaustive_part"] = "Table D entries x shipped versions: complete"
