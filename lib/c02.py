# c02.py — property C02: compression never changes content; incompressible datasets fall back safely.
import random, collections
import vlib, codec, gen, bufrmsg, codecrun


def run(rep, tier, seed, replay=None):
    proved = vlib.proof_step(rep, "Properties_C02")
    ctx = codec.Ctx()
    rng = random.Random(seed)
    n = 500 if tier == "quick" else 6000
    if replay and replay.get("case_obj"):
        cases = [replay["case_obj"]]
    else:
        cases, rej = codecrun.gen_cases(ctx, rng, n, comp_mode=True, diff_structure_frac=0.25)
    if not (replay and replay.get("case_obj")):
        # associated fields of 63/64 bits whose values lie 2^63-1 or more apart: the 6-bit increment width cannot describe
        # the column, the dataset has no compressed form (fallback required, content unchanged)
        e = ctx.T.pool["num"][0]
        for (a0, a1) in ((0x30da24278d5b8207, (1 << 64) - 1), (0, (1 << 64) - 1), (1, 1 << 63), (5, (1 << 63) + 3), (7, 1 << 62)):
            t = [204057, 31021, 204007, 31021, e, 204000, 204000]
            try:
                subs = [gen.walk(ctx.T, 4, t, (lambda f, a=a: dict(gen.choose_value(rng, f), af=a) if f["afw"] == 64 else (dict(raw=1, af=0) if f["desc"] == 31021 else gen.choose_value(rng, f)))) for a in (a0, a1, a0)]
                cases.append(dict(ed=4, tmpl=t, subsets=subs, same=True))
            except gen.Reject:
                pass
    l0 = [gen.case_line(c["ed"], 0, c["tmpl"], c["subsets"]) for c in cases]
    l1 = [gen.case_line(c["ed"], 1, c["tmpl"], c["subsets"]) for c in cases]
    o0 = ctx.run_c(l0)
    codecrun.crash_violation(rep, "C02", ctx, l0, o0, "encoding uncompressed")
    o1 = ctx.run_c(l1)
    codecrun.crash_violation(rep, "C02", ctx, l1, o1, "encoding with compression requested")
    ml = [gen.case_line(c["ed"], 1, c["tmpl"], c["subsets"], model=True) for c in cases]
    mo = ctx.run_model(ml)
    h0 = [codec.parse_c_listing(o)[0] for o in o0]
    h1 = [codec.parse_c_listing(o)[0] for o in o1]
    d0 = ctx.run_c(["D " + (h.get("msg") or "00") for h in h0])
    d1l = ["D " + (h.get("msg") or "00") for h in h1]
    d1 = ctx.run_c(d1l)
    codecrun.crash_violation(rep, "C02", ctx, d1l, d1, "decoding its compressed message")
    feat = collections.Counter()
    nviol = 0
    for i, c in enumerate(cases):
        if i >= len(o1) or i >= len(d1) or i >= len(d0) or i >= len(o0):
            break
        key = l1[i]
        rep.count(key)
        same = codecrun.same_structure(c)
        for ft in codecrun.features(c):
            feat[ft] += 1
        feat["same_structure" if same else "different_structure"] += 1
        if i % 211 == 0:
            rep.sample({"case": key[:400], "compressed": o1[i][:140]})
        robj = {"kind": "codec", "case": key, "case_obj": c, "compressed": o1[i][:3000], "plain": o0[i][:1000], "decoded_compressed": d1[i][:3000]}
        fail = None
        if h1[i].get("rc") == "-3":
            fail = "the encoder terminated the process (exit) when asked to compress"
        elif h1[i].get("rc") != "0":
            if h0[i].get("rc") == "0":
                fail = "encoding with compression failed (rc=%s) though the uncompressed encoding works" % h1[i].get("rc")
        else:
            p = bufrmsg.parse(bytes.fromhex(h1[i]["msg"]))
            dh, dsubs = codec.parse_c_listing(d1[i])
            dh0, dsubs0 = codec.parse_c_listing(d0[i])
            if not same and p["compressed"]:
                fail = "subsets of different structure were emitted as a compressed message"
            elif dh.get("rc") != "0" or dh.get("invalid") != "0":
                fail = "the message produced with compression requested does not decode cleanly (rc=%s invalid=%s)" % (dh.get("rc"), dh.get("invalid"))
            else:
                fail = codecrun.check_listing_against_intent(c, dsubs)
                if not fail and dh0.get("rc") == "0":
                    a = [[(e["desc"], e["val"], e["af"]) for e in codec.c_elements(s)] for s in dsubs]
                    b = [[(e["desc"], e["val"], e["af"]) for e in codec.c_elements(s)] for s in dsubs0]
                    if a != b:
                        fail = "decoding the compressed message differs from decoding the uncompressed one"
            if not fail and same and not p["compressed"] and not mo[i].startswith("ENC ok"):
                feat["same_structure_without_compressed_form(reference encoder refuses too)"] += 1      # e.g. a 64-bit associated field spanning >= 2^63-1
            elif not fail and same and not p["compressed"]:
                rep.violation("C02: correspondence broken: a compressible dataset was not compressed by the library (allowed by the property, but the mirror compresses it)  [case: %s]" % key[:200],
                              dict(robj, correspondence="bufr_dataset_compressible vs Fm94.enc_comp"), no_input=True)
                nviol += 1
            elif not fail and same and mo[i].startswith("ENC ok"):
                mb = bytes.fromhex(mo[i].split()[3])
                if not codecrun.s4_equal(p["s4"], mb):
                    rep.violation("C02: correspondence broken: compressed Section 4 differs from the reference encoder (%s vs %s), content still decodes correctly  [case: %s]"
                                  % (p["s4"].hex()[:50], mb.hex()[:50], key[:200]), dict(robj, correspondence="bufr_put_*_compressed vs Fm94.enc_col"), no_input=True)
                    nviol += 1
        if fail:
            rep.violation("C02: %s  [case: %s]" % (fail, key[:300]), robj)
            nviol += 1
        if nviol > 10:
            break
    # ---- datasets with a history: a dataset DECODED from a compressed message (it carries the COMPRESSED flag of that
    # message) gets further subsets - of the same or of a different replication structure - and is encoded with compression
    # requested: the result must decode to all subsets, falling back to an uncompressed message when the structure differs.
    if not rep.violations:
        al, ameta = [], []
        if replay and replay.get("append_line"):
            al = [replay["append_line"]]; ameta = [replay["append_case"]]
        elif not replay:
            for i, c in enumerate(cases):
                if len(al) >= (60 if tier == "quick" else 600) or i >= len(h1):
                    break
                if h1[i].get("rc") != "0" or h1[i].get("comp") != "1":
                    continue
                try:
                    extra = gen.gen_dataset(rng, ctx.T, c["ed"], c["tmpl"], rng.choice([1, 2]))
                except gen.Reject:
                    continue
                toks = " | ".join(" ".join(gen.token(v) for _, v in s_) for s_ in extra) + " |"
                al.append("A 1 %s %d %s" % (h1[i]["msg"], len(extra), toks))
                ameta.append(dict(ed=c["ed"], tmpl=c["tmpl"], subsets=c["subsets"] + extra, same=False))
        ao = ctx.run_c(al)
        if len(ao) < len(al):
            rep.violation("C02: the library crashed / was stopped by the sanitizer encoding a decoded compressed dataset that got further subsets: %s  [case: %s]" % (
                ctx.sanitizer_summary(), al[len(ao)][:300]), {"kind": "codec", "append_line": al[len(ao)], "append_case": ameta[len(ao)]})
        ah = [codec.parse_c_listing(o)[0] for o in ao]
        ad = ctx.run_c(["D " + (h.get("msg") or "00") for h in ah])
        for line, c2, h, dd in zip(al, ameta, ah, ad):
            rep.count(("append", line))
            same2 = codecrun.same_structure(c2)
            feat["decoded_then_extended_" + ("same_structure" if same2 else "different_structure")] += 1
            robj = {"kind": "codec", "append_line": line, "append_case": c2, "result": dd[:3000]}
            fail = None
            if h.get("rc") == "-3":
                fail = "the encoder terminated the process (exit) on a decoded compressed dataset that got a further subset"
            elif h.get("rc") != "0":
                fail = "encoding a decoded compressed dataset that got a further subset failed (rc=%s)" % h.get("rc")
            else:
                dh, dsubs = codec.parse_c_listing(dd)
                if not same2 and h.get("comp") == "1":
                    fail = "subsets of different structure were emitted as a compressed message (dataset decoded from a compressed message, then extended)"
                elif dh.get("rc") != "0" or dh.get("invalid") != "0":
                    fail = "the message does not decode cleanly (rc=%s invalid=%s)" % (dh.get("rc"), dh.get("invalid"))
                else:
                    fail = codecrun.check_listing_against_intent(c2, dsubs)
            if fail:
                rep.violation("C02: %s  [case: %s]" % (fail, line[:300]), robj)
                break
    if not proved and not rep.violations:
        rep.violation("C02: proof obligations no longer check and the correspondence run found no failing input", getattr(rep, "proof_broken", {}), no_input=True)
    rep.cov["traces_validated_against_impl"] = len(cases)
    rep.cov["rule"] = ("multi-subset datasets (2..7 subsets); 75% share the structure (columns shaped equal / random / partly missing / near / full span, strings equal/different/missing, "
                       "associated fields equal/different), 25% are generated independently (different replication counts, incl. different counts of equal total length); "
                       "compression requested; oracle: decode(compressed) == intention == decode(uncompressed), no exit. distinct = distinct case lines")
    rep.cov["distribution"] = dict(feat)
