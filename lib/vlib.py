# vlib.py — common machinery of the /verif checks (scratch dirs, C build, Coq build, extraction,
# OCaml driver build, evidence, known findings, violation reporting).
import atexit, glob, hashlib, json, os, random, re, shutil, subprocess, sys, tempfile, time

VERIF = os.path.dirname(os.path.dirname(os.path.abspath(__file__)))
REPO = os.environ.get("VERIF_REPO", "/repo")
COQ = os.path.join(VERIF, "coq")
NCPU = 16

_scratch = None


def scratch():
    """Scratch directory outside /repo and /verif, removed at exit."""
    global _scratch
    if _scratch is None:
        base = os.environ.get("VERIF_TMP", tempfile.gettempdir())
        _scratch = tempfile.mkdtemp(prefix="verif_", dir=base)
        atexit.register(lambda: shutil.rmtree(_scratch, ignore_errors=True))
    return _scratch


def sh(cmd, timeout=None, cwd=None, env=None, check=False, input=None):
    e = dict(os.environ)
    if env:
        e.update(env)
    p = subprocess.run(cmd, shell=isinstance(cmd, str), cwd=cwd, env=e, timeout=timeout,
                       stdout=subprocess.PIPE, stderr=subprocess.PIPE, input=input)
    out = p.stdout.decode("latin-1")
    err = p.stderr.decode("latin-1")
    if check and p.returncode != 0:
        raise RuntimeError("command failed (%d): %s\n%s\n%s" % (p.returncode, cmd, out[-3000:], err[-3000:]))
    return p.returncode, out, err


# ------------------------------------------------------------------ C side
_libdir = {}


def build_lib(mode="asan"):
    """Compile /repo's working tree of API/Sources into a static library (scratch)."""
    if mode in _libdir:
        return _libdir[mode]
    d = os.path.join(scratch(), "lib_" + mode)
    rc, out, err = sh([os.path.join(VERIF, "harness", "build.sh"), d, mode], timeout=600)
    if rc != 0:
        # the tree does not compile: not a property violation we can decide; report as a broken build
        print("BUILD-FAILED: /repo working tree does not compile\n" + err[-2000:])
        raise BuildFailed(err)
    _libdir[mode] = d
    return d


class BuildFailed(Exception):
    pass


def build_harness(name, mode="asan", extra_src=(), wrap=(), replace=()):
    """Compile harness/<name>.c against the library.  `replace` = list of (objname, wrapper.c): the wrapper
    TU #includes the library .c file (to reach statics) and replaces that object."""
    d = build_lib(mode)
    cflags = open(os.path.join(d, "cflags")).read().strip()
    exe = os.path.join(d, name)
    objs = sorted(glob.glob(os.path.join(d, "obj", "*.o")))
    srcs = [os.path.join(VERIF, "harness", name + ".c")] + [os.path.join(VERIF, "harness", s) for s in extra_src]
    for objname, wsrc in replace:
        objs = [o for o in objs if os.path.basename(o) != objname + ".o"]
        srcs.append(os.path.join(VERIF, "harness", wsrc))
    wl = "".join(" -Wl,--wrap=%s" % w for w in wrap)
    cmd = "gcc %s -DVERIF_REPO_DIR='\"%s\"' -I%s/harness %s %s -o %s%s -lm" % (
        cflags, REPO, VERIF, " ".join(srcs), " ".join(objs), exe, wl)
    rc, out, err = sh(cmd, timeout=600)
    if rc != 0:
        print("BUILD-FAILED: harness %s\n%s" % (name, err[-3000:]))
        raise BuildFailed(err)
    return exe


ASAN_ENV = {"ASAN_OPTIONS": "detect_leaks=0:abort_on_error=0:exitcode=99:allocator_may_return_null=1",
            "UBSAN_OPTIONS": "print_stacktrace=0:halt_on_error=0:suppressions=" + os.path.join(VERIF, "harness", "ubsan.supp")}


# ------------------------------------------------------------------ Coq side
FORBIDDEN = re.compile(r"\b(Admitted|admit|Axiom|Axioms|Parameter|Parameters|Conjecture|Hypothesis|Variable|"
                       r"Unset\s+Guard|bypass_check|Unset\s+Positivity|Unset\s+Universe|type-in-type|impredicative-set|"
                       r"Admit\s+Obligations|native_compute)\b")


def strip_comments(src):
    out, depth, i = [], 0, 0
    while i < len(src):
        if src.startswith("(*", i):
            depth += 1; i += 2
        elif src.startswith("*)", i) and depth > 0:
            depth -= 1; i += 2
        else:
            if depth == 0:
                out.append(src[i])
            i += 1
    return "".join(out)


def lint_coq():
    """Forbidden vernacular anywhere in the development.  Variable/Hypothesis are allowed only inside a Section."""
    problems = []
    for f in sorted(glob.glob(os.path.join(COQ, "theories", "*.v")) + glob.glob(os.path.join(COQ, "extract", "*.v"))):
        src = strip_comments(open(f).read())
        depth = 0
        for ln, line in enumerate(src.split("\n"), 1):
            if re.match(r"\s*Section\s+\w+", line):
                depth += 1
            if re.match(r"\s*End\s+\w+\s*\.", line) and depth > 0:
                depth -= 1
            for m in FORBIDDEN.finditer(line):
                w = m.group(1)
                if w in ("Variable", "Hypothesis") and depth > 0:
                    continue
                problems.append("%s:%d: %s" % (os.path.relpath(f, VERIF), ln, w))
    return problems


def coq_project():
    """(Re)generate _CoqProject and Makefile from the files present."""
    files = sorted(glob.glob(os.path.join(COQ, "theories", "*.v")))
    head = open(os.path.join(COQ, "_CoqProject.head")).read()
    body = head + "".join("theories/%s\n" % os.path.basename(f) for f in files)
    p = os.path.join(COQ, "_CoqProject")
    old = open(p).read() if os.path.exists(p) else None
    if old != body or not os.path.exists(os.path.join(COQ, "Makefile")):
        open(p, "w").write(body)
        sh("coq_makefile -f _CoqProject -o Makefile", cwd=COQ, check=True, timeout=120)


def coq_make(targets=(), timeout=3000):
    """Full .vo build (never -vos).  Returns (ok, log)."""
    coq_project()
    tg = " ".join("theories/%s.vo" % t for t in targets)
    rc, out, err = sh("timeout %d make -k -j%d %s" % (timeout, NCPU, tg), cwd=COQ, timeout=timeout + 60)
    return rc == 0, out + err


def coq_property(prop_file, timeout=1200):
    """Build everything Properties_<id>.v depends on, then compile it capturing the Print Assumptions output.
    Returns dict(ok, theorems=[{name, closed, axioms:[...]}], log)."""
    ok, log = coq_make([prop_file], timeout=timeout)
    res = {"ok": ok, "theorems": [], "log": log[-4000:]}
    if not ok:
        return res
    # recompile the property file alone to capture its output (dependencies are up to date)
    rc, out, err = sh("timeout %d coqc -Q theories V theories/%s.v" % (timeout, prop_file), cwd=COQ, timeout=timeout + 60)
    if rc != 0:
        res["ok"] = False
        res["log"] = (out + err)[-4000:]
        return res
    src = strip_comments(open(os.path.join(COQ, "theories", prop_file + ".v")).read())
    names = re.findall(r"Print\s+Assumptions\s+([\w']+)\s*\.", src)
    # split the output into one block per Print Assumptions, in order
    blocks = re.split(r"(?m)^(?=Closed under the global context|Axioms:)", out)
    blocks = [b for b in blocks if b.startswith("Closed under") or b.startswith("Axioms:")]
    for i, n in enumerate(names):
        b = blocks[i] if i < len(blocks) else ""
        if b.startswith("Closed under"):
            res["theorems"].append({"name": n, "closed": True, "axioms": []})
        else:
            ax = [a for a in re.findall(r"(?m)^([\w.']+)\s*:", b) if a != "Axioms"]      # the block header line is "Axioms:"
            res["theorems"].append({"name": n, "closed": False, "axioms": ax})
    if len(blocks) != len(names):
        res["ok"] = False
        res["log"] = "Print Assumptions blocks (%d) != theorems (%d)\n%s" % (len(blocks), len(names), out[-3000:])
    return res


# axioms the standard library itself declares (allowed when named in the trusted base)
STD_AXIOMS = {
    "ClassicalDedekindReals.sig_forall_dec", "ClassicalDedekindReals.sig_not_dec",
    "FunctionalExtensionality.functional_extensionality_dep", "Classical_Prop.classic",
    "functional_extensionality_dep", "sig_forall_dec", "sig_not_dec", "classic",
    "Eqdep.Eq_rect_eq.eq_rect_eq", "JMeq.JMeq_eq", "ProofIrrelevance.proof_irrelevance",
}


def extract_and_build_driver(name, timeout=900):
    """coq/extract/<name>.v extracts to <name>_model.ml (ExtrOcamlBasic only); the driver is
    'open <Name>_model' + ocaml/conv.ml + ocaml/<name>_driver.ml.  Returns the executable path."""
    d = os.path.join(scratch(), "ml_" + name)
    os.makedirs(d, exist_ok=True)
    rc, out, err = sh("timeout %d coqc -Q %s/theories V %s/extract/%s.v -o %s/%s.vo" % (timeout, COQ, COQ, name, d, name),
                      cwd=d, timeout=timeout + 30)
    if rc != 0:
        raise RuntimeError("extraction failed: " + (out + err)[-3000:])
    model = "%s_model" % name
    if not os.path.exists(os.path.join(d, model + ".ml")):
        raise RuntimeError("extraction produced no %s.ml" % model)
    drv = "open %s\n" % (model[0].upper() + model[1:])
    drv += open(os.path.join(VERIF, "ocaml", "conv.ml")).read() + "\n"
    drv += open(os.path.join(VERIF, "ocaml", name + "_driver.ml")).read()
    open(os.path.join(d, "driver.ml"), "w").write(drv)
    rc, out, err = sh("ocamlfind ocamlopt -O2 -w -a %s.mli %s.ml driver.ml -o driver" % (model, model),
                      cwd=d, timeout=600)
    if not os.path.exists(os.path.join(d, "driver")):
        raise RuntimeError("ocaml build failed: " + (out + err)[-3000:])
    return os.path.join(d, "driver")


def extraction_directives():
    """Every Extract Constant / Extract Inductive directive used (ours: none; ExtrOcamlBasic's are listed)."""
    ours = []
    for f in glob.glob(os.path.join(COQ, "extract", "*.v")) + glob.glob(os.path.join(COQ, "theories", "*.v")):
        for line in strip_comments(open(f).read()).split("\n"):
            if re.search(r"\bExtract\s+(Inlined\s+)?(Constant|Inductive)\b", line):
                ours.append(os.path.basename(f) + ": " + line.strip())
    return ours


# ------------------------------------------------------------------ findings, evidence, reporting
def known_findings(prop):
    p = os.path.join(VERIF, "known_findings.json")
    if not os.path.exists(p):
        return []
    return [f for f in json.load(open(p)).get("findings", []) if f.get("property") == prop and f.get("status") == "open"]


class Report:
    def __init__(self, prop, tier, seed):
        self.prop, self.tier, self.seed = prop, tier, seed
        self.t0 = time.time()
        self.violations = []       # (what, replay dict, no_input_found)
        self.known = []
        self.cov = {"evaluations": 0, "distinct_nontrivial": 0, "rule": "", "samples": [],
                    "obligations": 0, "discharged": 0, "checker_cmd": "", "trusted_base": [],
                    "traces_validated_against_impl": 0, "exhaustive": False}
        self.assumptions = []
        self.level = "proof"
        self._distinct = set()

    def count(self, case_key, nontrivial=True):
        self.cov["evaluations"] += 1
        if nontrivial:
            h = hashlib.sha1(repr(case_key).encode()).digest()[:8]
            self._distinct.add(h)

    def sample(self, s, maxn=6):
        if len(self.cov["samples"]) < maxn:
            self.cov["samples"].append(s)

    def violation(self, what, replay, no_input=False):
        self.violations.append((what, replay, no_input))

    def finding(self, what):
        if what not in self.known:
            self.known.append(what)

    def proofs(self, res, checker_cmd):
        """Record the result of coq_property."""
        n = len(res["theorems"])
        self.cov["obligations"] += max(n, 1)
        self.cov["checker_cmd"] = checker_cmd
        if res["ok"]:
            self.cov["discharged"] += n
        ax = sorted({a for t in res["theorems"] for a in t["axioms"]})
        self.cov["axioms"] = ax
        self.cov["theorems"] = [t["name"] + (" [closed]" if t["closed"] else " [axioms: %s]" % ", ".join(t["axioms"])) for t in res["theorems"]]
        bad = [a for a in ax if a not in STD_AXIOMS and a.split(".")[-1] not in {x.split(".")[-1] for x in STD_AXIOMS}]
        return bad

    def finish(self):
        self.cov["distinct_nontrivial"] = len(self._distinct)
        ev = {"property_id": self.prop, "tier": self.tier, "seed": self.seed, "level": self.level,
              "coverage": self.cov, "assumptions": self.assumptions,
              "wall_s": round(time.time() - self.t0, 2), "violations": len(self.violations)}
        os.makedirs(os.path.join(VERIF, "evidence"), exist_ok=True)
        with open(os.path.join(VERIF, "evidence", self.prop + ".json"), "w") as f:
            json.dump(ev, f, indent=1, default=str)
        for k in self.known:
            print("KNOWN-FINDING: property=%s %s" % (self.prop, k))
        if self.violations:
            os.makedirs(os.path.join(VERIF, "replays"), exist_ok=True)
            # violations with a concrete failing input first: a broken correspondence is reported only as far as no input was found
            ordered = sorted(self.violations, key=lambda v: bool(v[2]))
            for i, (what, replay, no_input) in enumerate(ordered[:5]):
                path = os.path.join(VERIF, "replays", "%s_%d.json" % (self.prop, i))
                rp = dict(replay)
                rp.setdefault("property", self.prop)
                rp["what"] = what
                with open(path, "w") as f:
                    json.dump(rp, f, indent=1, default=str)
                print("%s" % what)
                print("VIOLATION property=%s replay=%s%s" % (self.prop, path, " no-failing-input-found" if no_input else ""))
            return 1
        print("OK property=%s tier=%s evaluations=%d distinct=%d obligations=%d/%d wall=%.1fs" % (
            self.prop, self.tier, self.cov["evaluations"], self.cov["distinct_nontrivial"],
            self.cov["discharged"], self.cov["obligations"], time.time() - self.t0))
        return 0


BASE_TRUST = [
    "Coq 8.16.1 kernel incl. vm_compute (no native_compute)",
    "hand-written Gallina mirror of the C functions; faithfulness is CHECKED by the correspondence run of this check, not proved",
    "extraction: Require ExtrOcamlBasic only (its Extract Inductive bool/option/unit/list/prod/sumbool/sumor, Extract Inlined Constant andb/orb); no directives of our own; OCaml 4.13.1 ocamlopt",
    "correspondence harness: harness/*.c, ocaml/*_driver.ml, ocaml/conv.ml, lib/*.py (generation, canonicalisation, diff)",
    "C compiler gcc 12 -O1 with ASan/UBSan, glibc",
]


def run_cases(exe, case_text, timeout=600, env=None):
    """Feed a case file on stdin, return list of output lines."""
    e = dict(ASAN_ENV)
    if env:
        e.update(env)
    rc, out, err = sh([exe], input=case_text.encode("latin-1"), timeout=timeout, env=e)
    return rc, out.split("\n"), err


def proof_step(rep, prop_file, timeout=1800):
    """lint + build + Print Assumptions for one Properties_<id>.v; records obligations; returns True when all discharged."""
    problems = lint_coq()
    if problems:
        rep.violation("forbidden vernacular in the Coq development: " + "; ".join(problems[:5]),
                      {"kind": "lint", "problems": problems}, no_input=True)
    res = coq_property(prop_file, timeout=timeout)
    bad = rep.proofs(res, "coq_makefile -f _CoqProject && make -k -j16 theories/%s.vo (full .vo); coqc theories/%s.v (Print Assumptions parsed)" % (prop_file, prop_file))
    rep.cov["trusted_base"] = list(BASE_TRUST) + ["axioms reported by Print Assumptions: " + (", ".join(rep.cov.get("axioms", [])) or "none (closed under the global context)"),
                                                  "extraction directives of our own: " + (", ".join(extraction_directives()) or "none")]
    if not res["ok"]:
        rep.proof_broken = {"theorem_file": "coq/theories/%s.v" % prop_file, "log": res["log"]}
    elif bad:
        rep.violation("theorems depend on axioms outside the allowed standard-library set: %s" % bad,
                      {"kind": "axioms", "axioms": bad}, no_input=True)
    return res["ok"]
