# c12tables.py — property C12: readers and writers of table files, written from the FILE FORMATS (not from bufr_tables.c).
#   * CMC column format of Table B with an optional ruler line (a '*' at the first column of each field), the reader of
#     lib/tables.py covers only the default columns; both must agree on files without a ruler (checked by c12.py);
#   * CMC Table D;
#   * WMO CSV Table B / Table D (BUFRCREX_TableB_en.txt / BUFR_TableD_en.txt), read with Python's csv module.
# A field that is not a plain decimal integer makes the entry "fuzzy": the oracle then requires nothing about it.
import csv, io, re
import tables

INT = re.compile(r"^[ ]*[+-]?\d+[ ]*$")
DEFAULT_COLS = [0, 8, 52, 63, 66, 78]
UNIT_W = 11


def F(d):
    return int(d / 100000)       # truncation towards zero, as DESC_TO_F on a C int


def field_int(s):
    return int(s) if INT.match(s) else None


# ------------------------------------------------------------------------------------------------ CMC Table B
def read_cmc_b(path):
    """-> dict(version, ruler, cols, flagcol, entries=[dict(desc, name, unit, kind, scale, ref, width, fuzzy, line)])"""
    raw = open(path, "rb").read().decode("latin-1")
    lines = raw.split("\n")
    cols, flagcol, ruler = list(DEFAULT_COLS), None, False
    start = 0
    if lines:
        stars = [i for i, c in enumerate(lines[0][:256]) if c == "*"]
        if len(stars) >= 6:
            ruler = True
            cols = stars[:6]
            flagcol = stars[6] if len(stars) == 7 else None
            start = 1
    version = None
    ents = []
    for ln in range(start, len(lines)):
        line = lines[ln]
        if line.startswith("#"):
            continue
        if version is None and line.startswith("** VERSION"):
            m = re.match(r"\s*([+-]?\d+)", line[11:])
            version = int(m.group(1)) if m else 0
        if not line or line[0] != "0":
            continue
        if len(line) < 81:                       # an incomplete line is not an entry
            continue
        d = field_int(line[cols[0]:cols[1]])
        if d is None or F(d) != 0:
            continue
        if flagcol is not None and len(line) > flagcol and line[flagcol] == "-":
            continue                             # entry marked as withdrawn
        unit = line[cols[2]:cols[2] + UNIT_W].rstrip()
        sc = field_int(line[cols[3]:cols[4]])
        rf = field_int(line[cols[4]:cols[5]])
        m = re.match(r"^ *([+-]?\d+)(?=\s|$)", line[cols[5]:flagcol] if flagcol is not None else line[cols[5]:])
        wd = int(m.group(1)) if m else None          # free text may follow the width
        fuzzy = sc is None or rf is None or wd is None or unit != unit.lstrip()
        ents.append(dict(desc=d, name=line[cols[1]:cols[2]].rstrip(" "), unit=unit, kind=tables.unit_kind(unit),
                         scale=sc, ref=rf, width=wd, fuzzy=fuzzy, line=ln + 1))
    return dict(version=-1 if version is None else version, ruler=ruler, cols=cols, flagcol=flagcol, entries=ents)


def fmt_b_line(e, cols=None, flagcol=None):
    """one Table B line; fields are right-aligned in their columns (scale 3, reference 11, width 5 wide at least)"""
    cols = cols or DEFAULT_COLS
    s = "%06d" % e["desc"] if e["desc"] >= 0 else "%d" % e["desc"]
    s = s.ljust(cols[1])
    s += e["name"][:cols[2] - cols[1]].ljust(cols[2] - cols[1])
    s += e["unit"][:UNIT_W].ljust(cols[3] - cols[2])
    s += ("%d" % e["scale"]).rjust(cols[4] - cols[3])
    s += ("%d" % e["ref"]).rjust(cols[5] - cols[4])
    s += " " + ("%d" % e["width"]).rjust(5)
    if flagcol is not None and e.get("flag") != "none":        # "none": the line ends after the width field
        s = s.ljust(flagcol) + (e.get("flag") or " ")
    return s


def ruler_line(cols, flagcol=None):
    n = (flagcol if flagcol is not None else cols[5] + 6) + 1
    r = [" "] * n
    for c in cols:
        r[c] = "*"
    if flagcol is not None:
        r[flagcol] = "*"
    return "".join(r).rstrip()


# ------------------------------------------------------------------------------------------------ CMC Table D
def read_cmc_d(path):
    """-> entries [(key, [members], fuzzy)]: a line starting with 3 lists the sequence descriptor and its members"""
    raw = open(path, "rb").read().decode("latin-1")
    ents = []
    for line in raw.split("\n"):
        line = line.rstrip("\r")                   # CR LF line ends
        if not line or line[0] != "3":
            continue
        toks = [t for t in re.split(r"[ \t]+", line) if t]
        if len(toks) < 2:
            continue
        vals = [int(t) if re.match(r"^[+-]?\d+$", t) else None for t in toks]
        fuzzy = any(v is None for v in vals)
        ents.append((vals[0], vals[1:], fuzzy))
    return ents


# ------------------------------------------------------------------------------------------------ WMO CSV
B_HEADER = ["ClassNo", "ClassName_en", "FXY", "ElementName_en", "Note_en", "BUFR_Unit", "BUFR_Scale", "BUFR_ReferenceValue",
            "BUFR_DataWidth_Bits", "CREX_Unit", "CREX_Scale", "CREX_DataWidth_Char", "Status"]
D_HEADER = ["Category", "CategoryOfSequences_en", "FXY1", "Title_en", "SubTitle_en", "FXY2", "ElementName_en",
            "ElementDescription_en", "Note_en", "Status"]


def read_csv_b(path):
    raw = open(path, "rb").read().decode("latin-1")
    rows = list(csv.reader(io.StringIO(raw, newline="")))
    if not rows:
        return dict(version=None, entries=[])
    hdr = rows[0]
    ix = {n: hdr.index(n) for n in ("FXY", "ElementName_en", "BUFR_Unit", "BUFR_Scale", "BUFR_ReferenceValue", "BUFR_DataWidth_Bits")}
    ents = []
    for ln, r in enumerate(rows[1:], 2):
        if len(r) != len(hdr):
            continue
        d = field_int(r[ix["FXY"]])
        if d is None or F(d) != 0:
            continue
        unit = r[ix["BUFR_Unit"]]
        sc, rf, wd = (field_int(r[ix[k]]) for k in ("BUFR_Scale", "BUFR_ReferenceValue", "BUFR_DataWidth_Bits"))
        ents.append(dict(desc=d, name=r[ix["ElementName_en"]], unit=unit, kind=tables.unit_kind(unit), scale=sc, ref=rf, width=wd,
                         fuzzy=sc is None or rf is None or wd is None, line=ln))
    return dict(version=None, entries=ents)


def read_csv_d(path):
    """rows (FXY1, FXY2): consecutive rows with the same FXY1 form one sequence"""
    raw = open(path, "rb").read().decode("latin-1")
    rows = list(csv.reader(io.StringIO(raw, newline="")))
    if not rows:
        return []
    hdr = rows[0]
    i1, i2 = hdr.index("FXY1"), hdr.index("FXY2")
    ents = []
    cur = None
    for r in rows[1:]:
        if len(r) != len(hdr):
            continue
        a, b = field_int(r[i1]), field_int(r[i2])
        if cur is not None and cur[0] == a:
            cur[1].append(b)
        else:
            cur = [a, [b], False]
            ents.append(cur)
        if a is None or b is None:
            cur[2] = True
    return [(k, seq, fz) for k, seq, fz in ents]


def csv_cell(s):
    if any(c in s for c in ',"\n') or s != s.strip():
        return '"' + s.replace('"', '""') + '"'
    return s


def csv_b_text(entries, extra_rows=()):
    out = [",".join(B_HEADER)]
    for e in entries:
        x = (e["desc"] // 1000) % 100 if e["desc"] >= 0 else 0
        row = ["%02d" % x, "Class %d" % x, "%06d" % e["desc"] if e["desc"] >= 0 else "%d" % e["desc"], e["name"], e.get("note", ""), e["unit"], "%d" % e["scale"],
               "%d" % e["ref"], "%d" % e["width"], e["unit"], "%d" % e["scale"], "%d" % max(1, e["width"] // 3), "Operational"]
        out.append(",".join(csv_cell(c) for c in row))
    out.extend(extra_rows)
    return "\n".join(out) + "\n"


def csv_d_text(entries, titles=None):
    out = [",".join(D_HEADER)]
    for k, seq in entries:
        for m in seq:
            row = ["%02d" % ((k // 1000) % 100), "Sequences", "%06d" % k, (titles or {}).get(k, "Sequence %06d" % k), "", "%06d" % m, "Element %06d" % m, "", "", "Operational"]
            out.append(",".join(csv_cell(c) for c in row))
    return "\n".join(out) + "\n"


def stale_flag_lines(path, flagcol):
    """Line numbers (1-based) at which a reader that keeps ONE line buffer and looks at column `flagcol` without checking
    the length of the line would see a '-' left over from an earlier, longer line.  (Prediction of the recorded defect
    flag_column_stale_read for lib/c12.py; not part of the oracle.)"""
    raw = open(path, "rb").read().decode("latin-1")
    buf = [" "] * 1024
    out = set()
    parts = raw.split("\n")
    for ln, line in enumerate(parts):
        if ln == len(parts) - 1 and line == "":
            break
        content = line + ("\n" if ln < len(parts) - 1 else "")
        content = content[:255]
        for i, c in enumerate(content):
            buf[i] = c
        buf[len(content)] = "\0"
        if flagcol > len(content) and buf[flagcol] == "-":
            out.add(ln + 1)
    return out
