#!/usr/bin/env python3
# Regenerates /verif/MANIFEST.json from the table below (kept in one place so it is always schema-valid).
import json, os
HERE = os.path.dirname(os.path.dirname(os.path.abspath(__file__)))
COMMON_NOTE = ("Trusted base: Coq 8.16.1 kernel + vm_compute (no native_compute); axioms as printed by Print Assumptions (copied into the evidence file); "
               "the Gallina mirror is hand written and tied to /repo's working tree by the correspondence run of this same command (differential, exhaustive where the "
               "domain is finite) - that tie is checked, not proved; extraction uses ExtrOcamlBasic only; harness/*.c, ocaml/*, lib/*.py; gcc/glibc. ")
CLAIMED = {
    "C11": dict(
        text="Unbounded theorems (any field list, widths 1..64, any offset, any section length) about the mirror of bufr_putbits/bufr_getbits/bufr_skip_bits/strings: "
             "MSB-first gap-free packing, read = bit string at the cursor, skip == read cursor, write-then-read round trip, writes stay inside max_data_len+10, reads never leave the section. "
             "The mirror is compared with the library (ASan build of the working tree) on an exhaustive offset x width x pattern grid and random sequences; an independent bit-string oracle decides violations.",
        note="Outside the model: realloc itself; bufr_put_bitstream (not used by encoder paths covered here).",
        technique="Coq proof by induction over the chunk loop + extracted-model/implementation differential run"),
}
PENDING_REASON = "check not built yet in this round (planned in DESIGN.md section 7); not claimed until its theorem and correspondence exist"
ALL = ["C%02d" % i for i in range(1, 21)]


def main():
    checks = []
    for pid in ALL:
        if pid not in CLAIMED:
            continue
        c = CLAIMED[pid]
        checks.append({
            "property_id": pid,
            "quick_cmd": "./check %s --tier quick" % pid,
            "thorough_cmd": "./check %s --tier thorough" % pid,
            "evidence_file": "evidence/%s.json" % pid,
            "replay_cmd_template": "./check %s --replay {path}" % pid,
            "engine": "coq-model+correspondence",
            "level_claimed": {"category": c.get("category", "proof"), "text": c["text"], "design_ref": "DESIGN.md section 7, " + pid},
            "level_note": COMMON_NOTE + c["note"],
            "technique": c["technique"],
        })
    na = [{"property_id": p, "reason": NA.get(p, PENDING_REASON)} for p in ALL if p not in CLAIMED]
    m = {
        "version": 1,
        "setup_cmd": "./check --setup",
        "hooks": {"guard": "LIBECBUFR_VERIF",
                  "enable": "-DLIBECBUFR_VERIF on the harness build of /repo/API/Sources (harness/build.sh); no source hook exists: statics are reached by harness TUs that #include the library .c, exit/malloc by ld --wrap",
                  "baseline_off_cmd": "make -C /repo -k check",
                  "source_commits": [], "add_only": True},
        "engines": [{"name": "coq-model+correspondence", "path": "coq/", "serves_properties": sorted(CLAIMED),
                     "kind_free_text": "hand-written executable Gallina mirrors + Qed theorems (Coq 8.16.1), extracted to OCaml and run against an ASan build of /repo's working tree on generated/exhaustive cases"}],
        "checks": checks,
        "not_applicable": na,
        "notes": "All checks rebuild the library from /repo's working tree into a scratch directory. known_findings.json lists recorded/fixed defects.",
    }
    json.dump(m, open(os.path.join(HERE, "MANIFEST.json"), "w"), indent=1)


NA = {}
if __name__ == "__main__":
    main()
