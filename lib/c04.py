# c04.py — property C04: the decoder accepts every well-formed FM 94 message and returns the encoded values.
# The messages come from the proved reference encoder (Fm94.enc_plain / enc_comp with a pseudo-random legal choice
# policy: local reference value below the minimum, increment width above the minimum, free fill octet for differing
# strings) wrapped by an independent framing builder using the legal framing freedoms (optional Section 2 of any
# length, bulletin header before 'BUFR', extra pad octets, odd lengths in edition 4).
import random, collections
import vlib, codec, gen, bufrmsg, codecrun


def run(rep, tier, seed, replay=None):
    proved = vlib.proof_step(rep, "Properties_C04")
    ctx = codec.Ctx()
    rng = random.Random(seed)
    n = 500 if tier == "quick" else 6000
    if replay and replay.get("case_obj"):
        jobs = [(replay["case_obj"], replay.get("comp", 0), replay.get("pickseed", 1), replay.get("frame", {}))]
    else:
        plain, _ = codecrun.gen_cases(ctx, rng, n // 2, comp_mode=False, allow203=True)
        comp, _ = codecrun.gen_cases(ctx, rng, n, comp_mode=True, allow_single=True, allow203=True)     # a compressed message may hold a single subset
        jobs = []
        for c in plain + comp:
            cm = 1 if (c["same"] and (len(c["subsets"]) >= 2 or rng.random() < 0.7)) else 0
            if not c["same"] and len(c["subsets"]) == 1 and rng.random() < 0.3:
                cm = 1
            if any(203000 < d < 203255 for d in c["tmpl"]) and any(204000 < d < 204256 for d in c["tmpl"]):
                cm = 0      # 2 03 operands inside a 2 04 scope: generated for uncompressed messages only (see DESIGN section 5)
            fr = dict(s2=(None if rng.random() < 0.5 else bytes(rng.randrange(256) for _ in range(rng.choice([0, 1, 2, 3, 8, 33])))),
                      header=(b"" if rng.random() < 0.6 else bytes(rng.choice(b"\r\n\x01 ABCxyz019") for _ in range(rng.randint(1, 30)))),
                      s4_extra_pad=rng.choice([0, 0, 0, 1, 2, 5]),
                      observed=rng.random() < 0.8)
            jobs.append((c, cm, rng.randint(1, 10 ** 6), fr))
    mlines = [gen.case_line(c["ed"], cm, c["tmpl"], c["subsets"], seed=ps, model=True) for c, cm, ps, fr in jobs]
    mouts = ctx.run_model(mlines)
    dl, idx = [], []
    nonmin = 0
    for i, ((c, cm, ps, fr), mo) in enumerate(zip(jobs, mouts)):
        if not mo.startswith("ENC ok"):
            continue
        s4 = bytes.fromhex(mo.split()[3]) if len(mo.split()) > 3 else b""
        msg = bufrmsg.build(c["ed"], c["tmpl"], len(c["subsets"]), bool(cm), s4, s2=fr.get("s2"), header=fr.get("header", b""),
                            s4_extra_pad=fr.get("s4_extra_pad", 0), observed=fr.get("observed", True))
        dl.append("D " + msg.hex())
        idx.append(i)
    douts = ctx.run_c(dl)
    codecrun.crash_violation(rep, "C04", ctx, dl, douts, "decoding a well-formed foreign message")
    # how many messages really differ from what the library itself would emit
    m0 = ctx.run_model([gen.case_line(c["ed"], cm, c["tmpl"], c["subsets"], seed=0, model=True) for c, cm, ps, fr in jobs])
    feat = collections.Counter()
    nviol = 0
    for k, i in enumerate(idx):
        if k >= len(douts):
            break
        c, cm, ps, fr = jobs[i]
        key = mlines[i]
        rep.count(key)
        if mouts[i] != m0[i]:
            feat["non_minimal_encoding"] += 1
        for ft in codecrun.features(c):
            feat[ft] += 1
        feat["section2" if fr.get("s2") is not None else "no_section2"] += 1
        if fr.get("header"):
            feat["bulletin_header"] += 1
        if fr.get("s4_extra_pad"):
            feat["extra_pad"] += 1
        feat["compressed" if cm else "plain"] += 1
        dh, dsubs = codec.parse_c_listing(douts[k])
        if k % 197 == 0:
            rep.sample({"case": key[:300], "message": dl[k][:200], "decoded": douts[k][:200]})
        robj = {"kind": "codec", "case": key, "case_obj": c, "comp": cm, "pickseed": ps,
                "frame": {kk: (v.hex() if isinstance(v, bytes) else v) for kk, v in fr.items()}, "message": dl[k][2:], "decoded": douts[k][:3000]}
        fail = None
        if dh.get("rc") != "0":
            fail = "the library refuses a well-formed message (rc=%s)" % dh.get("rc")
        elif dh.get("invalid") != "0":
            fail = "the decoded dataset is flagged invalid"
        else:
            fail = codecrun.check_listing_against_intent(c, dsubs)
        if fail:
            rep.violation("C04: %s  [reference-encoded case: %s]" % (fail, key[:300]), robj)
            nviol += 1
        if nviol > 10:
            break
    if not proved and not rep.violations:
        rep.violation("C04: proof obligations no longer check and the correspondence run found no failing input", getattr(rep, "proof_broken", {}), no_input=True)
    rep.cov["traces_validated_against_impl"] = len(idx)
    rep.cov["rule"] = ("messages produced by the proved reference encoder over the C01/C02 dataset space x legal freedoms: per column R0 0..8 below the minimum and NBINC up to 3 above "
                       "the minimum (when still legal), any fill octet as R0 of differing strings; framing: Section 2 of 0..33 octets or none, bulletin header bytes, 0..5 extra pad octets, "
                       "observed/other flag; decoded by the library and compared with the encoded values. distinct = distinct case lines (choice seed included)")
    rep.cov["distribution"] = dict(feat)
    rep.cov["model_refused"] = len(jobs) - len(idx)
