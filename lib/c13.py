# c13.py — property C13: a dataset written in the text dump format and loaded back encodes to the identical message.
# proof: Properties_C13.v (model Dump.v); tie: the dump text the library writes == the model's printer, byte for byte,
# and what the library loads from its own text == the model's loader (values, associated fields, header);
# oracle (library alone, written from the property): for every dataset of the file, in order, the message encoded from
# the loaded dataset equals the message encoded before dumping.
import collections, glob, os, random, struct
from fractions import Fraction
import vlib, tables, gen, codecrun, bufrmsg

SKIPPED, EXPANDED, IGNORED, CLASS31 = 4, 2, 0x10, 1
T_NUMERIC, T_CCITT, T_CODE, T_FLAG, T_CHNGREF, T_IEEE = 4, 5, 6, 7, 8, 9


class Ctx:
    """table context for codecrun.gen_cases (only .T is used)"""
    def __init__(self):
        self.b, self.d = tables.master_tables(vlib.REPO)
        self.T = gen.Tables(self.b, self.d)


# ------------------------------------------------------------------ parsing the harness output
def parse_item(tok):
    f = tok.split("/")
    d = dict(desc=int(f[0]), flags=int(f[1], 16), type=int(f[2]), width=int(f[3]), scale=int(f[4]), ref=int(f[5]))
    afn, afb = f[6].split(":")
    d["afw"] = int(afn); d["af"] = None if afb == "-" else int(afb, 16)
    val = f[7]; raw = None
    if "=" in val:
        val, r = val.split("=")
        raw = None if r == "EXIT" else int(r, 16)
    d["val"] = val; d["raw"] = raw
    d["sdesc"] = int(f[8]); d["meta"] = f[9]
    return d


def parse_out(line):
    """-> dict(head, msgs=[dict(a,b,lrc,hdr,ohdr,O=[subsets],L=[subsets])], end)"""
    parts = line.split(" ; ")
    head = {}
    toks = parts[0].split()
    head["cmd"] = toks[0] if toks else ""
    for t in toks[1:]:
        if "=" in t:
            k, v = t.split("=", 1); head[k] = v
    msgs = []
    end = {}
    for p in parts[1:]:
        ts = p.split()
        if not ts:
            continue
        tag = ts[0]
        if tag[0] == "M":
            m = {"O": [], "L": []}
            for t in ts[1:]:
                k, v = t.split("=", 1); m[k] = v
            msgs.append(m)
        elif tag[0] in "OL" and "." in tag:
            i = int(tag[1:].split(".")[0])
            msgs[i][tag[0]].append([parse_item(t) for t in ts[1:]])
        elif tag == "END":
            for t in ts[1:]:
                k, v = t.split("=", 1); end[k] = v
    return dict(head=head, msgs=msgs, end=end)


def F(d): return d // 100000
def Y(d): return d % 1000


# ------------------------------------------------------------------ model requests
def zs(x):
    return str(x) if abs(x) < (1 << 59) else ("0x%x" % x if x >= 0 else "-0x%x" % -x)


def item_token(it, stats=None):
    """C listing item of the ORIGINAL dataset -> item of the model's DUMP request; None if the value kind is outside the model"""
    sk = 1 if it["flags"] & SKIPPED else 0
    ig = 1 if it["flags"] & IGNORED else 0
    v = it["val"]
    if v == "-":
        val = "-"
    elif v in ("dM", "sNULL"):
        val = "M"
    elif v[0] == "d":
        if it["type"] != T_NUMERIC or it["raw"] is None:
            return None
        n = it["raw"] + it["ref"]
        if it["scale"] < 0 and abs(n) * 10 ** (-it["scale"]) >= 2 ** 53:
            return None         # outside libc_range: the value itself is not a double (2 02 YYY pushed the scale further down)
        val = "n%s:%d" % (zs(n), it["scale"])
    elif v[0] in "il":
        z = int(v[1:])
        if it["type"] == T_FLAG:
            if v[0] == "l":
                z = ((z + (1 << 31)) % (1 << 32)) - (1 << 31)      # bufr_print_dscptr_value reads the flag table as int32
            val = "b%d:%s" % (it["width"], zs(z))
        else:
            val = "i" + zs(z)
    elif v[0] == "s":
        val = "s" + v[1:]
    else:
        return None
    af = "-"
    if it["af"] is not None and v != "-":
        af = "%s:%d" % (zs(it["af"]), it["afw"])
    return "%d/%d/%d/%d/%s/%s/%s" % (it["desc"], sk, ig, it["sdesc"], it["meta"], af, val)


def load_skipped(it, nxt=None):
    """does the loader see this node as skipped when its cursor reaches it?  A delayed replication descriptor is still
    unexpanded then (its factor follows it) unless it lies in the body of a replication with count zero; a delayed
    REPETITION (factor 0 31 011 / 0 31 012: the body occurs once in the data) is expanded with the template."""
    fl = it["flags"]
    if F(it["desc"]) == 1 and Y(it["desc"]) == 0 and not (nxt is not None and nxt["desc"] in (31011, 31012)):
        return bool(fl & SKIPPED) and not (fl & EXPANDED)
    return bool(fl & SKIPPED)


def node_token(it, nxt=None):
    v = it["val"]
    if v == "-":
        vt = "n"
    elif v[0] == "s":
        vt = "s%d" % (it["width"] // 8)
    elif v[0] in "il":
        vt = "b" if it["type"] == T_FLAG else "i"
    elif v[0] == "d":
        vt = "d"
    else:
        return None
    return "%d/%d/%s" % (it["desc"], 1 if load_skipped(it, nxt) else 0, vt)


def dump_request(msgs):
    toks = ["DUMP", str(len(msgs))]
    for m in msgs:
        h = m["ohdr"].split(",")
        toks += [",".join(h[:17]), h[17], str(len(m["O"]))]
        for sub in m["O"]:
            toks.append(str(len(sub)))
            for it in sub:
                t = item_token(it)
                if t is None:
                    return None
                toks.append(t)
    return " ".join(toks)


def load_request(variant, h0, msgs, text_hex):
    h = h0.split(",")
    toks = ["LOAD", variant, ",".join(h[:17]), h[17], str(len(msgs))]
    for m in msgs:
        toks.append(str(len(m["O"])))
        for sub in m["O"]:
            toks.append(str(len(sub)))
            for j, it in enumerate(sub):
                t = node_token(it, sub[j + 1] if j + 1 < len(sub) else None)
                if t is None:
                    return None
                toks.append(t)
    toks.append(text_hex if text_hex else "-")
    return " ".join(toks)


def parse_model_load(line):
    """'LOAD n ; H vals hs ; S v.. / r ; ...' -> list of (hdr string, [ (vals, rest) ])"""
    parts = line.split(" ; ")
    out = []
    for p in parts[1:]:
        ts = p.split()
        if ts[0] == "H":
            out.append([ts[1] + "," + ts[2], []])
        elif ts[0] == "S":
            i = ts.index("/")
            out[-1][1].append((ts[1:i], int(ts[i + 1])))
    return out


def dbl_bits(x):
    return struct.unpack(">Q", struct.pack(">d", x))[0]


def model_value_matches(mv, it):
    """model token value (desc:af:val) vs the item the library loaded.  -> None or reason"""
    d, af, v = mv.split(":")
    if int(d) != it["desc"]:
        return "descriptor %s vs %06d" % (d, it["desc"])
    if af != "-":
        if it["af"] is None or int(af, 0) != it["af"]:
            return "associated field %s vs %s" % (af, it["af"])
    lv = it["val"]
    if v == "-":
        return None if lv in ("i-1", "l-1", "dM", "-") or (lv[0] == "s" and set(lv[1:]) <= {"f"}) else "no token, library has %s" % lv
    if v == "M":
        ok = lv in ("i-1", "l-1", "dM") or (lv[0] == "s" and set(lv[1:]) <= {"f"})
        return None if ok else "MSNG, library has %s" % lv
    if v[0] == "i":
        return None if lv[0] in "il" and int(lv[1:]) == int(v[1:], 0) else "integer %s, library has %s" % (v, lv)
    if v[0] == "s":
        return None if lv == v else "string %s, library has %s" % (v, lv)
    if v[0] == "d":
        m, e = v[1:].split("^")
        x = float(Fraction(int(m, 0)) * Fraction(10) ** int(e, 0))          # correctly rounded: the strtod contract
        if lv == "dM":
            return "RANGE"          # set_dvalue refused the value (range check): classified by the caller
        return None if lv[0] == "d" and int(lv[1:], 16) == dbl_bits(x) else "strtod(%s) = %016x, library has %s" % (v, dbl_bits(x), lv)
    return "model value %s (library %s)" % (v, lv)


# ------------------------------------------------------------------ case generation
HDR_DEFAULT = None


def gen_header(rng, ed):
    """15 Section 1 values legal for the edition: master table 0, centre/sub-centre, update, categories, versions, date.
    (16-bit sub-centre / year values >= 32768 are encoded, but bufr_read_message refuses such a message - the Section 1
    fields are `short` -; they are generated rarely because they end the second, decoding, stage for the case.)"""
    big = ed >= 4
    top = 65535 if rng.random() < 0.1 else 32767
    return [0,
            rng.choice([0, 54, 255, 65535 if big else 255, rng.randint(0, 65535 if big else 255)]),
            rng.choice([0, 1, 255, top if big else 255, rng.randint(0, 32767 if big else 255)]) if ed >= 3 else 0,
            rng.choice([0, 1, 255]), rng.choice([0, 2, 255]), rng.choice([0, 7, 255]) if big else 0, rng.choice([0, 9, 255]),
            rng.choice([13, 17, 31, 255]), rng.choice([0, 1, 255]),
            rng.choice([2000, 2020, 2026, 1999, top, 0]) if big else rng.choice([2000, 2020, 1999, 2001, 2100]),
            rng.choice([1, 12, 0]), rng.choice([1, 31, 0]), rng.choice([0, 23]), rng.choice([0, 59]), rng.choice([0, 59]) if big else 0]


STR_EXTRA = ("lead", "brace", "punct", "high", "msngpad", "quote_end", "tab")


def shape_string(rng, n, shape):
    pr = lambda: rng.randrange(33, 127)
    if shape == "lead":
        k = rng.randint(1, max(1, n - 1)); s = [32] * k + [pr() for _ in range(n - k)]
    elif shape == "brace":
        s = [rng.choice([125, 123, 65, 32, 125]) for _ in range(n)]
    elif shape == "punct":
        s = [rng.choice([40, 41, 35, 61, 44, 58, 42, 34, 39, 92, 32, 48, 49]) for _ in range(n)]
    elif shape == "high":
        s = [rng.randrange(128, 255) for _ in range(n)]
    elif shape == "msngpad":
        s = ([77, 83, 78, 71] + [32] * n)[:n] if n > 4 else [pr() for _ in range(n)]
    elif shape == "quote_end":
        s = [pr() for _ in range(n)];  s[-1] = 34
    else:
        s = [rng.choice([9, 65, 32]) for _ in range(n)]
        if s[-1] in (9, 32): s[-1] = 66
    return s


def restring(rng, case, avoid_rbrace):
    """vary the strings of a generated case: leading blanks, braces, quotes, punctuation of the line grammar, high octets"""
    feats = set()
    for sub in case["subsets"]:
        for f, v in sub:
            if "str" in v and v["str"] and not all(c == 255 for c in v["str"]):
                if rng.random() < 0.35:
                    sh = rng.choice(STR_EXTRA)
                    v["str"] = shape_string(rng, len(v["str"]), sh)
                    feats.add("str_" + sh)
                if avoid_rbrace:
                    v["str"] = [41 if c == 125 else c for c in v["str"]]
                if len(v["str"]) == 4 and bytes(v["str"]) == b"MSNG":
                    v["str"] = [77, 83, 78, 72]
    return feats


FINE = None


def fine_templates(rng, T, ed):
    """elements at the finest precision: Table B scale >= 5 or width >= 25, optionally under 2 02 / 2 07 (scale up to ~12+)"""
    global FINE
    if FINE is None:
        FINE = [d for d in T.pool["num"] if T.B[d]["scale"] >= 5 or T.B[d]["width"] >= 25 or T.B[d]["scale"] < 0]
    els = [rng.choice(FINE) for _ in range(rng.randint(1, 4))]
    r = rng.random()
    if r < 0.3:
        return els
    if r < 0.65:
        return [202000 + rng.choice([129, 130, 131, 127, 126])] + els + [202000]
    if ed >= 4 and r < 0.85:
        return [207000 + rng.choice([1, 2, 3])] + els + [207000]
    return [201000 + rng.choice([129, 130, 132, 127])] + els + [201000]


def extreme_value(rng, f):
    w = f["width"]; ones = (1 << w) - 1
    return dict(raw=rng.choice([0, 1 if ones > 1 else 0, max(ones - 1, 0), max(ones - 2, 0), ones, ones >> 1, (ones >> 1) + 1, rng.getrandbits(w)]), af=0)


def gen_fine_case(rng, ctx):
    for _ in range(50):
        ed = rng.choice([3, 4, 4])
        tmpl = fine_templates(rng, ctx.T, ed)
        try:
            subs = [gen.walk(ctx.T, ed, tmpl, lambda f: (gen.choose_value(rng, f), extreme_value(rng, f))[1] if f["kind"] == "num" else gen.choose_value(rng, f))
                    for _ in range(rng.choice([1, 2, 3]))]
        except gen.Reject:
            continue
        if any(abs(f["ref"]) >= 2 ** 31 or f["width"] > 32 for s in subs for f, _ in s):
            continue
        return dict(ed=ed, tmpl=tmpl, subsets=subs, same=True)
    return None


def gen_adjacent_case(rng, ctx):
    """a delayed replication (counts 0, 1, 2) whose body holds descriptor X, directly followed by a mandatory X: the loader
    meets the line of the mandatory element while its cursor is on the skipped (commented) copy of the same descriptor"""
    for _ in range(50):
        ed = rng.choice([3, 4, 4])
        x = rng.choice(ctx.T.pool[rng.choice(["num", "num", "code", "str"])])
        pre = [rng.choice(ctx.T.pool["num"]) for _ in range(rng.choice([0, 1]))]
        body = [rng.choice(ctx.T.pool["num"]) for _ in range(rng.choice([0, 0, 1]))] + [x]
        tmpl = pre + [100000 + len(body) * 1000, rng.choice([31001, 31001, 31000, 31002])] + body + [x] + [rng.choice(ctx.T.pool["num"])]

        def choose(f):
            if f["desc"] in gen.FACTORS:
                return dict(raw=rng.choice([0, 0, 1, 2]) if f["desc"] != 31000 else rng.choice([0, 1]), af=0)
            return gen.choose_value(rng, f)
        try:
            subs = [gen.walk(ctx.T, ed, tmpl, choose) for _ in range(rng.choice([1, 2, 3]))]
        except gen.Reject:
            continue
        return dict(ed=ed, tmpl=tmpl, subsets=subs, same=False)
    return None


def nested_delayed(tmpl):
    """does the template contain a delayed replication inside the body of a delayed replication (directly, not via Table D)?"""
    n = len(tmpl)
    for i, d in enumerate(tmpl):
        if F(d) == 1 and Y(d) == 0:
            x = (d // 1000) % 100
            body = tmpl[i + 2:i + 2 + x]
            if any(F(e) == 1 and Y(e) == 0 for e in body):
                return True
    return False


def e_line(case, trim, comp, datasets):
    """datasets: list of (hdr list|None, subsets)"""
    toks = ["E", str(trim), str(comp), str(case["ed"]), str(len(case["tmpl"]))] + [str(d) for d in case["tmpl"]] + [str(len(datasets))]
    for hdr, subs in datasets:
        toks.append("-" if hdr is None else ",".join(map(str, hdr)))
        toks.append(str(len(subs)))
        for s in subs:
            toks += [gen.token(v) for _, v in s] + ["|"]
    return " ".join(toks)


def gen_cases(rng, ctx, tier, open_keys):
    n = 260 if tier == "quick" else 5000
    avoid_rbrace = "string_rbrace_after_meta" in open_keys
    cases = []      # dict(line, feats, case)
    plain, _ = codecrun.gen_cases(ctx, rng, n, comp_mode=False)
    comp, _ = codecrun.gen_cases(ctx, rng, n // 3, comp_mode=True)
    fine = [c for c in (gen_fine_case(rng, ctx) for _ in range(n // 2)) if c]
    adjacent = [c for c in (gen_adjacent_case(rng, ctx) for _ in range(n // 8)) if c]
    for c in plain + comp + fine + adjacent:
        feats = set(codecrun.features(c))
        if c in adjacent:
            feats.add("same_descriptor_after_replication")
        feats |= restring(rng, c, avoid_rbrace)
        if c in fine:
            feats.add("fine_precision")
        compflag = 1 if (c["same"] and len(c["subsets"]) >= 2 and rng.random() < 0.8) else 0
        # k datasets per file: the generated subsets are dealt out to k datasets of the same template, or further
        # datasets of the same template with fresh values are added
        subs = c["subsets"]
        datasets = [subs]
        r = rng.random()
        if len(subs) >= 2 and r < 0.5:
            k = rng.randint(2, len(subs))
            cuts = sorted(rng.sample(range(1, len(subs)), k - 1))
            datasets = [subs[a_:b_] for a_, b_ in zip([0] + cuts, cuts + [len(subs)])]
        elif r < 0.65:
            try:
                extra = [gen.gen_dataset(rng, ctx.T, c["ed"], c["tmpl"], rng.choice([1, 2])) for _ in range(rng.choice([1, 2, 4]))]
                for e in extra:
                    restring(rng, dict(subsets=e), avoid_rbrace)
                datasets = [subs] + extra
            except gen.Reject:
                datasets = [subs]
        hdrs = [gen_header(rng, c["ed"]) if rng.random() < 0.7 else None for _ in datasets]
        trim = rng.choice([0, 1])
        feats.add("k%d" % min(len(datasets), 4)); feats.add("trim%d" % trim)
        if any(h is not None for h in hdrs): feats.add("section1_varied")
        if nested_delayed(c["tmpl"]): feats.add("nested_delayed")
        line = e_line(c, trim, compflag, list(zip(hdrs, datasets)))
        cases.append(dict(line=line, feats=feats, case=c))
    return cases


def corpus_lines(tier):
    files = sorted(glob.glob(os.path.join(vlib.REPO, "Test", "BUFR", "*.bufr")) + glob.glob(os.path.join(vlib.REPO, "Test", "Dump", "*.bufr")))
    lines = []
    for i, f in enumerate(files):
        lines.append("D %d -1 %s 0 %d" % (i % 2, f, 4 if tier == "quick" else 64))
    return lines


# ------------------------------------------------------------------ printf/strtod contract and binary grids
def contract_cases(rng, tier):
    """(n, s): the exact decimal n/10^s; the library prints the double nearest to it with bufr_print_scaled_value"""
    out = []
    for s in list(range(-8, 16)):
        for w in (1, 7, 12, 16, 25, 26, 30, 31, 32):
            ones = (1 << w) - 1
            for ref in (0, -(1 << (w - 1)), -1024, 5):
                for raw in {0, 1, ones - 1, ones >> 1, (ones >> 1) + 1, rng.getrandbits(w)}:
                    n = raw + ref
                    if s < 0 and abs(n) * 10 ** (-s) >= 2 ** 53:
                        continue
                    if abs(n) >= 2 ** 53:
                        continue
                    out.append((n, s))
    if tier == "quick":
        out = out[::3]
    return out


def binary_cases(rng):
    out = []
    for w in range(1, 65):
        ones = (1 << w) - 1
        vs = {0, 1, ones, ones - 1 if ones > 1 else 0, ones >> 1, int("10" * 32, 2) & ones, int("01" * 32, 2) & ones, rng.getrandbits(w)}
        vs |= {1 << i for i in range(0, w, max(1, w // 6))}
        for v in sorted(vs):
            out.append((w, v))
    return out


# ------------------------------------------------------------------ known findings
FINDINGS = {
    "string_rbrace_after_meta": "a character string containing '}' written after a {..} replication/location comment is cut at the last '}' by bufr_load_datasubsets (string altered; NULL dereference when '}' is the last character)",
    "nested_delayed_replication": "nested delayed replication: bufr_fdump_dataset comments the inner replication descriptor out ('#1xx000', stale FLAG_IGNORED) and bufr_load_datasubsets then stops with 'descriptor mismatch'",
    "quoted_msng_string": "the 4-character string \"MSNG\" is taken for the missing value by the loader, and the missing-string buffer it builds is not NUL terminated (heap over-read in bufr_value_set_string)",
    "negscale_range_end": "C08 finding negscale_exact_extreme: with a negative scale the exactly printed value at an end of the range is refused by the range check (fmin/fmax computed with the inexact pow(10,scale)) and loaded as missing",
}


def classify_failure(kase, msg, idx):
    """independent classification of a failing dataset from the case itself (never from the model). -> finding key or None"""
    O = msg["O"]
    text_has_hash_repl = any((it["flags"] & (SKIPPED | IGNORED | EXPANDED)) == (SKIPPED | IGNORED | EXPANDED) and F(it["desc"]) == 1 and Y(it["desc"]) == 0
                             for sub in O for it in sub)
    if text_has_hash_repl:
        return "nested_delayed_replication"
    for sub in O:
        for it in sub:
            if it["val"].startswith("s") and it["val"] != "sNULL" and not (it["flags"] & SKIPPED):
                b = bytes.fromhex(it["val"][1:])
                if b"}" in b and (it["meta"] != "-" or it["sdesc"]):
                    return "string_rbrace_after_meta"
                if b == b"MSNG":
                    return "quoted_msng_string"
    L = msg["L"]
    if len(L) == len(O):
        for so, sl in zip(O, L):
            for a, b in zip(so, sl):
                if a["type"] == T_NUMERIC and a["scale"] < 0 and a["val"].startswith("d") and a["val"] != "dM" and b["val"] == "dM":
                    return "negscale_range_end"
    return None


# ------------------------------------------------------------------ the oracle (library alone)
def equal_but_section1_local_octets(a, b):
    """Decoded messages may carry octets 'reserved for local use by ADP centres' at the end of Section 1 (the decoder keeps
    only their number); the text form has no key for them, a dataset created from the template has none.  True when the two
    messages are equal in everything else: heading, Section 1 standard fields, Sections 2-5."""
    try:
        pa, pb = bufrmsg.parse(a), bufrmsg.parse(b)
    except Exception:
        return False
    if pa["ed"] != pb["ed"] or a[:pa["start"]] != b[:pb["start"]]:
        return False
    std = 22 if pa["ed"] >= 4 else 17
    s1a, s1b = pa["s1"], pb["s1"]
    n = min(len(s1a), len(s1b))
    if n < std or s1a[3:std] != s1b[3:std]:
        return False
    ra = a[pa["start"] + 8 + len(s1a):pa["start"] + pa["total"]]
    rb = b[pb["start"] + 8 + len(s1b):pb["start"] + pb["total"]]
    return ra == rb and a[pa["start"] + pa["total"]:] == b[pb["start"] + pb["total"]:]


def oracle_dataset(m, idx, decoded=False):
    """-> None or reason: the idx-th dataset read back from the text must encode to the message it encoded to before"""
    if m.get("a", "-") == "-":
        return None if m.get("b", "-") == "-" and False else "the original dataset could not be encoded (not a C13 matter)"
    lrc = int(m.get("lrc", "-9"))
    if lrc <= 0:
        return "dataset %d of the text file could not be loaded back (bufr_read_dataset_dump returned %d)" % (idx + 1, lrc)
    if m.get("b", "-") == "-":
        return "dataset %d loaded from the text could not be encoded" % (idx + 1)
    if m["b"] != m["a"]:
        a, b = bytes.fromhex(m["a"]), bytes.fromhex(m["b"])
        if decoded and equal_but_section1_local_octets(a, b):
            return "S1LOCAL"
        k = next((i for i in range(min(len(a), len(b))) if a[i] != b[i]), min(len(a), len(b)))
        why = ""
        if len(m["O"]) == len(m["L"]):
            for s, (so, sl) in enumerate(zip(m["O"], m["L"])):
                eo = [x for x in so if not x["flags"] & SKIPPED]; el = [x for x in sl if not x["flags"] & SKIPPED]
                for x, y in zip(eo, el):
                    if (x["desc"], x["val"].split("=")[0] if x["val"][0] != "d" else x["raw"], x["af"]) != (y["desc"], y["val"].split("=")[0] if y["val"][0] != "d" else y["raw"], y["af"]):
                        why = "; first differing element: subset %d, %06d: %s(raw %s, af %s) -> %s(raw %s, af %s)" % (
                            s + 1, x["desc"], x["val"][:40], x["raw"], x["af"], y["val"][:40], y["raw"], y["af"])
                        break
                if why: break
        return "dataset %d: the message encoded after dump+load differs from the original at octet %d (%d vs %d octets)%s" % (idx + 1, k, len(a), len(b), why)
    # every header key comes back: the header the loaded dataset carries is the header of the dataset that was written
    # (for the k-th dataset of a file too: nothing of an earlier dataset may stick to it)
    if m.get("hdr") and m.get("ohdr") and m["hdr"] != m["ohdr"]:
        return "dataset %d: header values after dump+load %s differ from the ones written %s (edition, master table, centre, sub-centre, update, category, sub-categories, versions, date/time, flags)" % (idx + 1, m["hdr"], m["ohdr"])
    return None


# ------------------------------------------------------------------ running
def complete_record(o):
    return (" ; END more=" in o) or o.startswith(("P ", "B ", "TABLES", "?")) or (o[:2] in ("E ", "D ") and not o.startswith(("E rc=0", "D rc=0")))


def run_harness(exe, lines, tmpdir):
    """runs the harness; restarts it after a crash.  -> list of (output line | None, stderr excerpt)"""
    outs = [None] * len(lines)
    errs = [""] * len(lines)
    start = 0
    ncrash = 0
    while start < len(lines) and ncrash < 40:
        chunk = lines[start:]
        pre = [l for l in lines[:start] if l.startswith("TABLES")][-1:]      # the tables in force at the restart point
        feed = ([] if (start == 0 or not pre or chunk[0].startswith("TABLES")) else pre) + chunk
        skip = len(feed) - len(chunk)
        rc, out, err = vlib.run_cases(exe, "\n".join(feed) + "\n", timeout=3000, env={"VERIF_C13_TMP": tmpdir})
        out = out[:-1] if out and out[-1] == "" else out
        if out and rc != 0 and not complete_record(out[-1]):
            out = out[:-1]          # the harness died in the middle of a record
        out = out[skip:]
        for i, o in enumerate(out[:len(chunk)]):
            outs[start + i] = o
        if len(out) >= len(chunk):
            if "ERROR: AddressSanitizer" in err or "runtime error" in err:
                errs[len(lines) - 1] += " | ".join(l for l in err.split("\n") if "ERROR: AddressSanitizer" in l or "runtime error" in l)[:400]
            break
        bad = start + len(out)
        errs[bad] = " | ".join(l for l in err.split("\n") if "ERROR" in l or "SUMMARY" in l or "runtime error" in l)[:500] or ("exit status %d" % rc)
        ncrash += 1
        start = bad + 1
    return outs, errs


def detect_variant(exe, tmpdir):
    """which of the two loader variants of the model does this library tree have?  (fix_meta, fix_q)"""
    p1 = "E 0 0 4 3 101001 1015 12101 1 - 1 s41427d43442020202020202020202020207d2020 r6ab3 |"
    p2 = "E 0 0 4 3 208004 1015 208000 1 - 1 s4d534e47 |"
    v = []
    for p in (p1, p2):
        outs, errs = run_harness(exe, [p], tmpdir)
        ok = False
        if outs[0]:
            r = parse_out(outs[0])
            ok = bool(r["msgs"]) and r["msgs"][0].get("a", "-") != "-" and r["msgs"][0].get("a") == r["msgs"][0].get("b")
        v.append("1" if ok else "0")
    return "".join(v)


DEDICATED = [
    ("string_rbrace_after_meta", "E 0 0 4 3 101001 1015 12101 1 - 1 s41427d43442020202020202020202020207d2020 r6ab3 |"),
    ("string_rbrace_after_meta", "E 1 0 4 3 101001 1015 12101 1 - 1 s41424344202020202020202020202020207d207d r6ab3 |"),
    ("string_rbrace_after_meta", "E 1 0 4 4 101000 31001 1015 12101 1 - 1 r2 s7d7d7d7d7d7d7d7d7d7d7d7d7d7d7d7d7d7d7d7d s41424344202020202020202020202020202020 r6ab3 |"),
    ("quoted_msng_string", "E 0 0 4 3 208004 1015 208000 1 - 1 s4d534e47 |"),
    ("quoted_msng_string", "E 1 0 4 4 208004 1015 208000 12101 1 - 2 s4d534e47 r6ab3 | s41424344 r5 |"),
    ("nested_delayed_replication", "E 0 0 4 5 103000 31001 101000 31001 12101 1 - 1 r1 r1 r6ab3 |"),
    ("nested_delayed_replication", "E 0 0 4 5 103000 31001 101000 31001 12101 1 - 2 r2 r1 r6ab3 r0 | r0 |"),
    ("negscale_range_end", "E 0 0 4 3 202127 14192 202000 1 - 1 r0 |"),
    ("negscale_range_end", "E 0 0 4 1 2128 1 - 1 r3e |"),
]
# 2 03 YYY: through the API the encoder does not apply the new reference values (C09 finding api_encode_203), the loader and
# the decoder do.  These datasets are therefore taken from DECODED messages only (second stage).
T203 = [
    "E 0 0 4 6 203012 12101 203255 12101 203000 12101 1 - 1 r864 r6ab3 r5 |",
    "E 1 0 4 8 203016 12101 10004 203255 12101 10004 203000 12101 1 - 2 r8064 r10 r6ab3 r100 r5 | r64 r8010 r1 r2 r3 |",
    "E 0 0 3 7 203008 7004 203255 101002 7004 203000 7004 1 - 1 r85 r10 r11 r12 |",
]


class Stage:
    """one harness run + model run + evaluation over a list of cases"""
    def __init__(self, rep, exe, drv, tmpdir, variant, known):
        self.rep, self.exe, self.drv, self.tmpdir, self.variant, self.known = rep, exe, drv, tmpdir, variant, known
        self.feat = collections.Counter()
        self.nviol = 0
        self.ntext = self.nload = self.nvals = 0
        self.driver_failed = None
        self.found = {}

    def run(self, cases, extra_lines=(), extra_model=()):
        """cases: dict(line, feats, key, tables?).  -> (parsed records, harness outputs of extra_lines, model outputs of extra_model)"""
        rep, variant, known, feat = self.rep, self.variant, self.known, self.feat
        lines = []
        cur_tables = None
        for c in cases:
            t = c.get("tables")
            if t != cur_tables:
                lines.append(t if t else "TABLES - -")
                cur_tables = t
            lines.append(c["line"])
        outs, errs = run_harness(self.exe, lines + list(extra_lines), self.tmpdir)
        keep = [i for i, l in enumerate(lines) if not l.startswith("TABLES")]
        case_outs = [outs[i] for i in keep]
        case_errs = [errs[i] for i in keep]
        xouts = outs[len(lines):]
        mreq, idx, parsed = [], [], []
        for c, o in zip(cases, case_outs):
            r = parse_out(o) if o else None
            parsed.append(r)
            di = li = None
            if r and r["head"].get("rc") == "0" and r["msgs"] and not c.get("no_oracle"):
                dq = dump_request(r["msgs"])
                if dq:
                    di = len(mreq); mreq.append(dq)
                lq = load_request(variant, r["head"].get("h0", ""), r["msgs"], r["head"].get("text", ""))
                if lq:
                    li = len(mreq); mreq.append(lq)
            idx.append((di, li))
        nm = len(mreq)
        mreq += list(extra_model)
        rc2, mout, merr = vlib.sh("ulimit -s unlimited 2>/dev/null || ulimit -s 1000000; exec %s" % self.drv, input=("\n".join(mreq) + "\n").encode(), timeout=3000)
        if rc2 != 0:
            self.driver_failed = merr[-400:]
        mout = mout.split("\n")
        for ci, (c, r) in enumerate(zip(cases, parsed)):
            if self.nviol > 12:
                break
            key = c.get("key", c["line"])
            rep.count(key)
            for ft in c["feats"]:
                feat[ft] += 1
            robj = {"kind": "dump", "case": c["line"], "tables": c.get("tables"), "variant": variant, "src": c.get("src")}
            if r is None:
                fk = next((f_[len("dedicated_"):] for f_ in c["feats"] if f_.startswith("dedicated_")), None)
                if fk and fk in known:
                    self.found.setdefault(fk, []).append("%s (%s)" % (key[:200], case_errs[ci][:120]))
                else:
                    rep.violation("C13: the library crashed / was stopped by the sanitizer while dumping, loading or encoding: %s  [case: %s]" % (case_errs[ci], key[:300]),
                                  dict(robj, stderr=case_errs[ci])); self.nviol += 1
                continue
            if r["head"].get("rc") != "0" or not r["msgs"]:
                feat["not_built_rc" + r["head"].get("rc", "?")] += 1
                if r["head"].get("rc") == "0":
                    rep.violation("C13: the harness produced no dataset record: %s  [case: %s]" % (case_outs[ci][:200], key[:300]), robj, no_input=True); self.nviol += 1
                continue
            if ci % 131 == 0:
                rep.sample({"case": key[:300], "text": bytes.fromhex(r["head"].get("text", ""))[-160:].decode("latin-1"), "a==b": [m.get("a") == m.get("b") for m in r["msgs"]]})
            # datasets the library itself flags as invalid coding (BUFR_FLAG_INVALID, e.g. 2 07 YYY in an edition 3 message) are outside the property
            if any((int(m["ohdr"].split(",")[16]) & 256) or (int(m.get("lrc", "0")) > 0 and int(m["hdr"].split(",")[16]) & 256) for m in r["msgs"]):
                feat["flagged_invalid_by_library"] += 1
                continue
            fails = []
            if not c.get("no_oracle"):
                for i, m in enumerate(r["msgs"]):
                    f = oracle_dataset(m, i, decoded=(r["head"]["cmd"] == "D"))
                    if f == "S1LOCAL":
                        feat["decoded_section1_local_octets_not_in_text"] += 1
                        continue
                    if f and "not a C13 matter" in f:
                        feat["original_not_encodable"] += 1
                        continue
                    if f:
                        fails.append((i, f))
                if not fails:
                    # the file holds exactly k datasets, and the utility's own path gives the same messages
                    if r["end"].get("more") not in ("0",):
                        fails.append((len(r["msgs"]), "after the %d datasets of the file a further bufr_read_dataset_dump returned %s" % (len(r["msgs"]), r["end"].get("more"))))
                    else:
                        g = r["head"].get("g", "-")
                        want = "04".join(m["b"] for m in r["msgs"] if m.get("a", "-") != "-")
                        if all(m.get("a", "-") != "-" for m in r["msgs"]) and g != want:
                            fails.append((0, "bufr_genmsgs_from_dump wrote %d octets, the %d datasets encode to %d octets" % (len(g) // 2, len(r["msgs"]), len(want) // 2)))
                        gl = int(r["head"].get("gl", "0"))
                        if gl != len(r["msgs"][0]["O"]):
                            fails.append((0, "bufr_load_dataset returned %d, the first dataset has %d subsets" % (gl, len(r["msgs"][0]["O"]))))
            for i, f in fails[:1]:
                fk = classify_failure(c, r["msgs"][min(i, len(r["msgs"]) - 1)], i)
                if fk is None and i > 0:
                    fk = next((classify_failure(c, m, j) for j, m in enumerate(r["msgs"][:i]) if classify_failure(c, m, j)), None)   # an earlier dataset broke the reading
                if fk and fk in known:
                    self.found.setdefault(fk, []).append(key[:240])
                    feat["finding_" + fk] += 1
                else:
                    rep.violation("C13: %s%s  [case: %s]" % (f, (" (class %s)" % fk) if fk else "", key[:400]), dict(robj, library=str(r["head"])[:300], dataset=i))
                    self.nviol += 1
            # -- correspondence: text
            di, li = idx[ci]
            if di is not None and di < len(mout):
                self.ntext += 1
                mt = mout[di].split()
                if len(mt) < 2 or mt[1] != r["head"].get("text", ""):
                    a = bytes.fromhex(r["head"].get("text", "")); b = bytes.fromhex(mt[1]) if len(mt) > 1 and mt[0] == "DUMP" else b""
                    k = next((i for i in range(min(len(a), len(b))) if a[i] != b[i]), min(len(a), len(b)))
                    la = a[:k].count(b"\n")
                    ln_a = a.split(b"\n")[la] if la < len(a.split(b"\n")) else b""
                    ln_b = b.split(b"\n")[la] if la < len(b.split(b"\n")) else b""
                    rep.violation("C13: correspondence broken: the dump text differs from the model's printer (Dump.print_dataset) at line %d: library %r, model %r  [case: %s]"
                                  % (la + 1, ln_a[:80], ln_b[:80], key[:240]),
                                  dict(robj, correspondence="bufr_fdump_dataset vs Dump.print_dataset", model=mout[di][:300]), no_input=not fails)
                    self.nviol += 1
            elif not c.get("no_oracle"):
                feat["text_not_modelled"] += 1
            # -- correspondence: loader
            if li is not None and li < len(mout):
                self.nload += 1
                bad = self.compare_load(mout[li], r)
                if bad:
                    rep.violation("C13: correspondence broken: bufr_read_dataset_dump vs the model's loader (Dump.load_file, variant %s): %s  [case: %s]" % (variant, bad, key[:240]),
                                  dict(robj, correspondence="bufr_load_header/bufr_load_datasubsets vs Dump.load_file", model=mout[li][:400]), no_input=not fails)
                    self.nviol += 1
        return parsed, xouts, mout[nm:]

    def compare_load(self, mline, r):
        ml = parse_model_load(mline) if mline.startswith("LOAD") else None
        lib_loaded = [m for m in r["msgs"] if int(m.get("lrc", "-9")) > 0]
        if ml is None:
            return "model output %r" % mline[:80]
        if len(ml) != len(lib_loaded):
            return "the library loaded %d datasets, the model %d" % (len(lib_loaded), len(ml))
        for i, (m, (mh, msubs)) in enumerate(zip(lib_loaded, ml)):
            if mh != m["hdr"]:
                return "dataset %d header %s, model %s" % (i + 1, m["hdr"], mh)
            if len(msubs) != len(m["L"]):
                return "dataset %d: %d subsets, model %d" % (i + 1, len(m["L"]), len(msubs))
            for s, ((vals, nrest), sl) in enumerate(zip(msubs, m["L"])):
                tgt = [it for j, it in enumerate(sl) if not load_skipped(it, sl[j + 1] if j + 1 < len(sl) else None)]
                if len(vals) > len(tgt):
                    return "dataset %d subset %d: model consumed %d value lines, library has %d nodes" % (i + 1, s + 1, len(vals), len(tgt))
                for mv, it in zip(vals, tgt):
                    self.nvals += 1
                    w = model_value_matches(mv, it)
                    if w == "RANGE":
                        if it["scale"] < 0 and "negscale_range_end" in self.known:
                            self.feat["range_refused_negscale"] += 1
                            continue
                        w = "the library refused the value %s it had written itself (range check) for %06d" % (mv, it["desc"])
                    if w:
                        return "dataset %d subset %d %06d: %s" % (i + 1, s + 1, it["desc"], w)
        return None


def second_stage_cases(cases, parsed, tmpdir, every):
    """the library's own messages, decoded: decoded datasets carry a {R=..}/{} comment in front of most values and have
    2 03 YYY applied.  The messages of a case go into one file (k datasets of one template)."""
    out = []
    for ci, (c, r) in enumerate(zip(cases, parsed)):
        if not r or r["head"].get("cmd") != "E" or r["head"].get("rc") != "0" or not r["msgs"]:
            continue
        is203 = "t203" in c["feats"]
        if not (is203 or ci % every == 0):
            continue
        which = "b" if is203 else "a"
        if any(m.get(which, "-") == "-" for m in r["msgs"]):
            continue
        path = os.path.join(tmpdir, "s2_%d.bufr" % ci)
        with open(path, "wb") as f:
            for m in r["msgs"]:
                f.write(bytes.fromhex(m[which]))
        out.append(dict(line="D %s -1 %s 0 %d" % (r["head"].get("trim", "0"), path, len(r["msgs"])), key="D2 " + c["line"], src=c["line"],
                        feats={"decoded_own_message"} | ({"decoded_203"} if is203 else set()) | {f for f in c["feats"] if f.startswith(("op2", "delayed", "nested", "str_", "assoc"))}))
    return out


def run(rep, tier, seed, replay=None):
    proved = vlib.proof_step(rep, "Properties_C13")
    exe = vlib.build_harness("c13", replace=[("bufr_dataset", "wrap_dataset.c")], wrap=["exit"])
    drv = vlib.extract_and_build_driver("c13")
    tmpdir = vlib.scratch()
    rng = random.Random(seed)
    ctx = Ctx()
    known = {f.get("match"): f for f in vlib.known_findings("C13")}
    variant = detect_variant(exe, tmpdir)
    st = Stage(rep, exe, drv, tmpdir, variant, known)
    contract, binary, ncorp = [], [], 0
    if replay and (replay.get("case") or replay.get("src")):
        src = replay.get("src")
        cases = [dict(line=src or replay["case"], feats={"t203"} if src and " 203" in src else set(), tables=replay.get("tables"), no_oracle=bool(src))]
        every = 1
    else:
        # classes whose finding is open AND that this tree still shows are kept out of the random mix (they can crash the
        # harness) and exercised by dedicated cases; once fixed they are part of the mix
        avoid = set()
        if variant[0] == "0" and "string_rbrace_after_meta" in known:
            avoid.add("string_rbrace_after_meta")
        cases = gen_cases(rng, ctx, tier, avoid)
        for key, line in DEDICATED:
            cases.append(dict(line=line, feats={"dedicated_" + key}))
        for line in T203:
            cases.append(dict(line=line, feats={"t203"}, no_oracle=True))
        lb, ld = os.path.join(vlib.REPO, "Test", "local_table_b"), os.path.join(vlib.REPO, "Test", "local_table_d")
        corp = corpus_lines(tier)
        ncorp = len(corp)
        for cl in corp:
            cases.append(dict(line=cl, feats={"corpus"}, tables="TABLES %s %s" % (lb, ld)))
        contract = contract_cases(rng, tier)
        binary = binary_cases(rng)
        every = 3 if tier == "quick" else 2
    plines, preq = [], []
    for n, s in contract:
        x = float(Fraction(n) / Fraction(10) ** s)
        plines.append("P %016x %d" % (dbl_bits(x), s)); preq.append("PS %s %d" % (zs(n), s))
    for w, v in binary:
        plines.append("B %d %x" % (w, v)); preq.append("PB %d %s" % (w, zs(v)))
    parsed, pouts, pm = st.run(cases, plines, preq)
    # ---- second stage: the library's own messages decoded, dumped, loaded
    s2 = second_stage_cases(cases, parsed, tmpdir, every)
    if s2 and st.nviol <= 12:
        st.run(s2)
    nviol = st.nviol
    feat = st.feat
    for fk, ws in sorted(st.found.items()):
        rep.finding("%s  [%d case(s) of this run, first: %s]" % (FINDINGS[fk], len(ws), ws[0]))
    # ---- printf/strtod contract, binary
    ncontract = 0
    for j, (n, s) in enumerate(contract):
        po = pouts[j] if j < len(pouts) and pouts[j] else ""
        mo = pm[j] if j < len(pm) else ""
        rep.count(("P", n, s))
        pt, mt = po.split(), mo.split()
        x = float(Fraction(n) / Fraction(10) ** s)
        ncontract += 1
        if len(pt) < 3 or len(mt) < 5:
            rep.violation("C13: no answer for the printf contract probe n=%d s=%d (%r / %r)" % (n, s, po[:60], mo[:60]), {"kind": "contract", "n": n, "s": s}, no_input=True); nviol += 1; break
        want = format_decimal(n, s)
        if bytes.fromhex(pt[1]) != want:
            rep.violation("C13: bufr_print_scaled_value of the double nearest to %d/10^%d printed %r, the exact decimal is %r  [case: %s]" % (n, s, bytes.fromhex(pt[1]), want, plines[j]),
                          {"kind": "contract", "case": plines[j]}); nviol += 1
        elif pt[1] != mt[1]:
            rep.violation("C13: correspondence broken: Dump.print_scaled %r vs library %r for n=%d s=%d" % (bytes.fromhex(mt[1]), bytes.fromhex(pt[1]), n, s),
                          {"kind": "contract", "correspondence": "printf contract (Section Libc)", "n": n, "s": s}, no_input=True); nviol += 1
        elif int(pt[2], 16) != dbl_bits(x):
            rep.violation("C13: strtod of the printed value %r is %s, the value printed was %016x  [case: %s]" % (want, pt[2], dbl_bits(x), plines[j]), {"kind": "contract", "case": plines[j]}); nviol += 1
        elif Fraction(int(mt[2], 0)) * Fraction(10) ** int(mt[3], 0) != Fraction(n) / Fraction(10) ** s or int(mt[4], 0) != n:
            rep.violation("C13: correspondence broken: Dump.parse_decimal/requant of %r gives %s" % (want, mo), {"kind": "contract", "correspondence": "parse_decimal", "n": n, "s": s}, no_input=True); nviol += 1
        if nviol > 14: break
    nbin = 0
    for j, (w, v) in enumerate(binary):
        po = pouts[len(contract) + j] if len(contract) + j < len(pouts) and pouts[len(contract) + j] else ""
        mo = pm[len(contract) + j] if len(contract) + j < len(pm) else ""
        rep.count(("B", w, v))
        nbin += 1
        pt, mt = po.split(), mo.split()
        if len(pt) < 4 or len(mt) < 4:
            rep.violation("C13: no answer for the binary probe w=%d v=%x (%r / %r)" % (w, v, po[:60], mo[:60]), {"kind": "binary", "w": w, "v": v}, no_input=True); nviol += 1; break
        want = format(v, "0%db" % w)
        mtext = bytes.fromhex(mt[1]).decode() if mt[1] != "-" else ""
        vs = v if v < (1 << 63) else v - (1 << 64)         # the harness passes the value as int64
        if vs >= 0 and w <= 63:
            if pt[1] != want or int(pt[2]) != 1 or int(pt[3], 16) != v:
                rep.violation("C13: flag table value %x of %d bits: bufr_print_binary gives %s, bufr_binary_to_int of it %s  [case: B %d %x]" % (v, w, pt[1], pt[3], w, v),
                              {"kind": "binary", "case": "B %d %x" % (w, v)}); nviol += 1
        if vs >= 0 and (pt[1] != mtext or pt[2] != mt[2] or int(pt[3], 16) != int(mt[3], 0) % (1 << 64)):
            rep.violation("C13: correspondence broken: bufr_print_binary/bufr_binary_to_int (%s) vs Dump.print_binary/binary_to_int (%s) for w=%d v=%x" % (po, mo, w, v),
                          {"kind": "binary", "correspondence": "print_binary/binary_to_int", "w": w, "v": v}, no_input=True); nviol += 1
        if nviol > 16: break
    if st.driver_failed and not rep.violations:
        rep.violation("C13: the model driver failed: %s" % st.driver_failed, {"kind": "driver"}, no_input=True)
    if not proved and not rep.violations:
        rep.violation("C13: proof obligations no longer check and the correspondence run found no failing input", getattr(rep, "proof_broken", {}), no_input=True)
    rep.cov["traces_validated_against_impl"] = st.ntext + st.nload + ncontract + nbin
    rep.cov["rule"] = ("datasets of the C01/C02 grammar (elements, Table D, fixed and delayed replication incl. zero counts and nesting, 2 01/2 02/2 04/2 05/2 06/2 07/2 08, editions 2-4) "
                       "+ a fine-precision family (Table B scale >= 5 or < 0 or width >= 25 under 2 01/2 02/2 07, raw values at both ends, middle, random), strings with leading/embedded/trailing "
                       "blanks, quotes, braces, parentheses, '#', '=', tabs, octets >= 128, missing; associated fields; Section 1 varied per edition; 1..5 datasets per file; trim-zero on/off; "
                       "compressed and plain; + every third generated message decoded again (second stage: {..} comments, 2 03 YYY applied) + every message of /repo/Test/BUFR and /repo/Test/Dump "
                       "decoded with the local tables; + printf/strtod contract grid (scale -8..15 x widths x references) + bufr_print_binary/bufr_binary_to_int for every width 1..64.  "
                       "distinct = distinct case lines; non-trivial = the dataset was built and dumped")
    rep.cov["distribution"] = dict(feat, variant=variant, dump_texts_compared=st.ntext, load_results_compared=st.nload, loaded_values_compared=st.nvals,
                                   contract_points=ncontract, binary_points=nbin, corpus_files=ncorp, second_stage_cases=len(s2))
    rep.assumptions = ["numeric quantisation double -> raw (bufr_cvt_dval_to_i64) is C08's; expansion of the descriptor list / Table C operators is C09/C10's: the model's loader receives the "
                       "descriptor list of each subset (descriptor, skipped-when-reached, storage type) from the library's own listing",
                       "glibc printf/strtod: decimal contract stated as hypotheses of C13_numeric_roundtrip_libc and tested on the contract grid and on every generated value",
                       "Section 1 octets reserved for local use (decoded messages) have no key in the text form: messages are compared without them"]


def format_decimal(n, s):
    """independent statement of what %.*f must give for the exact decimal n/10^s (s >= 0: s fractional digits; s < 0: %.1f of the integer)"""
    sign = "-" if n < 0 else ""
    a = abs(n)
    if s > 0:
        t = str(a).rjust(s + 1, "0")
        return (sign + t[:-s] + "." + t[-s:]).encode()
    if s == 0:
        return (sign + str(a)).encode()
    return (sign + str(a * 10 ** (-s)) + ".0").encode()
