# bufrmsg.py — independent parser/builder of FM 94 message framing (Sections 0-5, editions 2-4), written from
# the WMO layout.  Used by the codec checks to cut Section 3/4 out of the library's messages and to wrap
# reference-encoded Section 4 data into complete messages with legal framing freedoms.
import struct


class FrameError(Exception):
    pass


def u(b):
    return int.from_bytes(b, "big")


def parse(msg, allow5=False):
    """(allow5: the library's edition-5 draft messages, framed like edition 4)  -> dict(ed, total, s1=bytes, s1f=dict, s2=bytes|None, nsub, flags, descs, s4=bytes payload, s3len, s4len, start)"""
    i = msg.find(b"BUFR")
    if i < 0:
        raise FrameError("no BUFR")
    m = msg[i:]
    if len(m) < 8:
        raise FrameError("short s0")
    total = u(m[4:7]); ed = m[7]
    if ed not in (2, 3, 4) and not (allow5 and ed == 5):
        raise FrameError("edition %d" % ed)
    if len(m) < total:
        raise FrameError("truncated: %d < %d" % (len(m), total))
    p = 8
    l1 = u(m[p:p + 3]); s1 = m[p:p + l1]
    f = {}
    if ed >= 4:
        f = dict(master=s1[3], centre=u(s1[4:6]), subcentre=u(s1[6:8]), upd=s1[8], flag=s1[9], cat=s1[10], subcat=s1[11],
                 lsubcat=s1[12], mver=s1[13], lver=s1[14], year=u(s1[15:17]), month=s1[17], day=s1[18], hour=s1[19], minute=s1[20], second=s1[21])
        has2 = bool(s1[9] & 0x80)
    else:
        f = dict(master=s1[3], subcentre=s1[4], centre=s1[5], upd=s1[6], flag=s1[7], cat=s1[8], subcat=s1[9],
                 mver=s1[10], lver=s1[11], year=s1[12], month=s1[13], day=s1[14], hour=s1[15], minute=s1[16])
        if ed == 2:
            f["centre"] = u(s1[4:6]); f["subcentre"] = 0
        has2 = bool(s1[7] & 0x80)
    p += l1
    s2 = None
    if has2:
        l2 = u(m[p:p + 3]); s2 = m[p + 4:p + l2]; p += l2
    l3 = u(m[p:p + 3])
    nsub = u(m[p + 4:p + 6]); flags = m[p + 6]
    nd = (l3 - 7) // 2
    descs = []
    for k in range(nd):
        w = u(m[p + 7 + 2 * k:p + 9 + 2 * k])
        descs.append((w >> 14) * 100000 + ((w >> 8) & 63) * 1000 + (w & 255))
    p3 = p
    p += l3
    l4 = u(m[p:p + 3])
    s4 = m[p + 4:p + l4]
    p += l4
    if m[p:p + 4] != b"7777":
        raise FrameError("no 7777 at %d" % p)
    if p + 4 != total:
        raise FrameError("length mismatch %d != %d" % (p + 4, total))
    return dict(ed=ed, total=total, s1=s1, s1f=f, s2=s2, nsub=nsub, flags=flags, descs=descs, s4=s4, s3len=l3, s4len=l4,
                start=i, s1len=l1, compressed=bool(flags & 0x40), observed=bool(flags & 0x80))


def pack_desc(d):
    f, x, y = d // 100000, (d // 1000) % 100, d % 1000
    return struct.pack(">H", (f << 14) | (x << 8) | y)


def build(ed, descs, nsub, compressed, s4payload, s2=None, s1f=None, header=b"", odd_pad=True, s4_extra_pad=0, observed=True):
    """A well-formed message with the given Section 4 payload.  Freedoms: optional Section 2, bulletin header bytes before
    'BUFR', extra zero octets at the end of Section 4, even padding for editions <= 3."""
    g = dict(master=0, centre=54, subcentre=0, upd=0, cat=0, subcat=0, lsubcat=0, mver=13, lver=0, year=2020, month=1, day=2, hour=3, minute=4, second=5)
    if s1f:
        g.update(s1f)
    flag = 0x80 if s2 is not None else 0
    if ed == 4:
        s1 = bytes([0, 0, 22, g["master"]]) + struct.pack(">HH", g["centre"], g["subcentre"]) + bytes([g["upd"], flag, g["cat"], g["subcat"], g["lsubcat"], g["mver"], g["lver"]]) + struct.pack(">H", g["year"]) + bytes([g["month"], g["day"], g["hour"], g["minute"], g["second"]])
    elif ed == 3:
        s1 = bytes([0, 0, 18, g["master"], g["subcentre"] & 255, g["centre"] & 255, g["upd"], flag, g["cat"], g["subcat"], g["mver"], g["lver"], g["year"] % 100, g["month"], g["day"], g["hour"], g["minute"], 0])
    else:
        s1 = bytes([0, 0, 18, g["master"]]) + struct.pack(">H", g["centre"]) + bytes([g["upd"], flag, g["cat"], g["subcat"], g["mver"], g["lver"], g["year"] % 100, g["month"], g["day"], g["hour"], g["minute"], 0])
    sec2 = b""
    if s2 is not None:
        body = s2
        if ed <= 3 and (len(body) + 4) % 2:
            body += b"\0"
        sec2 = (len(body) + 4).to_bytes(3, "big") + b"\0" + body
    body3 = b"\0" + struct.pack(">H", nsub) + bytes([(0x80 if observed else 0) | (0x40 if compressed else 0)]) + b"".join(pack_desc(d) for d in descs)
    if ed <= 3 and (len(body3) + 3) % 2:
        body3 += b"\0"
    sec3 = (len(body3) + 3).to_bytes(3, "big") + body3
    body4 = s4payload + b"\0" * s4_extra_pad
    if ed <= 3 and (len(body4) + 4) % 2:
        body4 += b"\0"
    sec4 = (len(body4) + 4).to_bytes(3, "big") + b"\0" + body4
    total = 8 + len(s1) + len(sec2) + len(sec3) + len(sec4) + 4
    return header + b"BUFR" + total.to_bytes(3, "big") + bytes([ed]) + s1 + sec2 + sec3 + sec4 + b"7777"
