# c16.py — property C16: valid workloads are memory-clean (PARTIAL BY DESIGN).
# proof: Properties_C16.v (ownership machine Own.v: no dangling reference to shared tables, a free releases exactly one
# object, everything released => nothing live).  tie: operation sequences are generated, filtered through the extracted
# machine (only sequences it accepts as legal client behaviour are run), and executed against the library in a forked
# child from bufr_begin_api to bufr_end_api under AddressSanitizer; after the script has freed what the machine says is
# live, LeakSanitizer must find nothing and the allocated byte count must be back at the start value.
import random, collections
import vlib, codec, gen, codecrun

SLACK = 1024      # bytes: stdio buffers etc. (calibrated against the empty workload in the same run)


def gen_sequence(rng, ctx, size="small"):
    """a legal client sequence: several live templates/datasets/messages sharing one or two tables objects, random
    interleaving of create/copy/fill/encode/reread/decode/merge/use/free; everything is freed at the end in random order"""
    ops = ["TB1"]
    nexth = [2]
    live = {"tmpl": [], "ds": [], "msg": []}
    tmpl_desc = {}
    ds_info = {}   # handle -> (ed, tmpl descs, subsets count)
    msg_info = {}  # message handle -> ds_info of the dataset it was encoded from

    def new():
        h = nexth[0]; nexth[0] += 1
        return h
    dseqs = [d for d in codecrun.DSEQS if d in ctx.T.D]
    nsteps = rng.randint(6, 25) if size == "small" else rng.randint(20, 60)
    for _ in range(nsteps):
        r = rng.random()
        if r < 0.18 or not live["tmpl"] and not live["ds"]:
            ed = rng.choice([2, 3, 4, 4])
            tg = gen.TGen(rng, ctx.T, ed, ops=True, max_depth=2, dseqs=dseqs)
            t = tg.template()
            if rng.random() < 0.15:
                # time / location descriptors in front of an inner replication, at nesting depth >= 2 (run-time location tracking)
                loc = rng.choice([d for d in (4024, 4025, 5002, 6002, 7002, 4004, 5001, 6001, 7004, 4011, 5011, 6011) if d in ctx.T.B])
                inner = [101000 + rng.choice([1, 2, 3])] + tg.elem(("num",))
                body = [loc] + inner + tg.elem(("num", "code"))
                t = ([100000 + len(body) * 1000 + rng.choice([1, 2])] + body + tg.elem()) if rng.random() < 0.7 else ([100000 + len(body) * 1000, 31001] + body)
            try:
                gen.gen_dataset(rng, ctx.T, ed, t, 1)
            except gen.Reject:
                continue
            # some templates carry default values (here on code / flag table elements, any position): "-(v+1)" after the descriptor
            tt = []
            for d_ in t:
                tt.append(str(d_))
                e_ = ctx.T.B.get(d_)
                if e_ is not None and e_["kind"] in ("code", "flag") and gen.X(d_) != 31 and rng.random() < 0.25:
                    tt.append(str(-(rng.randrange(0, max(1, (1 << min(e_["width"], 20)) - 1)) + 1)))
            h = new(); ops.append("T%d=1,%d,%s" % (h, ed, ",".join(tt))); live["tmpl"].append(h); tmpl_desc[h] = (ed, t)
        elif r < 0.24 and live["tmpl"]:
            s = rng.choice(live["tmpl"]); h = new(); ops.append("C%d=%d" % (h, s)); live["tmpl"].append(h); tmpl_desc[h] = tmpl_desc[s]
        elif r < 0.40 and live["tmpl"]:
            t = rng.choice(live["tmpl"]); h = new(); ops.append("D%d=%d" % (h, t)); live["ds"].append(h); ds_info[h] = [tmpl_desc[t][0], tmpl_desc[t][1], 0]
        elif r < 0.62 and live["ds"]:
            d = rng.choice(live["ds"])
            if ds_info[d] is None:
                continue
            ed, t, n = ds_info[d]
            k = rng.choice([1, 1, 2, 3]) if size == "small" else rng.choice([1, 5, 40, 120])
            try:
                for _ in range(k):
                    subs = gen.gen_dataset(rng, ctx.T, ed, t, 1)
                    ops.append("S%d:%s" % (d, " ".join(gen.token(v) for _, v in subs[0])))
                    ds_info[d][2] += 1
            except gen.Reject:
                continue
        elif r < 0.72 and live["ds"]:
            d = rng.choice(live["ds"])
            if ds_info[d] is not None and ds_info[d][2] == 0:
                continue
            h = new(); ops.append("E%d=%d,%d" % (h, d, rng.choice([0, 0, 1]))); live["msg"].append(h)
            msg_info[h] = list(ds_info[d]) if ds_info[d] is not None else None
            if rng.random() < 0.5:
                ops.append("W%d" % h)
        elif r < 0.80 and live["msg"]:
            m = rng.choice(live["msg"]); h = new(); ops.append("X%d=%d,1" % (h, m)); live["ds"].append(h)
            ds_info[h] = list(msg_info[m]) if msg_info.get(m) else None      # a decoded dataset can be extended, merged and encoded again
        elif r < 0.86 and len(live["ds"]) >= 2:
            a, b = rng.sample(live["ds"], 2)
            if rng.random() < 0.2 and ds_info[a] and ds_info[a][2] > 0:
                # a dataset merged into itself, at the same or at another position (legal: same template, positions in range)
                p_ = rng.randint(0, ds_info[a][2] - 1)
                ops.append("G%d,%d,%d,%d,%d" % (a, p_ if rng.random() < 0.6 else rng.randint(0, ds_info[a][2]), a, p_, rng.randint(1, 2)))
                ds_info[a][2] += 2          # upper bound of the new subset count is enough for later positions
                continue
            if ds_info[a] and ds_info[b] and ds_info[a][1] == ds_info[b][1] and ds_info[b][2] > 0:
                ops.append("G%d,%d,%d,%d,%d" % (a, rng.randint(0, ds_info[a][2] + 1), b, rng.randint(0, ds_info[b][2]), rng.randint(0, 3)))
            elif ds_info[a]:
                # no compatible partner alive: make one (same descriptor list through a new template object), fill it, merge
                ed, t, n = ds_info[a]
                try:
                    toks = []
                    for _ in range(rng.choice([1, 2, 3])):
                        subs = gen.gen_dataset(rng, ctx.T, ed, t, 1)
                        toks.append(" ".join(gen.token(v) for _, v in subs[0]))
                except gen.Reject:
                    continue
                ht = new(); hd = new()
                ops.append("T%d=1,%d,%s" % (ht, ed, ",".join(map(str, t)))); live["tmpl"].append(ht); tmpl_desc[ht] = (ed, t)
                ops.append("D%d=%d" % (hd, ht)); live["ds"].append(hd); ds_info[hd] = [ed, t, 0]
                for tk in toks:
                    ops.append("S%d:%s" % (hd, tk)); ds_info[hd][2] += 1
                ops.append("G%d,%d,%d,%d,%d" % (a, rng.randint(0, n + 1), hd, rng.randint(0, len(toks)), rng.randint(0, 3)))
        elif r < 0.93 and (live["ds"] or live["msg"]):
            ops.append("U%d" % rng.choice(live["ds"] + live["msg"]))
        else:
            pool = [(k, h) for k in live for h in live[k]]
            if pool:
                k, h = rng.choice(pool); live[k].remove(h); ops.append("F%d" % h)     # free in the middle (e.g. a template whose datasets live on)
    rest = [h for k in live for h in live[k]]
    rng.shuffle(rest)
    for h in rest:
        if rng.random() < 0.3 and h in live["ds"]:
            ops.append("U%d" % h)
        ops.append("F%d" % h)
    ops.append("F1")
    return ";".join(ops)


def run(rep, tier, seed, replay=None):
    proved = vlib.proof_step(rep, "Properties_C16")
    exe = vlib.build_harness("c16", mode="asan0", wrap=["exit"])   # -O0: the optimiser must not elide what the source allocates
    drv = vlib.extract_and_build_driver("c16")
    ctx = codec.Ctx()
    rng = random.Random(seed)
    feat = collections.Counter()
    if replay and replay.get("ops"):
        seqs = [replay["ops"]]
    else:
        n = 120 if tier == "quick" else 1500
        seqs = ["TB1;F1"] + [gen_sequence(rng, ctx, "small") for _ in range(n)] + [gen_sequence(rng, ctx, "large") for _ in range(n // 12)]
    # the machine decides which sequences are legal client behaviour and what is live at the end
    rc, mo, me = vlib.sh([drv], input=("\n".join(seqs) + "\n").encode(), timeout=600)
    mo = mo.split("\n")
    legal = [s for s, o in zip(seqs, mo) if o.startswith("LEGAL live=0")]
    feat["generated"] = len(seqs); feat["legal_and_fully_released"] = len(legal)
    env = dict(vlib.ASAN_ENV)
    env["ASAN_OPTIONS"] = "detect_leaks=1:abort_on_error=0:exitcode=99:allocator_may_return_null=1"
    rc, out, err = vlib.sh([exe], input=("\n".join(legal) + "\n").encode(), env=env, timeout=3000)
    outs = [l for l in out.split("\n") if l]
    base = 0
    nviol = 0
    for i, (s, o) in enumerate(zip(legal, outs)):
        rep.count(s[:500] + str(len(s)))
        nops = s.count(";") + 1
        feat["ops<=10" if nops <= 10 else "ops<=30" if nops <= 30 else "ops>30"] += 1
        for k in ("S", "E", "W", "X", "G", "C", "U"):
            pass
        if ";G" in s and " a" in s:
            feat["merge_with_assoc_fields"] += 1
        for k in ("S", "E", "W", "X", "G", "C", "U"):
            if (";" + k) in s:
                feat["uses_" + k] += 1
        if i == 0 and o.startswith("OK"):
            base = int(o.split("bytes_delta=")[1])
        if len(rep.cov["samples"]) < 4 and i > 0:
            rep.sample({"ops": s[:300], "result": o})
        robj = {"kind": "own", "ops": s, "result": o, "stderr": err[-3000:]}
        if o.startswith("OK"):
            leak = int(o.split("leak=")[1].split()[0]); delta = int(o.split("bytes_delta=")[1])
            if leak:
                rep.violation("C16: LeakSanitizer: allocations remain unreachable after every object was released  [ops: %s]" % s[:300], robj); nviol += 1
            elif delta - base > SLACK:
                rep.violation("C16: %d bytes allocated by the library remain after every object was released and bufr_end_api (empty workload: %d)  [ops: %s]" % (delta, base, s[:300]), robj); nviol += 1
        elif o.startswith("SCRIPT"):
            rep.violation("C16: a valid API sequence failed in the library (%s)  [ops: %s]" % (o, s[:300]), robj); nviol += 1
        else:
            rep.violation("C16: invalid memory access / crash on a valid workload: %s  [ops: %s]  %s" % (o, s[:300], " | ".join(l for l in err.split("\n") if "ERROR" in l or "SUMMARY" in l)[:300]), robj); nviol += 1
        if nviol > 6:
            break
    if len(outs) < len(legal) and nviol == 0:
        rep.violation("C16: the harness stopped early: %s" % err[-300:], {"kind": "own", "ops": legal[len(outs)]})
    if not proved and not rep.violations:
        rep.violation("C16: proof obligations no longer check and no failing input was found", getattr(rep, "proof_broken", {}), no_input=True)
    rep.cov["traces_validated_against_impl"] = len(outs)
    rep.cov["rule"] = ("operation sequences over one tables object and several live templates, datasets and messages: create/copy template, create dataset, add filled subsets (values of the C01 space; "
                       "up to 120 subsets per step in the large shape: Section 4 growth and array growth), encode (plain/compressed), write+read, decode, merge, use, free in arbitrary order incl. freeing a "
                       "template while its datasets live on; only sequences the extracted ownership machine accepts as legal and fully released are run; each in a forked child begin_api..end_api under ASan+LSan. "
                       "distinct = distinct sequences")
    rep.cov["distribution"] = dict(feat)
    rep.cov["partial"] = "ownership discipline proved on the model; byte-level overflow inside live objects and the library's internal malloc/free pairing are sanitizer observations"
