# c03.py — property C03: encoder output is the FM 94 wire format.
# proof: Properties_C03.v; tie: library Section 3/4 bytes == reference encoder bytes; oracle: the (proved-inverse,
# independent) reference decoder run on the library's bytes returns exactly the intended quantised values.
import random, collections
import vlib, codec, gen, bufrmsg, codecrun


def run(rep, tier, seed, replay=None):
    proved = vlib.proof_step(rep, "Properties_C03")
    ctx = codec.Ctx()
    rng = random.Random(seed)
    n = 600 if tier == "quick" else 6000
    if replay and "case_obj" in replay:
        cases = [replay["case_obj"]]
    else:
        plain, rej1 = codecrun.gen_cases(ctx, rng, n, comp_mode=False)
        comp, rej2 = codecrun.gen_cases(ctx, rng, n // 2, comp_mode=True)
        # compression requested for subsets that may differ in structure: the wire format has no compressed form for them,
        # the message must come out uncompressed (and legal)
        ragged, _ = codecrun.gen_cases(ctx, rng, n // 6, comp_mode=True, diff_structure_frac=0.8)
        for c in ragged:
            c["request_comp"] = True
        cases = plain + comp + ragged
    jobs = []       # (case, comp)
    for c in cases:
        if c.get("request_comp"):
            jobs.append((c, 1 if (codecrun.same_structure(c) and len(c["subsets"]) >= 2) else 0))
        else:
            jobs.append((c, 1 if (c["same"] and len(c["subsets"]) >= 2) else 0))
    clines = [gen.case_line(c["ed"], 1 if c.get("request_comp") else comp, c["tmpl"], c["subsets"]) for c, comp in jobs]
    mlines = [gen.case_line(c["ed"], comp, c["tmpl"], c["subsets"], model=True) for c, comp in jobs]
    couts = ctx.run_c(clines)
    codecrun.crash_violation(rep, "C03", ctx, clines, couts, "encoding")
    mouts = ctx.run_model(mlines)
    # reference decoder on the library's bytes
    dlines, parsed = [], []
    for (c, comp), co in zip(jobs, couts):
        head, _ = codec.parse_c_listing(co)
        p = None
        if head.get("rc") == "0":
            try:
                p = bufrmsg.parse(bytes.fromhex(head["msg"]))
            except Exception as e:
                p = e
        parsed.append((head, p))
        if isinstance(p, dict):
            dlines.append("DEC %d %d %d %d %s %s" % (p["ed"], 1 if p["compressed"] else 0, p["nsub"], len(p["descs"]), " ".join(map(str, p["descs"])), p["s4"].hex()))
        else:
            dlines.append("DEC 4 0 0 0 00")
    douts = ctx.run_model(dlines)
    feat = collections.Counter()
    nviol = 0
    for i, ((c, comp), co, mo) in enumerate(zip(jobs, couts, mouts)):
        head, p = parsed[i]
        key = clines[i]
        rep.count(key)
        for ft in codecrun.features(c):
            feat[ft] += 1
        if c.get("request_comp"):
            feat["compression_requested_" + ("same_structure" if comp else "different_structure")] += 1
        if i % 397 == 0:
            rep.sample({"case": key[:400], "library": co[:160], "reference_encoder": mo[:120]})
        robj = {"kind": "codec", "case": key, "case_obj": c, "library": co[:2000], "model": mo[:2000]}
        fail = None
        if head.get("rc") != "0":
            if mo.startswith("ENC ok"):
                fail = "the library refused / failed (rc=%s) on a dataset the regulation allows" % head.get("rc")
        elif isinstance(p, Exception):
            fail = "the message is not well framed: %s" % p
        else:
            if p["descs"] != c["tmpl"]:
                fail = "Section 3 descriptors %s differ from the template %s" % (p["descs"][:10], c["tmpl"][:10])
            elif p["nsub"] != len(c["subsets"]):
                fail = "Section 3 subset count %d, %d subsets encoded" % (p["nsub"], len(c["subsets"]))
            elif p["ed"] != c["ed"]:
                fail = "edition %d, template edition %d" % (p["ed"], c["ed"])
            elif p["compressed"] != bool(comp) and not (comp and not p["compressed"] and not mo.startswith("ENC ok")):
                # (a dataset the reference encoder cannot express in compressed form either - e.g. a 64-bit associated field
                #  spanning 2^63-1 or more - has to come out uncompressed: accepted, and checked as an uncompressed message)
                fail = "compression flag %s, expected %s" % (p["compressed"], bool(comp))
            else:
                dh, dsubs = codec.parse_model_listing(douts[i])
                if len(dh) < 2 or dh[1] != "ok":
                    fail = "the reference decoder rejects the library's Section 4 (%s)" % douts[i][:60]
                else:
                    fail = codecrun.model_listing_matches_intent(c, dsubs)
        if fail:
            rep.violation("C03: %s  [case: %s]" % (fail, key[:300]), robj)
            nviol += 1
        elif mo.startswith("ENC ok") and isinstance(p, dict):
            mb = bytes.fromhex(mo.split()[3]) if len(mo.split()) > 3 else b""
            if not codecrun.s4_equal(p["s4"], mb):
                rep.violation("C03: correspondence broken: library Section 4 %s... differs from the reference encoder's %s... although the reference decoder recovers the intended values  [case: %s]"
                              % (p["s4"].hex()[:60], mb.hex()[:60], key[:200]),
                              dict(robj, correspondence="bufr_encode_message Section 4 vs Fm94.enc_plain/enc_comp"), no_input=True)
                nviol += 1
        elif isinstance(p, dict) and not mo.startswith("ENC ok") and comp and not p["compressed"]:
            feat["no_compressed_form_fallback"] += 1
        elif isinstance(p, dict) and not mo.startswith("ENC ok"):
            rep.violation("C03: correspondence broken: the reference encoder refuses (%s) a dataset the library encodes  [case: %s]" % (mo[:40], key[:200]),
                          dict(robj, correspondence="Fm94.enc vs library"), no_input=True)
            nviol += 1
        if nviol > 10:
            break
    if not proved and not rep.violations:
        rep.violation("C03: proof obligations no longer check and the correspondence run found no failing input", getattr(rep, "proof_broken", {}), no_input=True)
    rep.cov["traces_validated_against_impl"] = len(jobs)
    rep.cov["rule"] = ("templates from the grammar elem | Table D | fixed repl | delayed repl (0 31 000/001/002/011/012, counts incl. 0) | 2 01/2 02/2 04+0 31 021/2 05/2 06/2 07/2 08 scopes, "
                       "depth <= 2, editions 2-4, 1..7 subsets, values from {0,1,max-1,missing,mid,random}; compressed when all subsets share the structure. "
                       "distinct = distinct case lines; non-trivial = at least one data element (all are)")
    rep.cov["distribution"] = dict(feat)
    rep.assumptions = ["Section 0/1/2/5 framing is C06's; numeric quantisation is C08's: values are handed to the library as the double a decode of the intended raw value yields"]
