#!/bin/sh
# mkworktree.sh DIR — scratch git worktree of /repo at HEAD, made buildable (the autotools files are untracked in /repo):
# copies the generated build system, re-runs ./configure there, builds, and runs the test suite once.
set -e
D="$1"
git -C /repo worktree add -q "$D" HEAD
rsync -a --ignore-existing --exclude .git --exclude '*.o' --exclude '*.lo' --exclude '*.la' --exclude '.libs' --exclude '*.log' --exclude '*.trs' /repo/ "$D"/
cd "$D"
./configure >/dev/null 2>&1
make -j8 >/dev/null 2>&1 || true
make -k check 2>&1 | grep -E "^# (PASS|FAIL)" || true
