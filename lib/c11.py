# c11.py — property C11: bit-level I/O.  Proof (Properties_C11.v) + correspondence BitIO.v <-> bufr_io.c
# + an independent Python bit-string oracle used for the failing-input search.
import random
import vlib


# ---------------- independent oracle (the specification, written directly on bit strings) ------------
def spec_write(ops):
    """ops -> bit string (list of 0/1) the regulation's packing requires: MSB first, no gaps."""
    bits = []
    for op in ops:
        if op[0] == "p":
            w, v = op[1], op[2]
            if w <= 0:
                continue
            if w > 64:
                return None
            bits += [(v >> (w - 1 - i)) & 1 for i in range(w)]
        elif op[0] == "s":
            for c in op[1]:
                bits += [(c >> (7 - i)) & 1 for i in range(8)]
        elif op[0] == "P":
            enclen, s = op[1], op[2]
            body = list(s[:enclen]) + [32] * (enclen - min(len(s), enclen))
            for c in body:
                bits += [(c >> (7 - i)) & 1 for i in range(8)]
    return bits


def bits_to_bytes(bits):
    out = []
    for i in range(0, len(bits), 8):
        ch = bits[i:i + 8]
        ch = ch + [0] * (8 - len(ch))
        out.append(int("".join(map(str, ch)), 2))
    return bytes(out)


def fmt_op(op):
    if op[0] == "p":
        return "p%d:%x" % (op[1], op[2])
    if op[0] == "s":
        return "s" + bytes(op[1]).hex()
    if op[0] == "P":
        return "P%d:%s" % (op[1], bytes(op[2]).hex())
    return "%s%d" % (op[0], op[1])


def spec_read(data, L, pos, ops):
    """Expected observable per op: (value or None, ok, newpos or None)."""
    res = []
    total = 8 * L
    for op in ops:
        k, n = op
        if k == "g" and n > 64:
            res.append(("err", None)); continue
        if n == 0:
            res.append(("ok", 0 if k != "t" else b"", pos)); continue
        nb = n * 8 if k == "t" else n
        if pos is not None and pos + nb <= total:
            if k == "k":
                res.append(("ok", None, pos + nb))
            else:
                v = 0
                for i in range(nb):
                    byte = data[(pos + i) // 8]
                    v = (v << 1) | ((byte >> (7 - (pos + i) % 8)) & 1)
                res.append(("ok", v if k == "g" else v.to_bytes(n, "big"), pos + nb))
            pos = pos + nb
        else:
            res.append(("err", None))
            pos = None     # after an error the cursor is unspecified by the property
    return res


# ---------------- case generation ----------------------------------------------------------------
def gen_cases(rng, tier):
    W, R = [], []
    pats = lambda w: [0, (1 << w) - 1] + [1 << i for i in range(w)] + [int("10" * 32, 2) & ((1 << w) - 1), int("01" * 32, 2) & ((1 << w) - 1)]
    # exhaustive grid offset x width x boundary patterns, section exactly full or with 1 spare byte
    for off in range(8):
        for w in range(1, 65):
            for v in pats(w):
                nbytes = (off + w + 7) // 8
                for maxd in (nbytes, nbytes + 1):
                    if tier == "quick" and maxd != nbytes and (w % 4):
                        continue
                    ops = ([("p", off, (1 << off) - 1)] if off else []) + [("p", w, v)]
                    W.append((maxd, ops))
    # random field sequences up to several times the allocation (growth at the boundary)
    nseq = 300 if tier == "quick" else 3000
    for i in range(nseq):
        maxd = rng.choice([1, 2, 3, 4, 7, 8, 9, 16, 31, 64, 100])
        target_bits = rng.choice([maxd * 8, maxd * 8 + rng.randint(-9, 80), maxd * 24, rng.randint(1, 400)])
        ops, nb = [], 0
        while nb < target_bits:
            r = rng.random()
            if r < 0.75:
                w = rng.choice([1, 2, 3, 5, 7, 8, 9, 12, 16, 17, 24, 31, 32, 33, 48, 63, 64, rng.randint(1, 64)])
                v = rng.choice([0, (1 << w) - 1, rng.getrandbits(w), rng.getrandbits(64)])   # values wider than w: only the low w bits count
                ops.append(("p", w, v)); nb += w
            elif r < 0.8:
                ops.append(("p", 0, rng.getrandbits(8)))            # zero width: no-op
            elif r < 0.9:
                s = [rng.randrange(256) for _ in range(rng.randint(0, 12))]
                ops.append(("s", s)); nb += 8 * len(s)
            else:
                s = [rng.randrange(32, 127) for _ in range(rng.randint(0, 10))]
                enc = rng.randint(0, 14)
                ops.append(("P", enc, s)); nb += 8 * enc
        W.append((maxd, ops))
    # a few long ones crossing several 4096-byte growth steps
    for i in range(2 if tier == "quick" else 12):
        maxd = rng.choice([4, 100, 4095, 4096, 4097])
        ops = []
        for _ in range(rng.randint(1200, 2600)):
            w = rng.randint(1, 64)
            ops.append(("p", w, rng.getrandbits(w)))
        W.append((maxd, ops))
    W.append((4, [("p", 65, 1)]))        # > 64 bits: bufr_abort
    # reader: every offset x width at and across the end of a small section
    for L in (1, 2, 3, 9, 10):
        data = bytes(rng.randrange(256) for _ in range(L))
        for cur in range(L + 1):
            for bit in range(8):
                if cur == L and bit:
                    continue
                for w in range(0, 67):
                    if 8 * cur + bit + w > 8 * L + 9 and w not in (64, 65, 66) and tier == "quick":
                        continue
                    R.append((data, L, cur, bit, [("g", w)]))
                    R.append((data, L, cur, bit, [("k", w)]))
    # skip lengths 0..200 at every offset
    L = 20
    data = bytes(rng.randrange(256) for _ in range(L))
    for bit in range(8):
        for cur in (0, 1, 19):
            for n in range(0, 201):
                R.append((data, L, cur, bit, [("k", n), ("g", 3)]))
    # random read/skip/string sequences running to and past the end
    for i in range(400 if tier == "quick" else 5000):
        L = rng.randint(1, 40)
        data = bytes(rng.randrange(256) for _ in range(L))
        ops = []
        for _ in range(rng.randint(1, 14)):
            r = rng.random()
            if r < 0.55:
                ops.append(("g", rng.choice([1, 2, 7, 8, 9, 16, 24, 32, 33, 64, rng.randint(0, 64)])))
            elif r < 0.85:
                ops.append(("k", rng.choice([0, 1, 8, 13, rng.randint(0, 90)])))
            else:
                ops.append(("t", rng.randint(0, 6)))
        R.append((data, L, 0, 0, ops))
    return W, R


def case_lines(W, R):
    lines = []
    for maxd, ops in W:
        lines.append("W %d %s" % (maxd, " ".join(fmt_op(o) for o in ops)))
    for data, L, cur, bit, ops in R:
        lines.append("R %s %d %d %d %s" % (data.hex(), L, cur, bit, " ".join(fmt_op(o) for o in ops)))
    return lines


def canon_w(line):
    return line.strip()


def canon_r(line):
    """per op keep value, error class and the logical cursor (8*cur+bit) while no error has occurred"""
    out = []
    dead = False
    for tok in line.split():
        f = tok.split(",")
        err = int(f[-3]); cur = int(f[-2]); bit = int(f[-1])
        if dead:
            out.append("after-error")
            continue
        if err < 0:
            out.append("err"); dead = True
        else:
            out.append(",".join(f[:-3] + [str(8 * cur + bit)]))
    return " ".join(out)


def oracle_w(case, cline):
    maxd, ops = case
    want = spec_write(ops)
    if want is None:
        return None if cline.strip() == "ABORT" else "write of more than 64 bits was not refused"
    f = cline.split()
    if len(f) < 3 or f[0] == "ABORT":
        return "unexpected output %r" % cline
    filled, bitno = int(f[0]), int(f[1])
    got = bytes.fromhex(f[3]) if len(f) > 3 else b""
    if 8 * filled + bitno != len(want):
        return "cursor after writing is at bit %d, %d bits were written" % (8 * filled + bitno, len(want))
    if got != bits_to_bytes(want):
        return "section bytes %s differ from the MSB-first packing %s" % (got.hex(), bits_to_bytes(want).hex())
    if int(f[2], 16) < filled:
        return "max_data_len %s < filled %d" % (f[2], filled)
    return None


def oracle_r(case, cline):
    data, L, cur, bit, ops = case
    want = spec_read(data, L, 8 * cur + bit, ops)
    toks = cline.split()
    if len(toks) != len(ops):
        return "unexpected output %r" % cline
    for (k, n), w, tok in zip(ops, want, toks):
        f = tok.split(",")
        err = int(f[-3]); pos = 8 * int(f[-2]) + int(f[-1])
        if w[0] == "err":
            if err >= 0:
                return "%s%d past the end of the section reported no error" % (k, n)
            return None      # after an error nothing more is required
        if err < 0:
            return "%s%d inside the section reported error %d" % (k, n, err)
        if pos != w[2]:
            return "%s%d left the cursor at bit %d, expected %d" % (k, n, pos, w[2])
        if k == "g" and int(f[0], 16) != w[1]:
            return "g%d returned %s, the bits at the cursor are %x" % (n, f[0], w[1])
        if k == "t" and bytes.fromhex(f[0]) != w[1]:
            return "t%d returned %s, expected %s" % (n, f[0], w[1].hex())
    return None


def run(rep, tier, seed, replay=None):
    rep.level = "proof"
    proved = vlib.proof_step(rep, "Properties_C11")
    exe = vlib.build_harness("c11")
    drv = vlib.extract_and_build_driver("c11")
    rng = random.Random(seed)
    if replay:
        W = [tuple(x) for x in replay.get("W", [])]
        R = [(bytes.fromhex(d), L, c, b, [tuple(o) for o in ops]) for d, L, c, b, ops in replay.get("R", [])]
        W = [(m, [tuple(o) if o[0] != "s" else ("s", o[1]) for o in ops]) for m, ops in W]
    else:
        W, R = gen_cases(rng, tier)
    lines = case_lines(W, R)
    text = "\n".join(lines) + "\n"
    rc, cout, cerr = vlib.run_cases(exe, text, timeout=1800)
    rc2, mout, merr = vlib.sh([drv], input=text.encode(), timeout=1800)
    mout = mout.split("\n")
    cases = [("W", c) for c in W] + [("R", c) for c in R]
    sanitizer = "ERROR: AddressSanitizer" in cerr or "runtime error" in cerr
    ndis = 0
    width_hits = set(); splits = {"aligned": 0, "unaligned": 0, "growth": 0, "past_end": 0, "exact_end": 0}
    for i, (kind, c) in enumerate(cases):
        cl = cout[i] if i < len(cout) - 1 else "<no output: harness died>"
        ml = mout[i] if i < len(mout) else "<no output>"
        rep.count((kind, lines[i]))
        if i % 4001 == 0:
            rep.sample({"case": lines[i][:300], "impl": cl[:200], "model": ml[:200]})
        if cl.startswith("<no output"):
            fail = "the library crashed or was stopped by the sanitizer on this case: " + " | ".join(l for l in cerr.split("\n") if "ERROR" in l or "SUMMARY" in l or "runtime error" in l)[:400]
            same = False
        elif kind == "W":
            fail = oracle_w(c, cl)
            same = canon_w(cl) == canon_w(ml)
            if len(cl.split()) > 2 and int(cl.split()[2], 16) != c[0]:
                splits["growth"] += 1
        else:
            fail = oracle_r(c, cl)
            try:
                same = canon_r(cl) == canon_r(ml)
            except Exception:
                same = False
            if "-1" in cl:
                splits["past_end"] += 1
        rc_key = {"W": [[c[0], [list(o) for o in c[1]]]] if kind == "W" else [],
                  "R": [[c[0].hex(), c[1], c[2], c[3], [list(o) for o in c[4]]]] if kind == "R" else []}
        if fail:
            rep.violation("C11: %s  [case: %s]" % (fail, lines[i][:200]),
                          {"kind": "bitio", "case": lines[i], "impl": cl, "model": ml, **rc_key})
            ndis += 1
        elif not same:
            rep.violation("C11: correspondence BitIO.v <-> bufr_io.c broken on case %s (impl %s, model %s); the bit-string oracle accepts the implementation's behaviour"
                          % (lines[i][:120], cl[:80], ml[:80]),
                          {"kind": "bitio", "correspondence": "BitIO.putbits/getbits/skip_bits vs bufr_io.c", "case": lines[i], "impl": cl, "model": ml, **rc_key},
                          no_input=True)
            ndis += 1
        if ndis > 20 or cl.startswith("<no output"):
            break
    if sanitizer and not rep.violations:
        rep.violation("C11: sanitizer report while running the bit-I/O cases: " + cerr[-600:],
                      {"kind": "bitio", "stderr": cerr[-3000:]}, no_input=True)
    if not proved and not rep.violations:
        rep.violation("C11: proof obligations no longer check (see log) and no failing input was found by the correspondence run",
                      getattr(rep, "proof_broken", {}), no_input=True)
    rep.cov["traces_validated_against_impl"] = len(cases)
    rep.cov["rule"] = ("writer: exhaustive offset 0..7 x width 1..64 x {0, ones, each single bit, 2 alternating} x {section exactly full, 1 spare}; "
                       "random field/string sequences up to 3x the allocation and across 4096-byte growth steps; reader: every (cursor, bit, width 0..66) "
                       "on sections of 1,2,3,9,10 bytes incl. at/across the end; skips 0..200 at every bit offset; random read/skip/string sequences. "
                       "distinct = distinct case lines; every case is non-trivial (each performs at least one library call compared with model and oracle)")
    rep.cov["distribution"] = {"writer_cases": len(W), "reader_cases": len(R), **splits}
    rep.cov["exhaustive"] = False
    rep.assumptions = ["realloc/malloc behave; max_len = max_data_len + 10 as set by bufr_alloc_sect4 (checked by ASan on every case)"]
