#!/bin/sh
# soak.sh [seed] [tier] [ids...] — run the checks of several properties in a row; one summary line per property
SEED="${1:-1}"; TIER="${2:-thorough}"; shift 2 2>/dev/null || true
IDS="${*:-C01 C02 C03 C04 C05 C06 C07 C08 C09 C10 C11 C12 C13 C14 C15 C16 C17 C18 C19 C20}"
cd /verif
for c in $IDS; do
  VERIF_SEED=$SEED timeout 7200 ./check $c --tier $TIER > /tmp/soak_${SEED}_$c.log 2>&1; rc=$?
  echo "$c seed=$SEED rc=$rc $(grep -c '^VIOLATION' /tmp/soak_${SEED}_$c.log) violations; $(grep -v '^KNOWN' /tmp/soak_${SEED}_$c.log | tail -1 | cut -c1-160)"
done
