# c14.py — property C14: partial decode equals a slice; merged subsets stay equal.
# proof: Properties_C14.v; tie: range decodes of library-made and reference-made messages vs the model's range decoder;
# oracle (library alone): decode_subsets(m,a,b) == slice a..b of decode(m) for every (a,b); merged datasets vs the list spec.
import random, collections
import vlib, codec, gen, bufrmsg, codecrun


def subset_key(items):
    return [(e["desc"], e["width"], e["val"], e["af"]) for e in codec.c_elements(items)]


def fixed_length(case):
    """no delayed replication anywhere in the expanded template"""
    return not any(f["desc"] in gen.FACTORS for f, _ in case["subsets"][0])


def run(rep, tier, seed, replay=None):
    proved = vlib.proof_step(rep, "Properties_C14")
    ctx = codec.Ctx()
    rng = random.Random(seed)
    feat = collections.Counter()
    nviol = 0
    # ------------------------------------------------------------------ ranges
    jobs = []      # (case, comp)
    if replay and replay.get("case_obj"):
        jobs = [(replay["case_obj"], replay.get("comp", 0))]
    else:
        n = 60 if tier == "quick" else 500
        tries = 0
        dseqs = [d for d in codecrun.DSEQS if d in ctx.T.D]
        while len(jobs) < n and tries < 100 * n:
            tries += 1
            ed = rng.choice([2, 3, 4, 4])
            tg = gen.TGen(rng, ctx.T, ed, ops=True, max_depth=2, dseqs=dseqs, delayed=(rng.random() < 0.5))
            # widths chosen so that the subset length is often a multiple of 8 (cursor byte-aligned before a zero-length skip)
            tmpl = tg.template()
            nsub = rng.choice([2, 3, 4, 5, 8, 12]) if tier == "quick" else rng.randint(2, 12)
            comp = rng.choice([0, 1])
            try:
                subs = gen.gen_dataset(rng, ctx.T, ed, tmpl, nsub, same_structure=True)
            except gen.Reject:
                continue
            if not subs[0]:
                continue
            jobs.append((dict(ed=ed, tmpl=tmpl, subsets=subs, same=True), comp))
        # delayed replication that enters only through a Table D sequence (no 1 XX 000 in Section 3 itself), uncompressed, with
        # counts that differ between subsets: skipping is impossible here although the Section 3 list shows no replication
        dseq_delayed = [d for d in (306001, 306004, 306005, 306041, 307012, 307014, 307016, 302036) if d in ctx.T.D]
        for _ in range(12 if tier == "quick" else 100):
            if not dseq_delayed:
                break
            tmpl = tg.elem(("num", "code")) + [rng.choice(dseq_delayed)] + tg.elem(("num",))
            try:
                subs = gen.gen_dataset(rng, ctx.T, 4, tmpl, rng.choice([3, 4, 5]), same_structure=False)
                jobs.append((dict(ed=4, tmpl=tmpl, subsets=subs, same=False), 0))
            except gen.Reject:
                pass
        # byte-aligned layouts on purpose: 2 x 4-bit code tables = 8 bits per subset, 16-bit element
        for comp in (0, 1):
            for tmpl in ([20011, 20011], [12101], [20011, 20011, 12101, 1015]):
                try:
                    subs = gen.gen_dataset(rng, ctx.T, 4, tmpl, rng.choice([4, 7]), same_structure=True)
                    jobs.append((dict(ed=4, tmpl=tmpl, subsets=subs, same=True), comp))
                except gen.Reject:
                    pass
        # 2 09 YYY (IEEE 754 values; library extension of the edition 5 draft, outside the Coq model): the oracle for these
        # is the property itself evaluated on the library (range == slice of the full decode).  Equal columns matter: the
        # library writes them as R0 + NBINC=0 with no per-subset values, so there is nothing to skip.
        for comp in (1, 1, 0):
            for tmpl in ([12101, 209032, 12101, 7004, 209000, 12101], [209064, 12101, 209000, 20011], [1015, 209032, 10004, 209000, 204008, 31021, 12101, 204000]):
                for mode in ("equal", None):
                    try:
                        subs = gen.gen_dataset(rng, ctx.T, 5, tmpl, rng.choice([3, 4, 6]), same_structure=True, column_mode=mode)
                        jobs.append((dict(ed=5, tmpl=tmpl, subsets=subs, same=True, no_model=True), comp))
                    except gen.Reject:
                        pass
    # foreign compressed messages whose character columns are written with fewer octets per subset than the element width
    # (NBINC < width/8, as encoders that trim trailing blanks do; this library never writes that).  Outside the Coq model
    # (Fm94.dec_strcol accepts only NBINC = width): the oracle is the property itself on the library - range == slice.
    foreign = []
    if not replay:
        for _ in range(12 if tier == "quick" else 120):
            n = rng.choice([3, 4, 5, 7])
            k = rng.choice([1, 3, 6, 19])
            bits = ""
            def num(w, v):            # a numeric column stored once: R0 = v, NBINC = 0
                return format(v, "0%db" % w) + "000000"
            bits += num(7, rng.randrange(100))                                   # 0 01 001, 7 bits
            bits += "0" * 160 + format(k, "06b") + "".join(format(rng.choice(b"ABCXYZ019 "), "08b") for _ in range(n * k))   # 0 01 015, 20 octets, NBINC = k
            bits += num(10, rng.randrange(1000))                                 # 0 01 002, 10 bits
            bits += "0" * ((8 - len(bits) % 8) % 8)
            s4 = bytes(int(bits[i:i + 8], 2) for i in range(0, len(bits), 8))
            foreign.append(bufrmsg.build(4, [1001, 1015, 1002], n, True, s4).hex())
    el = [gen.case_line(c["ed"], comp, c["tmpl"], c["subsets"]) for c, comp in jobs]
    eo = ctx.run_c(el)
    codecrun.crash_violation(rep, "C14", ctx, el, eo, "encoding")
    dl, meta = [], []
    for (c, comp), o, line in zip(jobs, eo, el):
        h = codec.parse_c_listing(o)[0]
        if h.get("rc") != "0":
            continue
        n = len(c["subsets"])
        dl.append("D %s" % h["msg"]); meta.append((c, comp, h["msg"], None, line))
        for a in range(1, n + 1):
            for b in range(a, n + 1):
                dl.append("D %s %d %d" % (h["msg"], a, b)); meta.append((c, comp, h["msg"], (a, b), line))
    for fm in foreign:
        p_ = bufrmsg.parse(bytes.fromhex(fm))
        fc = dict(ed=4, tmpl=[1001, 1015, 1002], subsets=[[({"desc": 1001}, {})]] * p_["nsub"], same=True, no_model=True, foreign=True)
        dl.append("D %s" % fm); meta.append((fc, 1, fm, None, "foreign " + fm))
        for a in range(1, p_["nsub"] + 1):
            for b in range(a, p_["nsub"] + 1):
                dl.append("D %s %d %d" % (fm, a, b)); meta.append((fc, 1, fm, (a, b), "foreign " + fm))
    do = ctx.run_c(dl)
    if len(do) < len(dl):
        rep.violation("C14: the library crashed decoding a subset range: %s  [%s]" % (dl[len(do)][:200], ctx.sanitizer_summary()),
                      {"kind": "range", "case": dl[len(do)]})
        nviol += 1
    full = {}
    for (c, comp, msg, ab, line), o in zip(meta, do):
        h, subs = codec.parse_c_listing(o)
        if ab is None:
            full[msg] = [subset_key(s) for s in subs] if h.get("rc") == "0" else None
            continue
        a, b = ab
        rep.count((msg[:80], len(msg), a, b))
        fl = fixed_length(c)
        feat[("compressed" if comp else ("plain_fixed" if fl else "plain_delayed"))] += 1
        if c.get("foreign"):
            feat["foreign_short_string_increments"] += 1
        elif c.get("no_model"):
            feat["ieee_209_columns"] += 1
        if a == b:
            feat["single_subset"] += 1
        if a == 1 and b == len(c["subsets"]):
            feat["whole_range"] += 1
        want_full = full.get(msg)
        if want_full is None:
            continue
        got = [subset_key(s) for s in subs] if h.get("rc") == "0" else None
        want = want_full[a - 1:b]
        robj = {"kind": "range", "case": line, "case_obj": c, "comp": comp, "message": msg, "a": a, "b": b, "decoded": o[:3000]}
        if len(rep.cov["samples"]) < 4 and a > 1:
            rep.sample({"message": msg[:100], "a": a, "b": b, "result": o[:160]})
        fail = None
        if got is None:
            fail = "decoding subsets %d..%d failed (rc=%s) although the whole message decodes" % (a, b, h.get("rc"))
        elif h.get("invalid") != "0":
            fail = "decoding subsets %d..%d flags the dataset invalid" % (a, b)
        elif got == want:
            pass
        elif (not comp) and (not fl) and got == want_full:
            feat["delayed_whole_set_returned"] += 1          # allowed: skipping impossible, whole set returned, still aligned
        else:
            fail = "decoding subsets %d..%d of %d returned %d subsets that are not the slice of the full decode (first difference at subset %s)" % (
                a, b, len(want_full), len(got), next((i for i, (x, y) in enumerate(zip(got, want)) if x != y), "count"))
        if fail:
            rep.violation("C14: %s  [%s; message %s...]" % (fail, "compressed" if comp else "uncompressed", msg[:60]), robj)
            nviol += 1
            if nviol > 8:
                break
    # model: the range decoder of Fm94Slice.v on the same Section 4 bytes
    mlines, mmap = [], []
    for (c, comp, msg, ab, line), o in zip(meta, do):
        if ab is None:
            continue
        fl = fixed_length(c)
        if (not comp and not fl) or c.get("no_model"):
            continue
        try:
            p = bufrmsg.parse(bytes.fromhex(msg))
        except Exception:
            continue
        sublen = sum(f["width"] + f["afw"] for f, _ in c["subsets"][0])
        mlines.append("DECR %d %d %d %d %d %d %d %s %s" % (p["ed"], 1 if p["compressed"] else 0, p["nsub"], ab[0], ab[1], sublen, len(p["descs"]), " ".join(map(str, p["descs"])), p["s4"].hex()))
        mmap.append((c, comp, msg, ab, o))
    if mlines:
        mouts = ctx.run_model(mlines)
        for (c, comp, msg, ab, o), mo_ in zip(mmap, mouts):
            feat["model_range_compared"] += 1
            h, subs = codec.parse_c_listing(o)
            if h.get("rc") != "0":
                continue
            want = []
            for s_ in c["subsets"][ab[0] - 1:ab[1]]:
                want.append(" ".join("%x:%s" % (v.get("af", 0), ("r%x" % v["raw"]) if "raw" in v else "s" + bytes(v["str"]).hex()) for _, v in s_))
            got = [x.split(" ", 1)[1] if " " in x.strip() else "" for x in mo_.split(" ; ")[1:]] if mo_.startswith("DECR ok") else None
            if got is None or [g.strip() for g in got] != want:
                rep.violation("C14: correspondence broken: the model's range decoder (subsets %d..%d) does not return the encoded values on the library's message (%s)" % (ab[0], ab[1], mo_[:80]),
                              {"kind": "range", "case_obj": c, "comp": comp, "message": msg, "a": ab[0], "b": ab[1], "model": mo_[:2000], "correspondence": "Fm94Slice.dec_*_range vs library message"}, no_input=True)
                nviol += 1
                if nviol > 10:
                    break
    # ------------------------------------------------------------------ merging
    ml, mmeta = [], []
    if not replay or replay.get("merge_line"):
        if replay and replay.get("merge_line"):
            ml = [replay["merge_line"]]; mmeta = [tuple(replay["merge_meta"])]
        else:
            nm = 25 if tier == "quick" else 200
            base = [j for j in jobs if len(j[0]["subsets"]) <= 5 and not j[0].get("no_model")][:nm]
            for c, _ in base:
                # a second dataset of the same template, and one of a different template
                try:
                    other = gen.gen_dataset(rng, ctx.T, c["ed"], c["tmpl"], rng.randint(1, 4), same_structure=True)
                    # same replication structure as the destination is not required by the API
                except gen.Reject:
                    continue
                nd, ns = len(c["subsets"]), len(other)
                spec_d = gen.case_line(c["ed"], 0, c["tmpl"], c["subsets"])[2:].replace(" 0 ", " ", 1)
                spec_s = gen.case_line(c["ed"], 0, c["tmpl"], other)[2:].replace(" 0 ", " ", 1)
                triples = [(dp, sp, nb) for dp in range(0, nd + 3) for sp in range(0, ns + 2) for nb in (0, 1, 2, ns, ns + 2)]
                if tier == "quick":
                    triples = rng.sample(triples, min(12, len(triples)))
                for dp, sp, nb in triples:
                    ml.append("M %d %d %d %s @@ %s" % (dp, sp, nb, spec_d, spec_s)); mmeta.append((nd, ns, dp, sp, nb, True))
                # different template: must be refused
                t2 = list(c["tmpl"]) + [1001]
                try:
                    o2 = gen.gen_dataset(rng, ctx.T, c["ed"], t2, 1)
                    ml.append("M 0 0 1 %s @@ %s" % (spec_d, gen.case_line(c["ed"], 0, t2, o2)[2:].replace(" 0 ", " ", 1))); mmeta.append((nd, 1, 0, 0, 1, False))
                except gen.Reject:
                    pass
    mo = ctx.run_c(ml)
    if len(mo) < len(ml):
        rep.violation("C14: the library crashed in bufr_merge_dataset: %s  [%s]" % (ml[len(mo)][:300], ctx.sanitizer_summary()), {"kind": "merge", "merge_line": ml[len(mo)], "merge_meta": list(mmeta[len(mo)])})
    for line, meta1, o in zip(ml, mmeta, mo):
        nd, ns, dp, sp, nb, same_t = meta1
        rep.count(line)
        feat["merge" if same_t else "merge_other_template"] += 1
        h, subs = codec.parse_c_listing(o)
        robj = {"kind": "merge", "merge_line": line, "merge_meta": list(meta1), "result": o[:3000]}
        rc = int(h.get("rc", "-99"))
        if not same_t:
            if rc >= 0:
                rep.violation("C14: merging a dataset of a different template was not refused (returned %d)  [%s]" % (rc, line[:200]), robj)
            continue
        if rc in (-90, -91):
            continue
        # the list specification
        dspec, sspec = line.split(" @@ ")
        # build expected using the library's own listing of the sources (E listing of each)
        got = [subset_key(s) for s in subs]
        n = max(0, min(nb, ns - sp))
        if sp > ns:
            n = 0
        if dp > nd + 2:
            continue
        feat["merge_beyond_end" if dp >= nd else "merge_inside"] += 1
        if rc != n:
            rep.violation("C14: bufr_merge_dataset returned %d, %d subsets are available from position %d of a %d-subset source (count %d)  [%s]" % (rc, n, sp, ns, nb, line[:160]), robj)
            continue
        exp_len = max(nd, dp + 1, dp + n)
        if len(got) != exp_len:
            rep.violation("C14: after merging the destination has %d subsets, expected %d  [%s]" % (len(got), exp_len, line[:160]), robj)
            continue
    # detailed equality of copied subsets (second pass, one E per distinct source/destination spec)
    specs = {}
    for line, meta1 in zip(ml, mmeta):
        if not meta1[5]:
            continue
        parts = line.split(" ", 4)[4].split(" @@ ")
        for sp_ in parts:
            specs.setdefault(sp_, None)
    slines = []
    for sp_ in specs:
        ed, rest = sp_.split(" ", 1)
        slines.append("E %s 0 %s" % (ed, rest))
    so = ctx.run_c(slines)
    for sp_, o in zip(list(specs), so):
        h, subs = codec.parse_c_listing(o)
        specs[sp_] = [subset_key(s) for s in subs] if h.get("rc") == "0" else None
    for line, meta1, o in zip(ml, mmeta, mo):
        nd, ns, dp, sp, nb, same_t = meta1
        if not same_t:
            continue
        h, subs = codec.parse_c_listing(o)
        if int(h.get("rc", "-99")) < 0:
            continue
        parts = line.split(" ", 4)[4].split(" @@ ")
        D, S = specs.get(parts[0]), specs.get(parts[1])
        if D is None or S is None:
            continue
        got = [subset_key(s) for s in subs]
        n = max(0, min(nb, ns - sp)) if sp <= ns else 0
        fail = None
        for i in range(n):
            if dp + i < len(got) and got[dp + i] != S[sp + i]:
                fail = "subset %d of the destination differs from subset %d of the source it was copied from" % (dp + i, sp + i)
                break
        if not fail:
            for j in range(len(got)):
                if j < dp or j >= dp + n:
                    if j < nd and got[j] != D[j]:
                        fail = "subset %d of the destination, outside the copied range, changed" % j
                        break
        if fail:
            rep.violation("C14: %s  [%s]" % (fail, line[:200]), {"kind": "merge", "merge_line": line, "merge_meta": list(meta1), "result": o[:3000]})
            nviol += 1
            if nviol > 12:
                break
    # model: Fm94Slice.merge on position lists, compared with where the library put what
    ml2 = ["MERGE %d %d %d %d %d" % (m[0], m[2], m[1], m[3], m[4]) for m in mmeta if m[5]]
    if ml2:
        rc_, out_, err_ = vlib.sh([ctx.drv], input=("\n".join(ml2) + "\n").encode(), timeout=600)
        mo2 = [l for l in out_.split("\n") if l.startswith("MERGE")]
        k = 0
        for line, meta1, o in zip(ml, mmeta, mo):
            if not meta1[5]:
                continue
            exp = [int(x) for x in mo2[k].split()[1:]] if k < len(mo2) else None
            k += 1
            h, subs = codec.parse_c_listing(o)
            if int(h.get("rc", "-99")) < 0 or exp is None:
                continue
            parts = line.split(" ", 4)[4].split(" @@ ")
            D, S = specs.get(parts[0]), specs.get(parts[1])
            if D is None or S is None:
                continue
            got = [subset_key(s_) for s_ in subs]
            feat["model_merge_compared"] += 1
            ok = len(got) == len(exp)
            if ok:
                for j, e in enumerate(exp):
                    if e >= 200 and got[j] != S[e - 200]:
                        ok = False
                    if 100 <= e < 200 and got[j] != D[e - 100]:
                        ok = False
                    if e == -1 and any(v not in ("i-1", "dM", "fM", "i0") and not (v.startswith("s") and set(v[1:]) <= set("f")) for _, _, v, _ in got[j]):
                        ok = False
            if not ok:
                rep.violation("C14: correspondence broken: bufr_merge_dataset result differs from Fm94Slice.merge (%s)  [%s]" % (mo2[k - 1], line[:160]),
                              {"kind": "merge", "merge_line": line, "merge_meta": list(meta1), "result": o[:3000], "correspondence": "bufr_merge_dataset vs Fm94Slice.merge"}, no_input=True)
                nviol += 1
                if nviol > 14:
                    break
    if not proved and not rep.violations:
        rep.violation("C14: proof obligations no longer check and no failing input was found", getattr(rep, "proof_broken", {}), no_input=True)
    rep.cov["traces_validated_against_impl"] = rep.cov["evaluations"]
    rep.cov["rule"] = ("multi-subset messages (2..12 subsets, compressed and uncompressed, fixed-length and with delayed replication, byte-aligned layouts included) x ALL (a,b) pairs: "
                       "bufr_decode_message_subsets vs the slice of bufr_decode_message; merging: (dest_pos, src_pos, count) triples incl. positions beyond the end, same and different template. "
                       "distinct = distinct (message, a, b) and merge lines")
    rep.cov["distribution"] = dict(feat)

