# c01.py — property C01: encode (uncompressed) then decode returns every value and the subset structure.
# proof: Properties_C01.v; tie: library bytes == reference encoder bytes and library decode listing == reference
# decoder listing; oracle (library alone): decode(encode(d)) compared with the intended values, invalid flag clear.
import random, collections
import vlib, codec, gen, bufrmsg, codecrun


def run(rep, tier, seed, replay=None):
    proved = vlib.proof_step(rep, "Properties_C01")
    ctx = codec.Ctx()
    rng = random.Random(seed)
    n = 700 if tier == "quick" else 8000
    if replay and replay.get("case_obj"):
        cases = [replay["case_obj"]]
    else:
        cases, rej = codecrun.gen_cases(ctx, rng, n, comp_mode=False, max_depth=3 if tier != "quick" else 2)
        c3, _ = codecrun.gen_cases(ctx, rng, n // 5, comp_mode=False, max_depth=3)
        cases += c3
    clines = [gen.case_line(c["ed"], 0, c["tmpl"], c["subsets"]) for c in cases]
    mlines = [gen.case_line(c["ed"], 0, c["tmpl"], c["subsets"], model=True) for c in cases]
    couts = ctx.run_c(clines)
    codecrun.crash_violation(rep, "C01", ctx, clines, couts, "encoding")
    mouts = ctx.run_model(mlines)
    heads = [codec.parse_c_listing(o) for o in couts]
    dlines = ["D " + (h.get("msg") or "00") for h, _ in heads]
    douts = ctx.run_c(dlines)
    codecrun.crash_violation(rep, "C01", ctx, dlines, douts, "decoding its own message")
    feat = collections.Counter()
    nviol = 0
    for i, (c, co, mo) in enumerate(zip(cases, couts, mouts)):
        key = clines[i]
        rep.count(key)
        for ft in codecrun.features(c):
            feat[ft] += 1
        if i >= len(douts):
            break
        head, built = heads[i]
        dh, dsubs = codec.parse_c_listing(douts[i])
        if i % 311 == 0:
            rep.sample({"case": key[:400], "encoded": co[:120], "decoded": douts[i][:200]})
        robj = {"kind": "codec", "case": key, "case_obj": c, "encode": co[:3000], "decode": douts[i][:3000], "model": mo[:500]}
        fail = None
        if head.get("rc") != "0":
            if mo.startswith("ENC ok"):
                fail = "the library could not build/encode (rc=%s) a dataset of representable values" % head.get("rc")
        elif dh.get("rc") != "0":
            fail = "decoding the library's own message failed (rc=%s)" % dh.get("rc")
        elif dh.get("invalid") != "0":
            fail = "the decoded dataset is flagged invalid"
        else:
            fail = codecrun.check_listing_against_intent(c, dsubs)
        if fail:
            rep.violation("C01: %s  [case: %s]" % (fail, key[:300]), robj)
            nviol += 1
        elif head.get("rc") == "0":
            # correspondence: bytes and the built listing
            try:
                p = bufrmsg.parse(bytes.fromhex(head["msg"]))
                mb = bytes.fromhex(mo.split()[3]) if mo.startswith("ENC ok") else None
                if mb is None or not codecrun.s4_equal(p["s4"], mb):
                    rep.violation("C01: correspondence broken: library Section 4 differs from the reference encoder (%s vs %s) while the library's own round trip returns the intended values  [case: %s]"
                                  % (p["s4"].hex()[:50], (mb or b"").hex()[:50], key[:200]),
                                  dict(robj, correspondence="bufr_encode_message vs Fm94.enc_plain"), no_input=True)
                    nviol += 1
            except Exception as e:
                rep.violation("C01: message framing unreadable: %s [case: %s]" % (e, key[:200]), robj)
                nviol += 1
        if nviol > 10:
            break
    # second construction path: zero delayed replication counts left at their default (not set, not re-expanded)
    zc = [(c, l) for c, l in zip(cases, clines) if "zero_count" in codecrun.features(c)]
    if zc and not rep.violations:
        lo = ctx.run_c(["LAZY 1"] + [l for _, l in zc])[1:]
        ctx.run_c(["LAZY 0"])
        base = dict(zip(clines, couts))
        for (c, l), o in zip(zc, lo):
            rep.count(("lazy", l))
            feat["lazy_zero_count"] += 1
            h1, s1 = codec.parse_c_listing(o)
            h0, s0 = codec.parse_c_listing(base[l])
            fail = None
            if h1.get("rc") != "0":
                fail = "building the dataset without setting the zero replication counts failed (rc=%s)" % h1.get("rc")
            else:
                fail = codecrun.check_listing_against_intent(c, s1)
                if not fail and h1.get("msg") != h0.get("msg"):
                    fail = "the message differs from the one built by setting the zero counts explicitly"
            if fail:
                rep.violation("C01: %s  [zero counts left at default; case: %s]" % (fail, l[:300]), {"kind": "codec", "case": l, "case_obj": c, "lazy": True, "library": o[:3000]})
                break
        if len(lo) < len(zc):
            rep.violation("C01: the library crashed building a dataset with default zero counts: %s" % ctx.sanitizer_summary(), {"kind": "codec", "case": zc[len(lo)][1], "lazy": True})
    # integer-stored elements of 32 bits (0 33 195/196 flag tables; 31-bit elements widened by 2 01 YYY): kept out of the
    # generated stream (gen.INT_LIMIT) and probed here, because the library keeps them in an int32_t whose -1 means missing
    if not replay or replay.get("probe32"):
        kf = {f.get("match"): f for f in vlib.known_findings("C01")}
        pl = []
        for d in (33195, 33196):
            if d in ctx.T.B and ctx.T.B[d]["width"] == 32:
                for raw in (5, 0x7fffffff, 0x80000001, 0xfffffffe):
                    pl.append("E 4 0 2 1001 %d 1 r3 r%x |" % (d, raw))
        if replay:
            pl = [replay["case"]]
        po = ctx.run_c(pl)
        pd = ctx.run_c(["D " + (codec.parse_c_listing(o)[0].get("msg") or "00") for o in po])
        for l, o, dd in zip(pl, po, pd):
            rep.count(("probe32", l)); feat["probe_32bit_integer_stored"] += 1
            want = int(l.split()[-2][1:], 16)
            h, subs = codec.parse_c_listing(dd)
            got = [e.get("raw") for its in subs for e in codec.c_elements(its)][-1:] if h.get("rc") == "0" else None
            if got != [want]:
                text = "a 32-bit integer-stored element (%s) set to raw value %x is read back as %s" % (l.split()[5], want, ("%x" % got[0]) if got and got[0] is not None else "nothing")
                if "int32_storage_32bit" in kf and want >= 2 ** 31:
                    rep.finding(kf["int32_storage_32bit"]["what"])
                else:
                    rep.violation("C01: %s  [case: %s]" % (text, l), {"kind": "codec", "case": l, "probe32": True, "encode": o[:500], "decode": dd[:500]})
    if not proved and not rep.violations:
        rep.violation("C01: proof obligations no longer check and the correspondence run found no failing input", getattr(rep, "proof_broken", {}), no_input=True)
    rep.cov["traces_validated_against_impl"] = len(cases)
    rep.cov["rule"] = ("uncompressed datasets over the template grammar (elements of every type, Table D, fixed and delayed replication nested to depth 3 with zero counts, "
                       "operators 2 01-2 08), 1..3 subsets, values from {0,1,max-1,missing,mid,random} on the quantisation grid, editions 2-4; "
                       "each is built through the public API, encoded, decoded by the library and compared with the intention (numerics within half the precision, exact rationals). "
                       "distinct = distinct case lines, all non-trivial (>= 1 data element)")
    rep.cov["distribution"] = dict(feat)
    rep.assumptions = ["numerics are handed over as the double a decode of the intended raw value yields (the physical value of the grid point); scaled numerics up to 32 bits, integer-stored elements up to 31 bits (see known findings)"]
