#!/bin/sh
# soakmany.sh <tier> "<seeds>" <ids...> : several seeds per check
TIER=$1; SEEDS=$2; shift 2
for s in $SEEDS; do sh /verif/lib/soak.sh $s $TIER "$@"; done
