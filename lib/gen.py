# gen.py — generator of templates and datasets for the codec checks (C01-C04, C07, C09, C10, C13, C14 ...).
# It contains a small walker of its own (Table B/D lookup, operators 2 01..2 08, replication) that is used ONLY to
# produce well-typed data for a template; the oracle is the Coq model, never this file.  When generator and model
# disagree on the shape of the data the case is counted as "generator-invalid" and dropped.
import random
from fractions import Fraction

FACTORS = (31000, 31001, 31002, 31011, 31012)


def F(d): return d // 100000
def X(d): return (d // 1000) % 100
def Y(d): return d % 1000


def is_local(d):
    return X(d) >= 48 or Y(d) >= 192


class Tables:
    def __init__(self, b_ents, d_ents):
        self.B, self.D = {}, {}
        for e in b_ents:
            self.B.setdefault(e["desc"], e)
        for k, seq in d_ents:
            self.D.setdefault(k, seq)
        self.pool = {"num": [], "code": [], "flag": [], "str": []}
        for d, e in self.B.items():
            if X(d) in (31, 0) or X(d) == 33 or e["width"] <= 0:
                continue
            if e["kind"] == "str" and (e["width"] % 8 or e["width"] > 8 * 60):
                continue
            if e["kind"] != "str" and e["width"] > 32:
                continue
            if e["kind"] == "num" and e["scale"] < 0 and ((1 << e["width"]) + abs(e["ref"])) * 10 ** (-e["scale"]) >= 2 ** 53:
                continue     # physical values not exactly representable as doubles: covered by C08, not by the codec checks
            if e["kind"] in ("code", "flag") and (e["scale"] != 0 or e["ref"] != 0):
                continue     # table oddity (code table with a scale): outside the regulation
            self.pool[e["kind"]].append(d)
        for k in self.pool:
            self.pool[k].sort()


class St:
    def __init__(self):
        self.dw = 0; self.ds = 0; self.refdef = 0; self.refs = {}; self.af = []; self.locw = 0; self.o207 = 0; self.cw = 0


class Reject(Exception):
    pass


def mk_field(T, st, d):
    e = T.B.get(d)
    afw = sum(st.af)
    if e is None:
        if is_local(d) and st.locw > 0:
            return dict(desc=d, kind="num", width=st.locw, scale=0, ref=0, afw=afw)
        raise Reject("unknown element %06d" % d)
    if X(d) == 31:
        return dict(desc=d, kind=e["kind"], width=e["width"], scale=e["scale"], ref=e["ref"], afw=0, c31=True)
    k = e["kind"]
    if k == "str":
        return dict(desc=d, kind="str", width=8 * st.cw if st.cw > 0 else e["width"], scale=e["scale"], ref=e["ref"], afw=afw)
    if k in ("code", "flag"):
        return dict(desc=d, kind=k, width=e["width"], scale=e["scale"], ref=e["ref"], afw=afw)
    if st.refdef > 0:
        return dict(desc=d, kind="refdef", width=st.refdef, scale=0, ref=0, afw=0)
    r0 = st.refs.get(d, e["ref"])
    if is_local(d) and st.locw > 0:
        w = st.locw
    else:
        w = e["width"] + st.dw + ((10 * st.o207 + 2) // 3 if st.o207 else 0)
    return dict(desc=d, kind="num", width=w, scale=e["scale"] + st.ds + st.o207, ref=r0 * 10 ** st.o207, afw=afw)


def resolve(ed, st, d):
    x, y = X(d), Y(d)
    if x == 1: st.dw = 0 if y == 0 else y - 128
    elif x == 2: st.ds = 0 if y == 0 else y - 128
    elif x == 3:
        if y == 255: st.refdef = 0
        elif y == 0: st.refdef = 0; st.refs = {}
        else: st.refdef = y
    elif x == 4:
        if y == 0: st.af = st.af[1:]
        else: st.af = [y] + st.af
    elif x == 6: st.locw = y
    elif x == 7:
        if ed < 4: raise Reject("2 07 in edition %d" % ed)
        st.o207 = y
    elif x == 8:
        if ed < 4: raise Reject("2 08 in edition %d" % ed)
        st.cw = y
    else:
        raise Reject("operator %06d" % d)


def count_of(d, n):
    if d == 31000: return 1 if n else 0
    if d in (31011, 31012): return 1
    return n


def walk(T, ed, descs, choose, limit=4000):
    """choose(field) -> value dict {raw|str, af}; returns list of (field, value)"""
    out = []
    st = St()
    work = list(descs)
    steps = 0
    while work:
        steps += 1
        if steps > 200000 or len(out) > limit:
            raise Reject("too large")
        d = work.pop(0)
        if F(d) == 0:
            f = mk_field(T, st, d)
            v = choose(f)
            out.append((f, v))
            if f["kind"] == "refdef":
                w = f["width"]; n = v["raw"]; half = 1 << (w - 1)
                st.refs[d] = -(n - half) if n >= half else n
            elif st.locw > 0:
                st.locw = 0
        elif F(d) == 1:
            x, y = X(d), Y(d)
            if y == 0:
                if not work or work[0] not in FACTORS:
                    raise Reject("delayed replication without factor")
                c = work.pop(0)
                f = mk_field(T, st, c)
                v = choose(f)
                out.append((f, v))
                if len(work) < x:
                    raise Reject("span past the end")
                work = work[:x] * count_of(c, v["raw"]) + work[x:]
            else:
                if len(work) < x:
                    raise Reject("span past the end")
                work = work[:x] * y + work[x:]
        elif F(d) == 2:
            if X(d) == 5:
                f = dict(desc=d, kind="chars", width=8 * Y(d), scale=0, ref=0, afw=0)
                out.append((f, choose(f)))
            else:
                resolve(ed, st, d)
        else:
            seq = T.D.get(d)
            if seq is None:
                raise Reject("unknown sequence %06d" % d)
            work = list(seq) + work
    return out


def wf(f):
    if f["kind"] in ("str", "chars"):
        return 0 < f["width"] <= 8 * 255 and f["width"] % 8 == 0 and 0 <= f["afw"] <= 64
    return 0 < f["width"] <= 64 and 0 <= f["afw"] <= 64


# ------------------------------------------------------------------ value choice
INT_LIMIT = True


def nbits_inc(x):
    k = 1
    while not x < (1 << k) - 1:
        k += 1
    return k


def int_stored(f):
    """elements the library keeps as INT32/INT64 (bufr_encoding_to_valtype): code/flag tables, and numerics with scale 0 and reference >= 0"""
    if f["kind"] in ("code", "flag"):
        return True
    if f["kind"] == "num" and f["scale"] == 0 and f["ref"] >= 0:
        return True
    return False


STR_SHAPES = ("full", "short", "blanks", "embedded", "missing", "quote")


def choose_value(rng, f, maxcount=3, col_mode=None):
    if not wf(f):
        raise Reject("width %d of %06d out of model scope" % (f["width"], f["desc"]))
    af = rng.choice([0, (1 << f["afw"]) - 1, rng.getrandbits(f["afw"])]) if f["afw"] else 0
    if f["kind"] in ("str", "chars"):
        n = f["width"] // 8
        shape = rng.choice(STR_SHAPES)
        if shape == "full": s = [rng.randrange(33, 127) for _ in range(n)]
        elif shape == "short": k = rng.randint(0, n); s = [rng.randrange(33, 127) for _ in range(k)] + [32] * (n - k)
        elif shape == "blanks": s = [32] * n
        elif shape == "embedded": s = [rng.choice([32, 65, 66, 97]) for _ in range(n)]
        elif shape == "quote": s = [rng.choice([34, 39, 65, 92, 32]) for _ in range(n)]
        else: s = [255] * n
        if s and s[0] == 32 and shape not in ("blanks",):
            s[0] = 65
        return dict(str=s, af=af)
    w = f["width"]
    ones = (1 << w) - 1
    if f["kind"] == "num" and abs(f["ref"]) >= 2 ** 31:
        raise Reject("reference value beyond 32 bits after 2 07 YYY: outside what a reference value can hold")
    if f["kind"] == "num" and w > 32:
        raise Reject("scaled numeric wider than 32 bits: outside the property's range")
    if INT_LIMIT and f["kind"] != "refdef" and int_stored(f) and w > 31:
        raise Reject("32-bit element kept in INT32 storage (known finding, generated separately)")
    if f["desc"] in FACTORS:
        if f["desc"] == 31000:
            return dict(raw=rng.choice([0, 1]), af=0)
        if f["desc"] in (31011, 31012):
            return dict(raw=rng.randint(1, min(ones, 5)), af=0)
        if f["desc"] == 31001 and rng.random() < 0.04:
            return dict(raw=ones, af=0)          # the all-ones count (255): a value, not 'missing' (class 31)
        return dict(raw=rng.choice([0, 0, 1, 1, 2, 2, 3, maxcount]), af=0)
    if f["kind"] == "refdef":
        mag = rng.choice([0, 1, (1 << (w - 1)) - 1, rng.getrandbits(w - 1)]) if w > 1 else 0
        mag = min(mag, 2 ** 30)
        sign = rng.choice([0, 1]) if w > 1 and mag else 0
        if sign and (mag == 1 or mag == (1 << (w - 1)) - 1):
            mag = 2 if w > 2 else 0      # new references -1 and -(2^(w-1)-1): known finding (taken for 'missing'), probed separately
            sign = sign if mag else 0
        return dict(raw=(sign << (w - 1)) | mag, af=0)
    if f.get("c31"):
        return dict(raw=rng.choice([0, 1, ones - 1 if ones > 1 else 0, rng.getrandbits(w)]), af=0)
    return dict(raw=rng.choice([0, 1 if ones > 1 else 0, max(ones - 1, 0), ones, ones >> 1, rng.getrandbits(w), rng.getrandbits(w)]), af=af)


def token(v):
    pre = ("a%x," % v["af"]) if v.get("af") else ""
    if "str" in v:
        return pre + "s" + bytes(v["str"]).hex()
    return pre + "r%x" % v["raw"]


# ------------------------------------------------------------------ template grammar
class TGen:
    def __init__(self, rng, T, ed, ops=True, max_depth=3, dseqs=None, delayed=True, local_descs=()):
        self.rng, self.T, self.ed, self.ops, self.max_depth = rng, T, ed, ops, max_depth
        self.dseqs = dseqs or []
        self.delayed = delayed
        self.local_descs = list(local_descs)
        self.allow203 = False
        self.active = set()
        self.nest204 = True
        self._n204 = 0

    def elem(self, kinds=("num", "num", "num", "code", "flag", "str")):
        k = self.rng.choice(kinds)
        return [self.rng.choice(self.T.pool[k])]

    def item(self, depth):
        r = self.rng.random()
        if depth >= self.max_depth or r < 0.45:
            return self.elem()
        if r < 0.55 and self.dseqs:
            return [self.rng.choice(self.dseqs)]
        if r < 0.70:
            body = self.body(depth + 1, self.rng.randint(1, 3))
            return [100000 + len(body) * 1000 + self.rng.choice([1, 2, 3])] + body if len(body) < 64 else body
        if r < 0.85 and self.delayed:
            body = self.body(depth + 1, self.rng.randint(1, 3))
            if len(body) >= 64:
                return body
            return [100000 + len(body) * 1000, self.rng.choice([31001, 31001, 31002, 31000, 31011, 31012])] + body
        if self.ops:
            return self.opscope(depth)
        return self.elem()

    def body(self, depth, n):
        out = []
        for _ in range(n):
            out += self.item(depth)
        return out

    def opscope(self, depth):
        rng = self.rng
        act = self.active
        choices = [] if ({"202", "207"} & act) else ["206"]   # an unknown local descriptor has no Table B scale to change
        if "204" not in act or self.nest204:
            choices.append("204")
        if "204" not in act:
            choices.append("205")          # 2 05 inside a 2 04 scope: the regulation is ambiguous about an AF prefix; not generated
        if "207" not in act:
            choices += [c for c in ("201", "202", "203") if c not in act]
        if self.ed >= 4:
            if not ({"201", "202", "203", "207"} & act):
                choices.append("207")     # 2 07 combined with 2 01/2 02/2 03: not generated (note to 2 07 in Table C)
            if "208" not in act:
                choices.append("208")
        if not choices:
            return self.elem()
        op = rng.choice(choices)
        had = op in act
        act.add(op)
        try:
            inner = self.body(depth + 1, rng.randint(1, 3))
        finally:
            if not had:
                act.discard(op)
        return self._emit(op, inner)

    def _emit(self, op, inner):
        rng = self.rng
        if op == "201":
            return [201000 + rng.choice([129, 130, 127, 126, 132, 136])] + inner + [201000]
        if op == "202":
            return [202000 + rng.choice([129, 130, 127, 126])] + inner + [202000]
        if op == "207":
            return [207000 + rng.choice([1, 2, 3])] + inner + [207000]
        if op == "208":
            return [208000 + rng.choice([1, 2, 5, 12, 30])] + self.elem(("str",)) + inner + [208000]
        if op == "204":
            return [204000 + rng.choice([1, 2, 4, 7, 8, 16])] + [31021] + inner + [204000]
        if op == "203":
            if not self.allow203:
                return inner
            nums = [self.rng.choice(self.T.pool["num"]) for _ in range(rng.randint(1, 2))]
            return [203000 + rng.choice([8, 12, 16, 24])] + nums + [203255] + nums + inner + [203000]
        if op == "205":
            return [205000 + rng.choice([1, 3, 8])]
        if op == "206":
            ld = rng.choice(self.local_descs) if self.local_descs and rng.random() < 0.5 else rng.choice([12250, 48001, 63255])
            return [206000 + rng.choice([1, 7, 8, 13, 24, 32])] + [ld]
        return inner

    def template(self):
        return self.body(0, self.rng.randint(1, 5))


def gen_dataset(rng, T, ed, tmpl, nsub, same_structure=False, column_mode=None):
    """-> list of subsets, each a list of (field, value); raises Reject"""
    subsets = []
    first = None
    for s in range(nsub):
        if same_structure and first is not None:
            it = iter(first)

            def choose(f, it=it):
                f0, v0 = next(it)
                if f["desc"] in FACTORS or f["kind"] == "refdef" or f["desc"] == 31021:
                    return dict(v0)
                return column_value(rng, f, v0, column_mode)
            subsets.append(walk(T, ed, tmpl, choose))
        else:
            subsets.append(walk(T, ed, tmpl, lambda f: choose_value(rng, f)))
            if first is None:
                first = subsets[0]
    return subsets


def column_value(rng, f, v0, mode):
    """value for subset k>0 of a column whose first value is v0; mode shapes the column"""
    m = mode or rng.choice(["equal", "random", "missing", "near", "span", "random"])
    v = choose_value(rng, f)
    if m == "equal":
        return dict(v0)
    if "str" in v0:
        if m == "missing":
            return dict(str=[255] * len(v0["str"]), af=v0.get("af", 0))
        return v
    w = f["width"]; ones = (1 << w) - 1
    if m == "missing":
        return dict(raw=ones if rng.random() < 0.5 else v0["raw"], af=v0.get("af", 0))
    if m == "near":
        k = rng.choice([0, 1, 2, 3, 7, 8, 15, 16])
        return dict(raw=min(max(v0["raw"] + rng.choice([-1, 1]) * k, 0), ones), af=v.get("af", 0))
    if m == "span":
        return dict(raw=rng.choice([0, max(ones - 1, 0)]), af=v.get("af", 0))
    return v


def case_line(ed, comp, tmpl, subsets, seed=0, model=False):
    toks = " | ".join(" ".join(token(v) for _, v in s) for s in subsets) + " |"
    if model:
        return "ENC %d %d %d %d %s %d %s" % (ed, comp, seed, len(tmpl), " ".join(map(str, tmpl)), len(subsets), toks)
    return "E %d %d %d %s %d %s" % (ed, comp, len(tmpl), " ".join(map(str, tmpl)), len(subsets), toks)


def phys(f, raw):
    """exact physical value of a raw value"""
    return Fraction(raw + f["ref"]) / (Fraction(10) ** f["scale"])
