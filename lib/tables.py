# tables.py — independent reader of the CMC-format Table B / Table D files (written from the file format,
# not from bufr_tables.c): used to feed the model and as the C12 oracle.
import os, re

KIND = {"num": 0, "code": 1, "flag": 2, "str": 3}


def unit_kind(unit):
    u = unit.upper()
    if u.startswith("NUMERI"):
        return "num"
    if u[:10] in ("FLAG TABLE", "TABLE FLAG") or u[:9] in ("TABLEFLAG", "MARQUEURS", "FLAGTABLE"):
        return "flag"
    if u[:10] in ("TABLE CODE", "CODE TABLE") or u[:9] in ("TABLECODE", "CODETABLE"):
        return "code"
    if u.startswith("CCITT IA5") or u.startswith("CCITTIA5"):
        return "str"
    return "num"


def is_local(d):
    x, y = (d // 1000) % 100, d % 1000
    return x >= 48 or y >= 192


def atoi(s):
    m = re.match(r"\s*([+-]?\d+)", s)
    return int(m.group(1)) if m else 0


def read_table_b(path, local=False):
    """-> dict desc -> dict(kind, scale, ref, width, name, unit); later lines override earlier ones? (kept as list too)"""
    ents = []
    with open(path, "rb") as f:
        for ln, raw in enumerate(f.read().split(b"\n"), 1):
            line = raw.decode("latin-1")
            if not line or line[0] in "#*":
                continue
            if line[0] != "0" or len(line) + 1 < 82:      # fgets keeps the newline: strlen >= 82
                continue
            d = atoi(line[0:8])
            if d // 100000 != 0:
                continue
            if not local and is_local(d):
                continue
            unit = line[52:63].strip()
            ents.append(dict(desc=d, name=line[8:52].rstrip(), unit=unit, kind=unit_kind(unit),
                             scale=atoi(line[63:]), ref=atoi(line[66:]), width=atoi(line[78:]), line=ln))
    return ents


def read_table_d(path):
    ents = []
    with open(path, "rb") as f:
        for raw in f.read().split(b"\n"):
            line = raw.decode("latin-1")
            if not line or line[0] != "3":
                continue
            toks = line.split()
            if len(toks) > 1:
                ents.append((atoi(toks[0]), [atoi(t) for t in toks[1:]]))
    return ents


def master_tables(repo):
    b = read_table_b(os.path.join(repo, "Tables", "table_b_bufr"), local=True)   # bufr_load_m_tableB keeps local descriptors too
    d = read_table_d(os.path.join(repo, "Tables", "table_d_bufr"))
    return b, d


def model_table_lines(b, d):
    """lines of the model driver's table protocol (first occurrence wins in the model's assoc list, so dedupe here keeping
    the entry the library's lookup returns for unique keys; duplicates are reported separately by C12)"""
    seen = set()
    out = []
    for e in b:
        if e["desc"] in seen:
            continue
        seen.add(e["desc"])
        out.append("TB %d %d %d %d %d" % (e["desc"], KIND[e["kind"]], e["scale"], e["ref"], e["width"]))
    seen = set()
    for k, seq in d:
        if k in seen:
            continue
        seen.add(k)
        out.append("TD %d %s" % (k, " ".join(map(str, seq))))
    return out
