# codec.py — shared machinery of the encoder/decoder checks: runs the C harness (harness/codec.c) and the
# extracted Coq model (ocaml/fm94_driver.ml) on the same cases and parses their canonical listings.
import os, random
from fractions import Fraction
import vlib, tables, gen, bufrmsg


class Ctx:
    def __init__(self):
        self.exe = vlib.build_harness("codec", replace=[("bufr_dataset", "wrap_dataset.c")], wrap=["exit"])
        self.drv = vlib.extract_and_build_driver("fm94")
        self.b, self.d = tables.master_tables(vlib.REPO)
        self.tlines = tables.model_table_lines(self.b, self.d)
        self.T = gen.Tables(self.b, self.d)
        self.cerr = ""

    def run_c(self, lines, timeout=1800):
        rc, out, err = vlib.run_cases(self.exe, "\n".join(lines) + "\n", timeout=timeout)
        self.cerr = err
        self.crc = rc
        out = out[:-1] if out and out[-1] == "" else out
        return out

    def run_model(self, lines, timeout=1800):
        rc, out, err = vlib.sh("ulimit -s unlimited 2>/dev/null || ulimit -s 1000000; exec %s" % self.drv, input=("\n".join(self.tlines + lines) + "\n").encode(), timeout=timeout)
        if rc != 0:
            raise RuntimeError("model driver failed: " + err[-2000:])
        out = out.split("\n")
        return out[:-1] if out and out[-1] == "" else out

    def sanitizer_summary(self):
        return " | ".join(l for l in self.cerr.split("\n") if "ERROR: AddressSanitizer" in l or "SUMMARY" in l or "runtime error" in l)[:600]


def parse_c_item(tok):
    f = tok.split("/")
    d = dict(desc=int(f[0]), flags=int(f[1], 16), type=int(f[2]), width=int(f[3]), scale=int(f[4]), ref=int(f[5]))
    afn, afb = f[6].split(":")
    d["afw"] = int(afn); d["af"] = None if afb == "-" else int(afb, 16)
    val = f[7]
    raw = None
    if "=" in val:
        val, r = val.split("=")
        raw = None if r == "EXIT" else int(r, 16)
        d["raw_exit"] = (r == "EXIT")
    d["val"] = val; d["raw"] = raw
    return d


def parse_c_listing(line):
    """'X rc=.. k=v .. ; S0 items ; S1 items' -> (head dict, [subset item lists])"""
    parts = line.split(" ; ")
    head = {}
    toks = parts[0].split()
    head["cmd"] = toks[0] if toks else ""
    for t in toks[1:]:
        if "=" in t:
            k, v = t.split("=", 1)
            head[k] = v
    subsets = []
    for p in parts[1:]:
        ts = p.split()
        subsets.append([parse_c_item(t) for t in ts[1:]])
    return head, subsets


SKIPPED = 4
DATA_TYPES = (4, 5, 6, 7, 8, 9)   # NUMERIC, CCITT, CODE, FLAG, CHNG_REF, IEEE


def c_elements(items):
    """the data-carrying (non-skipped) elements of a C listing, in order"""
    return [it for it in items if not (it["flags"] & SKIPPED) and it["type"] in DATA_TYPES]


def parse_model_item(tok):
    f = tok.split("/")
    afw, af = f[5].split(":")
    d = dict(desc=int(f[0]), kind=f[1], width=int(f[2]), scale=int(f[3]), ref=int(f[4]), afw=int(afw), af=int(af, 16))
    v = f[6]
    if v[0] == "r":
        d["raw"] = int(v[1:], 16)
    else:
        d["str"] = list(bytes.fromhex(v[1:]))
    return d


def parse_model_listing(line):
    parts = line.split(" ; ")
    head = parts[0].split()
    subsets = [[parse_model_item(t) for t in p.split()[1:]] for p in parts[1:]]
    return head, subsets


def c_value_matches(f, v, it):
    """does the C element `it` (decoded or built) carry the intended value v of field f?  Returns None or a reason.
    numeric: |reported - phys| < half the precision (exact rational arithmetic); missing <-> missing; strings exact."""
    kind = f["kind"]
    if kind in ("str", "chars"):
        if not it["val"].startswith("s"):
            return "string expected, got %s" % it["val"]
        got = bytes.fromhex(it["val"][1:]) if it["val"] != "sNULL" else b""
        want = bytes(v["str"])
        if all(c == 255 for c in want) and want:
            # missing string: all ones
            return None if (got == want or got.rstrip(b" ") == want.rstrip(b" ")) else "missing string expected, got %s" % got.hex()
        if got != want and got.rstrip(b" ") != want.rstrip(b" "):
            return "string %s expected, got %s" % (want.hex(), got.hex())
        return None
    w = f["width"]; ones = (1 << w) - 1
    raw = v["raw"]
    c31 = (f["desc"] // 1000) % 100 == 31
    val = it["val"]
    if kind == "refdef":
        half = 1 << (w - 1)
        want = -(raw - half) if raw >= half else raw
        return None if val == "i%d" % want else "2 03 operand %d expected, got %s" % (want, val)
    if raw == ones and not c31:
        return None if val in ("i-1", "dM", "fM") else "missing expected, got %s" % val
    if raw == ones and c31 and kind in ("code", "flag") and val == "i-1":
        return None      # class 31 code/flag tables (0 31 021 = 63 'missing value'): reported as -1, re-encoded as all ones
    if val.startswith("i"):
        iv = int(val[1:])
        if kind in ("code", "flag") or c31:
            return None if iv == raw else "value %d expected, got %d" % (raw, iv)
        # integer storage of a numeric: physical value must be exact up to half precision
        ph = gen.phys(f, raw)
        return None if abs(Fraction(iv) - ph) * 2 < Fraction(10) ** (-f["scale"]) else "value %s expected, got %d" % (ph, iv)
    if val.startswith("d") or val.startswith("f"):
        import struct
        if val[1:] == "M":
            return "value expected, got missing"
        x = struct.unpack(">d", bytes.fromhex(val[1:]))[0] if val[0] == "d" else struct.unpack(">f", bytes.fromhex(val[1:]))[0]
        ph = gen.phys(f, raw)
        return None if abs(Fraction(x) - ph) * 2 < Fraction(10) ** (-f["scale"]) else "value %s expected, got %r" % (float(ph), x)
    return "unexpected value %s" % val


def layout_mismatch(f, it):
    """compare the field the model/generator computed with the C descriptor's encoding"""
    if f["desc"] != it["desc"]:
        return "descriptor %06d expected, got %06d" % (f["desc"], it["desc"])
    if f["width"] != it["width"]:
        return "%06d: data width %d expected, got %d" % (f["desc"], f["width"], it["width"])
    if f["kind"] == "num" and (f["scale"] != it["scale"] or f["ref"] != it["ref"]):
        return "%06d: scale/reference %d/%d expected, got %d/%d" % (f["desc"], f["scale"], f["ref"], it["scale"], it["ref"])
    if f["afw"] != it["afw"]:
        return "%06d: associated field of %d bits expected, got %d" % (f["desc"], f["afw"], it["afw"])
    return None
