# c09.py — property C09: Table C operators 2 01 - 2 08 change width, scale, reference and fields as regulated.
# proof: Properties_C09.v (field computation shared by the reference encoder and decoder).
# tie: (1) systematic sweep: every operator x operand value x element type x edition as a one-scope template, built through
# the public API and encoded: the library's per-element width/scale/reference/AF width and the Section 4 bytes are compared
# with the model's layout; (2) 2 03 YYY: reference-encoded messages decoded by the library (the API encode path is a known
# finding); (3) random nested / cancelled / re-applied scopes inside and across replication and Table D.
import random, collections
import vlib, codec, gen, bufrmsg, codecrun


def pick_elems(ctx, rng):
    """a few elements of each type: numeric with zero/positive/negative reference and scale, code, flag, string, class 31"""
    T = ctx.T
    nums = T.pool["num"]
    sel = {"num_ref0": [d for d in nums if T.B[d]["ref"] == 0 and T.B[d]["scale"] >= 0 and T.B[d]["width"] <= 20],
           "num_refneg": [d for d in nums if T.B[d]["ref"] < 0 and T.B[d]["width"] <= 20],
           "num_refpos": [d for d in nums if T.B[d]["ref"] > 0 and T.B[d]["scale"] != 0 and T.B[d]["width"] <= 20],
           "num_scaleneg": [d for d in nums if T.B[d]["scale"] < 0 and T.B[d]["width"] <= 20],
           "code": T.pool["code"], "flag": T.pool["flag"], "str": [d for d in T.pool["str"] if T.B[d]["width"] <= 64]}
    out = []
    for k, l in sel.items():
        if l:
            out += [(k, d) for d in rng.sample(l, min(2, len(l)))]
    return out


def sweep_templates(ctx, rng, tier):
    """(ed, tmpl, label) — one operator scope around one element (+ a class 31 element to show it is untouched)"""
    out = []
    elems = pick_elems(ctx, rng)
    step = 1 if tier != "quick" else 3
    for ed in (2, 3, 4):
        for kind, d in elems:
            w = ctx.T.B[d]["width"]
            for y in range(1, 256, step):
                if 1 <= w + (y - 128) <= 32:
                    out.append((ed, [201000 + y, d, 31001, 201000, d], "201/%s" % kind))
                if -20 <= (y - 128) <= 20:
                    out.append((ed, [202000 + y, d, 202000, d], "202/%s" % kind))
            for y in (1, 2, 3, 5, 8, 13, 16, 24, 32, 48, 63):
                out.append((ed, [204000 + y, 31021, d, 31001, 204000, d], "204/%s" % kind))
            out.append((ed, [204003, 31021, 204005, 31021, d, 204000, d, 204000, d], "204nested/%s" % kind))
            if ed >= 4:
                for y in range(1, 10):
                    if w + (10 * y + 2) // 3 <= 32 and abs(ctx.T.B[d]["ref"]) * 10 ** y < 2 ** 31:
                        out.append((ed, [207000 + y, d, 31002, 207000, d], "207/%s" % kind))
                for y in (1, 2, 3, 7, 20, 50, 63):
                    out.append((ed, [208000 + y, d, 208000, d], "208/%s" % kind))
            else:
                out.append((ed, [207002, d, 207000], "207early/%s" % kind))
                out.append((ed, [208004, d, 208000], "208early/%s" % kind))
        for y in (1, 2, 7, 8, 13, 24, 31):
            out.append((ed, [206000 + y, 63250, 12101], "206"))
            # the boundaries of "local descriptor" (X 48..63 or Y 192..255): unknown descriptors just inside the definition,
            # and a known numeric local descriptor whose table width differs from YYY
            for ld in (24192, 24193, 24255, 48000, 48001, 47192, 63192):
                out.append((ed, [1001, 206000 + y, ld, 1002], "206_local_boundary"))
            if y != 9:
                out.append((ed, [1001, 206000 + y, 12192, 1002], "206_known_local"))
        for y in (1, 2, 9, 40):
            out.append((ed, [205000 + y, 12101], "205"))
    return out


def t203_templates(ctx, rng, n):
    out = []
    nums = [d for d in ctx.T.pool["num"] if ctx.T.B[d]["width"] <= 24]
    for _ in range(n):
        ed = rng.choice([2, 3, 4])
        k = rng.randint(1, 3)
        ds = rng.sample(nums, k)
        y = rng.choice([8, 12, 16, 20, 24])
        body = list(ds) + [rng.choice(ctx.T.pool["code"])] + [rng.choice(nums)]
        t = [203000 + y] + ds + [203255] + body + [203000] + ds
        if rng.random() < 0.4:
            t = [100000 + len(t) * 1000, 31001] + t
        out.append((ed, t, "203"))
    return out


def run(rep, tier, seed, replay=None):
    proved = vlib.proof_step(rep, "Properties_C09")
    ctx = codec.Ctx()
    rng = random.Random(seed)
    feat = collections.Counter()
    nviol = 0
    # ---------------- (1) sweep + (3) random scopes, through the API encoder
    cases = []
    if replay and replay.get("case_obj"):
        cases = [(replay["case_obj"], replay.get("label", "replay"))]
    else:
        for ed, t, label in sweep_templates(ctx, rng, tier):
            try:
                subs = gen.gen_dataset(rng, ctx.T, ed, t, 1)
                cases.append((dict(ed=ed, tmpl=t, subsets=subs, same=True), label))
            except gen.Reject as e:
                if "early" in label:
                    cases.append((dict(ed=ed, tmpl=t, subsets=None, same=True), label))
        rnd, _ = codecrun.gen_cases(ctx, rng, 300 if tier == "quick" else 3000, comp_mode=False, max_depth=3)
        cases += [(c, "random") for c in rnd if any(gen.F(d) == 2 for d in c["tmpl"])]
    real = [(c, l) for c, l in cases if c["subsets"] is not None]
    early = [(c, l) for c, l in cases if c["subsets"] is None]
    clines = [gen.case_line(c["ed"], 0, c["tmpl"], c["subsets"]) for c, _ in real]
    mlines = [gen.case_line(c["ed"], 0, c["tmpl"], c["subsets"], model=True) for c, _ in real]
    couts = ctx.run_c(clines)
    codecrun.crash_violation(rep, "C09", ctx, clines, couts, "building/encoding")
    mouts = ctx.run_model(mlines)
    for i, ((c, label), co, mo) in enumerate(zip(real, couts, mouts)):
        key = clines[i]
        rep.count(key)
        feat[label.split("/")[0]] += 1
        head, built = codec.parse_c_listing(co)
        if i % 1501 == 0:
            rep.sample({"case": key[:200], "label": label, "library": co[:200]})
        robj = {"kind": "codec", "case": key, "case_obj": c, "label": label, "library": co[:3000], "model": mo[:500]}
        fail = None
        if head.get("rc") != "0":
            fail = "the library refused/failed (rc=%s) on a legal operator use" % head.get("rc") if mo.startswith("ENC ok") else None
        elif head.get("invalid") != "0":
            fail = "the dataset is flagged invalid although the operators are legal in edition %d" % c["ed"]
        else:
            els = codec.c_elements(built[0]) if built else []
            want = c["subsets"][0]
            if len(els) != len(want):
                fail = "%d data fields, the regulation gives %d" % (len(els), len(want))
            else:
                for (f, v), it in zip(want, els):
                    fail = codec.layout_mismatch(f, it)
                    if fail:
                        break
        if fail:
            rep.violation("C09: %s  [%s; case: %s]" % (fail, label, key[:300]), robj)
            nviol += 1
        elif head.get("rc") == "0" and mo.startswith("ENC ok"):
            p = bufrmsg.parse(bytes.fromhex(head["msg"]))
            mb = bytes.fromhex(mo.split()[3]) if len(mo.split()) > 3 else b""
            if not codecrun.s4_equal(p["s4"], mb):
                rep.violation("C09: bit positions differ from the regulation's layout: Section 4 %s vs %s  [%s; case: %s]" % (p["s4"].hex()[:60], mb.hex()[:60], label, key[:300]), robj)
                nviol += 1
        if nviol > 10:
            break
    # 2 07 / 2 08 in editions that do not define them: the library must not silently accept them as valid
    elines = ["E %d 0 %d %s 1 |" % (c["ed"], len(c["tmpl"]), " ".join(map(str, c["tmpl"]))) for c, _ in early]
    eouts = ctx.run_c(elines)
    for (c, label), co, line in zip(early, eouts, elines):
        rep.count(line)
        feat["edition_gate"] += 1
        head, _ = codec.parse_c_listing(co)
        if head.get("rc") == "0" and head.get("invalid") == "0":
            rep.violation("C09: operator of edition 4 accepted as valid in an edition %d template  [case: %s]" % (c["ed"], line), {"kind": "codec", "case": line})
            nviol += 1
    # ---------------- (2) 2 03 YYY through the decoder (reference-encoded messages)
    t203 = t203_templates(ctx, rng, 150 if tier == "quick" else 1500)
    c203 = []
    g = gen.TGen(rng, ctx.T, 4)
    for ed, t, label in t203:
        try:
            subs = gen.gen_dataset(rng, ctx.T, ed, t, rng.choice([1, 2]))
            c203.append(dict(ed=ed, tmpl=t, subsets=subs, same=False))
        except gen.Reject:
            pass
    ml = [gen.case_line(c["ed"], 0, c["tmpl"], c["subsets"], model=True) for c in c203]
    mo = ctx.run_model(ml)
    dl, idx = [], []
    for i, (c, o) in enumerate(zip(c203, mo)):
        if o.startswith("ENC ok") and len(o.split()) > 3:
            dl.append("D " + bufrmsg.build(c["ed"], c["tmpl"], len(c["subsets"]), False, bytes.fromhex(o.split()[3])).hex())
            idx.append(i)
    do = ctx.run_c(dl)
    codecrun.crash_violation(rep, "C09", ctx, dl, do, "decoding a message with 2 03 YYY")
    for k, i in enumerate(idx):
        if k >= len(do):
            break
        c = c203[i]
        rep.count(ml[i])
        feat["203_decode"] += 1
        dh, dsubs = codec.parse_c_listing(do[k])
        fail = None
        if dh.get("rc") != "0" or dh.get("invalid") != "0":
            fail = "message with 2 03 YYY not decoded cleanly (rc=%s invalid=%s)" % (dh.get("rc"), dh.get("invalid"))
        else:
            fail = codecrun.check_listing_against_intent(c, dsubs)
        if fail:
            rep.violation("C09: %s  [2 03 case: %s]" % (fail, ml[i][:300]), {"kind": "codec", "case": ml[i], "case_obj": c, "message": dl[k][2:], "decoded": do[k][:3000]})
            nviol += 1
            if nviol > 12:
                break
    # ---------------- known finding: 2 03 YYY through the descriptor API (encode side)
    kf = vlib.known_findings("C09")
    probe = "E 4 0 5 203012 12101 203255 12101 203000 1 r864 r6ab3 |"
    po = ctx.run_c([probe])
    if po:
        h, b = codec.parse_c_listing(po[0])
        els = codec.c_elements(b[0]) if b else []
        broken = not (len(els) == 2 and els[1]["ref"] == -100)
        if broken:
            m = [f for f in kf if f.get("match") == "api_encode_203"]
            if m:
                rep.finding(m[0]["what"])
            else:
                rep.violation("C09: 2 03 YYY: the new reference value is not applied by the API encoder to the following element (reference %s, expected -100)  [case: %s]"
                              % (els[1]["ref"] if len(els) > 1 else "?", probe), {"kind": "codec", "case": probe})
    # known finding: a new reference value of -1 (or the all-ones operand) is taken for 'missing' and ignored by the decoder
    m1 = ctx.run_model(["ENC 4 0 0 5 203008 12101 203255 12101 203000 1 r81 r6ab3 |"])
    if m1 and m1[0].startswith("ENC ok"):
        msg = bufrmsg.build(4, [203008, 12101, 203255, 12101, 203000], 1, False, bytes.fromhex(m1[0].split()[3]))
        d1 = ctx.run_c(["D " + msg.hex()])
        if d1:
            h, b = codec.parse_c_listing(d1[0])
            els = codec.c_elements(b[0]) if b else []
            if not (len(els) == 2 and els[1]["ref"] == -1):
                m = [f for f in kf if f.get("match") == "decode_203_minus_one"]
                if m:
                    rep.finding(m[0]["what"])
                else:
                    rep.violation("C09: 2 03 008 with operand 0x81 (new reference -1): the decoder keeps reference %s  [message %s]" % (els[1]["ref"] if len(els) > 1 else "?", msg.hex()),
                                  {"kind": "codec", "message": msg.hex()})
    if not proved and not rep.violations:
        rep.violation("C09: proof obligations no longer check and the correspondence run found no failing input", getattr(rep, "proof_broken", {}), no_input=True)
    rep.cov["traces_validated_against_impl"] = len(real) + len(early) + len(idx)
    rep.cov["rule"] = ("sweep: operators 2 01 (every YYY keeping the width in 1..32), 2 02 (|YYY-128| <= 20), 2 04 (11 widths + nesting), 2 05, 2 06, 2 07 (YYY 1..9), 2 08 x elements of "
                       "7 kinds (numeric with zero/negative/positive reference, negative scale, code, flag, character) x editions 2-4, each with the element also after the cancellation and "
                       "a class 31 element inside the scope; random nested scopes (depth 3) in and across replication / Table D; 2 03 YYY via reference-encoded messages decoded by the library. "
                       "quick tier steps YYY by 3. distinct = distinct case lines")
    rep.cov["distribution"] = dict(feat)
