# c15.py — property C15: results do not depend on diagnostic settings or on what was processed before.
# proof: Properties_C15.v (state machine with the history-dependent lookup; outputs are pure functions of the operation).
# tie: (1) the C01-C04 workloads under all 16 switch combinations: encoded bytes and decoded listings must be identical;
# (2) random permutations/repetitions of a batch of operations in ONE process against ONE tables object vs each operation
# alone in a fresh process; (3) diagnostics of any length (wide character fields, 4 KiB header strings, wide local
# descriptors) with debug/verbose on under ASan/UBSan: no memory error.  The pure model (Fm94) is compared through C01-C04.
import random, collections, itertools
import vlib, codec, gen, bufrmsg, codecrun


ARITH = ("signed integer overflow", "negation of", "shift exponent", "left shift of", "outside the range of representable values")


def memory_errors(ctx):
    """sanitizer reports that concern memory (ASan, and UBSan kinds other than plain integer/float arithmetic, which
    e.g. 2 07 YYY on a huge reference inside a never-expanded replication triggers without touching memory)"""
    out = []
    for l in ctx.cerr.split("\n"):
        if "ERROR: AddressSanitizer" in l or "SUMMARY: AddressSanitizer" in l:
            out.append(l)
        elif "runtime error" in l and not any(a in l for a in ARITH):
            out.append(l)
    return " | ".join(out)[:600]


def strip(line):
    """outputs compared: everything the harness prints for E/D/R (bytes, flags, listings)"""
    return line.strip()


def workload(ctx, rng, n):
    plain, _ = codecrun.gen_cases(ctx, rng, n, comp_mode=False)
    comp, _ = codecrun.gen_cases(ctx, rng, n // 2, comp_mode=True, diff_structure_frac=0.4)     # incl. subsets that cannot be compressed (fallback decision)
    # small delayed-replication shapes whose subsets differ in counts but not in length (0 and 1: the placeholder keeps the length)
    for _ in range(max(6, n // 6)):
        e = rng.choice(ctx.T.pool["code"] + ctx.T.pool["num"])
        t = [101000, rng.choice([31001, 31001, 31000, 31002]), e]
        try:
            subs = [gen.walk(ctx.T, 4, t, (lambda f, c=c: dict(raw=c, af=0) if f["desc"] in gen.FACTORS else gen.choose_value(rng, f))) for c in rng.choice([(0, 1), (1, 0), (0, 1, 0), (1, 1), (0, 0)])]
            comp.append(dict(ed=4, tmpl=t, subsets=subs, same=False))
        except gen.Reject:
            pass
    lines = []
    for c in plain:
        lines.append(gen.case_line(c["ed"], 0, c["tmpl"], c["subsets"]))
    for c in comp:
        lines.append(gen.case_line(c["ed"], 1, c["tmpl"], c["subsets"]))
    return lines


def long_diag_cases(ctx, rng):
    """element widths and header strings longer than every fixed errmsg[128..2048] buffer of the debug branches"""
    out = []
    strs = [d for d in ctx.T.pool["str"]]
    for ed in (4,):
        d = rng.choice(strs)
        out.append(("HDR " + bytes(rng.choice(b"ABCDEFGHIJKLMNOPQRSTUVWXYZ0123456789 ") for _ in range(4096)).hex(), None))
        out.append(("E %d 0 3 208255 %d 208000 1 s%s |" % (ed, d, (b"A" * 255).hex()), "wide_string_255"))
        out.append(("E %d 1 3 208255 %d 208000 2 s%s | s%s |" % (ed, d, (b"B" * 255).hex(), (b"C" * 255).hex()), "wide_string_255_compressed"))
        out.append(("E %d 0 2 206064 63250 1 r%x |" % (ed, (1 << 64) - 2), "wide_local_64"))
        out.append(("E %d 0 2 205255 12101 1 s%s r6ab3 |" % (ed, (b"z" * 255).hex()), "205_255"))
        out.append(("E %d 0 4 204064 31021 12101 204000 1 r1 a%x,r6ab3 |" % (ed, (1 << 64) - 1), "af_64"))
        out.append(("HDR", None))
    return out


def run(rep, tier, seed, replay=None):
    proved = vlib.proof_step(rep, "Properties_C15")
    ctx = codec.Ctx()
    rng = random.Random(seed)
    feat = collections.Counter()
    n = 60 if tier == "quick" else 400
    if replay and replay.get("lines"):
        lines = replay["lines"]
    else:
        lines = workload(ctx, rng, n)
    # encode -> also decode and re-encode the produced messages as part of the workload
    base = ctx.run_c(["CFG 0 0 0 0"] + lines)[1:]
    codecrun.crash_violation(rep, "C15", ctx, lines, base, "running the workload with all switches off")
    msgs = [codec.parse_c_listing(o)[0].get("msg") for o in base]
    dlines = ["D %s" % m for m in msgs if m] + ["R %s -1" % m for m in msgs[:len(msgs) // 3] if m]
    work = lines + dlines
    ref = ctx.run_c(["CFG 0 0 0 0"] + work)[1:]
    nviol = 0
    # ---------------- (1) 16 configurations
    cfgs = list(itertools.product([0, 1], repeat=4))
    for cfg in cfgs:
        if cfg == (0, 0, 0, 0):
            continue
        outs = ctx.run_c(["CFG %d %d %d %d" % cfg] + work)
        san = ctx.sanitizer_summary()
        if len(outs) < len(work) + 1:
            k = len(outs) - 1
            rep.violation("C15: with switches debug=%d verbose=%d meta=%d trimzero=%d the library crashed / the sanitizer stopped it on: %s  [%s]" % (cfg + (work[max(k, 0)][:200], san)),
                          {"kind": "config", "cfg": list(cfg), "lines": [work[max(k, 0)]]})
            nviol += 1
            continue
        outs = outs[1:]
        for line, a, b in zip(work, ref, outs):
            rep.count((cfg, line[:300], len(line)))
            feat["cfg_%d%d%d%d" % cfg] += 1
            if strip(a) != strip(b):
                rep.violation("C15: output differs with switches debug=%d verbose=%d meta=%d trimzero=%d: %s... vs %s...  [case: %s]" % (cfg + (strip(b)[:100], strip(a)[:100], line[:200])),
                              {"kind": "config", "cfg": list(cfg), "lines": [line], "with": b[:3000], "without": a[:3000]})
                nviol += 1
                break
        san = memory_errors(ctx)
        if san:
            rep.violation("C15: memory error while producing diagnostics (debug=%d verbose=%d meta=%d trimzero=%d): %s" % (cfg + (san,)), {"kind": "config", "cfg": list(cfg), "lines": work[:50]})
            nviol += 1
        if nviol > 4:
            break
    # ---------------- (3) diagnostics of any length
    ld = long_diag_cases(ctx, rng)
    # ... and the decode of each produced message (decoder debug branches), header included
    r0 = ctx.run_c(["CFG 0 0 0 0"] + [x for x, _ in ld])[1:]
    extra = []
    for (x, lab), o in zip(ld, r0):
        m = codec.parse_c_listing(o)[0].get("msg") if lab else None
        if m:
            extra.append(("D " + m, "decode_" + lab))
            extra.append(("R " + m + " -1", "reencode_" + lab))
    ld = ld + extra
    for cfg in ((1, 1, 1, 0), (1, 0, 0, 1), (0, 1, 0, 0)):
        l3 = ["CFG %d %d %d %d" % cfg] + [x for x, _ in ld]
        o3 = ctx.run_c(l3)
        san = ctx.sanitizer_summary()
        for (x, lab) in ld:
            if lab:
                rep.count((cfg, x[:100], lab)); feat["long_diag_" + lab] += 1
        san = memory_errors(ctx) or (san if len(o3) < len(l3) else "")
        if len(o3) < len(l3) or san:
            k = min(len(o3), len(l3) - 1)
            rep.violation("C15: memory error / crash while formatting long diagnostic text (debug=%d verbose=%d meta=%d trimzero=%d) at: %s  [%s]" % (cfg + (l3[k][:120], san)),
                          {"kind": "config", "cfg": list(cfg), "lines": l3[1:k + 1]})
            nviol += 1
            break
        # the messages themselves must again match the switches-off run
        r3 = ctx.run_c(["CFG 0 0 0 0"] + [x for x, _ in ld])
        for (x, lab), a, b in zip(ld, r3[1:], o3[1:]):
            if lab and strip(a) != strip(b):
                rep.violation("C15: output of a wide-field case differs with diagnostics on  [case: %s]" % x[:160], {"kind": "config", "cfg": list(cfg), "lines": [x]})
                nviol += 1
    # ---------------- (1b) the sample corpus (bitmap / quality operators 2 22-2 37 that the generator does not produce)
    # decoded and re-encoded under the 16 combinations, with the local tables of the test suite
    if not replay and nviol == 0:
        import glob, os
        pre = "TABLES %s %s" % (os.path.join(vlib.REPO, "Test", "local_table_b"), os.path.join(vlib.REPO, "Test", "local_table_d"))
        files = sorted(glob.glob(os.path.join(vlib.REPO, "Test", "BUFR", "*.bufr")))
        cw = []
        for f in files[:: (3 if tier == "quick" else 1)]:
            d = open(f, "rb").read()
            if b"BUFR" in d[:4096] and len(d) < 60000:
                cw += ["D " + d.hex(), "R " + d.hex() + " -1"]
        cref = ctx.run_c([pre, "CFG 0 0 0 0"] + cw)[2:]
        for cfg in cfgs:
            if cfg == (0, 0, 0, 0) or (tier == "quick" and cfg not in ((1, 1, 1, 1), (0, 0, 1, 0), (1, 0, 0, 0), (0, 1, 0, 1), (1, 1, 0, 1))):
                continue
            outs = ctx.run_c([pre, "CFG %d %d %d %d" % cfg] + cw)[2:]
            if len(outs) < len(cw):
                rep.violation("C15: with switches debug=%d verbose=%d meta=%d trimzero=%d the library crashed on a sample file: %s  [%s]" % (cfg + (cw[len(outs)][:80], ctx.sanitizer_summary())),
                              {"kind": "config", "cfg": list(cfg), "lines": [pre, cw[len(outs)]]})
                nviol += 1
                break
            for line, a, b in zip(cw, cref, outs):
                rep.count((cfg, "corpus", line[:120], len(line))); feat["corpus_cfg_%d%d%d%d" % cfg] += 1
                if strip(a) != strip(b):
                    rep.violation("C15: output for a sample file differs with switches debug=%d verbose=%d meta=%d trimzero=%d: %s... vs %s...  [case: %s...]" % (cfg + (strip(b)[:100], strip(a)[:100], line[:100])),
                                  {"kind": "config", "cfg": list(cfg), "lines": [pre, line], "with": b[:3000], "without": a[:3000]})
                    nviol += 1
                    break
            if nviol:
                break
        ctx.run_c(["TABLES"])
    # ---------------- (2) histories: permutations with repetitions in one process vs each alone in a fresh process
    nh = 8 if tier == "quick" else 60
    batch_n = 12 if tier == "quick" else 40
    for hidx in range(nh):
        batch = rng.sample(work, min(batch_n, len(work)))
        alone = {}
        for line in batch:
            o = ctx.run_c([line])
            alone[line] = strip(o[0]) if o else "<crash>"
        hist = [rng.choice(batch) for _ in range(len(batch) * 3)]
        cfgline = "CFG %d %d %d %d" % tuple(rng.choice([0, 1]) for _ in range(4))
        outs = ctx.run_c([cfgline] + hist)[1:]
        for i, (line, o) in enumerate(zip(hist, outs)):
            rep.count(("hist", hidx, i))
            feat["history_ops"] += 1
            if strip(o) != alone[line]:
                # shortest prefix reproducing it: the prefix up to i
                rep.violation("C15: operation %d of a history gives a result different from the same operation alone in a fresh process: %s... vs %s...  [op: %s]" % (i, strip(o)[:100], alone[line][:100], line[:160]),
                              {"kind": "history", "lines": [cfgline] + hist[:i + 1], "alone": alone[line][:3000], "in_history": o[:3000]})
                nviol += 1
                break
        if len(outs) < len(hist):
            rep.violation("C15: the library crashed in the middle of a history at: %s [%s]" % (hist[len(outs)][:160], ctx.sanitizer_summary()), {"kind": "history", "lines": [cfgline] + hist[:len(outs) + 1]})
            nviol += 1
        if nviol > 6:
            break
    # ---------------- (4) table operations inside a history: a local Table B that redefines master elements is loaded into
    # the tables object AFTER it has been used (the elements were looked up before); every later operation must give what it
    # gives on a fresh object that got the same loads
    if not replay and nviol == 0:
        import c12tables as ct, os
        redefs = [(4001, "YEAR", 0, 0, 14), (4002, "MONTH", 0, 0, 6), (12001, "TEMPERATURE", 2, 0, 16), (5001, "LATITUDE", 4, -9000000, 25)]
        ltb = os.path.join(vlib.scratch(), "c15_local_b.txt")
        open(ltb, "w").write("* local\n" + "".join(ct.fmt_b_line(dict(desc=d, name=nm, unit="NUMERIC", scale=sc, ref=rf, width=w)) + "\n" for d, nm, sc, rf, w in redefs))
        after = ["E 4 0 3 4001 4002 12001 1 r7e4 r3 r1111 |",
                 "E 4 0 5 1001 101000 31001 301011 12001 1 r5 r2 r7e4 r3 r9 r7e5 r4 ra r1111 |",
                 "E 4 1 4 103000 31001 301011 5001 12001 2 r1 r7e4 r3 r9 r123456 r1111 | r1 r7e5 r3 r9 r123457 r1110 |"]
        fresh = ctx.run_c(["TABLES", "LOADLB " + ltb] + after)[2:]
        fmsgs = [codec.parse_c_listing(o)[0].get("msg") for o in fresh]
        after2 = after + ["D " + m for m in fmsgs if m]
        fresh2 = [strip(x) for x in ctx.run_c(["TABLES", "LOADLB " + ltb] + after2)[2:]]
        ctx.run_c(["TABLES"])
        warm_pool = ["E 4 0 4 4001 4002 4003 12001 1 r7e4 r3 r9 r1111 |", "E 4 0 2 301011 5001 1 r7e4 r3 r9 r123 |"] + work[:30]
        for h in range(4 if tier == "quick" else 30):
            warm = [rng.choice(warm_pool) for _ in range(rng.randint(1, 8))] + warm_pool[:2]
            rng.shuffle(warm)
            outs = ctx.run_c(["TABLES"] + warm + ["LOADLB " + ltb] + after2)
            got = [strip(x) for x in outs[2 + len(warm):]]
            for line, a, b in zip(after2, fresh2, got):
                rep.count(("tables_in_history", h, line[:200])); feat["history_ops_after_table_load"] += 1
                if a != b:
                    rep.violation("C15: after loading a local Table B into a tables object that was used before, an operation gives a result different from a fresh tables object with the same loads: %s... vs %s...  [op: %s]" % (b[:100], a[:100], line[:160]),
                                  {"kind": "history", "lines": ["TABLES"] + warm + ["LOADLB " + ltb] + [line], "local_table_b": open(ltb).read(), "fresh": a[:3000], "in_history": b[:3000]})
                    nviol += 1
                    break
            if len(got) < len(after2):
                rep.violation("C15: the library crashed after a table load inside a history [%s]" % ctx.sanitizer_summary(), {"kind": "history", "lines": ["TABLES"] + warm + ["LOADLB " + ltb] + after2, "local_table_b": open(ltb).read()})
                nviol += 1
            if nviol:
                break
        ctx.run_c(["TABLES"])
    if not proved and not rep.violations:
        rep.violation("C15: proof obligations no longer check and no failing input was found", getattr(rep, "proof_broken", {}), no_input=True)
    rep.cov["traces_validated_against_impl"] = rep.cov["evaluations"]
    rep.cov["rule"] = ("workload = encode cases of the C01/C02 space + decode and re-encode of the produced messages; (1) each under the 16 combinations of debug/verbose/meta/trimzero, "
                       "outputs compared with the all-off run; (2) histories: a batch drawn from the workload, replayed 3x in random order with repetitions under a random switch setting in one process, "
                       "each operation compared with the same operation alone in a fresh process; (3) 255-character fields, 64-bit local descriptor, 64-bit associated field, 4 KiB header string with "
                       "diagnostics on under ASan/UBSan. distinct = (configuration, case) pairs and history positions")
    rep.cov["distribution"] = dict(feat)
    rep.assumptions = ["diagnostic text is routed to a counting handler (bufr_set_debug_handler); memory safety of the formatting code is observed by the sanitizer, not proved"]
