# c19.py — property C19: IEEE 754 fields (2 09 032 / 2 09 064) are stored bit-exactly.
# Proof (Properties_C19.v over IeeeSoft.v / Flocq) + correspondence IeeeSoft.v <-> bufr_ieee754.c (harness/c19.c,
# ocaml/c19_driver.ml) + an independent oracle written with Python's struct: for every float/double object x that is not a
# NaN, encode(x) must be the host bit pattern of x and decode(pattern) must be the object with that pattern, in the software
# path and in the native path, and at the message level (bits of the 2 09 0YY element in Section 4, decoded value).
import concurrent.futures, math, random, struct
import vlib

FB = {32: 23, 64: 52}
EB = {32: 8, 64: 11}
FMT = {32: ">f", 64: ">d"}
NPROC = 16


# ---------------------------------------------------------------- independent oracle (struct)
def host_value(w, p):
    return struct.unpack(FMT[w], p.to_bytes(w // 8, "big"))[0]


def host_bits(w, x):
    return int.from_bytes(struct.pack(FMT[w], x), "big")


def fields(w, p):
    return p >> (w - 1), (p >> FB[w]) & ((1 << EB[w]) - 1), p & ((1 << FB[w]) - 1)


def is_nan_pat(w, p):
    s, ex, fr = fields(w, p)
    return ex == (1 << EB[w]) - 1 and fr != 0


def klass(w, p):
    s, ex, fr = fields(w, p)
    if ex == 0:
        if fr == 0:
            return "zero"
        return "subnormal_deep" if fr < (1 << (FB[w] - 1)) else "subnormal_top"
    if ex == (1 << EB[w]) - 1:
        return "inf" if fr == 0 else "nan"
    return "normal"


def is_deep(w, p):
    return klass(w, p) == "subnormal_deep"


def hx(w, p):
    return "%0*x" % (w // 4, p)


def parse_a(txt):
    """C99 %a text -> Python float (nan/inf included)"""
    t = txt.strip().lower()
    if "nan" in t:
        return float("nan")
    if "inf" in t:
        return float("-inf") if t.startswith("-") else float("inf")
    return float.fromhex(t)


def oracle_encode(w, p, out):
    """out = tokens of the harness line 'eNN <result hex> <est|-> <%a>'.  -> failure text or None"""
    if len(out) != 4 or out[0] != "e%d" % w:
        return "unexpected output %r" % " ".join(out)
    x = host_value(w, p)
    try:
        res = int(out[1], 16); xa = parse_a(out[3])
    except ValueError:
        return "unexpected output %r" % " ".join(out)
    if math.isnan(x):
        if not math.isnan(xa):
            return "platform: the object with image %s is a NaN for struct, %s for the library's host" % (hx(w, p), out[3])
        return None if is_nan_pat(w, res) else "encoding a NaN returned %s, which is not a NaN pattern" % hx(w, res)
    if math.isnan(xa) or host_bits(w, xa) != p:
        return "platform: the object with image %s has value %r for struct, %s for the library's host" % (hx(w, p), x, out[3])
    want = host_bits(w, x)
    if res != want:
        return "encode(%s) = %s, the IEEE 754 pattern of that value is %s" % (x.hex(), hx(w, res), hx(w, want))
    return None


def oracle_decode(w, p, out):
    """out = tokens of 'dNN <image|nan> <%a>'"""
    if len(out) != 3 or out[0] != "d%d" % w:
        return "unexpected output %r" % " ".join(out)
    x = host_value(w, p)
    if math.isnan(x):
        return None if out[1] == "nan" else "decoding the NaN pattern %s returned %s, not a NaN" % (hx(w, p), out[2])
    if out[1] == "nan":
        return "decode(%s) returned a NaN, the pattern is the value %s" % (hx(w, p), x.hex())
    try:
        y = parse_a(out[2]); img = int(out[1], 16)
    except ValueError:
        return "unexpected output %r" % " ".join(out)
    if math.isnan(y) or host_bits(w, y) != p or img != p:
        return "decode(%s) = %s (image %s), the pattern is the value %s" % (hx(w, p), out[2], out[1], x.hex())
    return None


def floor_log2(x):
    return math.frexp(abs(x))[1] - 1


def est_delta(w, p, esttxt):
    """(delta, ok) for the libm contract assumed by the theorems: -1 <= est - floor(log2 x) <= 2, subnormal -> est <= emin"""
    if esttxt == "-":
        return None, True
    x = host_value(w, p); est = int(esttxt); t = floor_log2(x)
    emin = 2 - (1 << (EB[w] - 1))
    ok = -1 <= est - t <= 2 and (t >= emin or est <= emin)
    return est - t, ok


def section4_payload(msg):
    """payload of Section 4 of an edition >= 4 message (independent of lib/bufrmsg.py, which stops at edition 4)"""
    if msg[:4] != b"BUFR":
        return None
    p = 8
    l1 = int.from_bytes(msg[p:p + 3], "big"); has2 = bool(msg[p + 9] & 0x80); p += l1
    if has2:
        p += int.from_bytes(msg[p:p + 3], "big")
    p += int.from_bytes(msg[p:p + 3], "big")
    l4 = int.from_bytes(msg[p:p + 3], "big")
    if msg[p + l4:p + l4 + 4] != b"7777":
        return None
    return msg[p + 4:p + l4]


def oracle_message(w, p, out):
    """out = tokens of 'mNN <message hex> <decoded image|nan> <type>'"""
    if len(out) != 4 or out[0] != "m%d" % w:
        return "message round trip failed: %s" % " ".join(out)[:200]
    pay = section4_payload(bytes.fromhex(out[1]))
    if pay is None or len(pay) < w // 8:
        return "Section 4 of the encoded message cannot be located"
    wire = int.from_bytes(pay[:w // 8], "big")
    if is_nan_pat(w, p):
        if not is_nan_pat(w, wire):
            return "a NaN was written as %s, not a NaN pattern" % hx(w, wire)
        return None if out[2] == "nan" else "a NaN element was decoded as %s" % out[2]
    if wire != p:
        return "the 2 09 0%d element of value %s was written as %s, its IEEE 754 pattern is %s" % (w, host_value(w, p).hex(), hx(w, wire), hx(w, p))
    if out[2] == "nan" or int(out[2], 16) != p or out[3] != "f%d" % w:
        return "the 2 09 0%d element written as %s was decoded as %s (%s)" % (w, hx(w, wire), out[2], out[3])
    return None


# ---------------------------------------------------------------- case generation
def boundary_mantissas(w):
    n = FB[w]
    s = {0, 1, 2, 3, (1 << n) - 1, (1 << n) - 2, 1 << (n - 1), (1 << (n - 1)) - 1, (1 << (n - 1)) + 1,
         1 << (n - 2), (1 << (n - 2)) - 1, int("55" * 8, 16) & ((1 << n) - 1), int("aa" * 8, 16) & ((1 << n) - 1)}
    for k in range(n):
        s.add(1 << k); s.add((1 << k) - 1); s.add(((1 << n) - 1) ^ ((1 << k) - 1))
    return sorted(s)


def gen_patterns(w, rng, n_total, every_exponent=True):
    """structured patterns: every exponent x boundary mantissas x both signs, subnormal boundaries, zeros, infinities, a few
    NaNs, then a stride through the whole pattern space and uniformly random fields"""
    n, e = FB[w], EB[w]
    pats = []
    bm = boundary_mantissas(w)
    exps = range(1 << e) if every_exponent else [0, 1, 2, (1 << (e - 1)) - 2, (1 << (e - 1)) - 1, 1 << (e - 1), (1 << e) - 3, (1 << e) - 2, (1 << e) - 1]
    mant = bm
    for ex in exps:
        # all boundary mantissas at the interesting exponents, a thinner set elsewhere
        special = ex in (0, 1, 2, (1 << (e - 1)) - 2, (1 << (e - 1)) - 1, 1 << (e - 1), (1 << e) - 3, (1 << e) - 2, (1 << e) - 1)
        ms = mant if special else [0, 1, (1 << n) - 1, (1 << n) - 2, 1 << (n - 1), (1 << (n - 1)) - 1, rng.getrandbits(n), rng.getrandbits(n)]
        for m in ms:
            for s in (0, 1):
                pats.append((s << (w - 1)) | (ex << n) | m)
    # values just below and at every power of two: where the exponent estimate is least reliable
    for ex in range(1, (1 << e) - 1, 1 if w == 32 else 7):
        for d in range(1, 12):
            pats.append((ex << n) - d)
    rest = max(0, n_total - len(pats))
    # stride through the pattern space (odd stride: a permutation of it) and random fields
    stride = ((1 << w) // max(1, rest // 2)) | 1
    start = rng.getrandbits(w)
    for i in range(rest // 2):
        pats.append((start + i * stride) & ((1 << w) - 1))
    for i in range(rest - rest // 2):
        r = rng.random()
        ex = rng.randrange(1 << e) if r < 0.7 else rng.choice([0, 0, 1, (1 << e) - 2, (1 << e) - 1])
        m = rng.getrandbits(n) if rng.random() < 0.7 else rng.getrandbits(rng.randint(1, n))
        pats.append((rng.getrandbits(1) << (w - 1)) | (ex << n) | m)
    return pats


def chunks(lst, k):
    if not lst:
        return []
    k = max(1, min(k, len(lst)))
    sz = (len(lst) + k - 1) // k
    return [lst[i:i + sz] for i in range(0, len(lst), sz)]


def pmap(fn, items):
    with concurrent.futures.ThreadPoolExecutor(max_workers=NPROC) as ex:
        return list(ex.map(fn, items))


# ---------------------------------------------------------------- the check
def harness_lines(exe, mode, lines, timeout=3000):
    """run 'U mode' + lines; returns (U return value, output lines aligned with `lines` (None where missing), stderr)"""
    text = "U %d\n" % mode + "\n".join(lines) + "\n"
    rc, out, err = vlib.run_cases(exe, text, timeout=timeout)
    out = [l for l in out if l != ""]
    if not out or not out[0].startswith("U "):
        return None, [None] * len(lines), err
    body = out[1:]
    res = [body[i] if i < len(body) else None for i in range(len(lines))]
    return int(out[0].split()[1]), res, err


def run(rep, tier, seed, replay=None):
    rep.level = "proof"
    proved = vlib.proof_step(rep, "Properties_C19")
    bopts = dict(replace=[("bufr_ieee754", "wrap_bufr_ieee754.c")], wrap=["exit"])
    exe = vlib.build_harness("c19", **bopts)
    drv = vlib.extract_and_build_driver("c19")
    rng = random.Random(seed)
    kf = {f.get("match"): f for f in vlib.known_findings("C19")}
    dist = {}
    contract_bad = []
    nviol = [0]

    def bump(k, n=1):
        dist[k] = dist.get(k, 0) + n

    def violation(text, case, mode, no_input=False, extra=None):
        nviol[0] += 1
        if nviol[0] > 12:
            return
        rp = {"kind": "ieee", "mode": mode, "case": case}
        if extra:
            rp.update(extra)
        rep.violation("C19: %s  [case: %s, after bufr_use_C_ieee754(%d)]" % (text, case, mode), rp, no_input=no_input)

    def known_or_violation(match, text, case, mode, extra=None):
        if match in kf:
            rep.finding(kf[match]["what"])
            bump("known_finding_" + match)
        else:
            violation(text, case, mode, extra=extra)

    # ------------------------------------------------------------ selection of the native path
    sel_lines = ["K", "U 1", "U 0", "B", "U 1", "e32 7fa00001", "U 0", "e32 00000001", "e64 0000000000000001"]
    rc, out, err = vlib.run_cases(exe, "\n".join(sel_lines) + "\n", timeout=300)
    out = [l.split() for l in out if l != ""]
    if len(out) < len(sel_lines) or out[0][0] != "K":
        violation("the harness did not answer the selection cases: " + err[-300:], "K", 0, no_input=True)
        return
    sub = [int(v) for v in out[0][1:6]]; comp = int(out[0][6])
    u1, u0, b_use, u1b = int(out[1][1]), int(out[2][1]), int(out[3][1]), int(out[4][1])
    nan_through = out[5][1]
    native_available = (u1 == 1)
    # which variant of the model does the tree follow?  (see IeeeSoft.v: fixsel / fixsub)
    fixsel = 0 if (all(sub) and comp == 0) else 1
    p1 = int(out[7][1], 16) if out[7][0] == "e32" else -1
    fixsub = 1 if p1 == 1 else 0
    rep.cov["model_variant"] = {"fixsub": fixsub, "fixsel": fixsel}
    mlines = ["K %d %s" % (fixsel, " ".join(map(str, sub))),
              "U %d 0 %s 1" % (fixsel, " ".join(map(str, sub)))]
    rc2, mout, merr = vlib.sh([drv], input=("\n".join(mlines) + "\n").encode(), timeout=300)
    mo = mout.split("\n")
    m_comp = int(mo[0]); m_checked, m_use = map(int, mo[1].split())
    rc2, mout2, merr = vlib.sh([drv], input=("U %d %d %s 0\nU %d %d %s 1\n" % (fixsel, m_checked, " ".join(map(str, sub)), fixsel, m_checked, " ".join(map(str, sub)))).encode(), timeout=300)
    m_u0 = int(mout2.split("\n")[0].split()[1]); m_u1b = int(mout2.split("\n")[1].split()[1])
    for key in ("K", "U 1", "U 0", "B", "U 1 (again)"):
        rep.count(("sel", key))
    bump("selection_cases", 5)
    sel_case = "K ; U 1 ; U 0 ; B ; U 1"
    # oracle: on this host (IEEE 754 layout, verified through struct on every codec case below) the five sub-checks pass,
    # so the self-check must pass and a request for the native layout must be honoured, also through bufr_begin_api
    if not all(sub):
        names = ["type_size", "sign_bit", "single_mem_layout", "double_mem_layout", "match_encoding2decoding"]
        violation("self-check of the host layout fails on an IEEE 754 host: %s" % ", ".join(n for n, v in zip(names, sub) if not v), sel_case, 1)
    elif not (comp == 1 and u1 == 1 and b_use == 1 and u1b == 1):
        known_or_violation("native_never_selected",
                           "all five sub-checks of check_C_ieee754_compliance pass (K %s) but the check returns %d; bufr_use_C_ieee754(1) returns %d, "
                           "C_use_ieee754 after bufr_begin_api() is %d: the native layout is never used" % (" ".join(map(str, sub)), comp, u1, b_use),
                           sel_case, 1)
    if comp == 0 and (u1 == 1 or b_use == 1 or u1b == 1):
        violation("check_C_ieee754_compliance() returned 0 but the native layout was enabled (bufr_use_C_ieee754(1) = %d, after bufr_begin_api %d)" % (u1, b_use), sel_case, 1)
    if u0 != 0:
        violation("bufr_use_C_ieee754(0) returned %d" % u0, "U 0", 0)
    if native_available and nan_through != "7fa00001":
        violation("native path selected but encode of the NaN image 7fa00001 returned %s: the native path is not the identity on images" % nan_through, "e32 7fa00001", 1)
    if (comp, u1, u0, u1b) != (m_comp, m_use, m_u0, m_u1b) and not rep.violations:
        violation("correspondence use_C_ieee754/check_compliance (IeeeSoft.v) <-> bufr_use_C_ieee754 broken: library compliance=%d U1=%d U0=%d U1=%d, model %d %d %d %d"
                  % (comp, u1, u0, u1b, m_comp, m_use, m_u0, m_u1b), sel_case, 1, no_input=True)

    # ------------------------------------------------------------ per-case codec correspondence + oracle
    if replay:
        cases = []
        c = replay.get("case", "").split()
        if c and c[0][0] in "edm" and c[0][1:] in ("32", "64"):
            cases = [(c[0][0], int(c[0][1:]), int(c[1], 16), int(replay.get("mode", 0)))]
        n32 = n64 = nmsg = 0
    else:
        n32 = (1 << 17) if tier == "quick" else (1 << 20)
        n64 = 100000 if tier == "quick" else 600000
        nmsg = 400 if tier == "quick" else 4000
        p32 = gen_patterns(32, rng, n32)
        p64 = gen_patterns(64, rng, n64)
        cases = []
        for w, pats in ((32, p32), (64, p64)):
            for i, p in enumerate(pats):
                # both directions in the software mode; in the mode requested by bufr_use_C_ieee754(1) for every 4th pattern
                # when that mode is the same software path again (unrepaired tree), for all of them when it is the native path
                cases.append(("e", w, p, 0)); cases.append(("d", w, p, 0))
                if native_available or i % 4 == 0:
                    cases.append(("e", w, p, 1)); cases.append(("d", w, p, 1))
        mp = [1, 0x12345, 0x00400000, 0x007fffff, 0x00800000, 0x3f800000, 0x7f7fffff, 0x7f800000, 0xff800000, 0, 0x80000000, 0x7fc00000]
        mp64 = [1, 0x0008000000000000, 0x000fffffffffffff, 0x0010000000000000, 0x3ff0000000000000, 0x7fefffffffffffff,
                0x7ff0000000000000, 0xfff0000000000000, 0, 0x8000000000000000, 0x7ff8000000000000]
        for i in range(nmsg):
            mp.append(rng.choice(p32)); mp64.append(rng.choice(p64))
        for p in mp:
            cases.append(("m", 32, p, 0)); cases.append(("m", 32, p, 1))
        for p in mp64:
            cases.append(("m", 64, p, 0)); cases.append(("m", 64, p, 1))

    def case_line(c):
        return "%s%d %s" % (c[0], c[1], hx(c[1], c[2]))

    by_mode = {0: [c for c in cases if c[3] == 0], 1: [c for c in cases if c[3] == 1]}
    jobs = []
    for mode in (0, 1):
        for ch in chunks(by_mode[mode], NPROC if len(by_mode[mode]) > 2000 else 1):
            if ch:
                jobs.append((mode, ch))

    def run_job(job):
        mode, ch = job
        u, res, err = harness_lines(exe, mode, [case_line(c) for c in ch])
        return u, res, err

    results = pmap(run_job, jobs)
    # model side: only what the library answered; the estimate of the exponent is the one libm produced in the library run
    mjobs = []
    for (mode, ch), (u, res, err) in zip(jobs, results):
        native = (mode == 1 and u == 1)
        ml = []
        for c, r in zip(ch, res):
            if c[0] == "m" or r is None:
                continue
            t = r.split()
            if c[0] == "e":
                est = t[2] if len(t) == 4 and t[2] != "-" else "0"
                ml.append("e %d %d %d %s %s" % (c[1], fixsub, 1 if native else 0, est, hx(c[1], c[2])))
            else:
                ml.append("d %d %d %s" % (c[1], 1 if native else 0, hx(c[1], c[2])))
        mjobs.append(ml)

    def run_model(ml):
        if not ml:
            return []
        rc, out, err = vlib.sh([drv], input=("\n".join(ml) + "\n").encode(), timeout=3000)
        return out.split("\n")

    mresults = pmap(run_model, mjobs)
    ncorr = 0
    for (mode, ch), (u, res, err), mres in zip(jobs, results, mresults):
        native = (mode == 1 and u == 1)
        path = "native" if native else "soft"
        sanitizer = "ERROR: AddressSanitizer" in err or "runtime error" in err
        mi = 0
        for c, r in zip(ch, res):
            kind, w, p, _ = c
            line = case_line(c)
            rep.count((mode, line))
            if r is None:
                violation("the library crashed or was stopped by the sanitizer on this case: "
                          + " | ".join(l for l in err.split("\n") if "ERROR" in l or "SUMMARY" in l or "runtime error" in l)[:400], line, mode)
                break
            t = r.split()
            k = klass(w, p)
            if kind == "m":
                bump("message_%d_%s" % (w, path))
                fail = oracle_message(w, p, t)
                if fail:
                    if not native and is_deep(w, p):
                        known_or_violation("subnormal_encode", fail, line, mode)
                    else:
                        violation(fail, line, mode)
                continue
            bump("%s%d_%s_%s" % (kind, w, path, k))
            if kind == "e":
                fail = oracle_encode(w, p, t)
                if len(t) == 4:
                    d, ok = est_delta(w, p, t[2])
                    if d is not None:
                        bump("estimate_minus_floorlog2_%d=%+d" % (w, d))
                        if not ok and len(contract_bad) < 5:
                            contract_bad.append("%s est=%s" % (line, t[2]))
                lib = int(t[1], 16) if len(t) > 1 else None
            else:
                fail = oracle_decode(w, p, t)
                lib = t[1] if len(t) > 1 and t[1] == "nan" else (int(t[1], 16) if len(t) > 1 else None)
            mod = mres[mi] if mi < len(mres) else "<no output>"
            mi += 1
            try:
                modv = mod if mod in ("nan", "ERR", "<no output>") else int(mod, 16)
            except ValueError:
                modv = mod
            same = (lib == modv)      # NaN inputs too: the software path returns the canonical quiet NaN, the native path the image
            ncorr += 1
            if ncorr % 40009 == 1:
                rep.sample({"case": line, "mode": mode, "path": path, "impl": r, "model": mod})
            if fail:
                if kind == "e" and not native and is_deep(w, p) and same and fixsub == 0:
                    known_or_violation("subnormal_encode", fail, line, mode, extra={"impl": r, "model": mod})
                else:
                    violation(fail, line, mode, extra={"impl": r, "model": mod})
            elif not same:
                violation("correspondence IeeeSoft.v (%s path, variant fixsub=%d) <-> bufr_ieee754.c broken: library %s, model %s; "
                          "the struct oracle accepts the library's result" % (path, fixsub, r, mod), line, mode, no_input=True,
                          extra={"correspondence": "IeeeSoft.ieee_encode/ieee_decode vs bufr_ieee_encode_*/bufr_ieee_decode_*", "impl": r, "model": mod})
        if sanitizer and not rep.violations:
            violation("sanitizer report while running the codec cases: " + err[-500:], case_line(ch[0]), mode, no_input=True)
        if nviol[0] > 12:
            break

    # ------------------------------------------------------------ model only: every admissible exponent estimate gives the same bits
    if not replay:
        tol = []
        for w, pats in ((32, p32), (64, p64)):
            sel = [p for p in pats[:4000] if klass(w, p) in ("normal", "subnormal_top", "subnormal_deep")][:1500 if tier == "quick" else 6000]
            emin = 2 - (1 << (EB[w] - 1))
            for p in sel:
                t = floor_log2(host_value(w, p))
                for d in (-1, 0, 1, 2):
                    if t < emin and t + d > emin:
                        continue           # a subnormal estimated above the minimum exponent is outside the contract
                    tol.append((w, p, t + d))
        tl = ["e %d 1 0 %d %s" % (w, est, hx(w, p)) for (w, p, est) in tol]
        tres = pmap(run_model, chunks(tl, NPROC))
        flat = [x for r in tres for x in r if x != ""]
        for (w, p, est), o in zip(tol, flat):
            rep.count(("tol", w, p, est))
            bump("model_only_estimate_tolerance_%d" % w)
            if o in ("ERR",) or int(o, 16) != p:
                violation("model IeeeSoft.soft_encode (repaired variant) with exponent estimate %d returns %s for the value with pattern %s: "
                          "the theorem C19_encode does not hold on the extracted model" % (est, o, hx(w, p)), "e%d %s" % (w, hx(w, p)), 0, no_input=True)
                break
        if len(flat) != len(tol) and not rep.violations:
            violation("model driver answered %d of %d tolerance cases" % (len(flat), len(tol)), "e32", 0, no_input=True)

    # ------------------------------------------------------------ sweeps (oracle evaluated inside the harness loop: encode(object(p)) == p, decode(p) == object(p))
    if not replay:
        big = tier != "quick"
        sexe = vlib.build_harness("c19", mode="plain", **bopts) if big else exe
        sweeps = []      # (mode, line)
        modes = (0, 1) if native_available else (0,)
        if big:
            per = (1 << 32) // 64
            for k in range(64):
                for m in modes:
                    sweeps.append((m, "S32 %08x %d %08x" % (k * per, per, 1)))
            n64s, cnt64 = 32, 400000
        else:
            for k in range(16):
                for m in modes:
                    sweeps.append((m, "S32 %08x %d %08x" % ((rng.getrandbits(32)), 1 << 14, (rng.getrandbits(32) | 1))))
            for m in modes:       # all subnormals' top region and the first normals, densely
                sweeps.append((m, "S32 %08x %d %08x" % (0x007f0000, 1 << 17, 1)))
            n64s, cnt64 = 16, 12000
        for k in range(n64s):
            for m in modes:
                sweeps.append((m, "S64 %016x %d %016x" % (rng.getrandbits(64), cnt64, rng.getrandbits(64) | 1)))
        for mant in boundary_mantissas(64)[:: (1 if big else 6)]:      # every exponent and both signs at boundary mantissas
            for m in modes:
                sweeps.append((m, "S64 %016x %d %016x" % (mant, 4096, 1 << 52)))
        for d in range(1, 8 if big else 3):                             # just below every power of two
            for m in modes:
                sweeps.append((m, "S64 %016x %d %016x" % ((1 << 52) - d, 2046, 1 << 52)))

        def run_sweep(sw):
            m, line = sw
            u, res, err = harness_lines(sexe, m, [line], timeout=3000)
            return u, res[0], err

        sres = pmap(run_sweep, sweeps)
        for (m, line), (u, r, err) in zip(sweeps, sres):
            rep.count((m, line))
            w = int(line[1:3])
            native = (m == 1 and u == 1)
            path = "native" if native else "soft"
            if r is None or not r.startswith("S%d " % w):
                violation("the library crashed or was stopped on this sweep: " + err[-300:], line, m)
                continue
            t = r.split()
            kv = dict(x.split("=") for x in t[1:7])
            n = int(kv["n"])
            bump("sweep%d_%s_patterns" % (w, path), n)
            bump("sweep%d_nan_patterns" % w, int(kv["nan"]))
            rep.cov["evaluations"] += 2 * n - 1
            dmin, dmax = int(kv["dmin"]), int(kv["dmax"])
            if dmin != 99:
                dist["sweep%d_est_delta_min" % w] = min(dist.get("sweep%d_est_delta_min" % w, 99), dmin)
                dist["sweep%d_est_delta_max" % w] = max(dist.get("sweep%d_est_delta_max" % w, -99), dmax)
                if (dmin < -1 or dmax > 2) and len(contract_bad) < 5:
                    contract_bad.append("%s dmin=%d dmax=%d" % (line, dmin, dmax))
            ei, di = t.index("E"), t.index("D")
            start, cnt, stride = int(line.split()[1], 16), int(line.split()[2]), int(line.split()[3], 16)
            for tok in t[ei + 1:di]:
                lo, rest = tok.split("-"); hi, c = rest.split("x")
                lo, hi, c = int(lo, 16), int(hi, 16), int(c)
                # the run lo, lo+stride, ..., hi: inside the known class iff both ends are deep subnormals of the same sign and the run did not wrap
                inside = (not native and fixsub == 0 and is_deep(w, lo) and is_deep(w, hi) and (lo >> (w - 1)) == (hi >> (w - 1))
                          and (c - 1) * stride == hi - lo)
                what = "sweep: encode(object(p)) != p for %d patterns from %s to %s (stride %x)" % (c, hx(w, lo), hx(w, hi), stride)
                if inside:
                    bump("sweep%d_known_class_patterns" % w, c)
                    known_or_violation("subnormal_encode", what, "e%d %s" % (w, hx(w, lo)), m)
                else:
                    first = lo
                    if is_deep(w, lo) and not native and fixsub == 0:      # find the first pattern of the run outside the known class
                        q = lo
                        for _ in range(min(c, 1 << 22)):
                            if not is_deep(w, q):
                                first = q; break
                            q = (q + stride) & ((1 << w) - 1)
                    violation(what, "e%d %s" % (w, hx(w, first)), m)
            for tok in t[di + 1:]:
                lo, rest = tok.split("-"); hi, c = rest.split("x")
                violation("sweep: decode(p) is not the object with image p for %s patterns from %s to %s (stride %x)" % (c, lo, hi, stride),
                          "d%d %s" % (w, lo), m)
            listed = sum(int(tok.split("x")[1]) for tok in t[ei + 1:di]) + sum(int(tok.split("x")[1]) for tok in t[di + 1:])
            if listed != int(kv["emis"]) + int(kv["dmis"]):
                violation("sweep reports %s + %s failing patterns but lists only %d" % (kv["emis"], kv["dmis"], listed), line, m, no_input=True)

    # ------------------------------------------------------------ multi-subset 2 09 YYY columns, plain and compressed
    # (library convention for compressed IEEE columns: R0 + NBINC=0 when all values are the same, else R0=0, NBINC=octets and
    # every value in full).  Oracle: every pattern of the column is read back identically - zero of either sign included.
    if not replay or replay.get("column_line"):
        import codec
        cctx = codec.Ctx()
        pool = {32: [0, 0x80000000, 1, 0x80000001, 0x007fffff, 0x00800000, 0x3f800000, 0xbf800000, 0x7f800000, 0xff800000, 0x7f7ffffe, 0x42a0c000],
                64: [0, 0x8000000000000000, 1, 0x8000000000000001, 0x000fffffffffffff, 0x0010000000000000, 0x3ff0000000000000, 0xbff0000000000000,
                     0x7ff0000000000000, 0xfff0000000000000, 0x7feffffffffffffe, 0x408faa0000000000]}
        cl = []
        if replay:
            cl = [replay["column_line"]]
        else:
            for w in (32, 64):
                tok = ("f%08x" if w == 32 else "d%016x")
                for _ in range(40 if tier == "quick" else 600):
                    n = rng.choice([2, 2, 3, 5])
                    shape = rng.choice(["equal", "zeros", "mixed", "mixed", "specials"])
                    if shape == "equal": col = [rng.choice(pool[w])] * n
                    elif shape == "zeros": col = [rng.choice(pool[w][:2]) for _ in range(n)]
                    elif shape == "specials":      # only values the library's "missing" test is true for: infinities and the largest finite value
                        sp = [0x7f800000, 0xff800000, 0x7f7fffff] if w == 32 else [0x7ff0000000000000, 0xfff0000000000000, 0x7fefffffffffffff]
                        col = [rng.choice(sp) for _ in range(n)]
                    else: col = [rng.choice(pool[w]) for _ in range(n)]
                    for comp in (0, 1):
                        cl.append("E 5 %d 4 1001 %d 12101 209000 %d %s" % (comp, 209000 + w, n, " ".join("r%x %s |" % (k + 1, tok % v) for k, v in enumerate(col))))
                    # the column alone: Section 4 of the compressed message is exactly the model's column (IeeeCol.v)
                    cl.append("E 5 1 3 %d 12101 209000 %d %s" % (209000 + w, n, " ".join("%s |" % (tok % v) for v in col)))
        eo = cctx.run_c(cl)
        dl, dm = [], []
        for line, o in zip(cl, eo):
            h = codec.parse_c_listing(o)[0]
            if h.get("rc") == "0":
                dl.append("D " + h["msg"]); dm.append(line)
            else:
                violation("a valid multi-subset 2 09 YYY dataset was not encoded (rc=%s)" % h.get("rc"), line[:200], 1, extra={"column_line": line})
        do = cctx.run_c(dl)
        if len(eo) < len(cl) or len(do) < len(dl):
            violation("the library crashed on a multi-subset 2 09 YYY dataset: " + cctx.sanitizer_summary(), (cl[len(eo)] if len(eo) < len(cl) else dl[len(do)])[:200], 1,
                      extra={"column_line": cl[len(eo)] if len(eo) < len(cl) else dm[len(do)]})
        for line, o in zip(dm, do):
            rep.count(("col", line))
            comp = line.split()[2]
            bump("column_%s" % ("compressed" if comp == "1" else "plain"))
            want = [t[1:].lstrip("0") or "0" for t in line.split() if t[0] in "fd" and len(t) in (9, 17)]
            h, subs = codec.parse_c_listing(o)
            got = []
            for its in subs:
                for e in codec.c_elements(its):
                    if e["desc"] == 12101:
                        got.append(str(e["val"])[1:].lstrip("0") or "0")
            if got != want:
                violation("a %s message with the 2 09 YYY column [%s] is read back as [%s]: not every value returns with its own bit pattern" % (
                    "compressed" if comp == "1" else "plain", " ".join(want), " ".join(got)), line[:300], 1, extra={"column_line": line})

        # correspondence IeeeCol.v <-> bufr_put_ieeefp_compressed / bufr_get_ieeefp_compressed on the column-only messages
        import bufrmsg
        mlines, mmeta = [], []
        for line, o in zip(cl, eo):
            t = line.split()
            if t[3] != "3":
                continue
            h = codec.parse_c_listing(o)[0]
            if h.get("rc") != "0":
                continue
            w = int(t[4]) - 209000; n = int(t[7])
            pats = [x[1:].lstrip("0") or "0" for x in t[8:] if x != "|"]
            try:
                s4 = bufrmsg.parse(bytes.fromhex(h["msg"]), allow5=True)["s4"].hex()
            except Exception as e_:
                violation("the frame of a 2 09 YYY message does not parse (%s)" % e_, line[:200], 1, extra={"column_line": line})
                continue
            mlines.append("COL %d %s" % (w, " ".join(pats))); mmeta.append(("enc", line, s4, pats, None))
            a = rng.randint(1, n); b_ = rng.randint(a, n)
            mlines.append("COLR %d %d %d %d %s" % (w, n, a, b_, s4)); mmeta.append(("range", line, s4, pats, (a, b_)))
        mo = run_model(mlines)
        for (kind, line, s4, pats, ab), m in zip(mmeta, mo):
            ncorr += 1
            bump("column_model_" + kind)
            if kind == "enc":
                ok = s4.startswith(m) and set(s4[len(m):]) <= {"0"} and len(s4) - len(m) <= 4
                if not ok:
                    violation("correspondence IeeeCol.ieee_col_enc <-> bufr_put_ieeefp_compressed broken: Section 4 data of the library %s, model %s" % (s4, m),
                              line[:300], 1, no_input=True, extra={"column_line": line, "correspondence": "IeeeCol.ieee_col_enc vs bufr_put_ieeefp_compressed"})
            else:
                want = " ".join(pats[ab[0] - 1:ab[1]])
                if m.strip() != want:
                    violation("correspondence IeeeCol.ieee_col_dec_range broken: subsets %d..%d of the library's column decode to [%s] in the model, the column is [%s]" % (ab[0], ab[1], m, " ".join(pats)),
                              line[:300], 1, no_input=True, extra={"column_line": line, "correspondence": "IeeeCol.ieee_col_dec_range vs library message"})

    if contract_bad and not rep.violations:
        violation("the contract on libm assumed by the theorems (-1 <= (int)(log(x)/log(2)) - floor(log2 x) <= 2, subnormals not above the minimum exponent) "
                  "is not met by this platform's libm: %s" % "; ".join(contract_bad), contract_bad[0].split(" est=")[0].split(" dmin")[0], 0, no_input=True)
    if not proved and not rep.violations:
        rep.violation("C19: proof obligations no longer check (see log) and no failing input was found by the correspondence run",
                      getattr(rep, "proof_broken", {}), no_input=True)
    rep.cov["traces_validated_against_impl"] = ncorr
    rep.cov["rule"] = ("per-case (library vs extracted model vs struct oracle): singles and doubles = every exponent x boundary mantissas (single bits, "
                       "runs of ones from either end, alternating) x both signs, all subnormal boundaries, zeros, infinities, NaNs (only 'some NaN' required), "
                       "the 11 values below every power of two, an odd-stride walk through the whole pattern space and random fields; each pattern is encoded "
                       "and decoded after bufr_use_C_ieee754(0) and (all or every 4th) after bufr_use_C_ieee754(1); one-element messages 2 09 0YY / 0 12 101 / "
                       "2 09 000 (edition 5) through bufr_encode_message + bufr_decode_message, Section 4 bits and decoded value; selection: the five sub-checks, "
                       "bufr_use_C_ieee754(1/0), bufr_begin_api. sweeps (library vs host pattern inside the harness loop): quick = 16 random odd strides x 2^14 "
                       "singles + 2^17 consecutive singles across the subnormal/normal border, doubles by random odd strides and every exponent at boundary "
                       "mantissas; thorough = ALL 2^32 singles and > 10^7 doubles. distinct = distinct (mode, case line); evaluations also counts every "
                       "pattern of a sweep twice (encode, decode)")
    rep.cov["distribution"] = dict(sorted(dist.items()))
    rep.cov["exhaustive"] = (tier != "quick")
    rep.assumptions = ["libm: (int)(log(x)/log(2)) within [-1,+2] of floor(log2 x) and pow(2,e) exact (measured on every case and sweep of this run: see "
                       "distribution estimate_minus_floorlog2_* and sweep*_est_delta_*)",
                       "the host's float/double objects have the IEEE 754 layout (checked on every case by comparing the harness's %a echo with struct)"]
