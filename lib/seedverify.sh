#!/bin/sh
# seedverify.sh <id> <workdir with patch.diff demo.c run_demo.sh> — confirm a seeded change in a fresh scratch worktree:
# baseline: tests pass, demo passes; with the patch: still compiles, tests pass, demo fails.  Prints a JSON summary line.
ID="$1"; W="$2"
WT=/tmp/seedverify_$ID
rm -rf "$WT"; git -C /repo worktree prune
/verif/lib/mkworktree.sh "$WT" > /tmp/seedverify_$ID.base 2>&1
BASE_TESTS=$(grep -c "PASS:  12" /tmp/seedverify_$ID.base)
rm -rf /tmp/seedverify_$ID.w; cp -r "$W" /tmp/seedverify_$ID.w
for f in /tmp/seedverify_$ID.w/*.c /tmp/seedverify_$ID.w/*.sh; do [ -f "$f" ] && sed -i "s#/tmp/seed_work_$ID#/tmp/seedverify_$ID.w#g; s#/tmp/seed_$ID#$WT#g" "$f"; done
run_demo() { (cd /tmp/seedverify_$ID.w && sh run_demo.sh "$WT" > /tmp/seedverify_$ID.out 2>&1); echo $?; }
D0=$(run_demo)
git -C "$WT" apply "$W/patch.diff"; AP=$?
(cd "$WT" && make -j8 > /tmp/seedverify_$ID.make 2>&1); MK=$?
T1=$(cd "$WT" && make -k check 2>&1 | grep -E "^# (PASS|FAIL)" | tr -d ' \n')
D1=$(run_demo)
echo "{\"id\":\"$ID\",\"baseline_tests_12\":$BASE_TESTS,\"demo_exit_baseline\":$D0,\"patch_applies\":$AP,\"make_exit\":$MK,\"tests_with_patch\":\"$T1\",\"demo_exit_with_patch\":$D1}"
git -C /repo worktree remove --force "$WT"; rm -rf /tmp/seedverify_$ID.w
