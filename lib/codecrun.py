# codecrun.py — the shared pipeline of the codec checks (C01, C02, C03, C04, C07): generate datasets, run the
# library (harness/codec.c) and the extracted Coq reference codec on them, and evaluate property oracles.
import collections, random
import vlib, codec, gen, bufrmsg

DSEQS = [301001, 301011, 301012, 301013, 301021, 301023, 301031, 301032]


def gen_cases(ctx, rng, n, comp_mode=False, max_depth=2, ops=True, diff_structure_frac=0.0, allow_single=False, allow203=False, allow203in204=False):
    """-> list of dict(ed, tmpl, subsets, same) ; comp_mode: >= 2 subsets with the same structure (compressible)"""
    cases, rejected = [], collections.Counter()
    dseqs = [d for d in DSEQS if d in ctx.T.D]
    tries = 0
    while len(cases) < n and tries < 50 * n + 100:
        tries += 1
        ed = rng.choice([2, 3, 4, 4])
        tg = gen.TGen(rng, ctx.T, ed, ops=ops, max_depth=max_depth, dseqs=dseqs)
        tg.allow203 = allow203      # 2 03 YYY only where the library decodes (its API encode path is a known finding of C09)
        tg.allow203in204 = allow203in204
        tmpl = tg.template()
        if comp_mode:
            nsub = rng.choice([1, 2, 2, 3, 4, 7]) if allow_single else rng.choice([2, 2, 3, 4, 7])
            same = rng.random() >= diff_structure_frac
        else:
            nsub = rng.choice([1, 1, 2, 3])
            same = False
        try:
            subs = gen.gen_dataset(rng, ctx.T, ed, tmpl, nsub, same_structure=same)
        except gen.Reject as e:
            rejected[str(e)[:40]] += 1
            continue
        if sum(len(s) for s in subs) == 0:
            continue
        cases.append(dict(ed=ed, tmpl=tmpl, subsets=subs, same=same))
    return cases, rejected


def same_structure(case):
    """do all subsets have the same field sequence (the regulation's condition for compression)?"""
    s0 = [(f["desc"], f["width"], f["afw"]) for f, _ in case["subsets"][0]]
    for s in case["subsets"][1:]:
        if [(f["desc"], f["width"], f["afw"]) for f, _ in s] != s0:
            return False
    # replication factors must agree as well
    for col in zip(*[s for s in case["subsets"]]):
        f = col[0][0]
        if f["desc"] in gen.FACTORS and len({v["raw"] for _, v in col}) > 1:
            return False
    return True


def features(case):
    fs = set()
    t = case["tmpl"]
    for d in t:
        if gen.F(d) == 2:
            fs.add("op2%02d" % gen.X(d))
        if gen.F(d) == 3:
            fs.add("tableD")
        if gen.F(d) == 1:
            fs.add("delayed" if gen.Y(d) == 0 else "fixed")
    for s in case["subsets"]:
        for f, v in s:
            if f["desc"] in gen.FACTORS and v["raw"] == 0:
                fs.add("zero_count")
            if f["kind"] in ("num", "code", "flag") and v.get("raw") == (1 << f["width"]) - 1 and not f.get("c31"):
                fs.add("missing")
            if f["kind"] in ("num",) and f["scale"] < 0:
                fs.add("neg_scale")
            if f["kind"] in ("num",) and f["ref"] < 0:
                fs.add("neg_ref")
            if f["kind"] == "str":
                fs.add("string")
            if f["afw"]:
                fs.add("assoc_field")
            if f["kind"] == "num" and f["width"] >= 25:
                fs.add("wide>=25")
    fs.add("ed%d" % case["ed"])
    fs.add("nsub%d" % min(len(case["subsets"]), 4))
    return fs


def short(case, comp=0):
    return gen.case_line(case["ed"], comp, case["tmpl"], case["subsets"])[:1500]


def check_listing_against_intent(case, subs, check_values=True):
    """compare a C listing (list of subsets of items) with the intended fields/values. -> None or reason"""
    if len(subs) != len(case["subsets"]):
        return "%d subsets, %d were encoded" % (len(subs), len(case["subsets"]))
    for s, its in enumerate(subs):
        els = codec.c_elements(its)
        want = case["subsets"][s]
        if len(els) != len(want):
            return "subset %d: %d data elements, %d were encoded (%s ... vs %s ...)" % (
                s, len(els), len(want), [e["desc"] for e in els][:12], [f["desc"] for f, _ in want][:12])
        for k, ((f, v), it) in enumerate(zip(want, els)):
            bad = codec.layout_mismatch(f, it)
            if bad:
                return "subset %d element %d: %s" % (s, k, bad)
            if check_values:
                bad = codec.c_value_matches(f, v, it)
                if bad:
                    return "subset %d element %d (%06d, %d bits, scale %d, ref %d): %s" % (s, k, f["desc"], f["width"], f["scale"], f["ref"], bad)
                if f["afw"] and it["af"] != v.get("af", 0):
                    return "subset %d element %d (%06d): associated field %x expected, got %s" % (s, k, f["desc"], v.get("af", 0), it["af"])
    return None


def model_listing_matches_intent(case, msubs):
    if len(msubs) != len(case["subsets"]):
        return "reference decoder: %d subsets, %d were encoded" % (len(msubs), len(case["subsets"]))
    for s, its in enumerate(msubs):
        want = case["subsets"][s]
        if len(its) != len(want):
            return "reference decoder: subset %d has %d elements, %d were encoded" % (s, len(its), len(want))
        for k, ((f, v), it) in enumerate(zip(want, its)):
            if it["desc"] != f["desc"] or it["width"] != f["width"] or it["afw"] != f["afw"]:
                return "reference decoder: subset %d element %d is %06d/%d bits/af %d, intended %06d/%d/%d" % (s, k, it["desc"], it["width"], it["afw"], f["desc"], f["width"], f["afw"])
            if "raw" in v and it.get("raw") != v["raw"]:
                return "reference decoder: subset %d element %d (%06d): raw value %x in the message, %x intended" % (s, k, f["desc"], it.get("raw", -1), v["raw"])
            if "str" in v and it.get("str") != v["str"]:
                return "reference decoder: subset %d element %d (%06d): string %s in the message, %s intended" % (s, k, f["desc"], bytes(it.get("str", [])).hex(), bytes(v["str"]).hex())
            if it["af"] != v.get("af", 0):
                return "reference decoder: subset %d element %d (%06d): associated field %x, %x intended" % (s, k, f["desc"], it["af"], v.get("af", 0))
    return None


def s4_equal(c_s4, model_bytes):
    """Section 4 payload of the library vs the reference encoder (the library may add pad octets)"""
    return c_s4[:len(model_bytes)] == model_bytes and all(x == 0 for x in c_s4[len(model_bytes):]) and len(c_s4) - len(model_bytes) <= 2


def crash_violation(rep, prop, ctx, lines, outs, what):
    """the harness died before answering all cases: the first unanswered case is the failing input"""
    if len(outs) < len(lines):
        rep.violation("%s: the library crashed / was stopped by the sanitizer while %s: %s  [case: %s]" % (
            prop, what, ctx.sanitizer_summary(), lines[len(outs)][:300]),
            {"kind": "codec", "case": lines[len(outs)], "stderr": ctx.cerr[-3000:]})
        return True
    return False
