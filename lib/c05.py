# c05.py — property C05: decoding arbitrary bytes is memory-safe, terminates and never kills the process.
# PARTIAL BY DESIGN: the theorems (Properties_C05.v) cover what an executable model can express — the reference decoder is
# total, the size of whatever decodes is bounded by the number of input bits whatever replication factors the input
# claims, and malformed replication is refused — while out-of-bounds accesses, use-after-free, stack exhaustion and
# wall time of the C code are observable only at run time: each generated input is decoded in a forked child under
# ASan/UBSan, a 64 MiB stack limit, an alarm, exit() wrapped, and an abort handler registered.
import glob, os, random, collections
import vlib, codec, gen, bufrmsg, codecrun

LIMIT_S = 10


def mutate(rng, m):
    b = bytearray(m)
    k = rng.random()
    if not b:
        return bytes(b)
    if k < 0.25:
        for _ in range(rng.randint(1, 4)):
            i = rng.randrange(len(b)); b[i] ^= 1 << rng.randrange(8)
    elif k < 0.45:
        for _ in range(rng.randint(1, 3)):
            b[rng.randrange(len(b))] = rng.choice([0, 1, 0x7f, 0x80, 0xff, rng.randrange(256)])
    elif k < 0.6:
        b = b[:rng.randrange(len(b))]
    elif k < 0.7:
        i = rng.randrange(len(b)); b[i:i] = bytes(rng.randrange(256) for _ in range(rng.randint(1, 8)))
    elif k < 0.8:
        i = rng.randrange(len(b)); del b[i:i + rng.randint(1, 8)]
    elif k < 0.9:
        # length fields: Section 0 total length and a section length
        if len(b) > 8:
            v = rng.choice([0, 1, 3, 4, 5, len(b) - 5, len(b) - 1, len(b) + 1, len(b) + 100, 0xffffff, rng.randrange(1 << 24)])
            b[4:7] = (v & 0xffffff).to_bytes(3, "big")
    else:
        if len(b) > 40:
            i = rng.randrange(8, len(b) - 3)
            b[i:i + 3] = rng.choice([0, 1, 2, 3, 7, 0xffff, 0xffffff, rng.randrange(1 << 24)]).to_bytes(3, "big")
    return bytes(b)


def random_s3(rng, T, n):
    ds = []
    pool_b = list(T.B.keys())
    pool_d = list(T.D.keys())
    for _ in range(n):
        r = rng.random()
        if r < 0.35:
            ds.append(rng.choice(pool_b))
        elif r < 0.5:
            ds.append(rng.choice(pool_d))
        elif r < 0.7:
            ds.append(100000 + rng.randrange(64) * 1000 + rng.choice([0, 0, 1, 2, 3, 255, rng.randrange(256)]))
        elif r < 0.78:
            ds.append(rng.choice([31000, 31001, 31002, 31011, 31012, 31021, 31031]))
        elif r < 0.93:
            ds.append(200000 + rng.choice([1, 2, 3, 4, 5, 6, 7, 8, 9, 21, 22, 23, 24, 25, 32, 35, 36, 37, 41, 42, 43, rng.randrange(64)]) * 1000 + rng.choice([0, 1, 127, 128, 129, 255, rng.randrange(256)]))
        else:
            ds.append(rng.randrange(4) * 100000 + rng.randrange(64) * 1000 + rng.randrange(256))
    return ds


def hostile(rng, T):
    """shapes that were seen to hurt: deep fixed replication, huge claimed delayed factors over little data, unbalanced spans"""
    e = rng.choice(T.pool["code"])
    shapes = [
        [101255, 101255, 101255, 101255, e],
        [101000, 31002, 301001], [101000, 31002, rng.choice(list(T.D.keys()))],
        [101002], [102002, e], [102002, 102002, e, e], [101000, 31001], [102002, 101000, 31001, e, e],
        [103255, 102255, 101255, e], [104000, 31002, 103000, 31002, 102000, 31002, 101255, e],
        [236000, 101000, 31002, 31031], [222000, 236000, 101255, 31031, 1031, 1032], [224000, 237000, 101255, 224255],
        [203255], [203064, e, e, 203255], [206255, 63255], [201255, e], [201001, 12101], [208255, 1015], [207255, 12101], [204255, 31021, e],
    ]
    return rng.choice(shapes)


def ill_nested(rng, T):
    """replication nests whose spans were built well-formed and then perturbed (an inner span overruns or underruns its
    enclosing one), optionally wrapped in an enclosing replication that ends exactly where the perturbed one ends - the
    shapes a template validator with a counter stack is most likely to let through; counts 1..3 and delayed factors"""
    e = lambda: rng.choice(T.pool["code"] + T.pool["num"][:50])

    def nest(depth):
        if depth == 0 or rng.random() < 0.3:
            return [e() for _ in range(rng.randint(1, 2))]
        body = []
        for _ in range(rng.randint(1, 2)):
            body += nest(depth - 1)
        if len(body) > 60:
            return body
        if rng.random() < 0.6:
            return [100000 + len(body) * 1000 + rng.choice([1, 2, 2, 3])] + body
        return [100000 + len(body) * 1000, rng.choice([31001, 31001, 31000, 31002])] + body
    if rng.random() < 0.5:
        # a single chain of fixed replications over two elements: 1 0(k+1) c .. 1 03 c 1 02 c A B
        k = rng.randint(2, 4)
        ds = [e(), e()]
        for _ in range(k):
            ds = [100000 + len(ds) * 1000 + rng.choice([1, 2, 2, 3])] + ds
    else:
        ds = nest(rng.randint(2, 4))
    reps = [i for i, d in enumerate(ds) if gen.F(d) == 1]
    if reps:
        i = rng.choice(reps)
        x = gen.X(ds[i]) + rng.choice([-2, -1, 1, 1, 2, 3])
        if 1 <= x < 64:
            ds[i] = 100000 + x * 1000 + gen.Y(ds[i])
    if rng.random() < 0.6 and len(ds) < 60:
        ds = ([100000 + len(ds) * 1000 + rng.choice([1, 1, 2])] if rng.random() < 0.5 else [100000 + len(ds) * 1000, 31001]) + ds
    if rng.random() < 0.3:
        ds = ds + [e()]
    return ds


def static_size(T, descs, cap=10 ** 9, depth=0):
    """number of descriptors after expanding Table D and FIXED replication only (what the library expands when it builds
    the template, before it has seen any data)"""
    n, i = 0, 0
    while i < len(descs) and n < cap:
        d = descs[i]
        if gen.F(d) == 3 and d in T.D and depth < 30:
            n += static_size(T, T.D[d], cap, depth + 1); i += 1
        elif gen.F(d) == 1 and gen.Y(d) > 0:
            x = gen.X(d)
            n += 1 + gen.Y(d) * static_size(T, descs[i + 1:i + 1 + x], cap, depth + 1); i += 1 + x
        else:
            n += 1; i += 1
    return min(n, cap)


def claimed_work(T, m):
    try:
        p = bufrmsg.parse(m)
    except Exception:
        return 0
    return static_size(T, p["descs"]) * max(p["nsub"], 1)


def run(rep, tier, seed, replay=None):
    proved = vlib.proof_step(rep, "Properties_C05")
    exe = vlib.build_harness("c05", wrap=["exit"])
    ctx = codec.Ctx()
    rng = random.Random(seed)
    feat = collections.Counter()
    inputs = []   # (label, bytes)
    if replay and replay.get("input"):
        inputs = [(replay.get("label", "replay"), bytes.fromhex(replay["input"]))]
    else:
        n = 250 if tier == "quick" else 2500
        # valid messages: generated + sample files
        cases, _ = codecrun.gen_cases(ctx, rng, 40 if tier == "quick" else 300, comp_mode=False)
        comp, _ = codecrun.gen_cases(ctx, rng, 20 if tier == "quick" else 150, comp_mode=True)
        outs = ctx.run_c([gen.case_line(c["ed"], 0, c["tmpl"], c["subsets"]) for c in cases] + [gen.case_line(c["ed"], 1, c["tmpl"], c["subsets"]) for c in comp])
        valid = [bytes.fromhex(h["msg"]) for h in (codec.parse_c_listing(o)[0] for o in outs) if h.get("msg")]
        files = sorted(glob.glob(os.path.join(vlib.REPO, "Test", "BUFR", "*.bufr")))
        corpus = []
        for f in files:
            d = open(f, "rb").read()
            if len(d) <= 65536:
                corpus.append(d)
        for m in valid[:30]:
            inputs.append(("valid", m))
        for m in corpus[: (10 if tier == "quick" else len(corpus))]:
            inputs.append(("corpus", m))
        for _ in range(n):
            src = rng.choice(valid + corpus) if rng.random() < 0.85 else rng.choice(corpus)
            m = mutate(rng, src)
            if rng.random() < 0.3:
                m = mutate(rng, m)
            inputs.append(("mutation", m))
        for _ in range(n // 5):
            inputs.append(("random_bytes", bytes(rng.randrange(256) for _ in range(rng.choice([0, 1, 4, 7, 8, 20, 64, 300, 4000])))))
            inputs.append(("random_after_BUFR", b"BUFR" + bytes(rng.randrange(256) for _ in range(rng.choice([0, 3, 4, 30, 200])))))
        for _ in range(n // 2):
            ed = rng.choice([2, 3, 4])
            ds = random_s3(rng, ctx.T, rng.randint(1, 12)) if rng.random() < 0.7 else hostile(rng, ctx.T)
            s4 = bytes(rng.choice([0, 0xff, rng.randrange(256)]) if rng.random() < 0.5 else rng.randrange(256) for _ in range(rng.choice([0, 1, 2, 10, 10, 40, 200, 2000])))
            comp_ = rng.random() < 0.4
            try:
                m = bufrmsg.build(ed, [d % 400000 for d in ds], rng.choice([0, 1, 2, 3, 100, 65535]), comp_, s4)
                inputs.append(("framed_random_s3", m))
            except Exception:
                pass
        for _ in range(40 if tier == "quick" else 400):
            ds = hostile(rng, ctx.T)
            s4 = bytes([rng.choice([0, 0xff])] * rng.choice([2, 10, 100]))
            inputs.append(("hostile", bufrmsg.build(4, ds, rng.choice([1, 2]), rng.random() < 0.3, s4)))
        for _ in range(160 if tier == "quick" else 1600):
            ds = ill_nested(rng, ctx.T)
            # delayed factors of 1..3 in front (the factor of an enclosing delayed replication is the first field)
            s4 = bytes([rng.choice([1, 1, 2, 3, 0x01, 0x41, 0x81])] + [rng.choice([0, 1, 0x11, 0x55, 0xff]) for _ in range(rng.choice([4, 20, 200]))])
            inputs.append(("ill_nested_replication", bufrmsg.build(rng.choice([3, 4]), ds, rng.choice([1, 2]), rng.random() < 0.2, s4)))
        # a claimed 16-bit delayed replication count over the longest Table D sequences, with Section 4 sizes up to 30 KiB:
        # (bits of one replica) x (count) crosses 2^31, 2^32 ... (arithmetic of the "message too short" guard)
        bigD = sorted(ctx.T.D, key=lambda d: -static_size(ctx.T, [d], cap=10 ** 6))[:8]
        for _ in range(16 if tier == "quick" else 120):
            d = rng.choice(bigD)
            cnt = rng.choice([3, 255, 4096, 10966, 10967, 21934, 32768, 40000, 65535, rng.randrange(1, 65536)])
            n4 = rng.choice([10, 200, 3000, 30000])
            s4 = cnt.to_bytes(2, "big") + bytes(rng.choice([0, 0xff, 0x55]) for _ in range(n4))
            inputs.append(("claimed_count_x_long_sequence", bufrmsg.build(4, [101000, 31002, d], 1, False, s4)))
        # section length fields at their lower boundary: every 3-octet section length of a well-formed message (with and without
        # Section 2, editions 2-4) replaced by 0..7 - shorter than the section's own fixed header (unsigned length arithmetic,
        # even-padding rule of editions <= 3) - with the rest of the message, and some trailing bytes, left in place
        for ed in (2, 3, 4):
            for s2 in ((None, b"x") if tier == "quick" else (None, b"local use", b"x")):      # the full family ran clean on the unchanged tree; quick keeps the part below the headers
                base = bufrmsg.build(ed, [1001, 1002], 1, False, bytes([1, 2, 3, 4]), s2=s2)
                offs = [8]
                offs.append(offs[-1] + int.from_bytes(base[offs[-1]:offs[-1] + 3], "big"))
                if s2 is not None:
                    offs.append(offs[-1] + int.from_bytes(base[offs[-1]:offs[-1] + 3], "big"))
                offs.append(offs[-1] + int.from_bytes(base[offs[-1]:offs[-1] + 3], "big"))
                for o in offs:
                    for v in range(5 if tier == "quick" else 8):
                        for tail in (b"", b"A" * 300):
                            inputs.append(("section_length_boundary", base[:o] + v.to_bytes(3, "big") + base[o + 3:] + tail))
    text = "\n".join(m.hex() for _, m in inputs) + "\n"
    rc, out, err = vlib.sh([exe, str(LIMIT_S)], input=text.encode(), timeout=3600, env=vlib.ASAN_ENV)
    outs = [l for l in out.split("\n") if l]
    kf = vlib.known_findings("C05")
    nviol = 0
    times = collections.Counter()
    for (label, m), o in zip(inputs, outs):
        rep.count((label, m[:64].hex(), len(m)))
        cls = o.split()[0]
        feat[label + ":" + cls.rstrip("0123456789")] += 1
        ms = float(o.split("ms=")[1]) if "ms=" in o else 0.0
        times["<0.1s" if ms < 100 else "<1s" if ms < 1000 else ">=1s"] += 1
        if len(rep.cov["samples"]) < 6 and cls in ("dataset", "reject", "abort") and label != "valid":
            rep.sample({"label": label, "input": m[:60].hex() + ("..." if len(m) > 60 else ""), "outcome": o})
        bad = None
        if cls == "EXIT":
            bad = "the library called exit()"
        elif cls.startswith("SIGNAL"):
            bad = "the library crashed (signal %s: null access / stack overflow / abort)" % cls[6:]
        elif cls == "SANITIZER" or cls.startswith("EXITCODE"):
            bad = "AddressSanitizer/UBSan stopped the decoder (out-of-bounds / use-after-free / ...)"
        elif cls == "TIMEOUT":
            bad = "no return within %d s for a %d-byte input" % (LIMIT_S, len(m))
        elif label in ("valid", "corpus") and cls != "dataset" and label == "valid":
            bad = "a valid message was not decoded (%s)" % o
        if bad:
            work = claimed_work(ctx.T, m) if cls == "TIMEOUT" else 0
            matched = [f for f in kf if f.get("match") == "expansion_bomb" and cls == "TIMEOUT" and work >= int(f.get("min_work", 10 ** 6))]
            if matched:
                feat["known_finding_expansion_bomb"] += 1
                rep.finding(matched[0]["what"])
                continue
            rep.violation("C05: %s  [%s input, %d bytes: %s%s]" % (bad, label, len(m), m[:80].hex(), "..." if len(m) > 80 else ""),
                          {"kind": "bytes", "label": label, "input": m.hex(), "outcome": o, "stderr": err[-3000:]})
            nviol += 1
            if nviol > 8:
                break
    if len(outs) < len(inputs) and nviol == 0:
        rep.violation("C05: the harness stopped after %d of %d inputs: %s" % (len(outs), len(inputs), err[-400:]), {"kind": "bytes", "input": inputs[len(outs)][1].hex()}, no_input=False)
    if not proved and not rep.violations:
        rep.violation("C05: proof obligations no longer check and no failing input was found", getattr(rep, "proof_broken", {}), no_input=True)
    rep.cov["traces_validated_against_impl"] = len(outs)
    rep.cov["rule"] = ("byte strings up to 64 KiB: valid messages (generated + Test/BUFR/*.bufr), bit/byte mutations, truncations, insertions, corrupted length fields, every section length field set to 0..7 (below the section's own header; editions 2-4, with/without Section 2, with trailing bytes), random bytes, "
                       "well-framed messages whose Section 3 holds arbitrary F/X/Y (unbalanced and self-overlapping replication, operators with extreme operands, bitmap operators) over random Section 4 bits, "
                       "hostile shapes (deep fixed replication, huge claimed factors over little data); each decoded in a forked child under ASan/UBSan, 64 MiB stack, %d s alarm, exit() wrapped. "
                       "distinct = distinct inputs" % LIMIT_S)
    rep.cov["distribution"] = dict(feat)
    rep.cov["wall_time_per_input"] = dict(times)
    rep.cov["partial"] = "theorems cover totality, size bound and refusal of malformed replication in the reference decoder; memory safety, stack and wall time of the C code are observed per input, not proved"
    rep.assumptions = ["the sanitizer sees every invalid access on the executed path; time limit %d s under ASan on this machine" % LIMIT_S]
