# c08.py — property C08: scaling arithmetic (raw <-> physical value), double and single precision paths.
# proof: Properties_C08.v (ScalSpec/ScalImpl); tie: the extracted ScalImpl model vs the library's conversion functions,
# bit for bit (doubles/floats as IEEE bit patterns); oracle: exact rational arithmetic (fractions) written from the
# property statement, evaluated on the library's own outputs.
import random, struct, collections, os, re
from fractions import Fraction
import vlib, tables, gentables

TABLES = ["table_b_bufr", "table_b_bufr-13", "table_b_bufr-31", "table_b_bufr-32", "table_b_bufr-35"]
DBL_MAX_BITS = "7fefffffffffffff"
FLT_MAX_BITS = "7f7fffff"
# known-finding classes (see proposed_fixes/C08_*.md); each is reported with rep.finding only while known_findings.json lists it as open
F_NEGSCALE = "negscale_exact_extreme"        # exact physical value at a range end rejected when scale < 0 (inexact pow(10,scale))
F_F32 = "f32_extra_roundings"                # single-precision path loses raw values a binary32 can carry (float val_pow)
F_WRAP = "negscale_negref_fmax_wrap"          # scale<0 and reference < -(2^w-2): fmax wraps in uint64, no post-check: value above range -> raw >= 2^w
F_F32NEG = "f32_negscale_exact_extreme"     # single-precision twin of F_NEGSCALE: bufr_cvt_fval_to_i32 limits from x / pow(10,scale), scale < 0
F_SPRINTF = "set_dvalue_sprintf_overflow"    # bufr_descriptor_set_dvalue: sprintf("%f") of a huge out-of-range value overflows errmsg[256]


def f32_guaranteed(s, ref, w):
    """sub-domain of f32_domain on which even the library's present float arithmetic (two roundings with the same
    float power on each side) is within half a unit: N < 2^22.  Between this and f32_domain lies finding F_F32."""
    top = (1 << w) - 2
    n = max(abs(ref), abs(top + ref))
    return s == 0 or n < (1 << 22)


# ------------------------------------------------------------------ exact arithmetic (the oracle's vocabulary)
def p10(s):
    return Fraction(10) ** s


def phys(s, ref, i):
    return Fraction(i + ref) / p10(s)


def rnd_half_away(q):
    if q >= 0:
        return (q + Fraction(1, 2)).__floor__()
    return -((-q + Fraction(1, 2)).__floor__())


def spec_quant(s, ref, w, q):
    """the regulation's quantisation of physical value q: round to the nearest unit of 10^-s, subtract the reference;
    anything not representable below the all-ones pattern is missing (all ones)"""
    r = rnd_half_away(q * p10(s)) - ref
    return r if 0 <= r <= (1 << w) - 2 else (1 << w) - 1


def rn(q, prec, emax):
    """correctly rounded (nearest, ties to even) binary float of the rational q: returns the exact Fraction of the float,
    or None on overflow"""
    if q == 0:
        return Fraction(0)
    emin = 3 - emax - prec
    a = abs(q)
    e = a.numerator.bit_length() - a.denominator.bit_length()       # 2^(e-1) <= a < 2^(e+1)
    if Fraction(2) ** e > a:
        e -= 1                                                      # now 2^e <= a < 2^(e+1)
    ex = max(e - prec + 1, emin)
    m = a / Fraction(2) ** ex
    fl = m.__floor__()
    rem = m - fl
    if rem > Fraction(1, 2) or (rem == Fraction(1, 2) and fl % 2 == 1):
        fl += 1
    v = fl * Fraction(2) ** ex
    if v >= Fraction(2) ** emax:
        return None
    return v if q > 0 else -v


def d_of_bits(h):
    return struct.unpack(">d", bytes.fromhex(h.rjust(16, "0")))[0]


def bits_of_d(d):
    return struct.pack(">d", d).hex()


def f_of_bits(h):
    return struct.unpack(">f", bytes.fromhex(h.rjust(8, "0")))[0]


def bits_of_f(f):
    return struct.pack(">f", f).hex()


def rn_double_bits(q):
    v = rn(q, 53, 1024)
    return None if v is None else bits_of_d(v.numerator / v.denominator)


def rn_float_bits(q):
    v = rn(q, 24, 128)
    return None if v is None else bits_of_f(v.numerator / v.denominator)     # exact: v is a binary32 value


def finite_bits64(h):
    return (int(h, 16) >> 52) & 0x7ff != 0x7ff


def finite_bits32(h):
    return (int(h, 16) >> 23) & 0xff != 0xff


# ------------------------------------------------------------------ single precision: where the property can hold
def f32_ideal_ok(s, ref, w, i):
    """A float can carry raw value i at all iff the binary32 nearest to phys(i) still quantises to i."""
    v = rn(phys(s, ref, i), 24, 128)
    return v is not None and spec_quant(s, ref, w, v) == i


def f32_domain(s, ref, w):
    """Encodings on which the single-precision path CAN hold the property, hence is required to.
    binary32 has a 24-bit significand.  N = max |i+ref| over 0 <= i <= 2^w-2.
      scale 0   : the physical value is the integer i+ref; every one is a binary32 iff N <= 2^24 (2^24+1 is not).
      scale != 0: the binary32 nearest to (i+ref)/10^s is within 2^-24 relative, i.e. within 2^-24 N units of 10^-s, which is
                  below the half unit that quantisation tolerates iff N < 2^23; from 2^23 on some raw values move by half a
                  unit or more and from 2^24 on adjacent raw values collide, whatever the code does.
    Outside this domain a float cannot carry the value: a limit of the representation, not of the code (the library's
    default storage type VALTYPE_FLTDEFAULT is FLT64)."""
    top = (1 << w) - 2
    n = max(abs(ref), abs(top + ref))
    if s == 0:
        return n <= (1 << 24)
    return n < (1 << 23)


# ------------------------------------------------------------------ encodings
def shipped_encodings(repo):
    """distinct (scale, ref, width, desc) of the numeric/code/flag entries of the five shipped Table B versions, width 1..32;
    desc = the class-31 descriptor itself, else the first descriptor carrying the encoding"""
    seen = collections.OrderedDict()
    nent = 0
    wide = 0
    for f in TABLES:
        p = os.path.join(repo, "Tables", f)
        if not os.path.exists(p):
            continue
        for e in tables.read_table_b(p, local=True):
            if e["kind"] == "str":
                continue
            nent += 1
            if not (1 <= e["width"] <= 32):
                wide += 1
                continue
            c31 = (e["desc"] // 1000) % 100 == 31
            key = (e["scale"], e["ref"], e["width"], e["desc"] if c31 else 0)
            seen.setdefault(key, e["desc"])
    return [(k[0], k[1], k[2], d) for k, d in seen.items()], nent, wide


def synthetic_encodings(rng, n):
    out = []
    for _ in range(n):
        w = rng.choice([1, 2, 3, 7, 8, 12, 15, 16, 17, 23, 24, 25, 31, 32, rng.randint(1, 32)])
        s = rng.choice([0, 1, 2, 3, 5, 9, 10, 12, -1, -2, -5, -10, rng.randint(-10, 12)])
        kind = rng.random()
        if kind < 0.25:
            ref = 0
        elif kind < 0.5:
            ref = rng.choice([-1, 1]) * rng.randint(1, 5000)
        elif kind < 0.7:
            ref = rng.choice([-1, 1]) * (1 << rng.randint(0, 30)) + rng.choice([-1, 0, 1])
            ref = max(-(1 << 30), min(1 << 30, ref))
        elif kind < 0.85:
            ref = rng.randint(-(1 << 30), 1 << 30)
        else:
            # the wrap of (maxval-1)+reference: reference below -(2^w-2)
            ref = -((1 << w) - 2) - rng.randint(0, 3) * rng.choice([0, 1, 1000])
            ref = max(-(1 << 30), ref)
        # operator-adjusted (2 01 / 2 02 / 2 07): width and scale shifted, reference multiplied by 10^k
        r = rng.random()
        if r < 0.15:
            w = max(1, min(32, w + rng.randint(-4, 8)))
            s += rng.randint(-3, 3)
        elif r < 0.25:
            k = rng.randint(1, 3)
            s += k
            ref = max(-(1 << 30), min(1 << 30, ref * 10 ** k))
            w = min(32, w + (10 * k + 2) // 3)
        s = max(-10, min(12, s))
        out.append((s, ref, w, rng.choice([1001, 12101, 31001, 31031, 33007])))
    return out


def f32_tie_encodings():
    """negative-scale encodings whose extreme physical value lies exactly midway between two binary32 (so that the float
    nearest to the exact value and the float of a value one double-ulp below it differ): the inputs that expose limits
    computed from the inexact pow(10,scale) in the single-precision functions"""
    out = []
    for s in range(-10, 0):
        for w in range(2, 25):
            for ref in (0, -(1 << (w - 1)), -1000):
                if not f32_domain(s, ref, w):
                    continue
                for i in ((1 << w) - 2, 0):
                    q = phys(s, ref, i)
                    if q == 0:
                        continue
                    lo = rn(q * (1 - Fraction(1, 1 << 52)), 24, 128)
                    hi = rn(q * (1 + Fraction(1, 1 << 52)), 24, 128)
                    if lo != hi:
                        out.append((s, ref, w, 12101))
                        break
    return out


def raw_picks(rng, s, ref, w, n_rand):
    """raw values aimed at the case splits of the encoder: ends, the sign change of i+ref, multiples of 10^s, the
    delta<reference switch (i+ref around 2^w-1), powers of two, random; always in adjacent pairs"""
    allones = (1 << w) - 1
    base = {0, 1, 2, allones - 2, allones - 1, allones}
    for c in (-ref, (1 << 24) - ref, (1 << 23) - ref, allones - ref, (1 << 31), allones // 2):
        base.update({c - 1, c, c + 1})
    if s > 0:
        pw = 10 ** min(s, 10)
        for k in (1, 2, rng.randint(1, 1 << 12)):
            base.update({k * pw - ref - 1, k * pw - ref, k * pw - ref + 1})
    for b in (8, 16, 24, 31):
        base.update({(1 << b) - 1, 1 << b})
    for _ in range(n_rand):
        v = rng.randint(0, allones)
        base.update({v, v + 1})
    return sorted(v for v in base if 0 <= v <= allones)


# ------------------------------------------------------------------ oracles
def oracle_R(s, ref, w, desc, i, toks, f32req):
    """R case: d=decode(i), j=encode(d), f=decodef(i), k=encodef(f).  Returns (failure text or None, float-path note);
    failures of the single-precision path start with 'single precision'."""
    allones = (1 << w) - 1
    dh, jh, fh, kh = toks[0], toks[1], toks[2], toks[3]
    j = int(jh, 16); k = int(kh, 16)
    c31 = (desc // 1000) % 100 == 31
    if i == allones:
        if dh != DBL_MAX_BITS:
            return "the all-ones raw value %d decodes to the double %s, not to the missing value" % (i, dh), None
        if j != allones:
            return "the missing double encodes to %d, not to the all-ones pattern %d" % (j, allones), None
        if fh != FLT_MAX_BITS:
            return "the all-ones raw value %d decodes to the float %s, not to the missing value" % (i, fh), None
        if k != allones:
            return "the missing float encodes to %d, not to the all-ones pattern %d" % (k, allones), None
        return None, None
    if not finite_bits64(dh) or dh == DBL_MAX_BITS:
        return "raw value %d (below all-ones) decodes to the missing/non-finite double %s" % (i, dh), None
    d = Fraction(d_of_bits(dh))
    if abs(d - phys(s, ref, i)) >= Fraction(1, 2) / p10(s):
        return "decoded double %s = %r is not within half a unit of 10^-%d of (i+ref)/10^s = %s" % (dh, float(d), s, phys(s, ref, i)), None
    if spec_quant(s, ref, w, d) != i:
        return "the decoded double %s quantises to %d, not %d" % (dh, spec_quant(s, ref, w, d), i), None
    if j != i:
        return "round trip: raw %d decodes to %s (%r) which encodes to %d" % (i, dh, float(d), j), None
    # single precision
    note = None
    if f32req:
        if not finite_bits32(fh) or fh == FLT_MAX_BITS:
            return "single precision: raw value %d decodes to the missing/non-finite float %s" % (i, fh), None
        f = Fraction(f_of_bits(fh))
        if abs(f - phys(s, ref, i)) >= Fraction(1, 2) / p10(s):
            return "single precision: decoded float %s = %r is not within half a unit of (i+ref)/10^s = %s" % (fh, float(f), phys(s, ref, i)), None
        if k != i:
            return "single precision round trip: raw %d decodes to %s (%r) which encodes to %d" % (i, fh, float(f), k), None
    else:
        note = "ok" if k == i else "lost"
    return None, note


def oracle_D(s, ref, w, desc, kind, i, jh):
    """D/F case: a double/float handed to the encoder.  kind: exact|perturbed -> i ; outside -> all ones"""
    allones = (1 << w) - 1
    j = int(jh, 16)
    if kind == "outside":
        if j != allones:
            return "a physical value outside the representable range was stored as %d, not as missing (%d)" % (j, allones)
        return None
    if j != i:
        return "the %s physical value of raw %d was stored as %s" % (kind, i, "missing" if j == allones else str(j))
    return None


# ------------------------------------------------------------------ case construction
def enc_str(e):
    return "%d %d %d %d" % e


def build_phase1(rng, tier, encs_ship, encs_syn):
    lines, meta = [], []
    for k in range(-128, 128):
        lines.append("P %d" % k); meta.append(("P", k))
    for n in list(range(-1, 66)):
        lines.append("M %d" % n); meta.append(("M", n))
    vals = [0, 1, 2, 3, 5, 7, 8, 255, 256, 1023, 1 << 20, (1 << 31) - 1, 1 << 31, (1 << 32) - 1, 1 << 40, (1 << 62), -1, -2, -3, -4, -5, -127, -128,
            -129, -1000, -(1 << 20), -(1 << 30), -((1 << 31) - 1)] + [rng.randint(-(1 << 31) + 1, 1 << 40) for _ in range(40)]
    for v in vals:
        lines.append("N %d" % v); meta.append(("N", v))
    for n in (2, 3, 4, 8, 12, 16, 24, 31, 32, 33):
        for v in sorted({0, 1, (1 << (n - 1)) - 1, 1 << (n - 1), (1 << (n - 1)) + 1, (1 << n) - 2, (1 << n) - 1} | {rng.randrange(1 << n) for _ in range(6)}):
            lines.append("C %x %d" % (v, n)); meta.append(("C", v, n))
        for v in sorted({0, 5, -1, -2, -((1 << (n - 1)) - 1)} | {-rng.randrange(1, 1 << (min(n, 31) - 1)) for _ in range(6)} if n > 1 else {0}):
            lines.append("G %d %d" % (v, n)); meta.append(("G", v, n))
    nr_ship = 6 if tier == "quick" else 40
    nr_syn = 6 if tier == "quick" else 24
    for group, encs, nr in (("ship", encs_ship, nr_ship), ("syn", encs_syn, nr_syn)):
        for e in encs:
            for i in raw_picks(rng, e[0], e[1], e[2], nr):
                lines.append("R %s %d" % (enc_str(e), i)); meta.append(("R", e, i, group))
    return lines, meta


def sweep_lines(tier, encs_ship, encs_syn):
    lines, meta = [], []
    per = 12 if tier == "quick" else 20         # 2^per values at each end / exhaustive below 2^(per+1)
    for group, encs in (("ship", encs_ship), ("syn", encs_syn)):
        for e in encs:
            top = (1 << e[2]) - 1
            if group == "syn" and tier != "quick":
                lim = 16
            else:
                lim = per
            if top <= (1 << (lim + 1)):
                segs = [(0, top, 1)]
            else:
                n = 1 << lim
                stride = max(1, ((top - 2 * n) // 4096) | 1)
                segs = [(0, n, 1), (top - n, top, 1), (n, top - n, stride)]
            for lo, hi, st in segs:
                lines.append("S %s %d %d %d" % (enc_str(e), lo, hi, st)); meta.append((e, lo, hi, st, group))
    return lines, meta


def build_phase2(rng, tier, r_results):
    """D / F / X cases derived from the encodings and from the library's own decoded values."""
    lines, meta = [], []
    by_enc = collections.OrderedDict()
    for (e, i, group), toks in r_results:
        by_enc.setdefault(e, []).append((i, toks))
    for e, lst in by_enc.items():
        s, ref, w, desc = e
        allones = (1 << w) - 1
        top = allones - 1
        unit = 1 / p10(s)
        picks = [i for i, _ in lst if i <= top]
        sel = sorted(set(picks[:3] + picks[-3:] + rng.sample(picks, min(len(picks), 4 if tier == "quick" else 10))))
        flt64 = (s != 0 or ref < 0)
        f32 = f32_domain(s, ref, w)
        for i in sel:
            q = phys(s, ref, i)
            b = rn_double_bits(q)
            if b is not None and b != DBL_MAX_BITS:
                cls = F_NEGSCALE if ((i == top or i == 0) and s < 0) else None
                lines.append("D %s %s" % (enc_str(e), b)); meta.append(("D", e, "exact", i, cls))
                if flt64:
                    lines.append("X %s %s" % (enc_str(e), b)); meta.append(("X", e, "exact", i, cls))
            for sgn in (-1, 1):
                qq = q + sgn * unit / 4
                if phys(s, ref, 0) <= qq <= phys(s, ref, top):
                    bb = rn_double_bits(qq)
                    if bb is not None and spec_quant(s, ref, w, Fraction(d_of_bits(bb))) == i:
                        lines.append("D %s %s" % (enc_str(e), bb)); meta.append(("D", e, "perturbed", i, None))
            if f32:
                fb = rn_float_bits(q)
                if fb is not None and fb != FLT_MAX_BITS and spec_quant(s, ref, w, Fraction(f_of_bits(fb))) == i:
                    cls = None if f32_guaranteed(s, ref, w) and 0 <= s <= 10 else F_F32     # float val_pow is inexact outside 0..10
                    if s < 0 and (i == top or i == 0):
                        cls = F_F32NEG      # the float nearest to the exact end of the range vs limits from the inexact 10^scale
                    lines.append("F %s %s" % (enc_str(e), fb)); meta.append(("F", e, "exact", i, cls))
        # outside the representable range: at least half a unit beyond the extremes, the value of the all-ones pattern, far away
        outs = [phys(s, ref, -1), phys(s, ref, 0) - unit * Fraction(6, 10), phys(s, ref, top) + unit * Fraction(6, 10),
                phys(s, ref, allones), phys(s, ref, allones + 1), phys(s, ref, top) + 1000 * unit, phys(s, ref, 0) - 1000 * unit,
                Fraction(10) ** 30, -Fraction(10) ** 30, Fraction(10) ** 300]
        c31 = (desc // 1000) % 100 == 31
        for q in outs:
            b = rn_double_bits(q)
            if b is None or b == DBL_MAX_BITS:
                continue
            if spec_quant(s, ref, w, Fraction(d_of_bits(b))) != allones:
                continue           # the rounding of q to a double moved it back inside (huge references): not an outside value
            wrapcls = F_WRAP if (s < 0 and top + ref < 0 and q > phys(s, ref, top)) else None
            lines.append("D %s %s" % (enc_str(e), b)); meta.append(("D", e, "outside", None, wrapcls))
            if flt64 and not (c31 and phys(s, ref, 0) <= q <= phys(s, ref, allones)):      # class 31: the all-ones value is a value
                huge = abs(q) >= Fraction(10) ** 100
                lines.append("X %s %s" % (enc_str(e), b)); meta.append(("X", e, "outside", None, F_SPRINTF if huge else None))
            if f32:
                fb = rn_float_bits(q)
                if fb is not None and fb != FLT_MAX_BITS and spec_quant(s, ref, w, Fraction(f_of_bits(fb))) == allones:
                    near = phys(s, ref, -2) <= q <= phys(s, ref, allones + 1)     # resolving < 1 unit needs the double arithmetic of the F_F32 fix
                    lines.append("F %s %s" % (enc_str(e), fb)); meta.append(("F", e, "outside", None, wrapcls or (F_F32 if near else None)))
        for b in (DBL_MAX_BITS, "7ff0000000000000", "fff0000000000000", "7ff8000000000000"):
            lines.append("D %s %s" % (enc_str(e), b)); meta.append(("D", e, "outside", None, None))
        # the library's own decoded doubles handed back through the descriptor-level range check
        if flt64:
            for i, toks in lst[:2] + lst[-3:]:
                if i <= top:
                    lines.append("X %s %s" % (enc_str(e), toks[0])); meta.append(("X", e, "decoded", i, None))
    return lines, meta


# ------------------------------------------------------------------ the check
def run(rep, tier, seed, replay=None):
    rep.level = "proof"
    # the finite theorem C08_encode_float_eq_raw_partial quantifies over the shipped tables (GenTables.v): regenerate when the
    # tables differ (not when only the header comment naming the tree differs: that would rebuild ScalPartial.v for nothing)
    gpath = os.path.join(vlib.COQ, "theories", "GenTables.v")
    body = lambda t: t.split("\n", 1)[1] if "\n" in t else t
    if not os.path.exists(gpath) or body(open(gpath).read()) != body(gentables.render(vlib.REPO)):
        gentables.regenerate()
    proved = vlib.proof_step(rep, "Properties_C08")
    exe = vlib.build_harness("c08")
    drv = vlib.extract_and_build_driver("c08")
    rng = random.Random(seed)
    known = {f.get("match"): f for f in vlib.known_findings("C08")}
    dist = collections.Counter()
    nviol = [0]

    vkeys = collections.Counter()

    def violation(text, line, extra=None, no_input=False):
        """at most 3 reports per kind of failure (the text without its numbers), so that one class cannot hide another"""
        key = re.sub(r"[0-9a-f]*\d[0-9a-f]*", "#", text.split("[case:")[0])[:90]
        vkeys[key] += 1
        nviol[0] += 1
        if vkeys[key] > 3 or len(vkeys) > int(os.environ.get("C08_MAXVIOL", "40")):
            return
        r = {"kind": "c08", "lines": [line]}
        if extra:
            r.update(extra)
        rep.violation(text, r, no_input=no_input)

    variant = [0, 0, 0]    # fx_neg, fx_f32, fx_f32n of ScalImpl.v: which variant of the code the tree implements (probed below)

    def run_model(lines, powtab, var):
        mtext = "V %d %d %d\n" % tuple(var) + "".join("T %d %s\n" % kv for kv in sorted(powtab.items())) + "\n".join(lines) + "\n"
        rc2, mout, merr = vlib.sh([drv], input=mtext.encode(), timeout=1800)
        if rc2 != 0:
            raise RuntimeError("model driver failed: " + merr[-2000:])
        return mout.split("\n")

    def probe_variant(powtab):
        """ScalImpl.v mirrors two variants of the arithmetic per flag (see its header): pick the combination that reproduces
        the library on a few probe lines (none: keep 0 0); the full correspondence run below then has to agree everywhere."""
        pn = ["D -5 0 15 2067 41e8699e58000000", "R -5 0 15 2067 32766", "R -3 -65536 17 14001 7", "X -5 -16384 15 14192 c1d86a0000000000",
              "R -11 0 28 1001 99999", "D -1 -1000 8 1001 c0c3880000000000"]
        pf = ["R 8 -100000 23 15037 8388606", "R 12 -8388607 3 1001 3", "R -10 -8388606 23 1001 255", "R 5 -8388607 23 31001 65536",
              "R 11 5 20 1001 77777", "R -2 3 16 1001 4097", "F -5 0 14 33007 4ec349e6", "F -3 -65536 17 14001 cc7a0000",
              "F -5 0 14 33007 4ec349e5", "R -5 0 14 33007 16382"]
        rc, cn, _ = vlib.run_cases(exe, "\n".join(pn + pf) + "\n")
        for var in ([1, 1, 1], [1, 1, 0], [0, 0, 0], [1, 0, 0], [0, 1, 0], [0, 1, 1]):
            mo = run_model(pn + pf, powtab, var)
            if all(c.split()[:4] == m.split()[:4] for c, m in zip(cn, mo)):
                variant[:] = var
                return

    def run_both(lines, powtab):
        text = "\n".join(lines) + "\n"
        rc, cout, cerr = vlib.run_cases(exe, text, timeout=1800)
        mtext = "V %d %d %d\n" % tuple(variant) + "".join("T %d %s\n" % kv for kv in sorted(powtab.items())) + text
        rc2, mout, merr = vlib.sh([drv], input=mtext.encode(), timeout=1800)
        if rc2 != 0:
            raise RuntimeError("model driver failed: " + merr[-2000:])
        return cout, cerr, mout.split("\n")

    def died(cout, cerr, lines, n):
        if len(cout) - 1 < n:
            i = max(0, len(cout) - 1)
            msg = " | ".join(l for l in cerr.split("\n") if "ERROR" in l or "SUMMARY" in l or "runtime error" in l)[:400]
            violation("C08: the library crashed or was stopped by the sanitizer on this case: %s  [case: %s]" % (msg, lines[i]), lines[i])
            return True
        return False

    # ---------------- replay
    if replay:
        lines = replay.get("lines", [])
        powtab = {int(k): v for k, v in replay.get("powtab", {}).items()}
        probe_variant(powtab)
        cout, cerr, mout = run_both(lines, powtab)
        for ln, c, m in zip(lines, cout, mout):
            rep.count(ln)
            fail = replay_oracle(ln, c)
            if fail:
                violation("C08: %s  [case: %s]" % (fail, ln), ln, {"impl": c, "model": m, "powtab": replay.get("powtab", {})})
            elif c.split()[:4] != m.split()[:4]:
                violation("C08: correspondence ScalImpl.v <-> library broken on case %s (impl %s, model %s)" % (ln, c, m), ln,
                          {"impl": c, "model": m, "powtab": replay.get("powtab", {})}, no_input=True)
        return

    encs_ship, nent, nwide = shipped_encodings(vlib.REPO)
    encs_syn = synthetic_encodings(rng, 700 if tier == "quick" else 6000) + f32_tie_encodings()
    dist["table_entries_numeric"] = nent
    dist["table_entries_wider_than_32_bits_skipped"] = nwide
    dist["distinct_shipped_encodings"] = len(encs_ship)
    dist["synthetic_encodings"] = len(encs_syn)

    def settle(fail, cls, ln, extra):
        """a failing oracle: known finding class (still open) -> KNOWN-FINDING, otherwise a violation"""
        if cls and cls in known:
            rep.finding(known[cls].get("what", cls))
            dist["known_finding_" + cls] += 1
        else:
            violation("C08: %s  [case: %s]" % (fail, ln), ln, extra)

    def corr_broken(ln, c, mo, where):
        violation("C08: correspondence ScalImpl.v <-> library broken on case %s (impl %s, model %s); the exact-arithmetic oracle accepts the library's behaviour"
                  % (ln, c, mo), ln, {"impl": c, "model": mo, "powtab": powtab, "correspondence": where}, no_input=True)

    # ---------------- phase 1: pow contract, value functions, decode->encode round trips
    lines, meta = build_phase1(rng, tier, encs_ship, encs_syn)
    # pow(10,k) first (C only) to learn libm's values
    npow = 256
    rc, pout, perr = vlib.run_cases(exe, "\n".join(lines[:npow]) + "\n")
    powtab = {}
    for (tag, k), h in zip(meta[:npow], pout):
        q = p10(k)
        want = rn_double_bits(q)
        d = Fraction(d_of_bits(h))
        ulp = Fraction(2) ** (max(((int(h, 16) >> 52) & 0x7ff), 1) - 1075)
        if 0 <= k <= 22 and d != q:
            violation("C08: pow(10,%d) of this libm is %s, not exactly 10^%d: the contract the proofs assume about pow does not hold on this machine" % (k, h, k),
                      "P %d" % k, no_input=True)
        elif abs(d - q) > ulp:
            violation("C08: pow(10,%d) of this libm is %s, more than 1 ulp from 10^%d (contract of the proofs)" % (k, h, k), "P %d" % k, no_input=True)
        if h != want:
            powtab[k] = h
            dist["pow10_not_correctly_rounded_by_libm"] += 1
        else:
            dist["pow10_correctly_rounded"] += 1
    probe_variant(powtab)
    dist["model_variant_fx_neg"] = variant[0]
    dist["model_variant_fx_f32"] = variant[1]
    dist["model_variant_fx_f32n"] = variant[2]
    cout, cerr, mout = run_both(lines, powtab)
    if died(cout, cerr, lines, len(lines)):
        finish(rep, dist, proved)
        return
    r_results = []
    pending_mono = {}
    for idx, (ln, m) in enumerate(zip(lines, meta)):
        c = cout[idx]; mo = mout[idx] if idx < len(mout) else "<none>"
        rep.count(ln)
        if idx % 5003 == 0:
            rep.sample({"case": ln, "impl": c, "model": mo})
        tag = m[0]
        fail = None
        cls = None
        if tag == "P":
            pass
        elif tag == "M":
            n = m[1]
            dist["missing_ivalue"] += 1
            if 1 <= n <= 63 and int(c, 16) != (1 << n) - 1:
                fail = "bufr_missing_ivalue(%d) = %s is not the all-ones pattern" % (n, c)
        elif tag == "N":
            v = m[1]
            dist["value_nbits"] += 1
            if 0 <= v < (1 << 62):
                need = 1
                while (1 << need) - 1 <= v:
                    need += 1
                if int(c) != need:
                    fail = "bufr_value_nbits(%d) = %s; the smallest width whose all-ones pattern exceeds it is %d" % (v, c, need)
        elif tag in ("C", "G"):
            dist["sign_magnitude"] += 1
            if tag == "G":
                v, n = m[1], m[2]
                if v < 0 and n <= 32 and abs(v) < (1 << (n - 1)) and int(c, 16) != (abs(v) | (1 << (n - 1))):
                    fail = "bufr_negative_ivalue(%d,%d) = %s is not sign-and-magnitude" % (v, n, c)
            else:
                v, n = m[1], m[2]
                want = -(v & ((1 << (n - 1)) - 1)) if v >> (n - 1) & 1 else v      # sign and magnitude; all ones is -(2^(n-1)-1), not 'missing'
                if int(c) != want:
                    fail = "bufr_cvt_ivalue(0x%x,%d) = %s, sign-and-magnitude value is %d" % (v, n, c, want)
        elif tag == "R":
            e, i, group = m[1], m[2], m[3]
            s, ref, w, desc = e
            toks = c.split()
            f32req = f32_domain(s, ref, w)
            fail, note = oracle_R(s, ref, w, desc, i, toks, f32req)
            dist["R_" + group] += 1
            dist["R_scale_" + ("neg" if s < 0 else "zero" if s == 0 else "1to9" if s <= 9 else "ge10")] += 1
            dist["R_ref_" + ("neg" if ref < 0 else "zero" if ref == 0 else "pos")] += 1
            dist["R_width_" + ("le8" if w <= 8 else "le16" if w <= 16 else "le24" if w <= 24 else "le31" if w <= 31 else "32")] += 1
            if i == (1 << w) - 1:
                dist["R_allones"] += 1
            if f32req:
                dist["R_float_path_required"] += 1
            else:
                dist["R_float_path_outside_representable_domain_%s" % note] += 1
            if fail is None and i < (1 << w) - 1:
                # strict monotonicity of adjacent raw values (cases come in runs of adjacent i)
                prev = pending_mono.get(e)
                if prev is not None and prev[0] == i - 1:
                    dist["adjacent_pairs_monotone_checked"] += 1
                    if not d_of_bits(prev[1]) < d_of_bits(toks[0]):
                        fail = "physical values do not increase strictly: raw %d -> %s, raw %d -> %s" % (i - 1, prev[1], i, toks[0])
                    elif f32req and not f_of_bits(prev[2]) < f_of_bits(toks[2]):
                        fail = "single precision: physical values do not increase strictly: raw %d -> %s, raw %d -> %s" % (i - 1, prev[2], i, toks[2])
                pending_mono[e] = (i, toks[0], toks[2])
            if fail and fail.startswith("single precision") and not f32_guaranteed(s, ref, w):
                cls = F_F32
            if mo.split()[4:5] and i < (1 << w) - 1 and mo.split()[4] != str(i) and fail is None and c.split()[:4] == mo.split()[:4]:
                fail = "the model's quantisation (quantQ) of the decoded double is %s, not %d" % (mo.split()[4], i)
            r_results.append(((e, i, group), toks))
        if fail:
            settle(fail, cls, ln, {"impl": c, "model": mo, "powtab": powtab})
        if tag != "P" and c.split()[:4] != mo.split()[:4] and (not fail or cls):
            corr_broken(ln, c, mo, "ScalImpl.v vs bufr_tables.c/bufr_value.c")
    ncases = len(lines)

    # ---------------- phase 2: doubles handed to the encoder and to the descriptor-level range check
    lines2, meta2 = build_phase2(rng, tier, r_results)
    batches = [[(l, m) for l, m in zip(lines2, meta2) if m[4] != F_SPRINTF], [(l, m) for l, m in zip(lines2, meta2) if m[4] == F_SPRINTF]]
    for bi, batch in enumerate(batches):
        if not batch:
            continue
        bl = [l for l, _ in batch]
        cout, cerr, mout = run_both(bl, powtab)
        ncases += len(bl)
        if len(cout) - 1 < len(bl):
            i0 = max(0, len(cout) - 1)
            msg = " | ".join(l for l in cerr.split("\n") if "ERROR" in l or "SUMMARY" in l)[:300]
            fail = "the library crashed or was stopped by the sanitizer on this case: %s" % msg
            rep.count(bl[i0])
            settle(fail, batch[i0][1][4], bl[i0], {"stderr": cerr[-1500:], "powtab": powtab})
        for idx, (ln, m) in enumerate(batch):
            if idx >= len(cout) - 1:
                break
            c = cout[idx]; mo = mout[idx] if idx < len(mout) else "<none>"
            rep.count(ln)
            if idx % 5003 == 0:
                rep.sample({"case": ln, "impl": c, "model": mo})
            tag, e, kind, i, cls = m
            s, ref, w, desc = e
            dist[tag + "_" + kind] += 1
            fail = None
            if tag in ("D", "F"):
                fail = oracle_D(s, ref, w, desc, kind, i, c.split()[0])
                if fail and tag == "F":
                    fail = "single precision: " + fail
            else:
                f = c.split()
                val = ln.split()[-1]
                stored, rt = f[3], int(f[2])
                if f[4] != "5":
                    dist["X_not_flt64_storage"] += 1
                elif kind == "outside":
                    if stored != DBL_MAX_BITS:
                        fail = "bufr_descriptor_set_dvalue stored the out-of-range value %s as %s, not as missing" % (val, stored)
                else:
                    if stored != val or rt < 0:
                        fail = "bufr_descriptor_set_dvalue rejected the %s physical value %s of raw %d (range [%s,%s]): stored %s" % (
                            kind, val, i, f[0], f[1], "missing" if stored == DBL_MAX_BITS else stored)
            if fail:
                settle(fail, cls if cls != F_SPRINTF else None, ln, {"impl": c, "model": mo, "powtab": powtab})
            if c.split()[:4] != mo.split()[:4] and not (tag == "X" and c.split()[4] != "5") and (not fail or cls):
                corr_broken(ln, c, mo, "ScalImpl.v vs bufr_tables.c/bufr_desc.c")

    # ---------------- phase 3: sweeps inside the C harness (round trip + strict monotonicity of every swept raw value)
    sl, sm = sweep_lines(tier, encs_ship, encs_syn)
    sexe = exe if tier == "quick" else vlib.build_harness("c08", mode="plain")
    rc, sout, serr = vlib.run_cases(sexe, "\n".join(sl) + "\n", timeout=3000)
    if not died(sout, serr, sl, len(sl)):
        for ln, m, o in zip(sl, sm, sout):
            rep.count(ln)
            e, lo, hi, st, group = m
            s, ref, w, desc = e
            f = o.split()
            dist["sweep_evaluations_" + group] += int(f[0])
            if int(f[1]):
                violation("C08: round trip fails inside the sweep: first failing raw value %s (%s of %s)  [case: R %s %s]" % (f[2], f[1], f[0], enc_str(e), f[2]),
                          "R %s %s" % (enc_str(e), f[2]), {"sweep": ln, "powtab": powtab})
            elif int(f[3]):
                violation("C08: physical values do not increase strictly: first at raw value %s  [case: R %s %s]" % (f[4], enc_str(e), f[4]),
                          "R %s %d" % (enc_str(e), int(f[4]) - st), {"sweep": ln, "second": "R %s %s" % (enc_str(e), f[4]), "powtab": powtab})
            if f32_domain(s, ref, w):
                dist["sweep_evaluations_float_required"] += int(f[0])
                cls = None if f32_guaranteed(s, ref, w) else F_F32
                if int(f[6]):
                    settle("single precision round trip fails inside the sweep: first failing raw value %s (%s of %s)" % (f[7], f[6], f[0]), cls,
                           "R %s %s" % (enc_str(e), f[7]), {"sweep": ln, "powtab": powtab})
                elif int(f[8]) and st == 1:
                    settle("single precision: physical values do not increase strictly at raw value %s" % f[9], cls,
                           "R %s %s" % (enc_str(e), f[9]), {"sweep": ln, "powtab": powtab})
            else:
                dist["sweep_float_outside_representable_domain_" + ("lossless" if int(f[6]) == 0 else "lossy")] += 1
    ncases += len(sl)
    rep.cov["traces_validated_against_impl"] = ncases
    finish(rep, dist, proved)


def replay_oracle(ln, c):
    t = ln.split()
    if t[0] == "R":
        s, ref, w, desc, i = map(int, t[1:6])
        return oracle_R(s, ref, w, desc, i, c.split(), f32_domain(s, ref, w))[0]
    if t[0] in ("D", "F"):
        s, ref, w, desc = map(int, t[1:5])
        allones = (1 << w) - 1
        v = Fraction(d_of_bits(t[5])) if t[0] == "D" else Fraction(f_of_bits(t[5]))
        fin = finite_bits64(t[5]) and t[5] != DBL_MAX_BITS if t[0] == "D" else finite_bits32(t[5]) and t[5] != FLT_MAX_BITS
        want = spec_quant(s, ref, w, v) if fin else allones
        if int(c.split()[0], 16) != want:
            return "the value %s quantises to %d (all ones = missing = %d); the library stored %d" % (t[5], want, allones, int(c.split()[0], 16))
    if t[0] == "X":
        s, ref, w, desc = map(int, t[1:5])
        allones = (1 << w) - 1
        v = Fraction(d_of_bits(t[5]))
        f = c.split()
        if f[4] == "5" and finite_bits64(t[5]) and t[5] != DBL_MAX_BITS:
            want_missing = spec_quant(s, ref, w, v) == allones
            if want_missing != (f[3] == DBL_MAX_BITS):
                return "bufr_descriptor_set_dvalue stored %s for the value %s (range [%s,%s])" % (f[3], t[5], f[0], f[1])
    return None


def finish(rep, dist, proved):
    if not proved and not rep.violations:
        rep.violation("C08: proof obligations no longer check (see log) and no failing input was found by the correspondence run",
                      getattr(rep, "proof_broken", {}), no_input=True)
    rep.cov["rule"] = ("every distinct (scale, reference, width, class-31?) of the numeric/code/flag entries of the 5 shipped Table B versions "
                       "x raw values {ends, sign change of i+ref, multiples of 10^s, i+ref around 2^w-1, 2^23/2^24 limits, powers of two, random pairs} "
                       "run through library AND extracted model (bit patterns compared) AND the exact-rational oracle; the same for synthetic encodings "
                       "scale -10..12, reference +-2^30, width 1..32 (operator-adjusted); doubles handed to the encoder: exactly rounded physical values, "
                       "+-1/4 unit perturbed, >= 0.6 unit outside, the all-ones value, +-1e30, 1e300, DBL_MAX/inf/NaN; the same through "
                       "bufr_descriptor_get_range/set_dvalue; sweeps inside the C harness (round trip + strict monotonicity, double and float) over "
                       "{0..2^12, top-2^12..top, 4096 strided} per shipped encoding in quick, exhaustive up to 2^20 (+2^20 at the top + strided) in thorough; "
                       "pow(10,k) for k in [-128,127] against the contract assumed by the proofs. distinct = distinct case lines")
    rep.cov["distribution"] = dict(dist)
    rep.cov["exhaustive"] = False
    rep.assumptions = ["x86-64 SSE2 double/float arithmetic, no FMA contraction, round-to-nearest mode (build flags in harness/build.sh)",
                       "libm pow(10,k): exact for 0<=k<=22, within 1 ulp otherwise (checked on every run for k in [-128,127])",
                       "single precision path: required only where a binary32 can carry the value (see f32_domain in lib/c08.py)"]
