# c18.py — property C18: templates survive save, load and copy.
# proof: Properties_C18.v (Tmpl.v = executable model of bufr_save_template / bufr_load_template / bufr_copy_template /
# bufr_compare_template and of the libc calls they make; TmplProof.v).
# tie: harness/c18.c builds a template through the public API, saves it, loads the file, copies the template and reports all
# three; the extracted model does the same on the same case: saved text, loaded template (typed values, doubles bit for bit),
# copy, compare results and expanded descriptor list must agree.
# oracle (this file, written from the property statement, on the library's output alone): the loaded template and the copy
# exist, compare equal to the original, have its edition, its descriptor list, its default values (as raw values under the
# element's Table B encoding), its expansion, and a one-subset dataset made from each encodes to the same bytes; a text that
# names an unknown descriptor, has an ill-formed replication or a line that is no descriptor is refused.
import collections, glob, os, random, struct
from fractions import Fraction
import vlib, codec, gen, bufrmsg, tables, codecrun

DBL_MAX_BITS = 0x7fefffffffffffff


# ------------------------------------------------------------------ value tokens
def dtok(x):
    return "d%016x" % struct.unpack(">Q", struct.pack(">d", x))[0]


def stok(b):
    return "s" + bytes(b).hex()


def nbits_inc(x):
    k = 1
    while not x < (1 << k) - 1:
        k += 1
    return k


def natural_type(e):
    """the value type bufr_encoding_to_valtype gives an element (written from its documentation in bufr_desc.c)"""
    if e is None:
        return None
    if e["kind"] == "str":
        return "s"
    if e["kind"] == "num":
        if e["scale"] == 0 and e["ref"] >= 0:
            rb = nbits_inc(e["ref"]) if e["ref"] else 0
            if e["width"] + rb <= 32:
                return "i"
            if e["width"] + rb <= 64:
                return "l"
        return "d"
    return "i" if e["width"] <= 32 else "l"


def tok_double(v):
    return struct.unpack(">d", struct.pack(">Q", int(v[1:], 16)))[0]


def tok_missing(v):
    if v is None or v == "N":
        return True
    if v[0] in "ilb":
        return int(v[1:]) == -1
    if v[0] == "d":
        x = tok_double(v)
        return x != x or x in (float("inf"), float("-inf")) or int(v[1:], 16) == DBL_MAX_BITS
    if v[0] == "f":
        x = struct.unpack(">f", struct.pack(">I", int(v[1:], 16)))[0]
        return x != x or x in (float("inf"), float("-inf")) or int(v[1:], 16) == 0x7f7fffff
    return False


def tok_exact(v):
    """the exact rational a numeric token holds"""
    if v[0] in "ilb":
        return Fraction(int(v[1:]))
    if v[0] == "d":
        return Fraction(tok_double(v))
    if v[0] == "f":
        return Fraction(struct.unpack(">f", struct.pack(">I", int(v[1:], 16)))[0])
    return None


def raw_under(e, v):
    """the raw value a default stands for under the element's Table B encoding (what the property compares)"""
    if e is None:
        return ("as-is", v)
    if e["kind"] == "str":
        if v is None or v == "N":
            return ("missing",)
        if v[0] != "s":
            return ("not-a-string", v)
        n = e["width"] // 8
        bs = bytes.fromhex(v[1:]) if v != "sNULL" else b""
        bs = bs[:n]
        if all(c == 255 for c in bs):
            return ("missing",)
        return ("str", bs.ljust(n, b" "))
    if v is not None and v[0] == "s":
        return ("not-a-number", v)
    if tok_missing(v):
        return ("missing",)
    x = tok_exact(v)
    sc = x * Fraction(10) ** e["scale"]
    q = (2 * sc.numerator + sc.denominator) // (2 * sc.denominator)        # round half up, exact
    raw = q - e["ref"]
    if raw < 0:
        return ("raw", 0)                     # below the range: the encoder clamps (C08's matter), the same for both sides
    if raw >= (1 << e["width"]) - 1:
        return ("missing",)
    return ("raw", raw)


def exactly_same(e, a, b):
    """is the loaded value b the original value a (after the natural conversion to the element's type)?"""
    if tok_missing(a) and tok_missing(b) and not (a and a[0] == "s") and not (b and b[0] == "s"):
        return True
    if a is None or b is None or a == "N" or b == "N":
        return a == b
    if a[0] == "s" or b[0] == "s":
        if a[0] != b[0]:
            return False
        n = e["width"] // 8 if (e and e["kind"] == "str") else None
        x, y = bytes.fromhex(a[1:]), bytes.fromhex(b[1:])
        if n is not None:
            x, y = x[:n].ljust(n, b" "), y[:n].ljust(n, b" ")
        return x == y
    return tok_exact(a) == tok_exact(b)


# ------------------------------------------------------------------ parsing the harness / model output
def parse_tmpl(part):
    """'O 4 1001:i5 1002' -> dict(ed, items=[(desc, [tokens])]) or None"""
    f = part.split()
    if len(f) < 2 or f[1] == "NULL":
        return None
    items = []
    for t in f[2:]:
        if ":" in t:
            d, vs = t.split(":", 1)
            items.append((int(d), vs.split(",")))
        else:
            items.append((int(t), []))
    return dict(ed=int(f[1]), items=items)


def parse_gab(part):
    f = part.split()
    if len(f) >= 2 and f[1] == "NULL":
        return None
    out = []
    for t in f[1:]:
        if ":" in t:
            d, v = t.split(":", 1)
            out.append((int(d), v))
        else:
            out.append((int(t), None))
    return out


def parse_c(line):
    parts = line.split(" | ")
    head = {}
    toks = parts[0].split()
    head["cmd"] = toks[0] if toks else ""
    for t in toks[1:]:
        if "=" in t:
            k, v = t.split("=", 1)
            head[k] = v
    r = dict(head=head)
    for p in parts[1:]:
        tag = p.split(" ", 1)[0]
        if tag in ("O", "L", "C"):
            r[tag] = parse_tmpl(p)
        elif tag in ("GO", "GL", "GC"):
            r[tag] = parse_gab(p)
        elif tag in ("MO", "ML", "MC"):
            f = p.split()
            r[tag] = f[1] if len(f) > 1 else "-"
    return r


def canon_c(line):
    """the part of the harness output the model also produces"""
    parts = line.split(" | ")
    if parts[0].startswith("X"):
        return " | ".join(parts[:2]).strip()
    h = dict(kv.split("=", 1) for kv in parts[0].split()[1:] if "=" in kv)
    if h.get("create") != "1":
        return "T create=0"
    go = " ".join(x.split(":")[0] for x in parts[4].split()[1:])
    return ("T text=%s load=%s copy=%s cmpL=%s cmpC=%s | %s | %s | GO %s" % (
        h.get("text"), h.get("load"), h.get("copy"), h.get("cmpL"), h.get("cmpC"), parts[2], parts[3], go)).strip()


# ------------------------------------------------------------------ case generation
def item_tok(d, vals):
    return "%d:%s" % (d, ",".join(vals)) if vals else "%d" % d


def case_line(ed, items):
    return "T %d %d %s" % (ed, len(items), " ".join(item_tok(d, v) for d, v in items))


def num_value(rng, e, typ, shape=None):
    """a default for a numeric / code / flag element, as the decode of a raw value would give it"""
    w = e["width"]
    ones = (1 << w) - 1
    shape = shape or rng.choice(["zero", "one", "max", "mid", "rand", "rand", "rand", "missing", "free"])
    if shape == "missing":
        return "i-1" if typ == "i" else "l-1" if typ == "l" else "d%016x" % DBL_MAX_BITS
    raw = {"zero": 0, "one": min(1, max(ones - 1, 0)), "max": max(ones - 1, 0), "mid": ones >> 1}.get(shape)
    if raw is None:
        raw = rng.randrange(0, max(ones, 1))
    ph = Fraction(raw + e["ref"]) / Fraction(10) ** e["scale"]
    if typ == "i":
        v = int(ph)
        if not -2 ** 31 <= v < 2 ** 31:
            v = rng.randrange(0, 1000)
        return "i%d" % v
    if typ == "l":
        return "l%d" % int(ph)
    if shape == "free":
        # any double inside the element's range, not on its grid (more digits than the scale carries)
        lo = Fraction(e["ref"]) / Fraction(10) ** e["scale"]
        hi = Fraction(max(ones - 1, 0) + e["ref"]) / Fraction(10) ** e["scale"]
        x = float(lo) + rng.random() * (float(hi) - float(lo))
        if x == 0.0:
            x = 0.0
        return dtok(x)
    x = float(ph)
    return dtok(x if x != 0 else 0.0)


STR_SHAPES = ("full", "short", "blanks", "embedded", "quote", "missing", "delims", "shorter", "longer", "newline")


def str_value(rng, n, shape=None):
    shape = shape or rng.choice(STR_SHAPES[:8])
    n = max(n, 1)
    if shape == "full": s = [rng.randrange(33, 127) for _ in range(n)]
    elif shape == "short": k = rng.randint(1, n); s = [rng.randrange(65, 91) for _ in range(k)] + [32] * (n - k)
    elif shape == "blanks": s = [32] * n
    elif shape == "embedded": s = [rng.choice([32, 65, 66, 97]) for _ in range(n)]
    elif shape == "quote": s = [rng.choice([34, 39, 65, 92, 32]) for _ in range(n)]
    elif shape == "missing": s = [255] * n
    elif shape == "delims": s = [rng.choice([44, 61, 9, 65, 66, 32]) for _ in range(n)]
    elif shape == "shorter": s = [rng.randrange(65, 91) for _ in range(rng.randint(1, n))]
    elif shape == "longer": s = [rng.randrange(65, 91) for _ in range(n + rng.randint(1, 6))]
    else: s = [rng.choice([10, 65, 66]) for _ in range(n)]; s[0] = 65
    s = [c if c not in (0,) else 65 for c in s]
    if shape in ("full", "delims") and s[0] in (44, 61, 9, 32):
        s[0] = 65
    return stok(s)


def default_for(rng, T, d, cross=False, shape=None):
    """one default value token for element d (natural type unless cross), or None when d cannot carry one"""
    e = T.B.get(d)
    if e is None:
        if gen.F(d) == 2 and gen.X(d) == 5 and gen.Y(d) > 0:
            return str_value(rng, gen.Y(d), shape if shape in STR_SHAPES else None)
        return None
    if e["width"] <= 0 or e["width"] > 64:
        return None
    nt = natural_type(e)
    if nt == "s":
        if e["width"] % 8:
            return None
        return str_value(rng, e["width"] // 8, shape if shape in STR_SHAPES else None)
    if d in gen.FACTORS:
        return "i%d" % rng.choice([0, 1, 2, 3] if d in (31001, 31002) else [0, 1] if d == 31000 else [1, 2])
    if e["kind"] == "num" and e["width"] > 32 and nt == "d":
        return None
    if cross:
        other = rng.choice([t for t in "ild" if t != nt])
        if other == "d":
            w = e["width"]
            raw = rng.randrange(0, max((1 << w) - 1, 1))
            return dtok(float(raw + e["ref"]))        # integral: what a fraction means on an integer-typed element is the encoder's matter (C08)
        return num_value(rng, dict(e, scale=0) if nt == "d" else e, other, "rand")
    return num_value(rng, e, nt, shape if shape not in STR_SHAPES else None)


def add_defaults(rng, T, tmpl, p_item=0.5, p_multi=0.0, p_cross=0.0, shape=None):
    items = []
    prev = 0
    for d in tmpl:
        vals = []
        local_after_206 = gen.F(prev) == 2 and gen.X(prev) == 6
        if gen.F(d) in (0, 2) and not local_after_206 and rng.random() < p_item:
            n = 1
            if rng.random() < p_multi:
                n = rng.choice([2, 2, 3, 4])
            cross = rng.random() < p_cross
            for _ in range(n):
                v = default_for(rng, T, d, cross=cross, shape=shape)
                if v is not None:
                    vals.append(v)
        items.append((d, vals))
        prev = d
    return items


def sample_templates():
    out = []
    for p in sorted(glob.glob(os.path.join(vlib.REPO, "Test", "BUFR", "*.bufr"))):
        try:
            data = open(p, "rb").read()
            m = bufrmsg.parse(data)
            out.append((os.path.basename(p), m["ed"], m["descs"]))
        except Exception:
            continue
    return out


def render_text(rng, ed, descs, style=None):
    """a template text as a user would write it (the documented format: comments, BUFR_EDITION, one descriptor per line)"""
    style = style or rng.choice(["plain", "plain", "comments", "spaces", "crlf", "noed", "six"])
    lines = []
    if style != "noed":
        lines.append("BUFR_EDITION=%d" % ed)
    if style == "comments":
        lines.insert(0, "# a template")
        lines.append("* another comment")
    for d in descs:
        s = "%06d" % d if style == "six" else "%d" % d
        if style == "spaces":
            s = rng.choice(["", " ", "\t"]) + s + rng.choice(["", " ", "  # x", "\t"])
        lines.append(s)
        if style == "comments" and rng.random() < 0.2:
            lines.append(rng.choice(["", "#", "   "]))
    nl = "\r\n" if style == "crlf" else "\n"
    return (nl.join(lines) + nl).encode("latin-1"), (4 if style == "noed" else ed)


def ill_formed(rng, T, base):
    """ill-formed variants of a well-formed descriptor list (the property's 'unknown descriptor', 'ill-formed replication')"""
    out = []
    t = list(base)
    reps = [i for i, d in enumerate(t) if gen.F(d) == 1]
    if reps:
        i = rng.choice(reps)
        d = t[i]
        out.append(("truncated_replication", t[:i + 1 + (1 if gen.Y(d) == 0 else 0)]))
        out.append(("span_longer", t[:i] + [d + 1000 * (len(t) - i)] + t[i + 1:]))
        if gen.Y(d) == 0:
            v = list(t); del v[i + 1]
            out.append(("replication_without_factor", v))
    else:
        out.append(("truncated_replication", t + [100000 + 1000 * rng.randint(1, 3) + rng.randint(1, 4)]))
        out.append(("replication_without_factor", t[:1] + [101000] + t[:1]))
    v = list(t); v.insert(rng.randint(0, len(t)), rng.choice([12999 % 100000, 1255 if 1255 not in T.B else 2999, 30999, 99999 % 100000]))
    out.append(("unknown_element", v))
    v = list(t); v.insert(rng.randint(0, len(t)), rng.choice([399255, 363255, 300255]))
    out.append(("unknown_sequence", v))
    # a number that is no descriptor: YYY does not fit 8 bits / XX does not fit 6 bits (F XX YYY is a 2+6+8 bit quantity)
    e = t[0] if gen.F(t[0]) == 0 else 1001
    v = list(t) + [rng.choice([101256, 101300, 102256, 201256, 206256, 164001]), e, e]
    out.append(("not_a_descriptor", v))
    return out


def python_rejects(T, ed, descs):
    """independent well-formedness test (the generator's own walker, every delayed count 1): does the regulation refuse it?"""
    def choose(f):
        if f["desc"] in gen.FACTORS:
            return dict(raw=1, af=0)
        if f["kind"] in ("str", "chars"):
            return dict(str=[32] * (f["width"] // 8), af=0)
        return dict(raw=0, af=0)
    if any(d < 0 or gen.F(d) > 3 or gen.X(d) > 63 or gen.Y(d) > 255 for d in descs):
        return True                      # not a descriptor at all
    try:
        gen.walk(T, ed, descs, choose, limit=20000)
        return False
    except gen.Reject:
        return True


GARBAGE = [b"hello world", b"@@@@", b"VALUE=5", b"descriptor 1001", b"x1001", b";;;", b"--", b"?"]


def gen_cases(ctx, rng, tier):
    """-> list of dict(line, kind, feat, ...)"""
    T = ctx.T
    cases = []
    dseqs = [d for d in codecrun.DSEQS if d in T.D]

    def add(line, kind, **kw):
        cases.append(dict(line=line, kind=kind, **kw))

    n = 1500 if tier == "quick" else 60000
    # (1) templates of the C01/C10 grammar, without and with defaults
    for i in range(n):
        ed = rng.choice([2, 3, 4, 4, 5])
        tg = gen.TGen(rng, T, ed, ops=rng.random() < 0.6, max_depth=rng.choice([1, 2, 3]), dseqs=dseqs)
        tmpl = tg.template()
        if python_rejects(T, ed, tmpl):
            continue
        mode = rng.choice(["none", "single", "single", "single", "multi", "cross"])
        if mode == "none":
            items = [(d, []) for d in tmpl]
        elif mode == "single":
            items = add_defaults(rng, T, tmpl, p_item=rng.choice([0.3, 0.7, 1.0]))
        elif mode == "multi":
            items = add_defaults(rng, T, tmpl, p_item=0.6, p_multi=0.5)
        else:
            items = add_defaults(rng, T, tmpl, p_item=0.6, p_cross=0.6)
        add(case_line(ed, items), "T", ed=ed, items=items, src="grammar:" + mode)
    # (2) grid: every value type x number of values x shapes, on a fixed set of elements, editions 2-5
    grid_elems = {"i": [1001, 2001, 20010, 8002], "l": [40035], "d": [12001, 5001, 6001, 7004, 10004, 11002, 13011], "s": [1015, 1008, 1011]}
    for typ, ds in grid_elems.items():
        ds = [d for d in ds if d in T.B]
        for d in ds:
            shapes = STR_SHAPES if typ == "s" else ["zero", "one", "max", "mid", "rand", "missing", "free"]
            for shape in shapes:
                if typ != "d" and shape == "free":
                    continue
                for nv in (1, 2, 3, 4):
                    ed = rng.choice([2, 3, 4, 5])
                    vals = [v for v in (default_for(rng, T, d, shape=shape) for _ in range(nv)) if v]
                    if vals:
                        add(case_line(ed, [(d, vals), (1002 if 1002 in T.B else d, [])]), "T", ed=ed, items=[(d, vals), (1002, [])], src="grid")
    for ed in (2, 3, 4, 5):
        for t in ([1001], [307086] if 307086 in T.D else [1002], [101000, 31001, 1001], [103002, 1001, 1002, 12001]):
            add(case_line(ed, [(d, []) for d in t]), "T", ed=ed, items=[(d, []) for d in t], src="editions")
    # FLT defaults with many digits on high-precision elements, and 2 05 YYY text of every length class
    for d in [5001, 6001, 5011, 6011, 11021, 13155, 14044]:
        if d in T.B:
            for _ in range(6 if tier == "quick" else 300):
                v = default_for(rng, T, d, shape="free")
                add(case_line(4, [(d, [v])]), "T", ed=4, items=[(d, [v])], src="flt_precision")
    for y in (1, 3, 8, 40, 120, 200):
        v = str_value(rng, y, "full")
        add(case_line(4, [(205000 + y, [v]), (1001, [])]), "T", ed=4, items=[(205000 + y, [v]), (1001, [])], src="op205")
    # the witnesses of the ..._refuted theorems and of the example of the partial theorem (TmplProof.v), replayed on the library
    for items, ed in (([(1001, ["i71", "i72"]), (1002, [])], 4), ([(1001, ["i71", "i2001"]), (1002, [])], 4),
                      ([(1015, [stok(b"ABC" + b" " * 17)])], 4), ([(1001, ["i-1"])], 4), ([(6001, [dtok(179.99999)])], 4),
                      ([(12101, [dtok(273.15)])], 4), ([(1001, ["i71"]), (101000, []), (31001, ["i2"]), (12101, [dtok(273.25)]), (301001, [])], 3)):
        if all(d in T.B or d in T.D or gen.F(d) == 1 for d, _ in items):
            add(case_line(ed, items), "T", ed=ed, items=items, src="witness")
    # (3) templates of the sample messages
    for name, ed, descs in sample_templates():
        add(case_line(ed, [(d, []) for d in descs]), "T", ed=ed, items=[(d, []) for d in descs], src="sample")
        if tier != "quick" or rng.random() < 0.5:
            items = add_defaults(rng, T, descs, p_item=0.3)
            add(case_line(ed, items), "T", ed=ed, items=items, src="sample+defaults")
    # (4) texts: well-formed ones as a user writes them, and malformed ones
    nx = 250 if tier == "quick" else 8000
    for i in range(nx):
        ed = rng.choice([2, 3, 4, 5])
        tg = gen.TGen(rng, T, ed, ops=False, max_depth=rng.choice([1, 2, 3]), dseqs=dseqs)
        tmpl = tg.template()
        if python_rejects(T, ed, tmpl):
            continue
        txt, eed = render_text(rng, ed, tmpl)
        add("X " + txt.hex(), "Xgood", ed=eed, descs=tmpl, text=txt)
        for lab, bad in ill_formed(rng, T, tmpl):
            if not python_rejects(T, ed, bad):
                continue
            txt, _ = render_text(rng, ed, bad)
            add("X " + txt.hex(), "Xbad", label=lab, descs=bad, text=txt)
        if i % 4 == 0:
            g = rng.choice(GARBAGE)
            lines = txt_lines = render_text(rng, ed, tmpl, "plain")[0].split(b"\n")
            k = rng.randint(1, max(1, len(lines) - 1))
            txt = b"\n".join(lines[:k] + [g] + lines[k:])
            add("X " + txt.hex(), "Xbad", label="garbage_line", descs=tmpl, text=txt)
    return cases


# ------------------------------------------------------------------ the property oracle (library output only)
def value_class(T, d, vals):
    """which recorded weakness of the text format, if any, a descriptor's defaults fall under"""
    if not vals:
        return None
    if len(vals) >= 2:
        return "multi_values"
    v = vals[0]
    e = T.B.get(d)
    nt = natural_type(e) if e is not None else ("s" if gen.F(d) == 2 and gen.X(d) == 5 else None)
    if v[0] == "s":
        return "string_default" if nt == "s" else "cross_type"
    if nt is None or nt == "s":
        return "cross_type"
    if v[0] in "il" and int(v[1:]) == -1 and nt in "il":
        return "int_missing"
    if v[0] != nt and not (v[0] in "il" and nt in "il"):
        return "cross_type"
    if v[0] == "d":
        return "float_text"
    return "int_exact"


def oracle_T(T, case, r):
    """-> list of (failure text, classes): every way in which the library's output contradicts the property, each with the
    classes of recorded weaknesses of the text format that explain THIS failure (empty set: nothing explains it)"""
    O, L, C = r.get("O"), r.get("L"), r.get("C")
    h = r["head"]
    items = case["items"]
    fails = []

    def bad(msg, classes=()):
        fails.append((msg, set(classes)))

    if O is None:
        return [("the harness could not list the original template", set())]
    if O["ed"] != case["ed"] or O["items"] != [(d, list(v)) for d, v in items]:
        bad("the template bufr_create_template built holds edition %d, %s; it was given edition %d, %s" % (
            O["ed"], " ".join(item_tok(d, v) for d, v in O["items"])[:200], case["ed"], " ".join(item_tok(d, v) for d, v in items)[:200]))
    # ---- copy: nothing in the text format can excuse a wrong copy
    if C is None:
        bad("bufr_copy_template returned NULL")
    else:
        if h.get("cmpC") != "0":
            bad("the copy does not compare equal to the original (bufr_compare_template = %s)" % h.get("cmpC"))
        if C["ed"] != O["ed"]:
            bad("the copy has edition %d, the original %d" % (C["ed"], O["ed"]))
        if [d for d, _ in C["items"]] != [d for d, _ in O["items"]]:
            bad("the copy has descriptors %s, the original %s" % ([d for d, _ in C["items"]][:12], [d for d, _ in O["items"]][:12]))
        elif C["items"] != O["items"]:
            k = next(i for i, (a, b) in enumerate(zip(C["items"], O["items"])) if a != b)
            bad("the copy's default values of %06d are %s, the original's %s" % (O["items"][k][0], C["items"][k][1], O["items"][k][1]))
        if r.get("GC") != r.get("GO"):
            bad("the copy expands differently from the original")
        if r.get("MC") != r.get("MO"):
            bad("a dataset made from the copy encodes to different bytes than one made from the original")
    # ---- save + load
    if h.get("save") != "0":
        bad("bufr_save_template failed (%s)" % h.get("save"))
    structure_ok = L is not None and [d for d, _ in L["items"]] == [d for d, _ in O["items"]]
    if not structure_ok:
        # only defaults that put line breaks or extra lines into the text can change the list of descriptors read back
        sc = set()
        for d, vals in items:
            c = value_class(T, d, vals)
            if c == "multi_values":
                sc.add(c)
            elif c in ("string_default", "cross_type") and any(10 in bytes.fromhex(v[1:]) for v in vals if v[0] == "s"):
                sc.add(c)
        if L is None:
            bad("the saved template is refused by bufr_load_template", sc)
        else:
            bad("the reloaded template has descriptors %s, the original %s" % ([d for d, _ in L["items"]][:12], [d for d, _ in O["items"]][:12]), sc)
        return fails
    if h.get("cmpL") != "0":
        bad("the reloaded template does not compare equal to the original (bufr_compare_template = %s)" % h.get("cmpL"))
    if L["ed"] != O["ed"]:
        bad("the reloaded template has edition %d, the original %d" % (L["ed"], O["ed"]))
    changed = set()          # classes of the defaults that did not come back as they were (value or C type)
    for (d, ov), (_, lv) in zip(O["items"], L["items"]):
        e = T.B.get(d)
        if e is None and gen.F(d) == 2 and gen.X(d) == 5:
            e = dict(kind="str", width=8 * gen.Y(d), scale=0, ref=0)
        cls = value_class(T, d, ov) or "no_default"
        same_exact = len(ov) == len(lv) and all(exactly_same(e, a, b) for a, b in zip(ov, lv))
        if not same_exact:
            changed.add(cls)
        elif cls in ("cross_type", "int_missing") and any(a not in (None, "N") and a[0] in "il" and tok_missing(a) for a in ov):
            # an integer -1 held on an element of another C type: the encoder takes it for the number -1, the text form writes
            # MSNG - the recorded weakness of that class, although "missing" compares equal to "missing"
            changed.add(cls)
        elif any(a[0] != b[0] for a, b in zip(ov, lv) if a != "N" and b != "N"):
            changed.add("retyped")        # the same number, but now held in the element's own C type
        # the property: same defaults as raw values under the element's encoding
        all_missing = e is not None and e["kind"] != "str" and all(tok_missing(v) and v[0] != "s" for v in ov) and all(tok_missing(v) for v in lv)
        if len(ov) != len(lv) and not all_missing:
            bad("%06d has %d default value(s) %s, the reloaded template %d %s" % (d, len(ov), ov[:4], len(lv), lv[:4]), [cls])
        elif len(ov) == len(lv):
            for a, b in zip(ov, lv):
                ra, rb = raw_under(e, a), raw_under(e, b)
                if ra != rb:
                    bad("the default value of %06d is %s (raw %s), after save and load it is %s (raw %s)" % (d, a, ra[1:] or "missing", b, rb[1:] or "missing"), [cls])
                    break
    GO, GL = r.get("GO"), r.get("GL")
    if GL is None or [d for d, _ in GL] != [d for d, _ in GO]:
        bad("the reloaded template expands differently from the original")
    if r.get("ML") != r.get("MO"):
        bad("a dataset made from the reloaded template encodes to different bytes than one made from the original (%s... vs %s...)" % (
            str(r.get("ML"))[-40:], str(r.get("MO"))[-40:]), changed)
    return fails


def run(rep, tier, seed, replay=None):
    proved = vlib.proof_step(rep, "Properties_C18")
    ctx = codec.Ctx.__new__(codec.Ctx)          # tables and generator pools only; C18 has its own harness and driver
    ctx.b, ctx.d = tables.master_tables(vlib.REPO)
    ctx.tlines = tables.model_table_lines(ctx.b, ctx.d)
    ctx.T = gen.Tables(ctx.b, ctx.d)
    T = ctx.T
    exe = vlib.build_harness("c18", wrap=["exit"])
    drv = vlib.extract_and_build_driver("c18")
    env = {"VERIF_C18_DIR": vlib.scratch()}
    rng = random.Random(seed)
    if replay and replay.get("case_obj"):
        cases = [replay["case_obj"]]
        for c in cases:
            if "items" in c:
                c["items"] = [(d, list(v)) for d, v in c["items"]]
            if "text" in c and isinstance(c["text"], str):
                c["text"] = bytes.fromhex(c["line"][2:])
    elif replay and replay.get("case"):
        ln = replay["case"]
        if ln.startswith("T "):
            f = ln.split()
            items = [((int(t.split(":")[0])), (t.split(":", 1)[1].split(",") if ":" in t else [])) for t in f[3:]]
            cases = [dict(line=ln, kind="T", ed=int(f[1]), items=items, src="replay")]
        else:
            cases = [dict(line=ln, kind=replay.get("kind", "Xbad"), label=replay.get("label", "replay"), descs=replay.get("descs", []), ed=replay.get("ed", 4))]
    else:
        cases = gen_cases(ctx, rng, tier)
        # the 256-byte buffer of bufr_save_template
        for n in (253, 254, 255):
            v = stok([65 + (i % 26) for i in range(n)])
            cases.append(dict(line=case_line(4, [(205255, [v]), (1001, [])]), kind="T", ed=4, items=[(205255, [v]), (1001, [])], src="op205_long"))
    kf = {f.get("match"): f for f in vlib.known_findings("C18")}
    lines = [c["line"] for c in cases]
    # which text format does this tree write?  (Tmpl.v models the code as it stands, Tmpl2.v the corrected format of
    # proposed_fixes/C18_template_text.md; the property oracle below does not depend on this choice)
    rc, pout, perr = vlib.run_cases(exe, "T 4 2 1001:i1,i2 1002\n", timeout=120, env=env)
    ph = parse_c(pout[0])["head"] if pout and pout[0].startswith("T ") else {}
    ptxt = bytes.fromhex(ph.get("text", "")) if ph.get("text", "-") != "-" else b""
    fmt = "legacy" if b"VALUES=" in ptxt else "fixed"
    # ---- library: restart behind a case that kills the harness, so that every case is tried
    couts = []
    crashed = {}
    pos = 0
    allerr = ""
    while pos < len(lines):
        rc, out, err = vlib.run_cases(exe, "\n".join(lines[pos:]) + "\n", timeout=3000, env=env)
        allerr += err
        out = out[:-1] if out and out[-1] == "" else out
        out = out[:len(lines) - pos]
        couts += out
        if len(out) < len(lines) - pos:
            k = pos + len(out)
            crashed[k] = " | ".join(l for l in err.split("\n") if "ERROR: AddressSanitizer" in l or "SUMMARY" in l or "runtime error" in l)[:400] or ("exit status %s" % rc)
            couts.append("<died>")
            pos = k + 1
        else:
            break
    # ---- model
    rc, mo, merr = vlib.sh("ulimit -s unlimited 2>/dev/null || ulimit -s 1000000; exec %s" % drv,
                           input=("\n".join(ctx.tlines + ["FORMAT " + fmt] + lines) + "\n").encode("latin-1"), timeout=3000)
    if rc != 0:
        raise RuntimeError("model driver failed: " + merr[-2000:])
    mouts = mo.split("\n")
    feat = collections.Counter()
    nviol = 0
    ncorr = 0
    nfind = collections.Counter()
    for i, c in enumerate(cases):
        co = couts[i] if i < len(couts) else "<no output>"
        mline = mouts[i].strip() if i < len(mouts) else "<no output>"
        key = c["line"]
        rep.count(key)
        robj = {"kind": c["kind"], "case": key, "case_obj": {k: (v.hex() if isinstance(v, bytes) else v) for k, v in c.items()}, "library": co[:3000], "model": mline[:3000]}
        if i % 211 == 0:
            rep.sample({"case": key[:300], "library": co[:300], "model": mline[:200]})
        if co == "<died>":
            feat["harness_died"] += 1
            longstr = c["kind"] == "T" and any(v[0] == "s" and len(v) - 1 >= 2 * 254 for _, vals in c["items"] for v in vals)
            if longstr and "save_overflow" in kf:
                rep.finding(kf["save_overflow"]["what"]); nfind["save_overflow"] += 1
            else:
                rep.violation("C18: the library crashed / was stopped by the sanitizer while saving, loading or copying a template: %s  [case: %s]" % (crashed.get(i, ""), key[:300]), robj)
                nviol += 1
            continue
        if c["kind"] == "T":
            feat["src_" + c["src"].split(":")[0]] += 1
            feat["ed%d" % c["ed"]] += 1
            r = parse_c(co)
            if r["head"].get("create") != "1":
                feat["create_refused"] += 1
                if not c["src"].startswith("sample"):       # samples may use local descriptors that are in no shipped table
                    rep.violation("C18: bufr_create_template refuses a well-formed template, nothing can be saved  [case: %s]" % key[:400], robj)
                    nviol += 1
                    if nviol > 12:
                        break
                continue
            for d, vals in c["items"]:
                if vals:
                    feat["defaults_%s_x%d" % (vals[0][0], min(len(vals), 4))] += 1
                    feat["class_" + (value_class(T, d, vals) or "none")] += 1
            if not any(v for _, v in c["items"]):
                feat["no_defaults"] += 1
            if str(r.get("MO", "")).startswith("rc"):
                feat["encode_failed"] += 1
            stop = False
            verdicts = oracle_T(T, c, r)
            feat["oracle_holds" if not verdicts else "oracle_fails"] += 1
            for fail, classes in verdicts:
                if classes and all(k in kf for k in classes):
                    for k in classes:
                        rep.finding(kf[k]["what"]); nfind[k] += 1
                else:
                    rep.violation("C18: %s  [case: %s]" % (fail, key[:400]), robj)
                    nviol += 1
                    stop = True
                    break
            if stop:
                if nviol > 12:
                    break
                continue
        else:
            r = parse_c(co)
            loaded = r["head"].get("load") == "1"
            if c["kind"] == "Xbad":
                feat["text_" + c["label"]] += 1
                if loaded:
                    rep.violation("C18: a template text with %s is accepted by bufr_load_template: %r  [case: %s]" % (
                        c["label"].replace("_", " "), (c.get("text") or b"")[:200], key[:300]), robj)
                    nviol += 1
                    continue
            else:
                feat["text_wellformed"] += 1
                L = r.get("L")
                if not loaded or L is None:
                    rep.violation("C18: a well-formed template text is refused by bufr_load_template: %r  [case: %s]" % ((c.get("text") or b"")[:200], key[:300]), robj)
                    nviol += 1
                    continue
                if L["ed"] != c["ed"] or [d for d, _ in L["items"]] != list(c["descs"]) or any(v for _, v in L["items"]):
                    rep.violation("C18: a template text loads as edition %d, descriptors %s; it says edition %d, descriptors %s  [case: %s]" % (
                        L["ed"], [d for d, _ in L["items"]][:12], c["ed"], list(c["descs"])[:12], key[:300]), robj)
                    nviol += 1
                    continue
        # ---- correspondence with the model
        if canon_c(co) != mline and ncorr < 3:
            ncorr += 1
            cc = canon_c(co)
            j = next((k for k, (a, b) in enumerate(zip(cc, mline)) if a != b), min(len(cc), len(mline)))
            rep.violation("C18: correspondence Tmpl.v <-> bufr_template.c broken (the property oracle accepts the library's behaviour): at column %d library '%s' model '%s'  [case: %s]" % (
                j, cc[max(0, j - 30):j + 50], mline[max(0, j - 30):j + 50], key[:300]),
                dict(robj, text_format=fmt, correspondence="Tmpl(2).save_text/load_text/copy/tcompare/gexpand vs bufr_save_template/bufr_load_template/bufr_copy_template/bufr_compare_template"), no_input=True)
        if nviol > 12:
            break
    ub = sorted({l.strip()[:200] for l in allerr.split("\n") if "runtime error" in l and ("bufr_template.c" in l or "bufr_value.c" in l)})
    if ub:
        rep.violation("C18: undefined behaviour reported by the sanitizer in the template code: %s" % " | ".join(ub[:3]), {"kind": "T", "stderr": ub[:20]}, no_input=True)
    rep.violations.sort(key=lambda v: bool(v[2]))        # failing inputs first, broken correspondences after them
    if not proved and not rep.violations:
        rep.violation("C18: proof obligations no longer check and the correspondence run found no failing input", getattr(rep, "proof_broken", {}), no_input=True)
    feat.update({"finding_" + k: v for k, v in nfind.items()})
    feat["text_format_" + fmt] = 1
    rep.cov["traces_validated_against_impl"] = len(cases)
    rep.cov["rule"] = ("templates of the C01/C10 grammar (elements, Table D, fixed and delayed replication, operators; depth <= 3; editions 2-5) without defaults, with one default per "
                       "descriptor of the element's own value type (INT32, INT64, FLT64 on and off the element's grid, STRING in 8 shapes), with 2-4 defaults, with defaults of a foreign type; "
                       "grid value type x shape x 1..4 values on fixed elements; many-digit FLT64 defaults on the scale >= 5 elements; 2 05 YYY text defaults incl. 253/254/255 bytes; "
                       "Section 3 of every Test/BUFR/*.bufr sample; template texts as a user writes them (comments, blanks, CRLF, 6-digit, no edition line) and malformed ones "
                       "(unknown element / sequence, truncated replication, span past the end, delayed replication without factor, a line that is no descriptor). "
                       "distinct = distinct case lines; every case saves, loads, copies and encodes")
    rep.cov["distribution"] = dict(feat)
    rep.cov["exhaustive"] = False
    rep.assumptions = ["lines shorter than 2047 bytes (fgets buffer); no NUL byte, no table directive (LOCAL_TABLEB= ...) with an existing file in a text; -0.0, NaN, infinities and hexadecimal floats not used as defaults",
                       "what a dataset does with a default once it is in the template (quantisation, encoding) is C08/C03's matter: here the bytes made from original, copy and reloaded template are only compared with each other"]
