# c06.py — property C06: messages are framed consistently and read back identically on every I/O path.
#   proof:  coq/theories/Properties_C06.v (model Frame.v, proofs FrameProof.v)
#   tie:    harness/c06.c (library: 4 writers, 4 readers) vs ocaml/c06_driver.ml (extracted Frame.wr / Frame.rd / escaping)
#   oracle: this file + lib/bufrmsg.py (independent parser/builder of the FM 94 framing), evaluated on the library's output.
import collections, json, os, random
import vlib, bufrmsg

BUFR = b"BUFR"
S1KEYS = ["master", "centre", "subcentre", "upd", "flag", "cat", "isub", "lsub", "mver", "lver", "year", "month", "day",
          "hour", "minute", "second"]


# ------------------------------------------------------------------------------------------------ oracle helpers
def esc_spec(raw, esc_bs):
    """The escaped (printable) form of header bytes: white space, control characters, NUL -> \\ooo; with esc_bs also '\\'."""
    out = bytearray()
    for b in raw:
        if b <= 32 or b == 127 or (esc_bs and b == 0x5c):
            out += b"\\%03o" % b
        else:
            out.append(b)
    return bytes(out)


def unesc_spec(h):
    """Inverse of the escaped form, written from its definition: \\ooo (3 octal digits), \\\\ and \\n; anything else -> None."""
    out = bytearray()
    i = 0
    while i < len(h):
        b = h[i]
        if b != 0x5c:
            out.append(b); i += 1; continue
        if i + 1 < len(h) and h[i + 1] == 0x5c:
            out.append(0x5c); i += 2; continue
        if i + 1 < len(h) and h[i + 1] == ord("n"):
            out.append(10); i += 2; continue
        d = h[i + 1:i + 4]
        if len(d) == 3 and all(48 <= x <= 55 for x in d):
            out.append(int(d, 8) & 255); i += 4; continue
        return None
    return bytes(out)


def parse_lib(body):
    """bufrmsg.parse with the library's documented legacy convention for the Section 1 flag octet: the optional section is
    present when bit 1 (128) OR the lowest bit (1) is set (bufr_message.h, BUFR_FLAG_HAS_SECT2 = 128+1)."""
    off = 15 if body[7] <= 3 else 17
    if len(body) > off and (body[off] & 0x81) == 0x01:
        p = bufrmsg.parse(body[:off] + bytes([body[off] | 0x80]) + body[off + 1:])
        p["s1f"]["flag"] = body[off]
        return p
    return bufrmsg.parse(body)


def no04(b):
    return bytes(x for x in b if x != 4)


def wire_s1(ed, f):
    """Section 1 fields as the edition's octets can carry them (None = the edition has no octet for the field)."""
    w = dict(f)
    w["flag"] = f["flag"] | (128 if f.get("_s2set") else 0)
    if ed <= 3:
        w["isub"] = None
        w["second"] = None
        w["year"] = (f["year"] - 1) % 100 + 1 if f["year"] >= 1 else None
    if ed == 2:
        w["subcentre"] = None
    return w


def in_wire_range(ed, k, v):
    if k == "master":
        return v == 0              # the encoder documents that any other master table is overridden with 0
    if k == "centre":
        return 0 <= v <= (255 if ed == 3 else 65535)
    if k == "subcentre":
        return 0 <= v <= (255 if ed == 3 else 65535)
    if k == "year":
        return 0 <= v <= 65535
    return 0 <= v <= 255


# ------------------------------------------------------------------------------------------------ dumps
def parse_dump(d):
    """'rc=1 used=52 ed=4 lm=52 s1=22:0,54,... x=- s2=0:- s3=11:1,128:1001,1002 s4=7:0102a0 h=- [rw=..|rwh=..]' -> dict"""
    r = {}
    for tok in d.split():
        if "=" not in tok:
            r["_extra"] = tok
            continue
        k, v = tok.split("=", 1)
        r[k] = v
    o = {"rc": int(r.get("rc", "-9")), "used": int(r.get("used", "0"))}
    if o["rc"] <= 0 or "s1" not in r:
        return o
    o["ed"] = int(r["ed"]); o["lm"] = int(r["lm"])
    l, fs = r["s1"].split(":")
    o["s1len"] = int(l); o["s1"] = dict(zip(S1KEYS, map(int, fs.split(","))))
    hx = lambda s: b"" if s == "-" else bytes.fromhex(s)
    o["x"] = hx(r["x"])
    l, d2 = r["s2"].split(":"); o["s2len"] = int(l); o["s2"] = hx(d2)
    l, nf, ds = r["s3"].split(":"); o["s3len"] = int(l)
    o["nsub"], o["s3flag"] = map(int, nf.split(","))
    o["descs"] = [] if ds == "-" else list(map(int, ds.split(",")))
    l, d4 = r["s4"].split(":"); o["s4len"] = int(l); o["s4"] = hx(d4)
    o["h"] = hx(r["h"])
    if "rw" in r:
        o["rw"] = r["rw"]
    if "rwh" in r:
        o["rwh"] = r["rwh"]
    return o


def canon_dump(d, keep_used=True):
    """the part of a dump that model and library must agree on"""
    toks = [t for t in d.split() if not t.startswith("rw=") and not t.startswith("rwh=")]
    if not keep_used:
        toks = [t for t in toks if not t.startswith("used=")]
    return " ".join(toks)


def rewritten_header(pd, consumed):
    """header bytes the library wrote when the message it had just read was written again"""
    if "rw" not in pd:
        return None
    body = pd["lm"]
    if pd["rw"] == "same":
        return consumed[:len(consumed) - body]
    n, hexs = pd["rw"].split(":")
    b = b"" if hexs == "-" else bytes.fromhex(hexs)
    return b[:max(0, len(b) - body)], b


# ------------------------------------------------------------------------------------------------ generation
def rand_desc(rng):
    return rng.randrange(4) * 100000 + rng.randrange(64) * 1000 + rng.randrange(256)


def rand_raw(rng, n, allow_bs, alphabet=None):
    """n header/separator bytes without the start marker"""
    while True:
        if alphabet == "text":
            b = bytes(rng.choice(b"ABCDEFRUIOSN0123456789 \r\n\x01\x03") for _ in range(n))
        elif alphabet == "marker":
            b = bytes(rng.choice(b"BUFR\x04B") for _ in range(n))
        else:
            b = bytes(rng.randrange(256) for _ in range(n))
        if not allow_bs:
            b = b.replace(b"\\", b"/")
        if BUFR not in b:
            return b


OCTETS = [0, 1, 2, 127, 128, 254, 255]


def gen_field(rng, ed, k):
    r = rng.random()
    if k == "master":
        return 0 if r < 0.9 else rng.choice([10, 1, 255])
    if k == "centre":
        hi = 255 if ed == 3 else 65535
        if r < 0.5:
            return rng.choice([0, 1, 54, 255, 256, 65535, 32768, 65534])if ed != 3 else rng.choice([0, 1, 54, 254, 255])
        if r < 0.97:
            return rng.randint(0, hi)
        return rng.randint(0, 65535)              # ed.3: may exceed the octet (wire view = low octet)
    if k == "subcentre":
        hi = 255 if ed == 3 else 32767
        if r < 0.5:
            return rng.choice([0, 1, 255, 256, 32767]) if ed != 3 else rng.choice([0, 1, 254, 255])
        if r < 0.97:
            return rng.randint(0, hi)
        return rng.randint(0, 32767)
    if k == "year":
        if r < 0.4:
            return rng.choice([0, 1, 99, 100, 101, 1999, 2000, 2001, 2024, 2100, 255, 256, 32767])
        return rng.randint(0, 32767)
    if k == "flag":
        return 0 if r < 0.85 else rng.choice([1, 128, 129, 64, 2, 255, 127])
    if r < 0.5:
        return rng.choice(OCTETS)
    return rng.randint(0, 255)


def gen_msg(rng, tier, allow_bs, size_class=None):
    ed = rng.choice([2, 3, 3, 4, 4])
    f = {k: gen_field(rng, ed, k) for k in S1KEYS}
    r = rng.random()
    s2 = None
    if r < 0.5:
        n2 = rng.choice([0, 1, 2, 3, 4, 5, rng.randint(0, 40), rng.randint(0, 40)])
        if rng.random() < 0.03:
            n2 = rng.choice([255, 256, 300, 4097])
        s2 = bytes(rng.randrange(256) for _ in range(n2))
    nsub = rng.choice([0, 1, 2, 255, 256, 65535, rng.randint(0, 65535)])
    s3flag = rng.choice([0, 64, 128, 192, 192, 128, rng.randint(0, 255)])
    nd = rng.choice([0, 1, 2, 3, 4, 5, rng.randint(0, 30)])
    if rng.random() < 0.01:
        nd = rng.choice([1999, 2000, 2001, 2101])
    descs = [rand_desc(rng) for _ in range(nd)]
    n4 = rng.choice([0, 1, 2, 3, 4, 5, 6, 7, rng.randint(0, 60), rng.randint(0, 60)])
    if size_class == "big":
        n4 = rng.choice([4085, 4086, 4095, 4096, 4097, 8150, 8191, 8192, 8193, 65500, 65535, 65536, 70001])
    s4 = bytes(rng.randrange(256) for _ in range(n4))
    if rng.random() < 0.05:
        s4 = (b"BUFR7777" * (n4 // 8 + 1))[:n4]       # marker and end mark inside the data
    rbits = rng.choice([0, 0, 0, 1, 2, 3, 4, 5, 6, 7])
    rval = rng.getrandbits(rbits) if rbits else 0
    hdr_raw, hdr = None, None
    r = rng.random()
    if r < 0.35:
        nh = rng.choice([1, 2, 3, 5, 10, 20, rng.randint(1, 40)])
        if rng.random() < 0.1:
            nh = rng.choice([59, 60, 61, 63, 64, 65, 127, 128, 129, 200])
        hdr_raw = rand_raw(rng, nh, allow_bs, rng.choice([None, "text", "marker", None]))
        hdr = esc_spec(hdr_raw, True)             # canonical escaped form chosen by the user of the API
        if not allow_bs:
            assert b"\\\\" not in hdr
    elif r < 0.42:
        # non-canonical but well-defined user strings: literal blanks, \\ and \n escapes, signs and blanks inside \ooo
        parts = []
        for _ in range(rng.randint(1, 6)):
            parts.append(rng.choice([b"AB", b" ", b"\\\\" if allow_bs else b"C", b"\\n", b"\\101", b"\\ 17", b"\\+7x", b"\\-01", b"\\7zz", b"\\777", b"\\400", b"\\08x", b"xyz", b"\xe9\xff"]))
        hdr = b"".join(parts)
        if BUFR in hdr:
            hdr = b"Q"
    m = dict(ed=ed, f=f, s2=s2, nsub=nsub, s3flag=s3flag, descs=descs, s4=s4, rbits=rbits, rval=rval, hdr=hdr, hdr_raw=hdr_raw,
             order=rng.choice([0, 0, 1]), chunk=rng.choice([0, 0, 1, 2, 3, 7, 64, 1000]))
    return m


def m_line(m, zcount=None):
    f = m["f"]
    tb = lambda b: "n" if b is None else "h" + b.hex()
    return "M %d %s %s %d %d %d %s%s %d %d %s %d %d" % (
        m["ed"], " ".join(str(f[k]) for k in S1KEYS), tb(m["s2"]), m["nsub"], m["s3flag"], len(m["descs"]),
        "".join("%d " % d for d in m["descs"]), ("z%d" % zcount if zcount is not None else "h" + m["s4"].hex()),
        m["rbits"], m["rval"], tb(m["hdr"]), m["order"], m["chunk"])


def boundary_msgs(rng):
    """small exhaustive grid: edition x Section 2 {absent, lengths 0..3} x Section 4 length 0..3 x bit remainder {0,3} x descriptor count 0..2"""
    out = []
    for ed in (2, 3, 4):
        for s2n in (None, 0, 1, 2, 3):
            for n4 in range(4):
                for rbits in (0, 3):
                    for nd in range(3):
                        f = dict(master=0, centre=54, subcentre=0, upd=0, flag=0, cat=0, isub=0, lsub=0, mver=13, lver=0, year=2024,
                                 month=1, day=2, hour=3, minute=4, second=5)
                        out.append(dict(ed=ed, f=f, s2=None if s2n is None else bytes(range(1, s2n + 1)), nsub=1, s3flag=128,
                                        descs=[1001, 309052][:nd], s4=bytes([0xa5] * n4), rbits=rbits, rval=5 if rbits else 0,
                                        hdr=None, hdr_raw=None, order=(n4 + nd) % 2, chunk=0))
    # every single-octet field at both ends, one at a time; centre / sub-centre / year grids
    for ed in (2, 3, 4):
        base = dict(master=0, centre=54, subcentre=0, upd=0, flag=0, cat=0, isub=0, lsub=0, mver=13, lver=0, year=2024, month=1,
                    day=2, hour=3, minute=4, second=5)
        grid = []
        for k in S1KEYS:
            if k in ("master",):
                continue
            vals = [0, 255] if k not in ("centre", "subcentre", "year", "flag") else []
            if k == "centre":
                vals = [0, 255] if ed == 3 else [0, 255, 256, 65535]
            if k == "subcentre":
                vals = [0, 255] if ed == 3 else [0, 255, 256, 32767]
            if k == "year":
                vals = [0, 1, 99, 100, 101, 2000, 2001, 2100, 32767]
            if k == "flag":
                vals = [1, 64, 127, 128, 255]
            for v in vals:
                f = dict(base); f[k] = v
                grid.append(f)
        for f in grid:
            out.append(dict(ed=ed, f=f, s2=None, nsub=1, s3flag=0, descs=[1001], s4=b"\x01", rbits=0, rval=0, hdr=None, hdr_raw=None,
                            order=0, chunk=0))
    return out


def header_msgs(rng, allow_bs):
    """every octet value 0..255 as a one-byte header and inside a 3-byte header"""
    out = []
    f = dict(master=0, centre=54, subcentre=0, upd=0, flag=0, cat=0, isub=0, lsub=0, mver=13, lver=0, year=2024, month=1, day=2, hour=3,
             minute=4, second=5)
    for b in range(256):
        if b == 0x5c and not allow_bs:
            continue
        for raw in (bytes([b]), b"A" + bytes([b]) + b"Z"):
            out.append(dict(ed=4 if b % 2 else 3, f=dict(f), s2=None, nsub=1, s3flag=0, descs=[1001], s4=b"\x01\x02", rbits=0, rval=0,
                            hdr=esc_spec(raw, True), hdr_raw=raw, order=0, chunk=0))
    return out


# ------------------------------------------------------------------------------------------------ oracles
def intended_s4(m):
    s = m["s4"]
    if m["rbits"]:
        s += bytes([((m["rval"] & ((1 << m["rbits"]) - 1)) << (8 - m["rbits"])) & 255])
    return s


def check_fields(m, got_s1, what):
    """every Section 1 field read back equals what was written, on the wire range of the edition"""
    f = dict(m["f"]); f["_s2set"] = m["s2"] is not None
    w = wire_s1(m["ed"], f)
    for k in S1KEYS:
        want = w[k]
        if want is None:
            continue
        if not in_wire_range(m["ed"], k, m["f"][k] if k != "flag" else want):
            continue
        if k == "year" and m["ed"] <= 3 and not (0 <= m["f"]["year"] <= 32767):
            continue
        if got_s1[k] != want:
            return "%s: Section 1 field %s is %d, %d was written" % (what, k, got_s1[k], want)
    return None


def oracle_M(m, cline, esc_bs):
    """property C06 on one message written and read through the four paths (library output only)"""
    parts = cline.split(" | ")
    w = dict(t.split("=", 1) for t in parts[0].split()[1:])
    rcs = w["rc"].split(","); nbs = list(map(int, w["nb"].split(",")))
    if w["bytes"].startswith("big:"):
        return oracle_big(m, w, parts)
    data = b"" if w["bytes"] == "-" else bytes.fromhex(w["bytes"])
    if not (rcs[0] == "0" and rcs[1] == "0" and rcs[3] == "0"):
        return "a writer reported failure (rc FILE*,fd,mem,callback = %s)" % w["rc"]
    if len(set(nbs)) != 1 or nbs[0] != len(data) or int(rcs[2]) != len(data):
        return "the four writers report different byte counts %s (bytes written %d)" % (w["nb"], len(data))
    if w["same"] != "1":
        return "the four writers produced different bytes"
    i = data.find(BUFR)
    if i < 0:
        return "no start marker in the bytes written"
    head, body = data[:i], data[i:]
    try:
        p = parse_lib(body)
    except Exception as e:
        return "the bytes written are not a well-framed message: %s" % e
    lm = int(w["lm"]); sl = list(map(int, w["sl"].split(",")))
    s2l = (len(p["s2"]) + 4) if p["s2"] is not None else 0
    if not (p["total"] == len(body) == lm):
        return "total length: Section 0 says %d, len_msg %d, %d bytes written after the header" % (p["total"], lm, len(body))
    if p["total"] != 8 + p["s1len"] + s2l + p["s3len"] + p["s4len"] + 4:
        return "Section 0 length %d is not the sum of the section lengths" % p["total"]
    if sl != [p["s1len"], s2l, p["s3len"], p["s4len"]]:
        return "section lengths in the structure %s differ from those on the wire %s" % (sl, [p["s1len"], s2l, p["s3len"], p["s4len"]])
    if m["ed"] <= 3 and any(x % 2 for x in (p["s1len"], s2l, p["s3len"], p["s4len"])):
        return "edition %d message with an odd section length %s" % (m["ed"], [p["s1len"], s2l, p["s3len"], p["s4len"]])
    if body[-4:] != b"7777":
        return "message does not end with 7777"
    if p["ed"] != m["ed"]:
        return "edition on the wire %d, %d requested" % (p["ed"], m["ed"])
    # header bytes
    if m["hdr"] is None:
        if head:
            return "bytes %s written before BUFR without a header string" % head.hex()
    elif m["hdr_raw"] is not None:
        if head != m["hdr_raw"]:
            return "header bytes written %s, header string stands for %s" % (head.hex(), m["hdr_raw"].hex())
    # what is on the wire is what was intended
    f = dict(m["f"]); f["_s2set"] = m["s2"] is not None
    wv = wire_s1(m["ed"], f)
    has2 = bool(wv["flag"] & 129)
    e = check_fields(m, dict(p["s1f"], isub=p["s1f"].get("subcat", 0) if m["ed"] == 4 else 0, lsub=p["s1f"]["lsubcat"] if m["ed"] == 4 else p["s1f"]["subcat"],
                             upd=p["s1f"]["upd"], cat=p["s1f"]["cat"], second=p["s1f"].get("second", 0), subcentre=p["s1f"].get("subcentre", 0)), "on the wire")
    if e:
        return e
    if 0 <= wv["flag"] <= 255 and (p["s2"] is not None) != has2:
        return "Section 2 %s although the Section 1 flag is %d" % ("present" if p["s2"] is not None else "absent", wv["flag"])
    if m["s2"] is not None:
        want2 = m["s2"] + (b"\0" if m["ed"] <= 3 and len(m["s2"]) % 2 else b"")
        if p["s2"] != want2:
            return "Section 2 payload on the wire %s, %s was set" % (p["s2"].hex(), want2.hex())
    if p["nsub"] != m["nsub"] or p["flags"] != m["s3flag"] or p["descs"] != m["descs"]:
        return "Section 3 on the wire (%d,%d,%s) differs from what was set (%d,%d,%s)" % (p["nsub"], p["flags"], p["descs"][:8], m["nsub"], m["s3flag"], m["descs"][:8])
    want4 = intended_s4(m)
    if not (p["s4"][:len(want4)] == want4 and len(p["s4"]) - len(want4) <= (2 if m["ed"] <= 3 else 0) and not any(p["s4"][len(want4):])):
        return "Section 4 payload on the wire %s..., %s... was written" % (p["s4"][:24].hex(), want4[:24].hex())
    # the four readers
    for part in parts[1:]:
        tag, d = part.split(" ", 1)
        pd = parse_dump(d)
        if pd["rc"] != 1:
            return "%s: reading the message back failed (rc=%d)" % (tag, pd["rc"])
        if pd["used"] != len(data) and not (tag == "R:s" and pd["used"] == -1):
            return "%s: %d bytes consumed, the message with its header has %d" % (tag, pd["used"], len(data))
        if pd["ed"] != m["ed"] or pd["lm"] != lm:
            return "%s: edition/length read back %d/%d, written %d/%d" % (tag, pd["ed"], pd["lm"], m["ed"], lm)
        e = check_fields(m, pd["s1"], tag)
        if e:
            return e
        if [pd["s1len"], pd["s2len"], pd["s3len"], pd["s4len"]] != sl:
            return "%s: section lengths read back %s, written %s" % (tag, [pd["s1len"], pd["s2len"], pd["s3len"], pd["s4len"]], sl)
        if pd["s2"] != (p["s2"] or b""):
            return "%s: Section 2 payload read back %s, on the wire %s" % (tag, pd["s2"].hex(), (p["s2"] or b"").hex())
        if (pd["nsub"], pd["s3flag"], pd["descs"]) != (m["nsub"], m["s3flag"], m["descs"]):
            return "%s: Section 3 read back (%d,%d,%s), written (%d,%d,%s)" % (tag, pd["nsub"], pd["s3flag"], pd["descs"][:8], m["nsub"], m["s3flag"], m["descs"][:8])
        if pd["s4"] != p["s4"]:
            return "%s: data bytes read back differ from the bytes written" % tag
        e = oracle_header(tag, pd, head, data)
        if e:
            return e
    return None


def oracle_header(tag, pd, head, consumed):
    """the header string read back stands for the bytes that preceded BUFR (EOT octets may be dropped), and writing the
    message again reproduces the bytes consumed"""
    un = unesc_spec(pd["h"])
    if un is None or no04(un) != no04(head):
        return "%s: header string read back %r does not stand for the bytes before BUFR %s" % (tag, pd["h"], head.hex())
    if any(b <= 32 or b == 127 for b in pd["h"]):
        return "%s: header string read back contains an unescaped control character or blank: %r" % (tag, pd["h"])
    rw = rewritten_header(pd, consumed)
    if rw is not None:
        if pd["rw"] == "same":
            return None
        rh, rb = rw
        if no04(rh) != no04(head) or rb[len(rh):] != consumed[len(head):]:
            return "%s: the message written again differs from the bytes consumed: header %s instead of %s" % (tag, rh.hex(), head.hex())
    return None


def oracle_big(m, w, parts):
    _, n, head, tail, _ = w["bytes"].split(":")
    n = int(n); head = bytes.fromhex(head)
    if w["same"] != "1" or len(set(w["nb"].split(","))) != 1 or int(w["nb"].split(",")[0]) != n:
        return "the four writers disagree on a %d-byte message (%s)" % (n, w["nb"])
    total = int.from_bytes(head[4:7], "big")
    if head[:4] != BUFR or total != n or int(w["lm"]) != n:
        return "total length: Section 0 says %d, len_msg %s, %d bytes written" % (total, w["lm"], n)
    if tail[-8:] != b"7777".hex():
        return "message does not end with 7777"
    for part in parts[1:]:
        tag, d = part.split(" ", 1)
        pd = parse_dump(d)
        if pd["rc"] != 1 or pd["used"] not in (n, -1):
            return "%s: reading a %d-byte message back: rc=%d, %d bytes consumed" % (tag, n, pd["rc"], pd["used"])
    return None


def oracle_S(st, cline):
    """a concatenated stream: every message exactly once, in order, on every path"""
    parts = cline.split(" | ")[1:]
    pieces = [x for x in st["pieces"] if x[2] != "broken"]
    if any(x[2] == "broken" for x in st["pieces"]):
        return None          # streams with deliberately malformed members are compared with the model only
    for part in parts:
        secs = part.split(" ; ")
        tag = secs[0].split()[0]
        hd = dict(t.split("=") for t in secs[0].split()[1:])
        if int(hd["n"]) != len(pieces):
            return "%s: %s messages found in a stream of %d" % (tag, hd["n"], len(pieces))
        if int(hd["end"]) > 0:
            return "%s: the read after the last message reported success" % tag
        for i, (sep, msg, kind) in enumerate(pieces):
            pd = parse_dump(secs[1 + i])
            j = msg.find(BUFR)
            own, body = msg[:j], msg[j:]
            p = parse_lib(body)
            if pd["used"] != len(sep) + len(msg) and not (tag == "R:s" and pd["used"] == -1):
                return "%s: message %d consumed %d bytes, separator+message have %d" % (tag, i + 1, pd["used"], len(sep) + len(msg))
            s1 = pd["s1"]; pf = p["s1f"]
            want = [pf["centre"], pf["upd"], pf["flag"], pf["cat"], pf["mver"], pf["lver"], pf["year"], pf["month"], pf["day"], pf["hour"], pf["minute"]]
            got = [s1["centre"], s1["upd"], s1["flag"], s1["cat"], s1["mver"], s1["lver"], s1["year"], s1["month"], s1["day"], s1["hour"], s1["minute"]]
            if p["ed"] == 4:
                want += [pf["subcentre"], pf["subcat"], pf["lsubcat"], pf["second"]]; got += [s1["subcentre"], s1["isub"], s1["lsub"], s1["second"]]
            else:
                want += [pf["subcat"]]; got += [s1["lsub"]]
                if p["ed"] == 3:
                    want += [pf["subcentre"]]; got += [s1["subcentre"]]
            if (pd["ed"], pd["lm"], got) != (p["ed"], p["total"], want):
                return "%s: message %d of the stream: edition/length/Section 1 read %s, on the wire %s" % (tag, i + 1, (pd["ed"], pd["lm"], got), (p["ed"], p["total"], want))
            if (pd["s2"], pd["nsub"], pd["s3flag"], pd["descs"], pd["s4"]) != (p["s2"] or b"", p["nsub"], p["flags"], p["descs"], p["s4"]):
                return "%s: message %d of the stream is not the %d-th message written (Section 2/3/4 differ)" % (tag, i + 1, i + 1)
            e = oracle_header(tag + " message %d" % (i + 1), pd, sep + own, sep + msg)
            if e:
                return e
    return None


def oracle_E(ec, cline, esc_bs):
    kind, raw = ec
    f = cline.split()
    if len(f) < 3 or f[0] != "E":
        return "unexpected output %r" % cline
    out = b"" if f[1] == "-" else bytes.fromhex(f[1])
    if int(f[2]) != len(out):
        return "length reported %s, %d bytes" % (f[2], len(out))
    if kind == "s":
        if any(b <= 32 or b == 127 for b in out):
            return "escaped string still contains a control character or blank"
        if unesc_spec(out) != raw:
            return "escaped form %r does not stand for %s" % (out, raw.hex())
    elif kind == "r":
        if out != raw:
            return "str_oct2char(str_schar2oct(s)) = %s for s = %s" % (out.hex(), raw.hex())
    return None


# ------------------------------------------------------------------------------------------------ running
class Runner:
    def __init__(self):
        self.exe = vlib.build_harness("c06")
        self.drv = vlib.extract_and_build_driver("c06")
        self.dir = os.path.join(vlib.scratch(), "c06_io")
        os.makedirs(self.dir, exist_ok=True)
        self.cfg = None

    def run_c(self, lines, timeout=1500):
        text = "\n".join(lines) + "\n"
        rc, out, err = vlib.sh([self.exe, self.dir], input=text.encode("latin-1"), timeout=timeout,
                               env=dict(vlib.ASAN_ENV, LC_ALL="C"))
        out = out.split("\n")
        res = [out[i] if i < len(out) - 1 else None for i in range(len(lines))]
        return res, err

    def run_model(self, lines, timeout=1500):
        text = "C %d %d\n" % (1 if self.cfg[0] else 0, self.cfg[1]) + "\n".join(lines) + "\n"
        rc, out, err = vlib.sh([self.drv], input=text.encode("latin-1"), timeout=timeout)
        if rc != 0:
            raise RuntimeError("model driver failed: " + err[-2000:])
        out = out.split("\n")
        return [out[i] if i < len(out) else "" for i in range(len(lines))]

    def probe(self):
        """which of the two modelled variants does this tree implement?"""
        res, err = self.run_c(["E s 5c"])
        esc = bool(res[0]) and res[0].split()[1] != "5c"
        return esc


def sanitizer_summary(err):
    return " | ".join(l.strip() for l in err.split("\n") if "ERROR" in l or "SUMMARY" in l or "runtime error" in l)[:500]


FOREIGN_S1 = dict(master=0, centre=54, subcentre=3, upd=1, cat=2, subcat=4, lsubcat=5, mver=13, lver=1, year=2021, month=6, day=7, hour=8, minute=9, second=10)


def gen_streams(rng, tier, libmsgs, allow_bs):
    """streams of 1..k messages (library-written and independently built ones) with foreign bytes in between"""
    n = 160 if tier == "quick" else 5000
    out = []
    small = [b for b in libmsgs if len(b) < 400] or libmsgs
    for i in range(n):
        k = rng.choice([1, 1, 2, 2, 3, 4, 5, rng.randint(1, 9)])
        pieces = []
        for j in range(k):
            r = rng.random()
            nsep = rng.choice([0, 0, 1, 2, 3, 4, 5, 8, rng.randint(0, 70)])
            if rng.random() < 0.06:
                nsep = rng.choice([60, 61, 63, 64, 65, 124, 127, 128, 129, 192, 260])
            sep = rand_raw(rng, nsep, allow_bs, rng.choice([None, "text", "marker"]))
            if r < 0.6 and small:
                msg, kind = rng.choice(small if rng.random() < 0.9 else libmsgs), "lib"
                own = msg[:msg.find(BUFR)]
                while BUFR in sep + own:          # the separator must not complete a marker with the message's own header bytes
                    sep = rand_raw(rng, nsep, allow_bs, "text")
            else:
                ed = rng.choice([2, 3, 4])
                s1f = dict(FOREIGN_S1)
                s1f.update(centre=rng.randint(0, 255 if ed == 3 else 65535), subcentre=rng.randint(0, 255), year=rng.randint(1, 99) if ed <= 3 else rng.randint(0, 32767))
                s2 = None if rng.random() < 0.6 else bytes(rng.randrange(256) for _ in range(rng.randint(0, 9)))
                msg = bufrmsg.build(ed, [rand_desc(rng) for _ in range(rng.randint(0, 6))], rng.randint(0, 65535), rng.random() < 0.5,
                                    bytes(rng.randrange(256) for _ in range(rng.randint(0, 30))), s2=s2, s1f=s1f,
                                    odd_pad=rng.random() < 0.7, s4_extra_pad=rng.choice([0, 0, 1, 2]), observed=rng.random() < 0.5)
                kind = "foreign"
            pieces.append((sep, msg, kind))
        trail = rand_raw(rng, rng.choice([0, 0, 1, 3, 10, 80]), allow_bs, rng.choice([None, "marker"]))
        if rng.random() < 0.1:
            trail += rng.choice([b"BUF", b"BUFR", b"BUFR\0\0", BUFR + b"\0\0\x34\x04\0\0"])     # a start marker and nothing behind it
        out.append(dict(pieces=pieces, trail=trail, chunk=rng.choice([0, 0, 1, 2, 5, 17, 100, 4096])))
    # deliberately malformed members (model <-> library only): truncated message, wrong end mark, Section 4 length not adding up
    for i in range(20 if tier == "quick" else 200):
        base = bufrmsg.build(rng.choice([2, 3, 4]), [1001, 1002], 1, False, bytes(rng.randrange(256) for _ in range(rng.randint(2, 12))), s1f=FOREIGN_S1)
        r = rng.random()
        if r < 0.3:
            bad = base[:rng.randint(5, len(base) - 1)]
        elif r < 0.4:
            bad = base[:-4] + b"7778"
        elif r < 0.5:
            # edition 4 year / sub-centre that do not fit the API's short: refused by the reader
            bad = bufrmsg.build(4, [1001], 1, False, b"\x01", s1f=dict(FOREIGN_S1, **rng.choice([dict(year=rng.randint(32768, 65535)), dict(subcentre=rng.randint(32768, 65535))])))
        elif r < 0.8:
            # enlarge the Section 4 length field by 1..3: the reader falls back on the total length
            p = bufrmsg.parse(base); off = 8 + p["s1len"] + p["s3len"]
            bad = base[:off] + (p["s4len"] + rng.randint(1, 3)).to_bytes(3, "big") + base[off + 3:]
        else:
            # Section 1 longer than the standard layout (extra octets are kept)
            p = bufrmsg.parse(base); extra = bytes(rng.randrange(256) for _ in range(rng.randint(1, 5)))
            s1 = (p["s1len"] + len(extra)).to_bytes(3, "big") + base[11:8 + p["s1len"]] + extra
            bad = BUFR + (p["total"] + len(extra)).to_bytes(3, "big") + base[7:8] + s1 + base[8 + p["s1len"]:]
        good = bufrmsg.build(4, [1001], 1, False, b"\x01\x02", s1f=FOREIGN_S1)
        if r < 0.3:
            # a truncated message is only put at the very end of the stream: followed by other bytes the reader would take them for
            # its sections (lengths then no longer add up; that is reader robustness on corrupt input, not this property)
            out.append(dict(pieces=[(b"", good, "foreign"), (b"yy", good, "foreign"), (b"x", bad, "broken")], trail=b"", chunk=rng.choice([0, 3])))
        else:
            out.append(dict(pieces=[(b"", good, "foreign"), (b"x", bad, "broken"), (b"yy", good, "foreign")], trail=b"", chunk=rng.choice([0, 3])))
    return out


def s_line(st):
    data = b"".join(sep + msg for sep, msg, _ in st["pieces"]) + st["trail"]
    return "S %d %s" % (st["chunk"], data.hex() if data else "-")


def gen_E(rng, tier, allow_bs):
    out = []
    for b in range(256):
        if b == 0x5c and not allow_bs:
            continue
        out.append(("s", bytes([b]))); out.append(("r", bytes([b, 65, b])))
    for i in range(300 if tier == "quick" else 15000):
        n = rng.choice([0, 1, 2, 3, 10, 63, 64, 65, 127, 128, 129, rng.randint(0, 300)])
        raw = bytes(rng.choice([rng.randrange(256), rng.randrange(34), 0x5c if allow_bs else 0x41]) for _ in range(n))
        if not allow_bs:
            raw = raw.replace(b"\\", b"/")
        out.append((rng.choice("sr"), raw))
    # well-defined inputs of str_oct2char (model <-> library)
    atoms = [b"A", b"zz", b" ", b"\\\\", b"\\n", b"\\101", b"\\000", b"\\377", b"\\400", b"\\777", b"\\ 17", b"\\  7", b"\\+17", b"\\-17", b"\\-00",
             b"\\1  ", b"\\18x", b"\\7\\\\", b"\\\t12", b"\\0x1", b"\xff\x80"]
    for i in range(120 if tier == "quick" else 1500):
        out.append(("o", b"".join(rng.choice(atoms) for _ in range(rng.randint(0, 8)))))
    return out


def e_line(ec):
    return "E %s %s" % (ec[0], ec[1].hex() if ec[1] else "-")


BS_WITNESSES = ["41425c313031", "41425c4344", "41425c"]      # "AB\101", "AB\CD", "AB\" directly before BUFR
BIG_N = 16777216 - (8 + 22 + 7 + 4 + 4)                       # Section 4 payload that makes an edition 4 message exactly 2^24 octets long


def run(rep, tier, seed, replay=None):
    rep.level = "proof"
    proved = vlib.proof_step(rep, "Properties_C06")
    R = Runner()
    rng = random.Random(seed)
    esc_bs = R.probe()
    known = {f.get("match"): f for f in vlib.known_findings("C06")}
    feat = collections.Counter()
    nviol = [0]

    def report(fail, line, robj, kind):
        if nviol[0] < 12:
            rep.violation("C06: %s  [case: %s]" % (fail, line[:400]), dict(robj, kind=kind, case=line))
        nviol[0] += 1

    def mismatch(what, line, cl, ml, kind):
        if nviol[0] < 12:
            rep.violation("C06: correspondence %s broken on case %s (library %s, model %s); the property oracle accepts the library's behaviour"
                          % (what, line[:160], (cl or "")[:120], (ml or "")[:120]),
                          {"kind": kind, "correspondence": what, "case": line, "impl": cl, "model": ml}, no_input=True)
        nviol[0] += 1

    # ---- does a message of exactly 2^24 octets get a correct length?  (decides the second model parameter)
    f0 = dict(master=0, centre=54, subcentre=0, upd=0, flag=0, cat=0, isub=0, lsub=0, mver=13, lver=0, year=2024, month=1, day=2, hour=3, minute=4, second=5)
    bigm = dict(ed=4, f=f0, s2=None, nsub=1, s3flag=0, descs=[], s4=b"", rbits=0, rval=0, hdr=None, hdr_raw=None, order=0, chunk=0)
    maxlen = 16777216
    big_lines = [m_line(bigm, zcount=BIG_N - 1), m_line(bigm, zcount=BIG_N)]
    if replay is None or replay.get("kind") == "big":
        res, err = R.run_c(big_lines, timeout=600)
        for ln, cl, n in zip(big_lines, res, (16777215, 16777216)):
            rep.count(ln); feat["len_msg=%d" % n] += 1
            if cl is None:
                report("the library crashed writing/reading a %d-octet message: %s" % (n, sanitizer_summary(err)), ln, {}, "big"); continue
            w = dict(t.split("=", 1) for t in cl.split(" | ")[0].split()[1:])
            refused = w["rc"].split(",")[0] != "0"
            if n == 16777216 and refused:
                maxlen = 16777215        # the repaired limit: a message that does not fit the 3-octet length is refused
                continue
            fail = "a writer reported failure (rc=%s)" % w["rc"] if refused else oracle_big(bigm, w, cl.split(" | "))
            if fail:
                txt = "a message of exactly 16777216 octets is written with total length %d in Section 0 (3 octets cannot hold 2^24) and cannot be read back" % 0
                if n == 16777216 and "len-16M" in known:
                    rep.finding(known["len-16M"].get("what", txt))
                else:
                    report(fail, ln, {}, "big")
    R.cfg = (esc_bs, maxlen)

    # ---- backslash witnesses, each in a process of its own (the unrepaired library may stop in the sanitizer)
    wmsg = bufrmsg.build(4, [1001, 1002], 1, False, b"\x01\x02\xa0", s1f=FOREIGN_S1)
    if replay is None or replay.get("kind") == "bs":
        for hx in BS_WITNESSES:
            st = dict(pieces=[(bytes.fromhex(hx), wmsg, "foreign")], trail=b"", chunk=0)
            ln = s_line(st)
            res, err = R.run_c([ln])
            rep.count(ln); feat["backslash_witness"] += 1
            fail = ("the library crashed or was stopped by the sanitizer: " + sanitizer_summary(err)) if res[0] is None else oracle_S(st, res[0])
            if fail:
                if "header-backslash" in known and not esc_bs:
                    rep.finding(known["header-backslash"].get("what", fail))
                else:
                    report(fail, ln, {"stream": [[hx, wmsg.hex(), "foreign"]]}, "bs")

    # ---- messages through the four writers and readers
    if replay and replay.get("kind") in ("M", "S", "E"):
        msgs = [replay["m"]] if replay["kind"] == "M" else []
        for m in msgs:
            for k in ("s2", "s4", "hdr", "hdr_raw"):
                m[k] = None if m[k] is None else bytes.fromhex(m[k])
    elif replay:
        msgs = []
    else:
        msgs = boundary_msgs(rng) + header_msgs(rng, esc_bs)
        msgs += [gen_msg(rng, tier, esc_bs) for _ in range(1200 if tier == "quick" else 40000)]
        msgs += [gen_msg(rng, tier, esc_bs, "big") for _ in range(12 if tier == "quick" else 400)]
    mlines = [m_line(m) for m in msgs]
    cres, cerr = R.run_c(mlines)
    mres = R.run_model(mlines)
    libmsgs = []
    for m, ln, cl, ml in zip(msgs, mlines, cres, mres):
        rep.count(ln)
        feat["ed%d" % m["ed"]] += 1
        feat["s2_" + ("none" if m["s2"] is None else "even" if len(m["s2"]) % 2 == 0 else "odd")] += 1
        feat["s4_" + ("odd" if len(intended_s4(m)) % 2 else "even") + ("_bits" if m["rbits"] else "")] += 1
        feat["hdr_" + ("none" if m["hdr"] is None else "canonical" if m["hdr_raw"] is not None else "free")] += 1
        feat["descs_%s" % ("0" if not m["descs"] else "odd" if len(m["descs"]) % 2 else "even")] += 1
        if m["s2"] is not None:
            feat["s2_set_%s" % ("before_data" if m["order"] == 0 else "after_end_message")] += 1
        if len(m["s4"]) > 4000:
            feat["s4_large"] += 1
        jm = dict(m);
        for k in ("s2", "s4", "hdr", "hdr_raw"):
            jm[k] = None if m[k] is None else m[k].hex()
        if cl is None:
            report("the library crashed or was stopped by the sanitizer on this case: " + sanitizer_summary(cerr), ln, {"m": jm}, "M")
            break
        if len(rep.cov["samples"]) < 3:
            rep.sample({"case": ln[:300], "library": cl[:300], "model": ml[:300]})
        fail = oracle_M(m, cl, esc_bs)
        if fail:
            report(fail, ln, {"m": jm, "library": cl[:3000], "model": ml[:3000]}, "M")
            continue
        # correspondence: bytes and lengths of the writer, dump of each reader
        cw = dict(t.split("=", 1) for t in cl.split(" | ")[0].split()[1:])
        mparts = ml.split(" | ")
        mw = dict(t.split("=", 1) for t in mparts[0].split()[1:]) if "=" in mparts[0] else {}
        if (cw["lm"], cw["sl"], cw["bytes"]) != (mw.get("lm"), mw.get("sl"), mw.get("bytes")):
            mismatch("Frame.wr <-> bufr_end_message/bufr_wr_section0..5", ln, cl, ml, "M"); continue
        md = mparts[1].split(" ", 1)[1] if len(mparts) > 1 else ""
        for part in cl.split(" | ")[1:]:
            tag, d = part.split(" ", 1)
            pipe = "used=-1" in d
            if canon_dump(d, not pipe) != canon_dump(md, not pipe):
                mismatch("Frame.rd <-> bufr_callback_read_message (%s)" % tag, ln, part, md, "M"); break
        data = bytes.fromhex(cw["bytes"]) if cw["bytes"] != "-" else b""
        if m["hdr"] is None or m["hdr_raw"] is not None:
            libmsgs.append(data)

    # ---- streams
    if replay and replay.get("kind") == "S":
        streams = [dict(pieces=[(bytes.fromhex(a), bytes.fromhex(b), k) for a, b, k in replay["stream"]], trail=bytes.fromhex(replay.get("trail", "")), chunk=replay.get("chunk", 0))]
    elif replay:
        streams = []
    else:
        streams = gen_streams(rng, tier, libmsgs, esc_bs)
    slines = [s_line(s) for s in streams]
    cres, cerr2 = R.run_c(slines)
    mres = R.run_model(slines)
    for st, ln, cl, ml in zip(streams, slines, cres, mres):
        rep.count(ln)
        feat["stream_k=%d" % min(len(st["pieces"]), 6)] += 1
        feat["stream_chunk=%d" % st["chunk"]] += 1
        if any(k == "broken" for _, _, k in st["pieces"]):
            feat["stream_malformed_member"] += 1
        robj = {"stream": [[a.hex(), b.hex(), k] for a, b, k in st["pieces"]], "trail": st["trail"].hex(), "chunk": st["chunk"]}
        if cl is None:
            report("the library crashed or was stopped by the sanitizer on this stream: " + sanitizer_summary(cerr2), ln, robj, "S")
            break
        fail = oracle_S(st, cl)
        if fail:
            report(fail, ln, dict(robj, library=cl[:3000]), "S")
            continue
        mm = ml.split(" ; ")
        for part in cl.split(" | ")[1:]:
            secs = part.split(" ; ")
            tag = secs[0].split()[0]
            pipe = tag == "R:s" and st["chunk"] > 0
            ok = secs[0].split()[1] == mm[0].split()[1] and len(secs) == len(mm) and all(
                canon_dump(a, not pipe) == canon_dump(b, not pipe) for a, b in zip(secs[1:], mm[1:]))
            if ok:
                # header bytes written again: library vs Frame.oct2char (when the model says they are defined)
                for a, b in zip(secs[1:], mm[1:]):
                    pa, pb = parse_dump(a), parse_dump(b)
                    if "rw" in pa and pb.get("rwh", "?") != "?" and pa["rw"] != "same":
                        rh = rewritten_header(pa, b"")[0]
                        if rh.hex() != ("" if pb["rwh"] == "-" else pb["rwh"]):
                            ok = False
            if not ok:
                mismatch("Frame.rd_all <-> repeated bufr_*read_message (%s)" % tag, ln, part[:2000], ml[:2000], "S"); break

    # ---- escaping pair
    if replay and replay.get("kind") == "E":
        ecs = [(replay["e"][0], bytes.fromhex(replay["e"][1]))]
    elif replay:
        ecs = []
    else:
        ecs = gen_E(rng, tier, esc_bs)
    elines = [e_line(e) for e in ecs]
    cres, cerr3 = R.run_c(elines)
    mres = R.run_model(elines)
    for ec, ln, cl, ml in zip(ecs, elines, cres, mres):
        rep.count(ln)
        feat["escape_" + ec[0]] += 1
        if cl is None:
            report("the library crashed or was stopped by the sanitizer: " + sanitizer_summary(cerr3), ln, {"e": [ec[0], ec[1].hex()]}, "E")
            break
        fail = oracle_E(ec, cl, esc_bs)
        if fail:
            report(fail, ln, {"e": [ec[0], ec[1].hex()]}, "E")
        elif cl.strip() != ml.strip() and not ml.startswith("E ?"):
            mismatch("Frame.schar2oct/oct2char <-> str_schar2oct/str_oct2char", ln, cl, ml, "E")

    # memcpy(dst, NULL, 0) in bufr_memwrite_fn when a section has no payload (s2.data / s3.data == NULL) is flagged by UBSan's
    # nonnull-attribute check; nothing is copied, it is not a finding about this property
    allerr = "\n".join(l for l in (cerr + cerr2 + cerr3).split("\n") if "null pointer passed as argument" not in l)
    if ("ERROR: AddressSanitizer" in allerr or "runtime error" in allerr) and not rep.violations:
        rep.violation("C06: sanitizer report while running the framing cases: " + sanitizer_summary(allerr),
                      {"kind": "sanitizer", "stderr": allerr[-3000:]}, no_input=True)
    if not proved and not rep.violations:
        rep.violation("C06: proof obligations no longer check (see log) and no failing input was found by the correspondence run",
                      getattr(rep, "proof_broken", {}), no_input=True)
    rep.cov["traces_validated_against_impl"] = len(msgs) + len(streams) + len(ecs) + 2 + len(BS_WITNESSES)
    rep.cov["rule"] = ("messages built through the public API (Section 1 fields at octet/API boundaries and random, Section 2 absent or 0..n octets, "
                       "descriptor counts 0..2101, Section 4 of every parity with 0..7 spare bits, header strings over all 256 octet values) written by "
                       "bufr_write_message/bufr_swrite_message/bufr_memwrite_message (buffer exactly as long)/bufr_callback_write_message and read by the four readers "
                       "(pipe fed in small chunks, chunked callback source); exhaustive grid edition x Section 2 {absent,0..3} x Section 4 0..3 x spare bits x descriptors 0..2; "
                       "streams of 1..9 library-written and independently built messages with separators not containing the start marker; messages of 2^24-1 and 2^24 octets; "
                       "escaping pair on every octet and random strings. distinct = distinct case lines; every case is compared with the model and judged by the oracle")
    rep.cov["distribution"] = dict(feat, model_variant="esc_bs=%s maxlen=%d" % (esc_bs, maxlen))
    rep.cov["exhaustive"] = False
    rep.assumptions = ["C locale (isspace/iscntrl), fopen/read/write/pipe behave; the user read callback returns the full count unless the source is exhausted (its contract)"]
