#!/bin/sh
# seedrun.sh <seed dir under /verif/seeded> <check ids...> — run checks against a scratch worktree with the seeded change applied
# (equivalent to `git -C /repo apply patch.diff`, but leaves /repo untouched while other work is using it).
set -e
S="$1"; shift
WT=$(mktemp -d /tmp/seedwt_XXXXXX)
rmdir "$WT"
git -C /repo worktree add -q "$WT" HEAD
cp /repo/config.h "$WT"/config.h 2>/dev/null || true
cp /repo/API/Headers/bufr_api.h "$WT"/API/Headers/bufr_api.h 2>/dev/null || true
git -C "$WT" apply "$S/patch.diff"
for c in "$@"; do
  echo "=== $c on $(basename $S)"
  (cd /verif && VERIF_REPO="$WT" ./check "$c" --tier ${TIER:-quick} 2>&1 | grep -v "^KNOWN" | tail -4 | cut -c1-600) || true
done
git -C /repo worktree remove --force "$WT"
