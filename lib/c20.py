# c20.py — property C20: local table update messages round-trip the tables they carry.
# proof: Properties_C20.v (LocalTab.v / LocalTabProof.v); tie: harness/c20.c (bufr_store_tables -> bufr_read_message ->
# bufr_decode_message -> bufr_extract_tables) vs the extracted model (store / decode_elements / extract) on the same table sets;
# oracle (library alone): (1) the stored message, cut by the independent frame parser and read by an independent reader of the
# class 00 character fields, carries exactly the generated tables; (2) the tables returned by bufr_extract_tables equal the
# generated ones; (3) a data message encoded with the original local tables decodes to the same listing with
# master + extracted tables as with the original tables.
import collections, json, os, random
import vlib, bufrmsg, tables

TYPE_OF_KIND = {"num": 4, "str": 5, "code": 6, "flag": 7}          # BufrDataType values
INT_MAX = 2147483647

# widths (octets) of the class 00 character elements as WMO Table B defines them (oracle side: not read from the library)
W_CAT, W_LINE, W_F, W_X, W_Y, W_UNIT, W_SIGN, W_SCALE, W_REF, W_WIDTH, W_SEQ = 3, 32, 1, 2, 3, 24, 1, 3, 10, 3, 6


# ---------------------------------------------------------------------------------------------- canonical forms
def rtrim(s):
    return s.rstrip(" ")


def canon_tables(B, D):
    b = sorted((e["desc"], rtrim(e["name"]), rtrim(e["unit"]), e["scale"], e["ref"], e["width"],
                TYPE_OF_KIND[tables.unit_kind(rtrim(e["unit"]))]) for e in B)
    d = sorted((k, tuple(seq)) for k, seq in D)
    return b, d


def hx(s):
    return s.encode("latin-1").hex() if s else "-"


def unhx(h):
    return "" if h in ("-", "NULL") else bytes.fromhex(h).decode("latin-1")


def tabspec(case):
    t = ["%d" % case["cat"], hx(case["cdesc"]), "%d" % len(case["B"])]
    for e in case["B"]:
        t += ["%d" % e["desc"], hx(e["name"]), hx(e["unit"]), "%d" % e["scale"], "%d" % e["ref"], "%d" % e["width"]]
    t.append("%d" % len(case["D"]))
    for k, seq in case["D"]:
        t += ["%d" % k, "%d" % len(seq)] + ["%d" % x for x in seq]
    return " ".join(t)


def data_spec(data):
    t = ["%d" % len(data["tmpl"])] + ["%d" % d for d in data["tmpl"]] + ["%d" % len(data["subsets"])]
    for toks in data["subsets"]:
        t += list(toks) + ["|"]
    return " ".join(t)


def write_cmc_files(case, dirpath, idx):
    """the table set in the CMC local-table file format (what bufr_load_l_tableB / bufr_load_l_tableD read)"""
    fb = os.path.join(dirpath, "ltb_%d" % idx)
    fd = os.path.join(dirpath, "ltd_%d" % idx)
    with open(fb, "wb") as f:
        f.write(b"* local table B written by the C20 check\n")
        f.write(("DATA_CATEGORY=%d\n" % case["cat"]).encode())
        f.write(("DATA_DESCRIPTION=%s\n" % case["cdesc"]).encode("latin-1"))
        for e in case["B"]:
            f.write(("%06d  %-44s%-11s%3d%11d%6d\n" % (e["desc"], e["name"], e["unit"], e["scale"], e["ref"], e["width"])).encode("latin-1"))
    with open(fd, "wb") as f:
        f.write(b"* local table D written by the C20 check\n")
        for k, seq in case["D"]:
            f.write(("%06d %s\n" % (k, " ".join("%06d" % x for x in seq))).encode())
    return fb, fd


def c_line(case):
    if case["mode"] == "F":
        return "F %d %s %s" % (case["ed"], case["files"][0], case["files"][1] if case["D"] else "-")
    if case["mode"] == "M":
        return "M %d %d %s @@ %s" % (case["ed"], case["data"]["comp"], tabspec(case), data_spec(case["data"]))
    return "S %d %s" % (case["ed"], tabspec(case))


def m_line(case):
    """the model always gets the table set on the line (for F cases: as the independent reader of the files sees it)"""
    return "S %d %s" % (case["ed"], tabspec(case))


# ---------------------------------------------------------------------------------------------- output parsing
def parse_tables(toks, i):
    """toks[i:] = cat=.. cdesc=.. nb=.. {B ..} nd=.. {D ..}; returns (dict, next index)"""
    t = dict(B=[], D=[], aux=[])
    t["cat"] = int(toks[i].split("=")[1]); i += 1
    t["cdesc"] = unhx(toks[i].split("=")[1]); i += 1
    nb = int(toks[i].split("=")[1]); i += 1
    for _ in range(nb):
        f = toks[i + 1].split(":"); i += 2
        t["B"].append(dict(desc=int(f[0]), name=unhx(f[1]), unit=unhx(f[2]), scale=int(f[3]), ref=int(f[4]), width=int(f[5]), type=int(f[6])))
        t["aux"].append((int(f[7]), int(f[8])) if len(f) > 8 else (0, 0))
    nd = int(toks[i].split("=")[1]); i += 1
    for _ in range(nd):
        f = toks[i + 1].split(":"); i += 2
        t["D"].append((int(f[0]), [] if f[1] == "-" else [int(x) for x in f[1].split(",")]))
    return t, i


def parse_out(line):
    """-> dict(rc, orig, msg, inv, extr, data=dict(MSG, DO, DX))"""
    r = dict(rc=None, orig=None, msg=None, inv=None, extr=None, data={}, s3=None, s4=None)
    parts = line.split(" ; ")
    toks = parts[0].split()
    i = 1
    while i < len(toks):
        t = toks[i]
        if t == "ORIG":
            r["orig"], i = parse_tables(toks, i + 1)
        elif t == "EXTR":
            r["extr"], i = parse_tables(toks, i + 1)
        elif t.startswith("msg="):
            r["msg"] = bytes.fromhex(t[4:]); i += 1
        elif t.startswith("s3="):
            r["s3"] = [int(x) for x in t[3:].split(",")] if len(t) > 3 else []; i += 1
        elif t.startswith("s4="):
            r["s4"] = bytes.fromhex(t[3:]); i += 1
        elif t.startswith("vt="):
            r["vt"] = {} if t == "vt=-" else {int(a.split(":")[0]): int(a.split(":")[1]) for a in t[3:].split(",")}; i += 1
        elif t.startswith("inv="):
            r["inv"] = int(t[4:]); i += 1
        elif t.startswith("rc="):
            r["rc"] = int(t[3:]); i += 1
        else:
            i += 1
    for p in parts[1:]:
        k = p.split(" ", 1)
        r["data"][k[0]] = k[1] if len(k) > 1 else ""
    return r


def tables_key(t):
    """comparison key of a parsed table dump (names/units as dumped, no trimming: model and library must agree exactly)"""
    return (t["cat"], rtrim(t["cdesc"]), sorted((e["desc"], e["name"], e["unit"], e["scale"], e["ref"], e["width"], e["type"]) for e in t["B"]),
            sorted((k, tuple(s)) for k, s in t["D"]))


# ---------------------------------------------------------------------------------------------- independent reader of the update message
class NotLegal(Exception):
    pass


def atoi_field(b):
    s = b.decode("latin-1").strip()
    if not s or not (s.isdigit() or (s[0] in "+-" and s[1:].isdigit())):
        raise NotLegal("not a number: %r" % b)
    return int(s)


def read_update(descs, s4):
    """Reads Section 4 of a table-update message as FM 94 prescribes for the Section 3 found (only the shapes a table
    update uses: 1 03 000 0 31 001 0 00 001-003 | 1 01 000 0 31 001/002 3 00 004 | 1 01 YYY 3 00 010), written from the
    WMO definitions of 3 00 003 / 3 00 004 / 3 00 010 and the class 00 element widths.  -> (cat, cdesc, B, D, octets used)"""
    p = 0
    cat, cdesc, B, D = None, None, [], []

    def take(n):
        nonlocal p
        if p + n > len(s4):
            raise NotLegal("Section 4 too short at octet %d (+%d)" % (p, n))
        v = s4[p:p + n]; p += n
        return v

    def fxy():
        f = atoi_field(take(W_F)); x = atoi_field(take(W_X)); y = atoi_field(take(W_Y))
        return f * 100000 + x * 1000 + y
    i = 0
    while i < len(descs):
        d = descs[i]
        if d == 103000 and descs[i + 1:i + 5] == [31001, 1, 2, 3]:
            n = take(1)[0]
            for _ in range(n):
                cat = atoi_field(take(W_CAT)); l1 = take(W_LINE); l2 = take(W_LINE)
                cdesc = (l1 + l2).decode("latin-1")
            i += 5
        elif d == 101000 and descs[i + 1] in (31001, 31002) and descs[i + 2:i + 3] == [300004]:
            n = int.from_bytes(take(1 if descs[i + 1] == 31001 else 2), "big")
            for _ in range(n):
                e = dict(desc=fxy())
                e["name"] = (take(W_LINE) + take(W_LINE)).decode("latin-1")
                e["unit"] = take(W_UNIT).decode("latin-1")
                sg = take(W_SIGN); sc = atoi_field(take(W_SCALE))
                rg = take(W_SIGN); rf = atoi_field(take(W_REF))
                if sg not in (b"+", b"-") or rg not in (b"+", b"-"):
                    raise NotLegal("sign character %r / %r" % (sg, rg))
                e["scale"] = -sc if sg == b"-" else sc
                e["ref"] = -rf if rg == b"-" else rf
                e["width"] = atoi_field(take(W_WIDTH))
                B.append(e)
            i += 3
        elif d // 1000 == 101 and d % 1000 > 0 and descs[i + 1:i + 2] == [300010]:
            for _ in range(d % 1000):
                k = fxy()
                n = take(1)[0]
                D.append((k, [atoi_field(take(W_SEQ)) for _ in range(n)]))
            i += 2
        else:
            raise NotLegal("unexpected descriptor %06d in Section 3 of a table update" % d)
    return cat, cdesc, B, D, p


# ---------------------------------------------------------------------------------------------- generation
PRINTABLE = "".join(chr(c) for c in range(33, 127))
WORDS = ["TEMPERATURE", "PRESSURE", "WIND", "SPEED", "DIRECTION", "STATION", "HEIGHT", "OF", "THE", "LOCAL", "ELEMENT", "NO.",
         "(3H)", "A/B", "IDENT.", "%", "ESTIMATED", "QUALITY", "FLAG", "INDEX"]
UNITS = ["CCITT IA5", "CODE TABLE", "FLAG TABLE", "NUMERIC", "M/S", "K", "PA", "DEGREE TRUE", "M", "%", "KG/M**2", "ccitt ia5", "Code Table",
         "TABLE CODE", "TABLEFLAG", "NUMERIQUE", "CCITTIA5", "MARQUEURS", "S", "W/M**2", "DEGREES KELVIN PER HOUR", "LOG(1/M**2)", ""]
MASTER_ELEMS = [1001, 1002, 2001, 4001, 4002, 4003, 4004, 5001, 6001, 7004, 10004, 11001, 11002, 12101, 12103, 20011, 1015, 8002]
MASTER_SEQS = [301011, 301012, 301021, 301001]


def gen_text(rng, L, blanks_at=()):
    """L characters, words separated by single blanks, no trailing blank; blanks forced at the given positions"""
    s = []
    while len(s) < L:
        if rng.random() < 0.6:
            w = rng.choice(WORDS)
        else:
            w = "".join(rng.choice(PRINTABLE) for _ in range(rng.randint(1, 9)))
        s += list(w) + [" "]
    s = s[:L]
    for p in blanks_at:
        if 0 <= p < L - 1:
            s[p] = " "
    if s and s[-1] == " ":
        s[-1] = rng.choice(PRINTABLE)
    return "".join(s)


def local_desc(rng, f, used):
    while True:
        if rng.random() < 0.6:
            x, y = rng.randint(48, 63), rng.randint(0, 255)
        else:
            x, y = rng.choice([1, 2, 4, 5, 8, 10, 11, 12, 13, 20, 21, 33, 40, 47]), rng.randint(192, 255)
        d = f * 100000 + x * 1000 + y
        if d not in used:
            used.add(d)
            return d


NAME_LENS = [0, 1, 2, 20, 31, 32, 33, 40, 44, 45, 63, 64]
UNIT_LENS = [0, 1, 9, 10, 11, 12, 23, 24]
SCALES = [0, 1, -1, 2, -2, 9, -9, 10, -10, 99, -99, 100, -100, 999, -999]
REFS = [0, 1, -1, 9, -9, 10, -10, 1000, -1000, 99999, -99999, 999999999, -999999999, 1000000000, -1000000000, INT_MAX, -INT_MAX, 2147483646, -1024, 4096]
WIDTHS = [1, 2, 7, 8, 9, 10, 16, 31, 32, 33, 64, 99, 100, 255, 256, 998, 999]


def gen_entry(rng, used, wild=True, file_ok=False):
    """one local Table B entry.  file_ok: representable in the CMC file format (name <= 44, unit <= 11, scale -99..999)"""
    d = local_desc(rng, 0, used)
    r = rng.random()
    maxn = 44 if file_ok else 64
    if r < 0.45:
        L = rng.choice([l for l in NAME_LENS if l <= maxn])
    else:
        L = rng.randint(0, maxn)
    blanks = []
    if rng.random() < 0.3:
        blanks = [rng.choice([30, 31, 32, 33])] + ([31, 32] if rng.random() < 0.3 else [])
    if rng.random() < 0.1:
        blanks += [0]
    name = gen_text(rng, L, blanks)
    if file_ok and name[:1] == " ":
        pass                                            # leading blanks survive the loader (only trailing ones are cut)
    r = rng.random()
    if r < 0.55:
        unit = rng.choice([u for u in UNITS if len(u) <= (11 if file_ok else 24)])
    elif r < 0.75:
        w = rng.choice(["CCITT IA5", "CODE TABLE", "FLAG TABLE", "NUMERIC"])
        unit = w if file_ok else (w + " " + gen_text(rng, rng.randint(1, 24 - len(w) - 1)))[:24].rstrip(" ")
    else:
        unit = gen_text(rng, rng.choice([l for l in UNIT_LENS if l <= (11 if file_ok else 24)]))
    if wild:
        scale = rng.choice(SCALES) if rng.random() < 0.7 else rng.randint(-999, 999)
        ref = rng.choice(REFS) if rng.random() < 0.7 else rng.choice([1, -1]) * rng.randint(0, INT_MAX)
        width = rng.choice(WIDTHS) if rng.random() < 0.7 else rng.randint(1, 999)
        if file_ok and scale < -99:
            scale = -99
    else:
        # an element a data message can carry
        k = tables.unit_kind(unit)
        if k == "str":
            scale, ref, width = 0, 0, 8 * rng.randint(1, 16)
        elif k in ("code", "flag"):
            scale, ref, width = 0, 0, rng.randint(1, 16)
        else:
            scale = rng.choice([0, 0, 0, 1, 2, -1, -2, 3])
            ref = rng.choice([0, 0, 5, -40, -1000, 1000, -99999, 3, 255, -2048])
            width = rng.randint(2, 24)
    return dict(desc=d, name=name, unit=unit, scale=scale, ref=ref, width=width)


def gen_seq(rng, n, Bdescs, Ddescs):
    """n descriptors: master and local elements, replication descriptors with their span, operators, sequences"""
    out = []
    while len(out) < n:
        r = rng.random()
        left = n - len(out)
        if r < 0.35 or left < 3:
            out.append(rng.choice(MASTER_ELEMS))
        elif r < 0.65 and Bdescs:
            out.append(rng.choice(Bdescs))
        elif r < 0.75:
            k = rng.randint(1, min(3, left - 1))
            out.append(100000 + k * 1000 + rng.randint(1, 5))
            out += [rng.choice(MASTER_ELEMS + Bdescs) for _ in range(k)]
        elif r < 0.82 and left >= 3:
            out += [101000, 31001, rng.choice(MASTER_ELEMS + Bdescs)]
        elif r < 0.9 and left >= 3:
            out += [201000 + rng.randint(120, 136), rng.choice(MASTER_ELEMS), 201000]
        else:
            out.append(rng.choice(MASTER_SEQS + Ddescs) if (Ddescs or MASTER_SEQS) else 1001)
    return out[:n]


def gen_case(rng, nb, nd, mode="S", dlens=None, ed=None):
    used = set()
    file_ok = (mode == "F")
    B = [gen_entry(rng, used, wild=True, file_ok=file_ok) for _ in range(nb)]
    B.sort(key=lambda e: e["desc"])
    Bd = [e["desc"] for e in B]
    D, Dd = [], []
    for i in range(nd):
        k = local_desc(rng, 3, used)
        n = dlens[i] if dlens else rng.choice([1, 2, 3, 5, 8, 39, 40, rng.randint(1, 40)])
        D.append((k, gen_seq(rng, n, Bd, Dd)))
        Dd.append(k)
    D.sort()
    cl = rng.choice([0, 1, 15, 31, 32, 33, 63, 64])
    return dict(mode=mode, ed=ed or rng.choice([2, 3, 4, 4]), cat=rng.choice([0, 1, 11, 12, 99, 100, 254, 255, rng.randint(0, 255)]),
                cdesc=gen_text(rng, cl, [31] if rng.random() < 0.3 else []), B=B, D=D)


def gen_data_case(rng, nb_extra, nd_extra):
    """mode M: some usable local elements + a local sequence made of them, a data message using both"""
    used = set()
    nuse = rng.randint(2, 6)
    use = []
    while len(use) < nuse:
        e = gen_entry(rng, used, wild=False)
        x = (e["desc"] // 1000) % 100
        if x in (31, 0):                       # class 31 is a replication factor for the codec; class 00 left to the table messages
            continue
        use.append(e)
    # make sure the kinds are covered: one string, one scaled numeric with reference
    use[0].update(unit="CCITT IA5", scale=0, ref=0, width=8 * rng.randint(1, 12))
    use[1].update(unit=rng.choice(["NUMERIC", "M", "K", "PA"]), scale=rng.choice([0, 1, 2, -1]), ref=rng.choice([0, 5, -40, -1000, 1000]), width=rng.randint(4, 24))
    B = use + [gen_entry(rng, used, wild=True) for _ in range(nb_extra)]
    B.sort(key=lambda e: e["desc"])
    ud = [e["desc"] for e in use]
    kseq = local_desc(rng, 3, used)
    seq = [rng.choice(ud) for _ in range(rng.randint(1, 4))] + [rng.choice(MASTER_ELEMS[:6])]
    rng.shuffle(seq)
    D = [(kseq, seq)]
    Dd = [kseq]
    for _ in range(nd_extra):
        k = local_desc(rng, 3, used)
        D.append((k, gen_seq(rng, rng.randint(1, 12), ud, [])))
    D.sort()
    tmpl = []
    for _ in range(rng.randint(1, 4)):
        tmpl.append(rng.choice(ud + [kseq, kseq] + MASTER_ELEMS[:6]))
    if kseq not in tmpl:
        tmpl.append(kseq)
    if not any(d in ud for d in tmpl):
        tmpl.append(ud[0])
    bydesc = {e["desc"]: e for e in use}
    mwidth = {1001: 7, 1002: 10, 2001: 2, 4001: 12, 4002: 4, 4003: 6}

    def flat(ds):
        o = []
        for d in ds:
            if d == kseq:
                o += flat(seq)
            else:
                o.append(d)
        return o
    nsub = rng.randint(1, 3)
    comp = 0
    subsets = []
    for _ in range(nsub):
        toks = []
        for d in flat(tmpl):
            if d in bydesc:
                e = bydesc[d]
                k = tables.unit_kind(e["unit"])
                if k == "str":
                    toks.append("s" + "".join(rng.choice(PRINTABLE) for _ in range(e["width"] // 8)).encode().hex())
                else:
                    w = e["width"]
                    r = rng.random()
                    v = (1 << w) - 1 if r < 0.1 else (0 if r < 0.2 else ((1 << w) - 2 if r < 0.3 else rng.randrange((1 << w) - 1)))
                    toks.append("r%x" % v)
            else:
                toks.append("r%x" % rng.randrange((1 << mwidth[d]) - 1))
        subsets.append(toks)
    c = dict(mode="M", ed=rng.choice([3, 4, 4]), cat=rng.randint(0, 255), cdesc=gen_text(rng, rng.randint(0, 64)), B=B, D=D,
             data=dict(comp=comp, tmpl=tmpl, subsets=subsets))
    return c


def gen_cases(rng, tier):
    cases = []
    quick = (tier == "quick")
    # boundary grid of the counts: 0 31 001 (8 bits) up to 255 entries, 0 31 002 from 256; the quantifier's ends 1 / 300 and 0 / 50
    for nb, nd in ([(1, 0), (2, 1), (254, 0), (255, 2), (256, 1), (257, 0), (300, 50)] if quick else
                   [(1, 0), (1, 1), (2, 1), (3, 2), (254, 0), (255, 0), (255, 3), (256, 0), (256, 2), (257, 1), (299, 49), (300, 0), (300, 50), (300, 50)]):
        cases.append(gen_case(rng, nb, nd, "S"))
    # Table D sequence lengths 1..40 (all of them over a few cases)
    lens = list(range(1, 41))
    rng.shuffle(lens)
    cases.append(gen_case(rng, 3, 40, "S", dlens=lens))
    cases.append(gen_case(rng, 5, 50, "S", dlens=[40] * 25 + [1] * 25))
    # scale / reference / width grids: one entry per boundary value
    for ed in (2, 3, 4):
        used = set()
        B = []
        for sc in SCALES:
            e = gen_entry(rng, used); e["scale"] = sc; B.append(e)
        for rf in REFS:
            e = gen_entry(rng, used); e["ref"] = rf; B.append(e)
        for w in WIDTHS:
            e = gen_entry(rng, used); e["width"] = w; B.append(e)
        for L in NAME_LENS:
            for bl in ((), (31,), (32,), (30, 31, 32, 33), (0,)):
                e = gen_entry(rng, used); e["name"] = gen_text(rng, L, bl); B.append(e)
        for u in UNITS:
            e = gen_entry(rng, used); e["unit"] = u; B.append(e)
        for L in UNIT_LENS:
            e = gen_entry(rng, used); e["unit"] = gen_text(rng, L); B.append(e)
        B.sort(key=lambda e: e["desc"])
        c = gen_case(rng, 0, 3, "S", ed=ed)
        c["B"] = B
        cases.append(c)
    # random table sets, sizes over the whole quantifier
    for _ in range(25 if quick else 260):
        nb = rng.choice([1, 2, 3, 5, 10, 30, 100, rng.randint(1, 300)])
        nd = rng.choice([0, 0, 1, 2, 5, rng.randint(0, 50)])
        cases.append(gen_case(rng, nb, nd, "S"))
    # through the CMC local-table files (bufr_load_l_tableB / bufr_load_l_tableD)
    for _ in range(8 if quick else 60):
        nb = rng.choice([1, 2, 5, 20, rng.randint(1, 300)])
        nd = rng.choice([0, 1, 3, rng.randint(0, 50)])
        cases.append(gen_case(rng, nb, nd, "F"))
    # data messages decoded with the original and with the extracted tables
    for _ in range(25 if quick else 250):
        cases.append(gen_data_case(rng, rng.choice([0, 1, 5, 40]), rng.choice([0, 1, 4])))
    return cases


# ---------------------------------------------------------------------------------------------- the check
FINDING_UNINIT = "extract_uninit_encoding"


def features(case):
    f = ["mode_" + case["mode"], "ed%d" % case["ed"]]
    nb, nd = len(case["B"]), len(case["D"])
    f.append("nB_1" if nb == 1 else "nB_2..254" if nb < 255 else "nB_255" if nb == 255 else "nB_256" if nb == 256 else "nB_257..300")
    f.append("nD_0" if nd == 0 else "nD_1..49" if nd < 50 else "nD_50")
    for e in case["B"]:
        L = len(e["name"])
        f.append("name_len_%s" % (L if L in (0, 31, 32, 33, 63, 64) else "other"))
        if L > 32 and " " in (e["name"][31], e["name"][32]):
            f.append("name_blank_at_line_break")
        f.append("unit_len_%s" % (len(e["unit"]) if len(e["unit"]) in (0, 11, 12, 23, 24) else "other"))
        f.append("kind_" + tables.unit_kind(e["unit"]))
        f.append("scale_neg" if e["scale"] < 0 else "scale_0" if e["scale"] == 0 else "scale_pos")
        if abs(e["scale"]) == 999:
            f.append("scale_abs_999")
        f.append("ref_neg" if e["ref"] < 0 else "ref_0" if e["ref"] == 0 else "ref_pos")
        if abs(e["ref"]) >= 1000000000:
            f.append("ref_10_digits")
        if abs(e["ref"]) == INT_MAX:
            f.append("ref_abs_int_max")
        if e["width"] in (1, 999):
            f.append("width_%d" % e["width"])
    for k, s in case["D"]:
        f.append("seq_len_%s" % (len(s) if len(s) in (1, 40) else "2..39"))
    return f


def run(rep, tier, seed, replay=None):
    rep.level = "proof"
    proved = vlib.proof_step(rep, "Properties_C20")
    exe = vlib.build_harness("c20", wrap=["exit"])
    drv = vlib.extract_and_build_driver("c20")
    rng = random.Random(seed)
    if replay and replay.get("case_obj"):
        cases = [replay["case_obj"]]
    else:
        cases = gen_cases(rng, tier)
    sdir = os.path.join(vlib.scratch(), "c20_tables")
    os.makedirs(sdir, exist_ok=True)
    for i, c in enumerate(cases):
        if c["mode"] == "F":
            c["files"] = write_cmc_files(c, sdir, i)
    known = {f.get("match") for f in vlib.known_findings("C20")}
    clines = [c_line(c) for c in cases]
    mlines = [m_line(c) for c in cases]
    rc, cout, cerr = vlib.run_cases(exe, "\n".join(clines) + "\n", timeout=3000)
    rc2, mout, merr = vlib.sh([drv], input=("\n".join(mlines) + "\n").encode(), timeout=3000)
    mout = mout.split("\n")
    feat = collections.Counter()
    nviol = 0
    nvalid = 0
    seen_findings = set()
    for i, c in enumerate(cases):
        key = clines[i]
        rep.count(key if c["mode"] != "F" else "F " + mlines[i])
        for ft in set(features(c)):
            feat[ft] += 1
        died = i >= len(cout) - 1
        cl = cout[i] if not died else ""
        ml = mout[i] if i < len(mout) else ""
        robj = {"kind": "c20", "case": key[:20000], "case_obj": {k: v for k, v in c.items() if k != "files"}, "library": cl[:3000], "model": ml[:3000]}
        if died:
            msg = " | ".join(l for l in cerr.split("\n") if "ERROR" in l or "SUMMARY" in l or "runtime error" in l)[:500]
            rep.violation("C20: the library crashed or was stopped by the sanitizer while storing/extracting this table set: %s  [case: %s]" % (msg, key[:300]), robj)
            nviol += 1
            break
        fail, corr, finding = evaluate(c, cl, ml)
        if i % 29 == 0:
            rep.sample({"case": key[:300], "library": cl[:200], "model": ml[:200]})
        nvalid += 1
        if finding and not fail:
            if FINDING_UNINIT in known:
                cls = "decode" if finding.startswith("a message decoded") else "fields"
                if cls not in seen_findings:
                    seen_findings.add(cls)
                    rep.finding("match=%s %s (first case: %s)" % (FINDING_UNINIT, finding, key[:160]))
            else:
                fail = finding
        if fail:
            rep.violation("C20: %s  [case: %s]" % (fail, key[:400]), robj)
            nviol += 1
        elif corr:
            rep.violation("C20: correspondence LocalTab.v <-> bufr_local.c broken: %s; the oracle accepts the library's behaviour  [case: %s]" % (corr, key[:300]),
                          dict(robj, correspondence=corr), no_input=True)
            nviol += 1
        if nviol > 8:
            break
    if ("ERROR: AddressSanitizer" in cerr or "runtime error" in cerr) and not rep.violations:
        rep.violation("C20: sanitizer report while storing/extracting tables: " + " | ".join(l for l in cerr.split("\n") if "ERROR" in l or "runtime error" in l)[:600],
                      {"kind": "c20", "stderr": cerr[-3000:]}, no_input=True)
    if not proved and not rep.violations:
        rep.violation("C20: proof obligations no longer check (see log) and no failing input was found by the correspondence run",
                      getattr(rep, "proof_broken", {}), no_input=True)
    rep.cov["traces_validated_against_impl"] = nvalid
    rep.cov["rule"] = ("table sets: count grid {1,2,254,255,256,257,300} x {0,1,2,50} Table D entries; all sequence lengths 1..40; per edition one set with every boundary "
                       "scale (0, +-1, +-9, +-10, +-99, +-100, +-999), reference (0 .. +-(2^31-1), 9/10 digits), width (1..999), name length "
                       "(0,1,31,32,33,63,64 with blanks at the 32-character line break and leading blanks), unit (type words, lengths 0..24); random sets over the "
                       "whole quantifier; sets loaded from CMC-format files; data messages decoded with original vs extracted tables. "
                       "distinct = distinct case lines; every case performs store+read+decode+extract compared with model and oracle")
    rep.cov["distribution"] = dict(sorted(feat.items()))
    rep.cov["exhaustive"] = False
    rep.assumptions = ["table entries are built through the public structures (EntryTableB/arr_add) for names > 44 / units > 11 characters, which the CMC file format cannot hold",
                       "the receiver decodes the update message with the CMC master tables of /repo/Tables only"]


def evaluate(c, cl, ml):
    """-> (oracle failure or None, correspondence failure or None, known-finding text or None)"""
    try:
        o = parse_out(cl)
    except Exception as e:
        return "unparsable harness output (%s): %s" % (e, cl[:200]), None, None
    wantB, wantD = canon_tables(c["B"], c["D"])
    if o["rc"] is None:
        return "unparsable harness output: %s" % cl[:200], None, None
    # the tables the library holds before storing are the generated ones (F mode: the loader read the files as the format says)
    if o["orig"] is not None:
        ob, od = canon_tables(o["orig"]["B"], o["orig"]["D"])
        if (ob, od) != (wantB, wantD):
            return None, "the harness did not install the generated tables (mode %s): %s" % (c["mode"], first_diff(wantB, wantD, ob, od)), None
    if o["rc"] != 0:
        return "store/read/decode/extract failed with rc=%d (-1 nothing written, -2 unreadable, -3 undecodable, -4 no tables extracted, -5 abort, -6 exit)" % o["rc"], None, None
    # (1) the stored message
    try:
        p = bufrmsg.parse(o["msg"])
    except Exception as e:
        return "the stored table-update message is not well framed: %s" % e, None, None
    if p["s1f"]["cat"] != 11:
        return "the stored message has data category %d, a table update is category 11" % p["s1f"]["cat"], None, None
    if p["nsub"] != 1 or p["compressed"]:
        return "the stored message has %d subsets / compression flag %s" % (p["nsub"], p["compressed"]), None, None
    try:
        cat, cdesc, rB, rD, used = read_update(p["descs"], p["s4"])
    except (NotLegal, IndexError) as e:
        return "Section 4 of the stored message cannot be read with its Section 3 (%s): %s" % (" ".join("%06d" % d for d in p["descs"]), e), None, None
    if any(p["s4"][used:]) or len(p["s4"]) - used > 1:
        return "Section 4 of the stored message has %d octets after the last field" % (len(p["s4"]) - used), None, None
    rb, rd = canon_tables(rB, rD)
    if (rb, rd) != (wantB, wantD):
        return "the stored message does not carry the tables given: " + first_diff(wantB, wantD, rb, rd), None, None
    if c["B"] and (cat != c["cat"] or rtrim(cdesc or "") != rtrim(c["cdesc"])):
        return "the stored message carries category %r / %r, the tables have %d / %r" % (cat, cdesc, c["cat"], c["cdesc"]), None, None
    if o["inv"]:
        return "the library's own decoder flags the stored table-update message as invalid", None, None
    # (2) the extracted tables
    x = o["extr"]
    xb = sorted((e["desc"], e["name"], e["unit"], e["scale"], e["ref"], e["width"], e["type"]) for e in x["B"])
    xd = sorted((k, tuple(s)) for k, s in x["D"])
    if (xb, xd) != (wantB, wantD):
        return "the extracted tables differ from the stored ones: " + first_diff(wantB, wantD, xb, xd), None, None
    if c["B"] and (x["cat"] != c["cat"] or rtrim(x["cdesc"]) != rtrim(c["cdesc"])):
        return "the extracted tables have category %d / %r, the stored ones %d / %r" % (x["cat"], x["cdesc"], c["cat"], c["cdesc"]), None, None
    finding = None
    dirty = [(e["desc"], a) for e, a in zip(x["B"], x["aux"]) if a != (0, 0)]
    # (3) decoding with the extracted tables
    fail = None
    if c["mode"] == "M":
        d = o["data"]
        if "MSG" not in d or not d["MSG"].startswith("rc=0"):
            return None, "the data message of the case could not be encoded with the original tables: %s" % d.get("MSG", "")[:100], None
        if not d.get("DO", "").startswith("rc=0") or " inv=1" in d["DO"][:40]:
            return None, "the data message does not decode with the original tables: %s" % d.get("DO", "")[:100], None
        if "FXBAD=" in d.get("MSG", ""):
            fb = d["MSG"].split("FXBAD=")[1].split()[0]
            fail = ("after merging the extracted tables into master tables that had looked the descriptors up before, a lookup of %s answers with width/scale/reference %s "
                    "instead of the definition the update carried" % (fb.split(":")[0], fb.split(":")[1]))
        elif d.get("DX") != d.get("DO"):
            what = "a message decoded with master + extracted tables differs from its decoding with the original tables: %s" % listing_diff(d.get("DO", ""), d.get("DX", ""))
            if dirty and d.get("DN") == d.get("DO"):
                finding = what + " (the extracted entries carry indeterminate af_nbits/ref_nbits)"
            else:
                fail = what
    if dirty and not finding and not fail:
        finding = ("bufr_extract_tables returns Table B entries whose encoding.af_nbits/ref_nbits are uninitialised stack bytes "
                   "(descriptor %06d: af_nbits=%d ref_nbits=%d)" % (dirty[0][0], dirty[0][1][0], dirty[0][1][1]))
    if fail:
        return fail, None, None
    # correspondence with the model
    corr = None
    try:
        m = parse_out(ml)
        if m["s3"] != p["descs"]:
            corr = "Section 3: library %s, model store %s" % (p["descs"], m["s3"])
        elif m["s4"] != p["s4"][:len(m["s4"])] or any(p["s4"][len(m["s4"]):]) or len(p["s4"]) - len(m["s4"]) > 1:
            corr = "Section 4: library %s..., model store %s... (first difference at octet %d)" % (
                p["s4"][:40].hex(), m["s4"][:40].hex(), next((k for k in range(min(len(m["s4"]), len(p["s4"]))) if m["s4"][k] != p["s4"][k]), min(len(m["s4"]), len(p["s4"]))))
        elif m["extr"] is None:
            corr = "the model extracted nothing: %s" % ml[:120]
        elif tables_key(m["extr"]) != tables_key(x):
            corr = "extracted tables: library %s, model %s" % (str(tables_key(x))[:300], str(tables_key(m["extr"]))[:300])
        elif c["mode"] == "M":
            # the model's mirror of bufr_encoding_to_valtype against the type the library holds each local element's value in
            vt = m.get("vt") or {}
            code = {"i": 0, "l": 1, "d": 2, "s": 3}
            for it in o["data"].get("DO", "").split():
                f = it.split("/")
                if len(f) == 7 and f[0].isdigit() and int(f[0]) in vt and f[6][:1] in code and not (int(f[1], 16) & 0x4):
                    if code[f[6][0]] != vt[int(f[0])]:
                        corr = "value type of %s: library holds %s, model entry_valtype says %d" % (f[0], f[6][:1], vt[int(f[0])])
                        break
    except Exception as e:
        corr = "unparsable model output (%s): %s" % (e, ml[:200])
    return None, corr, finding


def first_diff(wb, wd, gb, gd):
    if len(wb) != len(gb):
        return "%d Table B entries instead of %d" % (len(gb), len(wb))
    for a, b in zip(wb, gb):
        if a != b:
            names = ("descriptor", "name", "unit", "scale", "reference", "width", "type")
            k = next(i for i in range(7) if a[i] != b[i])
            return "Table B %06d: %s %r instead of %r" % (a[0], names[k], b[k], a[k])
    if len(wd) != len(gd):
        return "%d Table D entries instead of %d" % (len(gd), len(wd))
    for a, b in zip(wd, gd):
        if a != b:
            return "Table D %06d: sequence %s (key %06d) instead of %s" % (a[0], list(b[1])[:12], b[0], list(a[1])[:12])
    return "?"


def listing_diff(a, b):
    ta, tb = a.split(), b.split()
    for x, y in zip(ta, tb):
        if x != y:
            return "%s with the original tables, %s with the extracted ones" % (x, y)
    return "%d items vs %d items" % (len(ta), len(tb))
