# c07.py — property C07: re-encoding a decoded message is stable (decode-encode idempotent).
# proof: Properties_C07.v (model scope: operators 2 01-2 08); tie: the messages are those of C03/C04 (library-made and
# reference-made); library-only exploration part: the shipped sample corpus (bitmap/quality operators are outside the
# model) - reported separately in the evidence.
import glob, os, random, collections
import vlib, codec, gen, bufrmsg, codecrun


def chain(ctx, msgs, local=False):
    """m -> m' = enc(dec(m)) -> m'' = enc(dec(m')); returns per message dict"""
    import os
    pre = ["TABLES %s %s" % (os.path.join(vlib.REPO, "Test", "local_table_b"), os.path.join(vlib.REPO, "Test", "local_table_d"))] if local else []
    run = lambda lines: ctx.run_c(pre + lines)[len(pre):]
    r1 = run(["R %s -1" % m for m in msgs])
    h1 = [codec.parse_c_listing(o)[0] for o in r1]
    m1 = [h.get("msg") for h in h1]
    r2 = run(["R %s -1" % (m or "00") for m in m1])
    h2 = [codec.parse_c_listing(o)[0] for o in r2]
    d0 = run(["D %s" % m for m in msgs])
    d1 = run(["D %s" % (m or "00") for m in m1])
    return h1, h2, d0, d1


def listing_key(line):
    h, subs = codec.parse_c_listing(line)
    return (h.get("rc"), h.get("nsub"), [[(e["desc"], e["width"], e["val"], e["af"]) for e in codec.c_elements(s)] for s in subs])


def run(rep, tier, seed, replay=None):
    proved = vlib.proof_step(rep, "Properties_C07")
    ctx = codec.Ctx()
    rng = random.Random(seed)
    n = 300 if tier == "quick" else 4000
    msgs = []   # (origin, hex, own)
    if replay and replay.get("message"):
        msgs = [(replay.get("origin", "replay"), replay["message"], replay.get("own", False))]
    else:
        gen.WIDE_INTS = True          # C07 quantifies over data widths of 1..64 bits (32 for scaled numerics)
        try:
            plain, _ = codecrun.gen_cases(ctx, rng, n, comp_mode=False)
            comp, _ = codecrun.gen_cases(ctx, rng, n, comp_mode=True)
        finally:
            gen.WIDE_INTS = False
        jobs = [(c, 1 if (c["same"] and len(c["subsets"]) >= 2) else 0) for c in plain + comp]
        # library-made messages
        outs = ctx.run_c([gen.case_line(c["ed"], cm, c["tmpl"], c["subsets"]) for c, cm in jobs])
        for (c, cm), o in zip(jobs, outs):
            h = codec.parse_c_listing(o)[0]
            if h.get("rc") == "0":
                msgs.append(("library", h["msg"], True))
        # reference-made messages with other legal choices
        mo = ctx.run_model([gen.case_line(c["ed"], cm, c["tmpl"], c["subsets"], seed=rng.randint(1, 10 ** 6), model=True) for c, cm in jobs[::2]])
        for (c, cm), o in zip(jobs[::2], mo):
            if o.startswith("ENC ok") and len(o.split()) > 3:
                msgs.append(("reference", bufrmsg.build(c["ed"], c["tmpl"], len(c["subsets"]), bool(cm), bytes.fromhex(o.split()[3])).hex(), False))
        # 2 03 YYY (new reference values) only through the decoder: reference-made messages (the API encode path of 2 03 is a known finding of C09)
        c203, _ = codecrun.gen_cases(ctx, rng, max(n // 3, 20), comp_mode=False, allow203=True)
        c203 = [c for c in c203 if any(203000 < d < 203255 for d in c["tmpl"])]
        mo = ctx.run_model([gen.case_line(c["ed"], 0, c["tmpl"], c["subsets"], seed=rng.randint(1, 10 ** 6), model=True) for c in c203])
        for c, o in zip(c203, mo):
            if o.startswith("ENC ok") and len(o.split()) > 3:
                msgs.append(("reference203", bufrmsg.build(c["ed"], c["tmpl"], len(c["subsets"]), False, bytes.fromhex(o.split()[3])).hex(), False))
    nmodel = len(msgs)
    # corpus (exploration of the implementation only)
    corpus = []
    if not replay:
        files = sorted(glob.glob(os.path.join(vlib.REPO, "Test", "BUFR", "*.bufr")) + glob.glob(os.path.join(vlib.REPO, "Test", "BUFR", "*.BUFR")))
        seen = set()
        for f in files:
            if f in seen or os.path.isdir(f):
                continue
            seen.add(f)
            try:
                data = open(f, "rb").read()
            except Exception:
                continue
            if b"BUFR" in data[:4096] and len(data) < 200000:
                corpus.append((os.path.basename(f), data.hex(), False))
    allm = msgs + corpus
    h1, h2, d0, d1 = chain(ctx, [m for _, m, _ in msgs])
    if corpus:
        c1, c2, c3, c4 = chain(ctx, [m for _, m, _ in corpus], local=True)
        h1 += c1; h2 += c2; d0 += c3; d1 += c4
    feat = collections.Counter()
    nviol = 0
    for i, (origin, m, own) in enumerate(allm):
        if i >= len(h1) or i >= len(h2) or i >= len(d0) or i >= len(d1):
            rep.violation("C07: the library crashed in a decode/encode chain: %s" % ctx.sanitizer_summary(), {"kind": "codec", "message": m, "origin": origin})
            break
        in_model = i < nmodel
        rep.count(m[:200] + str(len(m)))
        feat["origin_" + (origin if in_model else "corpus")] += 1
        dh0 = codec.parse_c_listing(d0[i])[0]
        if dh0.get("rc") != "0" or dh0.get("invalid") != "0":
            feat["not_decodable_or_invalid"] += 1
            continue        # the property speaks about messages that decode without being flagged invalid
        if i % 151 == 0:
            rep.sample({"origin": origin, "message": m[:120], "reencoded": (h1[i].get("msg") or "")[:120]})
        robj = {"kind": "codec", "origin": origin, "own": own, "message": m, "m1": h1[i].get("msg"), "m2": h2[i].get("msg")}
        fail = None
        if h1[i].get("rc") != "0":
            fail = "re-encoding the decoded message failed (rc=%s)" % h1[i].get("rc")
        elif h2[i].get("rc") != "0":
            fail = "the second decode/encode round failed (rc=%s)" % h2[i].get("rc")
        elif h2[i].get("msg") != h1[i].get("msg"):
            fail = "encode(decode(m')) differs from m' (not a fixed point)"
        elif listing_key(d1[i]) != listing_key(d0[i]):
            fail = "m' decodes to a dataset different from m's"
        elif own:
            # Section 1 time etc. are carried: byte identity is required for the library's own output
            if h1[i].get("msg") != m:
                fail = "re-encoding the library's own message does not reproduce it byte for byte"
        if fail:
            rep.violation("C07: %s  [origin %s, message %s...]" % (fail, origin, m[:80]), robj)
            nviol += 1
        if nviol > 10:
            break
    if not proved and not rep.violations:
        rep.violation("C07: proof obligations no longer check and the correspondence run found no failing input", getattr(rep, "proof_broken", {}), no_input=True)
    rep.cov["traces_validated_against_impl"] = len(allm)
    rep.cov["rule"] = ("messages: library-made and reference-made (other legal compressed choices) over the C01/C02 space, plus the shipped sample files Test/BUFR/* "
                       "(exploration of the implementation only: bitmap/quality operators are outside the Coq model); for each m: m'=enc(dec m), m''=enc(dec m'); "
                       "require m''=m', dec m' = dec m, and m'=m for library-made m. distinct = distinct messages")
    rep.cov["distribution"] = dict(feat)
    rep.cov["explanation_partial"] = "theorems cover operators 2 01-2 08; the corpus part (%d files) is C-against-C exploration" % len(corpus)
