(* extraction of the C08 model: ExtrOcamlBasic only, no directives of our own *)
From Coq Require Import ExtrOcamlBasic.
From V Require Import ScalSpec ScalImpl.
Extraction "c08_model.ml" cvt_i64_to_dval cvt_dval_to_i64 cvt_i32_to_fval cvt_fval_to_i32 missing_ivalue value_nbits
  cvt_ivalue negative_ivalue get_range set_dvalue_stored pow10_rn B2Q quantQ rawQ physQ is_missing_double is_missing_float dbl_max.
