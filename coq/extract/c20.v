(* extraction of the C20 model: ExtrOcamlBasic only, no directives of our own *)
From Coq Require Import ExtrOcamlBasic.
From V Require Import LocalTab.
Extraction "c20_model.ml" store store_bytes fields_bytes decode_elements extract roundtrip cat_desc64 unit_kind kind_code T0 nbits_of entry_valtype vtype_code.
