(* extraction of the C13 model: ExtrOcamlBasic only, no directives of our own *)
From Coq Require Import ExtrOcamlBasic.
From V Require Import Dump.
Extraction "c13_model.ml" print_scaled parse_decimal requant trim_zeros print_binary str_is_binary binary_to_int
  print_string set_svalue print_item print_dataset load_rest classify load_subset_lines load_dataset load_file file_lines
  classify_hdr load_header print_header dec_int hex_nat.
