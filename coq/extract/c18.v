(* extraction of the C18 model: ExtrOcamlBasic only, no directives of our own *)
From Coq Require Import ExtrOcamlBasic.
From V Require Import Walk Fm94 Fm94Exp Tmpl.
Extraction "c18_model.ml" save_text load_text copy tcompare gexpand norm digits_val print_Z quant vtype_of nbits_inc.
