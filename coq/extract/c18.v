(* extraction of the C18 models (Tmpl.v: the code as it stands; Tmpl2.v: the corrected text format): ExtrOcamlBasic only *)
From Coq Require Import ExtrOcamlBasic.
From V Require Import Walk Fm94 Fm94Exp Tmpl Tmpl2.
Extraction "c18_model.ml" save_text load_text save2_text load2_text copy tcompare gexpand norm digits_val print_Z quant vtype_of nbits_inc.
