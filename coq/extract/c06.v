(* extraction of the C06 model: ExtrOcamlBasic only, no directives of our own *)
From Coq Require Import ExtrOcamlBasic.
From V Require Import Frame.
Extraction "c06_model.ml" wr rd rd_all schar2oct oct2char cfg_current cfg_fixed lenmsg s1len s2len s3len s4len.
