(* extraction of the C11 model: ExtrOcamlBasic only, no directives of our own *)
From Coq Require Import ExtrOcamlBasic.
From V Require Import BitIO.
Extraction "c11_model.ml" putbits putstring put_padstring wbytes winit getbits skip_bits getstring.
