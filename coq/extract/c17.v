(* extraction of the C17 model: ExtrOcamlBasic only, no directives of our own *)
From Coq Require Import ExtrOcamlBasic.
From V Require Import Search.
Extraction "c17_model.ml" find_values find_descriptor expand_qualifiers set_key_int32 set_key_flt32 set_key_string
  set_key_values set_key_qualifier set_key_qualifier_int32 set_key_qualifier_flt32 set_key_callback set_key_meta_callback
  cb_missing cb_notmissing cb_qual first_match pos_match split_keys rnd32.
