(* extraction of the FM 94 reference codec: ExtrOcamlBasic only, no directives of our own *)
From Coq Require Import ExtrOcamlBasic.
From V Require Import Walk Fm94 Fm94Exp Fm94Slice.
Extraction "fm94_model.ml" enc_plain dec_plain enc_comp dec_comp layout bits_to_bytes bytes_to_bits enc_numcol choice0 mk_field resolve op0 nbits_inc allones sexpand well_nested accepts dec_comp_range dec_plain_range merge.
