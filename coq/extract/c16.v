(* extraction of the ownership machine: ExtrOcamlBasic only.  N.succ / Z.succ are listed only so that the number
   types used by ocaml/conv.ml are part of the extracted module. *)
From Coq Require Import ExtrOcamlBasic NArith ZArith.
From V Require Import Own.
Extraction "c16_model.ml" run legal step N.succ Z.succ.
