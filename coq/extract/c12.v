(* extraction of the C12 model: ExtrOcamlBasic only, no directives of our own *)
From Coq Require Import ExtrOcamlBasic.
From V Require Import Tables.
Extraction "c12_model.ml" run empty_state hempty use_tables_list current_code all_fixed.
