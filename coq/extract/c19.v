(* extraction of the C19 model: ExtrOcamlBasic only, no directives of our own *)
From Coq Require Import ExtrOcamlBasic.
From V Require Import IeeeSoft Fm94 IeeeCol.
Extraction "c19_model.ml" run_encode run_encode_exact run_decode spec_encode use_C_ieee754 check_compliance fmt32 fmt64 ieee_col_enc ieee_col_dec_range bits_to_bytes bytes_to_bits.
