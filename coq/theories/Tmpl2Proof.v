(* Tmpl2Proof.v — the corrected text format (Tmpl2.v) carries every default: save2 then load2 is the identity on every
   template whose defaults have the element's own type. *)
From Coq Require Import List ZArith NArith Arith Lia Bool ZifyBool.
From V Require Import Walk Fm94 Fm94Exp Tmpl TmplProof Tmpl2.
Import ListNotations.
Local Open Scope Z_scope.
Ltac Zify.zify_post_hook ::= Z.div_mod_to_equations.

Arguments print_g17 : simpl never.
Arguments strtod : simpl never.
Arguments Z.mul : simpl never.
Arguments Z.add : simpl never.
Arguments Z.pow : simpl never.
Arguments Z.div : simpl never.
Arguments Z.modulo : simpl never.

(* ------------------------------------------------------------------ %.17g is one plain token that starts with a digit or '-' *)
Definition gchar (c:Z) : bool := isdigit c || (c =? 43) || (c =? 45) || (c =? 46) || (c =? 101).
Lemma isdigit_gchar c : isdigit c = true -> gchar c = true.
Proof. unfold gchar. intros ->. reflexivity. Qed.
Lemma fixed_digits_length : forall k n, length (fixed_digits k n) = k.
Proof. induction k as [|k IH]; intro n; [reflexivity|]. cbn [fixed_digits]. rewrite app_length, IH. cbn. lia. Qed.
Lemma allb_firstn (p:Z -> bool) : forall n l, allb p l = true -> allb p (firstn n l) = true.
Proof.
  induction n as [|n IH]; intros l H; [reflexivity|]. destruct l as [|c l]; [reflexivity|].
  cbn in *. apply andb_true_iff in H as [Hc Hl]. rewrite Hc, (IH _ Hl). reflexivity.
Qed.
Lemma allb_skipn (p:Z -> bool) : forall n l, allb p l = true -> allb p (skipn n l) = true.
Proof.
  induction n as [|n IH]; intros l H; [exact H|]. destruct l as [|c l]; [reflexivity|].
  cbn in *. apply andb_true_iff in H as [Hc Hl]. exact (IH _ Hl).
Qed.
Lemma allb_repeat (p:Z -> bool) c n : p c = true -> allb p (repeat c n) = true.
Proof. intro H. induction n as [|n IH]; [reflexivity|]. cbn. rewrite H, IH. reflexivity. Qed.
Lemma allb_strip (p:Z -> bool) l : allb p l = true -> allb p (rev (strip0 (rev l))) = true.
Proof. intro H. rewrite allb_rev. apply strip0_allb. rewrite allb_rev. exact H. Qed.
Lemma allb_opt_point (p:Z -> bool) fp : p 46 = true -> allb p fp = true -> allb p (match fp with [] => [] | _ :: _ => 46 :: fp end) = true.
Proof. intros H46 H. destruct fp as [|c t]; [reflexivity|]. cbn [forallb]. rewrite H46. exact H. Qed.

(* the body of print_g17 behind the sign, as a function of the digits and the exponent *)
Definition g17_body (ds:text) (k:Z) : text :=
  let strip l := rev (strip0 (rev l)) in
  if (0 <=? k) && (k <? 17) then
     let fp := strip (skipn (Z.to_nat (k + 1)) ds) in
     firstn (Z.to_nat (k + 1)) ds ++ match fp with [] => [] | _ => 46 :: fp end
   else if (-4 <=? k) && (k <? 0) then
     48 :: 46 :: repeat 48 (Z.to_nat (- k - 1)) ++ strip ds
   else
     let fp := strip (tl ds) in
     firstn 1 ds ++ (match fp with [] => [] | _ => 46 :: fp end)
     ++ [101] ++ (if k <? 0 then [45] else [43]) ++ (if Z.abs k <? 10 then [48] else []) ++ dec (Z.abs k).
Lemma g17_body_gchar ds k : allb isdigit ds = true -> allb gchar (g17_body ds k) = true.
Proof.
  intro Hd. assert (Hg : allb gchar ds = true) by (eapply allb_impl; [apply isdigit_gchar | exact Hd]).
  unfold g17_body. destruct ((0 <=? k) && (k <? 17)).
  - rewrite allb_app, allb_firstn by exact Hg. apply allb_opt_point; [reflexivity|]. apply allb_strip, allb_skipn, Hg.
  - destruct ((-4 <=? k) && (k <? 0)).
    + cbn [forallb]. change (gchar 48) with true. change (gchar 46) with true. cbn [andb].
      rewrite allb_app, allb_repeat by reflexivity. apply allb_strip, Hg.
    + rewrite !allb_app. rewrite allb_firstn by exact Hg.
      rewrite allb_opt_point; [|reflexivity|apply allb_strip; destruct ds; [reflexivity|cbn in Hg; apply andb_true_iff in Hg; tauto]].
      replace (allb gchar (if k <? 0 then [45] else [43])) with true by (destruct (k <? 0); reflexivity).
      replace (allb gchar (if Z.abs k <? 10 then [48] else [])) with true by (destruct (Z.abs k <? 10); reflexivity).
      rewrite (allb_impl isdigit gchar _ isdigit_gchar (dec_digits _)). reflexivity.
Qed.
Lemma g17_body_head ds k : length ds = 17%nat -> allb isdigit ds = true -> exists c t, g17_body ds k = c :: t /\ isdigit c = true.
Proof.
  intros Hl Hd. destruct ds as [|c0 t0]; [discriminate|]. cbn in Hd. apply andb_true_iff in Hd as [Hc0 _].
  unfold g17_body. destruct ((0 <=? k) && (k <? 17)) eqn:E1.
  - assert (exists n, Z.to_nat (k + 1) = S n) as [n ->] by (exists (Z.to_nat k); lia).
    cbn [firstn app]. eexists. eexists. split; [reflexivity | exact Hc0].
  - destruct ((-4 <=? k) && (k <? 0)).
    + eexists. eexists. split; [reflexivity | reflexivity].
    + cbn [firstn app]. eexists. eexists. split; [reflexivity | exact Hc0].
Qed.
Lemma print_g17_shape m e : m <> 0 -> exists ds k, length ds = 17%nat /\ allb isdigit ds = true /\
  print_g17 m e = (if m <? 0 then [45] else []) ++ g17_body ds k.
Proof.
  intro Hm. unfold print_g17. replace (m =? 0) with false by lia.
  destruct (frac_of (Z.abs m) e) as [n d].
  set (k1 := up10 8 n d _).
  destruct (scale10 n d (k1 - 16)) as [a b].
  destruct (10 ^ 17 <=? rhe a b).
  - exists (fixed_digits 17 (rhe a b / 10)), (k1 + 1). split; [apply fixed_digits_length|]. split; [apply fixed_digits_digits|]. reflexivity.
  - exists (fixed_digits 17 (rhe a b)), k1. split; [apply fixed_digits_length|]. split; [apply fixed_digits_digits|]. reflexivity.
Qed.
Lemma print_g17_gchar m e : allb gchar (print_g17 m e) = true.
Proof.
  destruct (Z.eq_dec m 0) as [->|Hm]; [reflexivity|].
  destruct (print_g17_shape m e Hm) as (ds & k & _ & Hd & ->). rewrite allb_app, g17_body_gchar by exact Hd.
  destruct (m <? 0); reflexivity.
Qed.
Lemma print_g17_head m e : exists c t, print_g17 m e = c :: t /\ zchar c = true.
Proof.
  destruct (Z.eq_dec m 0) as [->|Hm]; [exists 48, []; split; reflexivity|].
  destruct (print_g17_shape m e Hm) as (ds & k & Hl & Hd & ->).
  destruct (m <? 0); [exists 45; eexists; split; reflexivity|].
  destruct (g17_body_head ds k Hl Hd) as (c & t & -> & Hc). exists c, t. split; [reflexivity | apply isdigit_zchar, Hc].
Qed.

(* ------------------------------------------------------------------ plain tokens *)
(* a character of a printed number or of MSNG: no delimiter of any kind, no quote, no NUL *)
Definition pchar (c:Z) : bool := gchar c || (c =? 77) || (c =? 83) || (c =? 78) || (c =? 71).
Lemma pchar_props c : pchar c = true ->
  dl_plain_end c = false /\ dl_next c = false /\ (c =? 34) = false /\ (c =? 0) = false /\ (c =? 10) = false.
Proof. unfold pchar, gchar, isdigit, dl_plain_end, dl_next. intro H. repeat split; lia. Qed.
Lemma zchar_pchar c : zchar c = true -> pchar c = true.
Proof. unfold zchar, pchar, gchar, isdigit. lia. Qed.
Lemma gchar_pchar c : gchar c = true -> pchar c = true.
Proof. unfold pchar. intros ->. reflexivity. Qed.

Lemma span_plain_tok : forall a rest, allb pchar a = true -> (rest = [] \/ exists r, rest = 44 :: r) -> span_plain (a ++ rest) = (a, rest).
Proof.
  induction a as [|c a IH]; intros rest Ha Hr.
  - destruct Hr as [->|[r ->]]; reflexivity.
  - cbn in Ha. apply andb_true_iff in Ha as [Hc Ha]. cbn [app span_plain].
    destruct (pchar_props _ Hc) as (-> & _). rewrite (IH _ Ha Hr). reflexivity.
Qed.
Lemma next_value_plain tok rest : tok <> [] -> allb pchar tok = true -> (rest = [] \/ exists r, rest = 44 :: r) ->
  next_value (tok ++ rest) = Some (KPlain, tok, rest).
Proof.
  intros Hne Ha Hr. unfold next_value. destruct tok as [|c t]; [contradiction|].
  pose proof Ha as Ha'. cbn in Ha'. apply andb_true_iff in Ha' as [Hc _].
  destruct (pchar_props _ Hc) as (_ & Hn & Hq & _).
  cbn [app skipb]. rewrite Hn, Hq. change (c :: t ++ rest) with ((c :: t) ++ rest).
  rewrite span_plain_tok by assumption. reflexivity.
Qed.
Lemma next_value_comma p : next_value (44 :: p) = next_value p.
Proof. reflexivity. Qed.

(* ------------------------------------------------------------------ quoted character values *)
Definition strbyte (c:Z) : bool := (0 <? c) && (c <? 256).
Lemma hexdigit_spec n : 0 <= n < 16 -> isxdigit (hexdigit n) = true /\ hexval (hexdigit n) = n.
Proof.
  intro H. unfold isxdigit, hexval, hexdigit. destruct (n <? 10) eqn:E.
  - assert (isdigit (48 + n) = true) as -> by (unfold isdigit; lia). split; [reflexivity | lia].
  - assert (isdigit (87 + n) = false) as -> by (unfold isdigit; lia).
    assert (97 <=? 87 + n = true) as -> by lia. assert (87 + n <=? 102 = true) as -> by lia. split; [reflexivity | lia].
Qed.

Lemma unquote_escape : forall s rest, allb strbyte s = true -> unquote (escape s ++ 34 :: rest) = (s, rest).
Proof.
  induction s as [|c s IH]; intros rest Hs.
  - reflexivity.
  - cbn in Hs. apply andb_true_iff in Hs as [Hc Hs]. unfold strbyte in Hc.
    cbn [escape]. unfold escape_char.
    destruct ((c =? 34) || (c =? 92)) eqn:E1.
    + (* an escaped quote or backslash: the character behind the backslash is taken as it is *)
      cbn [app unquote]. change (92 =? 34) with false. change (92 =? 92) with true. cbv iota.
      assert (c =? 120 = false) as Hx by lia.
      destruct (escape s ++ 34 :: rest) as [|h1 [|h2 t4]] eqn:ET.
      * destruct (escape s); discriminate.
      * rewrite <- ET, (IH _ Hs). reflexivity.
      * rewrite Hx. cbn [andb]. rewrite <- ET, (IH _ Hs). reflexivity.
    + destruct ((c <? 32) || (c =? 127)) eqn:E2.
      * (* a backslash-x escape *)
        cbn [app unquote]. change (92 =? 34) with false. change (92 =? 92) with true. cbv iota.
        change (120 =? 120) with true.
        destruct (hexdigit_spec (c / 16)) as [X1 V1]; [lia|]. destruct (hexdigit_spec (c mod 16)) as [X2 V2]; [lia|].
        rewrite X1, X2. cbn [andb]. rewrite (IH _ Hs), V1, V2.
        replace ((16 * (c / 16) + c mod 16) mod 256) with c by lia. reflexivity.
      * cbn [app unquote]. assert (c =? 34 = false) as -> by lia. assert (c =? 92 = false) as -> by lia.
        rewrite (IH _ Hs). reflexivity.
Qed.
Lemma next_value_quoted s rest : allb strbyte s = true -> next_value (34 :: escape s ++ 34 :: rest) = Some (KQuoted, s, rest).
Proof.
  intro Hs. unfold next_value. cbn [skipb]. change (dl_next 34) with false. cbv iota. change (34 =? 34) with true. cbv iota.
  rewrite unquote_escape by exact Hs. reflexivity.
Qed.
(* what an escaped string is made of: nothing below 32, no NUL, no newline *)
Definition echar (c:Z) : bool := (32 <=? c) && negb (c =? 127) || (128 <=? c).
Lemma escape_char_echar c : strbyte c = true -> allb (fun x => (32 <=? x) && (x <? 256)) (escape_char c) = true.
Proof.
  unfold strbyte, escape_char, hexdigit. intro H.
  destruct ((c =? 34) || (c =? 92)) eqn:E1; [cbn; lia|].
  destruct ((c <? 32) || (c =? 127)) eqn:E2; [|cbn; lia].
  cbn [forallb]. destruct (c / 16 <? 10), (c mod 16 <? 10); lia.
Qed.
Lemma escape_printable : forall s, allb strbyte s = true -> allb (fun x => (32 <=? x) && (x <? 256)) (escape s) = true.
Proof.
  induction s as [|c s IH]; intro H; [reflexivity|]. cbn in H. apply andb_true_iff in H as [Hc Hs].
  cbn [escape]. rewrite allb_app, escape_char_echar, IH by assumption. reflexivity.
Qed.

(* ------------------------------------------------------------------ one value, printed and read back *)
Lemma strbytes_cut0 s : allb strbyte s = true -> cut0 s = s.
Proof. intro H. apply cut0_clean. eapply allb_impl; [|exact H]. intro c. unfold strbyte. lia. Qed.
Lemma firstn_all_len {A} (l:list A) : firstn (length l) l = l.
Proof. apply firstn_all. Qed.

Lemma text_eqb_head_neq c t : (c =? 77) = false -> text_eqb (c :: t) s_MSNG = false.
Proof. intro H. unfold s_MSNG. cbn [text_eqb]. rewrite H. reflexivity. Qed.

Lemma has_dot_e_zchar : forall s, allb zchar s = true -> existsb (fun c => (c =? 46) || (c =? 101) || (c =? 69)) s = false.
Proof.
  induction s as [|c s IH]; intro H; [reflexivity|]. cbn in H. apply andb_true_iff in H as [Hc Hs].
  cbn. rewrite (IH Hs). unfold zchar, isdigit in Hc. lia.
Qed.

(* the text of one value is either a plain token or a quoted string; read back under the element's type it is the value *)
Lemma value_roundtrip ty v rest : carried2_value ty v -> (rest = [] \/ exists r, rest = 44 :: r) ->
  exists k buf, next_value (print_value2 v ++ rest) = Some (k, buf, rest) /\ parse_val2 ty k buf = v.
Proof.
  intros Hc Hr. destruct ty, v; cbn [carried2_value] in Hc; try contradiction.
  - (* INT32 *)
    cbn [print_value2]. destruct (z =? -1) eqn:E.
    + exists KPlain, s_MSNG. split; [apply next_value_plain; [discriminate | reflexivity | exact Hr]|].
      assert (z = -1) as -> by lia. reflexivity.
    + exists KPlain, (print_Z z). split.
      * apply next_value_plain; [apply print_Z_nonempty | | exact Hr].
        eapply allb_impl; [apply zchar_pchar | apply print_Z_zchar].
      * unfold parse_val2. rewrite cut0_clean by apply print_Z_nonzero.
        assert (text_eqb (print_Z z) s_MSNG = false) as ->.
        { pose proof (print_Z_zchar z) as Hz. pose proof (print_Z_nonempty z) as Hn.
          destruct (print_Z z) as [|c t]; [contradiction|]. apply text_eqb_head_neq.
          cbn in Hz. apply andb_true_iff in Hz as [Hz _]. unfold zchar, isdigit in Hz. lia. }
        cbn [andb]. unfold has_dot_e. rewrite cut0_clean by apply print_Z_nonzero.
        rewrite has_dot_e_zchar by apply print_Z_zchar. rewrite atoi_print_Z by lia. reflexivity.
  - (* INT64 *)
    cbn [print_value2]. destruct (z =? -1) eqn:E.
    + exists KPlain, s_MSNG. split; [apply next_value_plain; [discriminate | reflexivity | exact Hr]|].
      assert (z = -1) as -> by lia. reflexivity.
    + exists KPlain, (print_Z z). split.
      * apply next_value_plain; [apply print_Z_nonempty | | exact Hr].
        eapply allb_impl; [apply zchar_pchar | apply print_Z_zchar].
      * unfold parse_val2. rewrite cut0_clean by apply print_Z_nonzero.
        assert (text_eqb (print_Z z) s_MSNG = false) as ->.
        { pose proof (print_Z_zchar z) as Hz. pose proof (print_Z_nonempty z) as Hn.
          destruct (print_Z z) as [|c t]; [contradiction|]. apply text_eqb_head_neq.
          cbn in Hz. apply andb_true_iff in Hz as [Hz _]. unfold zchar, isdigit in Hz. lia. }
        cbn [andb]. unfold has_dot_e. rewrite cut0_clean by apply print_Z_nonzero.
        rewrite has_dot_e_zchar by apply print_Z_zchar. rewrite strtol_print_Z by lia. reflexivity.
  - (* FLT64 *)
    cbn [print_value2]. destruct (is_dbl_max m e) eqn:E.
    + exists KPlain, s_MSNG. split; [apply next_value_plain; [discriminate | reflexivity | exact Hr]|].
      unfold is_dbl_max in E. assert (m = dbl_max_m) as -> by lia. assert (e = dbl_max_e) as -> by lia. reflexivity.
    + destruct Hc as [Hc|Hc]; [congruence|].
      exists KPlain, (print_g17 m e).
      assert (Hp : allb pchar (print_g17 m e) = true) by (eapply allb_impl; [apply gchar_pchar | apply print_g17_gchar]).
      destruct (print_g17_head m e) as (c & t & Eg & Hz).
      split.
      * apply next_value_plain; [rewrite Eg; discriminate | exact Hp | exact Hr].
      * unfold parse_val2. rewrite cut0_clean.
        2:{ eapply allb_impl; [|exact Hp]. intros x Hx. apply pchar_props in Hx. apply negb_true_iff. tauto. }
        assert (text_eqb (print_g17 m e) s_MSNG = false) as ->.
        { rewrite Eg. apply text_eqb_head_neq. unfold zchar, isdigit in Hz. lia. }
        cbn [andb]. unfold dbl_carried in Hc. rewrite Hc. reflexivity.
  - (* STRING *)
    destruct Hc as [Hl Hb]. fold strbyte in Hb. cbn [print_value2]. rewrite strbytes_cut0 by exact Hb.
    exists KQuoted, s. split.
    + change ((34 :: escape s ++ [34]) ++ rest) with (34 :: (escape s ++ [34]) ++ rest). rewrite <- app_assoc. cbn [app].
      apply next_value_quoted, Hb.
    + unfold parse_val2. cbn [andb]. rewrite <- Hl. rewrite set_string_id; [reflexivity|].
      eapply allb_impl; [|exact Hb]. intro c. unfold strbyte. lia.
Qed.

(* the text of a value contains no NUL and no newline *)
Lemma print_value2_clean ty v : carried2_value ty v -> allb (fun c => negb (c =? 0) && negb (c =? 10)) (print_value2 v) = true /\ print_value2 v <> [].
Proof.
  intro Hc. destruct ty, v; cbn [carried2_value] in Hc; try contradiction; cbn [print_value2].
  - destruct (z =? -1); [split; [reflexivity | discriminate]|]. split; [|apply print_Z_nonempty].
    eapply allb_impl; [|apply print_Z_zchar]. intros c H. apply zchar_props in H. lia.
  - destruct (z =? -1); [split; [reflexivity | discriminate]|]. split; [|apply print_Z_nonempty].
    eapply allb_impl; [|apply print_Z_zchar]. intros c H. apply zchar_props in H. lia.
  - destruct (is_dbl_max m e); [split; [reflexivity | discriminate]|]. split.
    + eapply allb_impl; [|apply print_g17_gchar]. intros c H. apply gchar_pchar, pchar_props in H. lia.
    + destruct (print_g17_head m e) as (c & t & -> & _). discriminate.
  - destruct Hc as [_ Hb]. fold strbyte in Hb. rewrite strbytes_cut0 by exact Hb. split; [|discriminate].
    cbn [forallb]. change (negb (34 =? 0) && negb (34 =? 10)) with true. cbn [andb].
    rewrite forallb_app. cbn [forallb]. change (negb (34 =? 0) && negb (34 =? 10)) with true. rewrite andb_true_r.
    eapply allb_impl; [|apply escape_printable, Hb]. intro c. lia.
Qed.

(* ------------------------------------------------------------------ the list of values *)
Definition tail_text (vs:list dvalue) : text := concat (map (fun w => 44 :: print_value2 w) vs).
Lemma tail_text_shape vs : tail_text vs = [] \/ exists r, tail_text vs = 44 :: r.
Proof. destruct vs as [|v vs]; [left; reflexivity | right; eexists; reflexivity]. Qed.
Lemma tail_text_length ty vs : Forall (carried2_value ty) vs -> (length vs <= length (tail_text vs))%nat.
Proof.
  induction 1 as [|v vs Hv _ IH]; [reflexivity|]. unfold tail_text in *. cbn [map concat length]. rewrite app_length. cbn [length]. lia.
Qed.
Lemma values2_tail ty : forall vs f, Forall (carried2_value ty) vs -> (length vs < f)%nat -> values2 f ty (tail_text vs) = vs.
Proof.
  induction vs as [|v vs IH]; intros f Hc Hf.
  - destruct f; reflexivity.
  - destruct f as [|f]; [lia|]. inversion Hc as [|? ? Hv Hvs]; subst.
    unfold tail_text. cbn [map concat values2]. fold (tail_text vs). cbn [app]. rewrite next_value_comma.
    destruct (value_roundtrip ty v (tail_text vs) Hv (tail_text_shape vs)) as (k & buf & -> & ->).
    rewrite IH by (assumption || (cbn in Hf; lia)). reflexivity.
Qed.
Lemma values2_first ty v vs f : Forall (carried2_value ty) (v :: vs) -> (S (length vs) < f)%nat ->
  values2 f ty (print_value2 v ++ tail_text vs) = v :: vs.
Proof.
  intros Hc Hf. destruct f as [|f]; [lia|]. inversion Hc as [|? ? Hv Hvs]; subst. cbn [values2].
  destruct (value_roundtrip ty v (tail_text vs) Hv (tail_text_shape vs)) as (k & buf & -> & ->).
  rewrite values2_tail by (assumption || lia). reflexivity.
Qed.
Lemma tail_text_clean ty vs : Forall (carried2_value ty) vs -> allb (fun c => negb (c =? 0) && negb (c =? 10)) (tail_text vs) = true.
Proof.
  induction 1 as [|v vs Hv _ IH]; [reflexivity|]. unfold tail_text in *. cbn [map concat]. cbn [app forallb].
  change (negb (44 =? 0) && negb (44 =? 10)) with true. cbn [andb]. rewrite forallb_app, IH, (proj1 (print_value2_clean _ _ Hv)). reflexivity.
Qed.

(* ------------------------------------------------------------------ one item line *)
Definition run2 : tables -> lstate -> text -> lstate := run_gen fixed_values.

Lemma clean_split (s:text) : allb (fun c => negb (c =? 0) && negb (c =? 10)) s = true -> nonzero s = true /\ no_nl s = true.
Proof.
  intro H. split; (eapply allb_impl; [|exact H]); intros c Hc; apply andb_true_iff in Hc; tauto.
Qed.

Lemma load2_line_values T st d v vs : 0 <= d < 2 ^ 31 -> Forall (carried2_value (vtype_of T d)) (v :: vs) ->
  load_line_gen fixed_values T st (print_Z d ++ s_cVALUE ++ print_value2 v ++ tail_text vs) = mkL (l_ed st) (mkItem d (v :: vs) :: l_seq st).
Proof.
  intros Hd Hc.
  inversion Hc as [|? ? Hv Hvs]; subst.
  destruct (clean_split _ (proj1 (print_value2_clean _ _ Hv))) as [Hz1 _].
  destruct (clean_split _ (tail_text_clean _ _ Hvs)) as [Hz2 _].
  destruct (print_Z_head d) as (c & t & E & Hcd); [lia|].
  assert (Hz : nonzero (print_Z d ++ s_cVALUE ++ print_value2 v ++ tail_text vs) = true).
  { unfold nonzero in *. rewrite !allb_app. fold (nonzero (print_Z d)). rewrite print_Z_nonzero, Hz1, Hz2. reflexivity. }
  pose proof (print_Z_clean1 d) as Hcl. pose proof (print_Z_nonempty d) as Hpn. pose proof (atoi_print_Z d) as Ha.
  revert Hz. rewrite E in *. cbn [app]. intro Hz. rewrite load_line_gen_digit by assumption.
  unfold item_line_gen.
  change (c :: t ++ s_cVALUE ++ print_value2 v ++ tail_text vs) with ((c :: t) ++ 44 :: (s_VALUE ++ 61 :: (print_value2 v ++ tail_text vs))).
  rewrite strtok_clean_delim by (assumption || reflexivity).
  rewrite Ha by lia.
  rewrite strtok_clean_delim by (discriminate || reflexivity).
  change (text_eqb s_VALUE s_VALUE) with true. cbv iota.
  unfold fixed_values. rewrite values2_first; [reflexivity | exact Hc |].
  rewrite app_length. pose proof (tail_text_length _ _ Hvs). pose proof (proj2 (print_value2_clean _ _ Hv)).
  destruct (print_value2 v); [contradiction|]. cbn [length]. lia.
Qed.

Lemma run2_item T st it rest : 0 <= i_desc it < 2 ^ 31 -> Forall (carried2_value (vtype_of T (i_desc it))) (i_vals it) ->
  run2 T st (save2_item it ++ rest) = run2 T (mkL (l_ed st) (it :: l_seq st)) rest.
Proof.
  intros Hd Hc. unfold save2_item, run2.
  destruct (i_vals it) as [|v vs] eqn:EV.
  - replace ((print_Z (i_desc it) ++ [] ++ [10]) ++ rest) with (print_Z (i_desc it) ++ 10 :: rest)
      by (rewrite <- !app_assoc; reflexivity).
    rewrite run_gen_line by apply print_Z_no_nl.
    rewrite load_line_gen_desc by exact Hd. rewrite <- EV, item_eta. reflexivity.
  - fold (tail_text vs).
    replace ((print_Z (i_desc it) ++ (s_cVALUE ++ print_value2 v ++ tail_text vs) ++ [10]) ++ rest)
      with ((print_Z (i_desc it) ++ s_cVALUE ++ print_value2 v ++ tail_text vs) ++ 10 :: rest)
      by (rewrite <- !app_assoc; reflexivity).
    inversion Hc as [|? ? Hv Hvs]; subst.
    rewrite run_gen_line.
    2:{ destruct (clean_split _ (proj1 (print_value2_clean _ _ Hv))) as [_ N1].
        destruct (clean_split _ (tail_text_clean _ _ Hvs)) as [_ N2].
        unfold no_nl in *. rewrite !allb_app. fold (no_nl (print_Z (i_desc it))). rewrite print_Z_no_nl, N1, N2. reflexivity. }
    rewrite load2_line_values by assumption. rewrite <- EV, item_eta. reflexivity.
Qed.

Lemma run2_items T : forall items st rest,
  Forall (fun it => 0 <= i_desc it < 2 ^ 31) items ->
  Forall (fun it => Forall (carried2_value (vtype_of T (i_desc it))) (i_vals it)) items ->
  run2 T st (concat (map save2_item items) ++ rest) = run2 T (mkL (l_ed st) (rev items ++ l_seq st)) rest.
Proof.
  induction items as [|it items IH]; intros st rest Hd Hc.
  - destruct st; reflexivity.
  - inversion Hd; subst. inversion Hc; subst. cbn [map concat]. rewrite <- app_assoc.
    rewrite run2_item by assumption. rewrite IH by assumption. cbn [l_ed l_seq rev]. rewrite <- app_assoc. reflexivity.
Qed.

Lemma save2_text_shape t :
  save2_text t = (s_head1 ++ print_Z (Z.of_nat (length (t_items t))) ++ s_head2) ++ 10 ::
                 (s_BUFR_EDITION_eq ++ print_Z (t_ed t)) ++ 10 :: [35] ++ 10 :: concat (map save2_item (t_items t)) ++ [35] ++ 10 :: [].
Proof. unfold save2_text, s_hash. rewrite <- !app_assoc. reflexivity. Qed.

Theorem parse2_save2 T t : 0 <= t_ed t < 2 ^ 31 -> Forall (fun it => 0 <= i_desc it < 2 ^ 31) (t_items t) -> carried2 T t ->
  parse2_lines T (save2 t) = t.
Proof.
  intros Hed Hd Hc. unfold parse2_lines, parse_lines_gen, save2, load_lines_gen.
  fold (run_gen fixed_values T (mkL 4 []) (save2_text t)). fold (run2 T (mkL 4 []) (save2_text t)).
  rewrite save2_text_shape. unfold run2.
  rewrite run_gen_line.
  2:{ unfold no_nl. rewrite !allb_app. fold (no_nl (print_Z (Z.of_nat (length (t_items t))))). rewrite print_Z_no_nl. reflexivity. }
  replace (load_line_gen fixed_values T (mkL 4 []) (s_head1 ++ print_Z (Z.of_nat (length (t_items t))) ++ s_head2)) with (mkL 4 []) by reflexivity.
  rewrite run_gen_line.
  2:{ unfold no_nl. rewrite !allb_app. fold (no_nl (print_Z (t_ed t))). rewrite print_Z_no_nl. reflexivity. }
  rewrite load_line_gen_edition by exact Hed. cbn [l_seq].
  rewrite run_gen_line by reflexivity. rewrite load_line_gen_comment.
  fold (run2 T (mkL (t_ed t) []) (concat (map save2_item (t_items t)) ++ [35] ++ [10])).
  rewrite run2_items by assumption. cbn [l_ed l_seq]. unfold run2.
  rewrite run_gen_line by reflexivity. rewrite load_line_gen_comment. rewrite run_gen_nil. cbn [l_ed l_seq].
  rewrite app_nil_r, rev_involutive. destruct t; reflexivity.
Qed.

(* the corrected format: save then load is the identity on every template with defaults of the element's own type *)
Theorem save2_load2_id fuel T t : wf_template fuel T t -> carried2 T t -> load2_text fuel T (save2_text t) = Ok t.
Proof.
  intros [Hf Hed] Hc. unfold load2_text, load2, load_gen. fold (save2 t). fold (parse2_lines T (save2 t)).
  rewrite parse2_save2; [rewrite Hf; reflexivity | exact Hed | | exact Hc].
  apply finalize_ok_range in Hf. unfold descs in Hf. rewrite Forall_map in Hf. exact Hf.
Qed.

(* the witnesses that defeat the format of the current code come back unchanged *)
Lemma int32_1001 : vtype_of T0 1001 = TInt32. Proof. reflexivity. Qed.
Theorem fixed_format_carries_witnesses :
  load2_text 100 T0 (save2_text w_multi) = Ok w_multi /\ load2_text 100 T0 (save2_text w_multi2) = Ok w_multi2 /\
  load2_text 100 T0 (save2_text w_string) = Ok w_string /\ load2_text 100 T0 (save2_text w_intmissing) = Ok w_intmissing /\
  load2_text 100 T0 (save2_text w_float5) = Ok w_float5 /\ load2_text 100 T0 (save2_text w_float2) = Ok w_float2.
Proof. repeat split; vm_compute; reflexivity. Qed.
