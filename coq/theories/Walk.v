From Coq Require Import List ZArith Arith Lia Bool.
Import ListNotations.
Local Open Scope Z_scope.

(* Walk.v — the regulation-level walk over a descriptor list (FM 94 regulation 94.5: "replace the descriptor by
   its expansion"), generic in the element action, and the theorem lifting an element-level round trip to
   templates of any size and nesting depth. *)
Inductive err := OutOfFuel | Reject | TypeErr | NotCompressible.
Inductive result (A:Type) := Ok (a:A) | Err (e:err).
Arguments Ok {A}. Arguments Err {A}.
Definition bind {A B} (r:result A) (f:A -> result B) : result B :=
  match r with Ok a => f a | Err e => Err e end.
Notation "x <- e1 ;; e2" := (bind e1 (fun x => e2)) (at level 61, e1 at next level, right associativity).
Notation "' pat <- e1 ;; e2" := (bind e1 (fun x => match x with pat => e2 end))
  (at level 61, pat pattern, e1 at next level, right associativity).

Definition desc := Z.
Definition dF (d:desc) := d / 100000.
Definition dX (d:desc) := (d / 1000) mod 100.
Definition dY (d:desc) := d mod 1000.

(* ---- parameters of the regulation-level walk ---- *)
Section Walker.
  Variable opstate field datum : Type.
  Variable lookupD : desc -> option (list desc).
  Variable mk_field : opstate -> desc -> result field.        (* Table B + operators in force *)
  Variable resolve  : opstate -> desc -> result opstate.       (* Table C operator *)
  Variable op_field : opstate -> desc -> option field.          (* an operator that carries data itself: 2 05 YYY *)
  Variable post     : opstate -> field -> datum -> opstate.    (* e.g. 2 03 captures a new reference *)
  Variable is_factor : desc -> bool.                           (* 0 31 000/001/002/011/012 *)
  Variable count_of : desc -> datum -> nat.                    (* bufr_solve_replication *)

  Section Inst.
  Variable St W : Type.
  Variable wnil : W. Variable wapp : W -> W -> W.
  Variable elem : field -> St -> result (St * datum * W).

  Fixpoint rep {A} (n:nat) (l:list A) : list A := match n with O => [] | S k => l ++ rep k l end.

  Fixpoint walk (fuel:nat) (st:opstate) (ds:list desc) (s:St) : result (opstate * St * W) :=
    match fuel with
    | O => Err OutOfFuel
    | S f =>
      match ds with
      | [] => Ok (st, s, wnil)
      | d :: rest =>
        if dF d =? 0 then
          fld <- mk_field st d ;;
          '(s1, v, w1) <- elem fld s ;;
          '(st2, s2, w2) <- walk f (post st fld v) rest s1 ;;
          Ok (st2, s2, wapp w1 w2)
        else if dF d =? 1 then
          let x := Z.to_nat (dX d) in
          if dY d =? 0 then
            match rest with
            | c :: rest' =>
              if is_factor c then
                fld <- mk_field st c ;;
                '(s1, v, w1) <- elem fld s ;;
                if (length rest' <? x)%nat then Err Reject else
                '(st2, s2, w2) <- walk f st (rep (count_of c v) (firstn x rest') ++ skipn x rest') s1 ;;
                Ok (st2, s2, wapp w1 w2)
              else Err Reject
            | [] => Err Reject
            end
          else
            if (length rest <? x)%nat then Err Reject else
            walk f st (rep (Z.to_nat (dY d)) (firstn x rest) ++ skipn x rest) s
        else if dF d =? 2 then
          match op_field st d with
          | Some fld =>
            '(s1, v, w1) <- elem fld s ;;
            '(st2, s2, w2) <- walk f st rest s1 ;;
            Ok (st2, s2, wapp w1 w2)
          | None => st1 <- resolve st d ;; walk f st1 rest s
          end
        else
          match lookupD d with
          | Some seq => walk f st (seq ++ rest) s
          | None => Err Reject
          end
      end
    end.
  (* more fuel never changes a result *)
  Lemma walk_fuel_mono : forall f1 st ds s r, walk f1 st ds s = Ok r ->
    forall f2, (f1 <= f2)%nat -> walk f2 st ds s = Ok r.
  Proof.
    induction f1 as [|f IH]; intros st ds s r H f2 LE; [discriminate|].
    destruct f2 as [|g]; [inversion LE|]. assert (LE' : (f <= g)%nat) by (apply le_S_n; exact LE).
    cbn [walk] in *.
    destruct ds as [|d rest]; [exact H|].
    destruct (dF d =? 0).
    - destruct (mk_field st d) as [fld|e]; [|discriminate]. cbn [bind] in *.
      destruct (elem fld s) as [[[s1 v] w1]|e]; [|discriminate]. cbn [bind] in *.
      destruct (walk f (post st fld v) rest s1) as [[[st2 s2] w2]|e] eqn:E2; [|discriminate].
      rewrite (IH _ _ _ _ E2 g LE'). exact H.
    - destruct (dF d =? 1).
      + destruct (dY d =? 0).
        * destruct rest as [|c rest']; [discriminate|].
          destruct (is_factor c); [|discriminate].
          destruct (mk_field st c) as [fld|e]; [|discriminate]. cbn [bind] in *.
          destruct (elem fld s) as [[[s1 v] w1]|e]; [|discriminate]. cbn [bind] in *.
          destruct (length rest' <? Z.to_nat (dX d))%nat; [discriminate|].
          destruct (walk f st _ s1) as [[[st2 s2] w2]|e] eqn:E2; [|discriminate].
          rewrite (IH _ _ _ _ E2 g LE'). exact H.
        * destruct (length rest <? Z.to_nat (dX d))%nat; [discriminate|].
          exact (IH _ _ _ _ H g LE').
      + destruct (dF d =? 2).
        * destruct (op_field st d) as [fld|].
          -- destruct (elem fld s) as [[[s1 v] w1]|e]; [|discriminate]. cbn [bind] in *.
             destruct (walk f st rest s1) as [[[st2 s2] w2]|e] eqn:E2; [|discriminate].
             rewrite (IH _ _ _ _ E2 g LE'). exact H.
          -- destruct (resolve st d) as [st1|e]; [|discriminate]. cbn [bind] in *. exact (IH _ _ _ _ H g LE').
        * destruct (lookupD d) as [seq|]; [|discriminate]. exact (IH _ _ _ _ H g LE').
  Qed.
  End Inst.

  (* ---- lifting an element-level round trip to the whole walk ---- *)
  Section RoundTrip.
  Variable bits : Type.  (* abstract: list bool *)
  Variable enc_elem : field -> datum -> result (list bool).
  Variable dec_elem : field -> list bool -> result (datum * list bool).
  Hypothesis elem_rt : forall f v b tail, enc_elem f v = Ok b -> dec_elem f (b ++ tail) = Ok (v, tail).

  Definition e_enc (f:field) (s:list datum) : result (list datum * datum * list bool) :=
    match s with [] => Err TypeErr | v :: vs => b <- enc_elem f v ;; Ok (vs, v, b) end.
  Definition e_dec (f:field) (s:list bool) : result (list bool * datum * list datum) :=
    '(v, tl) <- dec_elem f s ;; Ok (tl, v, [v]).

  Definition walk_enc := walk (list datum) (list bool) [] (@app bool) e_enc.
  Definition walk_dec := walk (list bool) (list datum) [] (@app datum) e_dec.

  Lemma e_dec_rt f v b tail : enc_elem f v = Ok b -> e_dec f (b ++ tail) = Ok (tail, v, [v]).
  Proof. intro H. unfold e_dec. rewrite (elem_rt _ _ _ _ H). reflexivity. Qed.

  Theorem walk_roundtrip : forall fuel st ds vs st' vs' b,
    walk_enc fuel st ds vs = Ok (st', vs', b) ->
    forall tail, exists used, vs = used ++ vs' /\ walk_dec fuel st ds (b ++ tail) = Ok (st', tail, used).
  Proof.
    induction fuel as [|f IH]; intros st ds vs st' vs' b H tail; [discriminate|].
    unfold walk_enc, walk_dec in *. cbn [walk] in *.
    destruct ds as [|d rest].
    - inversion H; subst. exists []. split; reflexivity.
    - destruct (dF d =? 0) eqn:F0.
      + destruct (mk_field st d) as [fld|e]; [|discriminate]. cbn [bind] in *.
        destruct vs as [|v vs1]; [discriminate|]. cbn [e_enc bind] in H.
        destruct (enc_elem fld v) as [b1|e] eqn:E1; [|discriminate]. cbn [bind] in H.
        destruct (walk _ _ _ _ _ f (post st fld v) rest vs1) as [[[st2 s2] w2]|e] eqn:E2; [|discriminate].
        cbn [bind] in H. inversion H; subst.
        destruct (IH _ _ _ _ _ _ E2 tail) as (used & -> & D).
        exists (v :: used). split; [reflexivity|].
        rewrite <- app_assoc, (e_dec_rt _ _ _ _ E1). cbn [bind]. rewrite D. reflexivity.
      + destruct (dF d =? 1) eqn:F1.
        * destruct (dY d =? 0) eqn:Y0.
          -- destruct rest as [|c rest']; [discriminate|].
             destruct (is_factor c); [|discriminate].
             destruct (mk_field st c) as [fld|e]; [|discriminate]. cbn [bind] in *.
             destruct vs as [|v vs1]; [discriminate|]. cbn [e_enc bind] in H.
             destruct (enc_elem fld v) as [b1|e] eqn:E1; [|discriminate]. cbn [bind] in H.
             destruct (length rest' <? Z.to_nat (dX d))%nat; [discriminate|].
             destruct (walk _ _ _ _ _ f st _ vs1) as [[[st2 s2] w2]|e] eqn:E2; [|discriminate].
             cbn [bind] in H. inversion H; subst.
             destruct (IH _ _ _ _ _ _ E2 tail) as (used & -> & D).
             exists (v :: used). split; [reflexivity|].
             rewrite <- app_assoc, (e_dec_rt _ _ _ _ E1). cbn [bind]. rewrite D. reflexivity.
          -- destruct (length rest <? Z.to_nat (dX d))%nat; [discriminate|].
             exact (IH _ _ _ _ _ _ H tail).
        * destruct (dF d =? 2).
          -- destruct (op_field st d) as [fld|].
             ++ destruct vs as [|v vs1]; [discriminate|]. cbn [e_enc bind] in H.
                destruct (enc_elem fld v) as [b1|e] eqn:E1; [|discriminate]. cbn [bind] in H.
                destruct (walk _ _ _ _ _ f st rest vs1) as [[[st2 s2] w2]|e] eqn:E2; [|discriminate].
                cbn [bind] in H. inversion H; subst.
                destruct (IH _ _ _ _ _ _ E2 tail) as (used & -> & D).
                exists (v :: used). split; [reflexivity|].
                rewrite <- app_assoc, (e_dec_rt _ _ _ _ E1). cbn [bind]. rewrite D. reflexivity.
             ++ destruct (resolve st d) as [st1|e]; [|discriminate]. cbn [bind] in *. exact (IH _ _ _ _ _ _ H tail).
          -- destruct (lookupD d) as [seq|]; [|discriminate]. exact (IH _ _ _ _ _ _ H tail).
  Qed.
  End RoundTrip.

  (* ---- the converse: whatever the walk decodes, the walk encodes to exactly the bits consumed ---- *)
  Section Sound.
  Variable enc_elem : field -> datum -> result (list bool).
  Variable dec_elem : field -> list bool -> result (datum * list bool).
  Hypothesis elem_sound : forall f l v tl, dec_elem f l = Ok (v, tl) -> exists b, enc_elem f v = Ok b /\ l = b ++ tl.

  Lemma e_dec_inv f l s1 v w1 : e_dec dec_elem f l = Ok (s1, v, w1) ->
    w1 = [v] /\ exists b, enc_elem f v = Ok b /\ l = b ++ s1.
  Proof.
    unfold e_dec. destruct (dec_elem f l) as [[v0 t0]|e] eqn:E; [|discriminate]. cbn [bind].
    intro H. inversion H; subst. split; [reflexivity|]. exact (elem_sound _ _ _ _ E).
  Qed.

  Theorem walk_sound : forall fuel st ds l st' tl vs,
    walk_dec dec_elem fuel st ds l = Ok (st', tl, vs) ->
    forall rest, exists b, walk_enc enc_elem fuel st ds (vs ++ rest) = Ok (st', rest, b) /\ l = b ++ tl.
  Proof.
    induction fuel as [|f IH]; intros st ds l st' tl vs H rest; [discriminate|].
    unfold walk_enc, walk_dec in *. cbn [walk] in *.
    destruct ds as [|d rest0].
    - inversion H; subst. exists []. split; reflexivity.
    - destruct (dF d =? 0) eqn:F0.
      + destruct (mk_field st d) as [fld|e]; [|discriminate]. cbn [bind] in *.
        destruct (e_dec dec_elem fld l) as [[[s1 v] w1]|e] eqn:E1; [|discriminate]. cbn [bind] in H.
        destruct (e_dec_inv _ _ _ _ _ E1) as (-> & b1 & B1 & ->).
        destruct (walk _ _ _ _ _ f (post st fld v) rest0 s1) as [[[st2 s2] w2]|e] eqn:E2; [|discriminate].
        cbn [bind] in H. inversion H; subst.
        destruct (IH _ _ _ _ _ _ E2 rest) as (b2 & D & ->).
        exists (b1 ++ b2). split; [|apply app_assoc].
        cbn [app e_enc]. rewrite B1. cbn [bind]. rewrite D. reflexivity.
      + destruct (dF d =? 1) eqn:F1.
        * destruct (dY d =? 0) eqn:Y0.
          -- destruct rest0 as [|c rest']; [discriminate|].
             destruct (is_factor c); [|discriminate].
             destruct (mk_field st c) as [fld|e]; [|discriminate]. cbn [bind] in *.
             destruct (e_dec dec_elem fld l) as [[[s1 v] w1]|e] eqn:E1; [|discriminate]. cbn [bind] in H.
             destruct (e_dec_inv _ _ _ _ _ E1) as (-> & b1 & B1 & ->).
             destruct (length rest' <? Z.to_nat (dX d))%nat; [discriminate|].
             destruct (walk _ _ _ _ _ f st _ s1) as [[[st2 s2] w2]|e] eqn:E2; [|discriminate].
             cbn [bind] in H. inversion H; subst.
             destruct (IH _ _ _ _ _ _ E2 rest) as (b2 & D & ->).
             exists (b1 ++ b2). split; [|apply app_assoc].
             cbn [app e_enc]. rewrite B1. cbn [bind]. rewrite D. reflexivity.
          -- destruct (length rest0 <? Z.to_nat (dX d))%nat; [discriminate|].
             exact (IH _ _ _ _ _ _ H rest).
        * destruct (dF d =? 2).
          -- destruct (op_field st d) as [fld|].
             ++ destruct (e_dec dec_elem fld l) as [[[s1 v] w1]|e] eqn:E1; [|discriminate]. cbn [bind] in H.
                destruct (e_dec_inv _ _ _ _ _ E1) as (-> & b1 & B1 & ->).
                destruct (walk _ _ _ _ _ f st rest0 s1) as [[[st2 s2] w2]|e] eqn:E2; [|discriminate].
                cbn [bind] in H. inversion H; subst.
                destruct (IH _ _ _ _ _ _ E2 rest) as (b2 & D & ->).
                exists (b1 ++ b2). split; [|apply app_assoc].
                cbn [app e_enc]. rewrite B1. cbn [bind]. rewrite D. reflexivity.
             ++ destruct (resolve st d) as [st1|e]; [|discriminate]. cbn [bind] in *. exact (IH _ _ _ _ _ _ H rest).
          -- destruct (lookupD d) as [seq|]; [|discriminate]. exact (IH _ _ _ _ _ _ H rest).
  Qed.
  End Sound.

  (* ---- the encoder emits exactly the fields the field-listing walk enumerates, in order ---- *)
  Section Layout.
  Variable enc_elem : field -> datum -> result (list bool).
  Definition l_elem (f:field) (s:list datum) : result (list datum * datum * list (field * datum)) :=
    match s with [] => Err TypeErr | v :: vs => Ok (vs, v, [(f, v)]) end.
  Definition walk_fields := walk (list datum) (list (field * datum)) [] (@app _) l_elem.
  Variable cat : list (field * datum) -> result (list bool).
  Hypothesis cat_nil : cat [] = Ok [].
  Hypothesis cat_cons : forall f v fl b1 b2, enc_elem f v = Ok b1 -> cat fl = Ok b2 -> cat ((f, v) :: fl) = Ok (b1 ++ b2).

  Theorem walk_enc_fields : forall fuel st ds s st' lft b,
    walk_enc enc_elem fuel st ds s = Ok (st', lft, b) ->
    exists fl, walk_fields fuel st ds s = Ok (st', lft, fl) /\ cat fl = Ok b /\ s = map snd fl ++ lft.
  Proof.
    induction fuel as [|f IH]; intros st ds s st' lft b H; [discriminate|].
    unfold walk_enc, walk_fields in *. cbn [walk] in *.
    destruct ds as [|d rest0].
    - inversion H; subst. exists []. repeat split. exact cat_nil.
    - destruct (dF d =? 0) eqn:F0.
      + destruct (mk_field st d) as [fld|e]; [|discriminate]. cbn [bind] in *.
        destruct s as [|v vs1]; [discriminate|]. cbn [e_enc l_elem bind] in *.
        destruct (enc_elem fld v) as [b1|e] eqn:E1; [|discriminate]. cbn [bind] in H.
        destruct (walk _ _ _ _ _ f (post st fld v) rest0 vs1) as [[[st2 s2] w2]|e] eqn:E2; [|discriminate].
        cbn [bind] in H. inversion H; subst.
        destruct (IH _ _ _ _ _ _ E2) as (fl & D & C & ->).
        exists ((fld, v) :: fl). rewrite D. cbn [bind app map snd]. repeat split. exact (cat_cons _ _ _ _ _ E1 C).
      + destruct (dF d =? 1) eqn:F1.
        * destruct (dY d =? 0) eqn:Y0.
          -- destruct rest0 as [|c rest']; [discriminate|].
             destruct (is_factor c); [|discriminate].
             destruct (mk_field st c) as [fld|e]; [|discriminate]. cbn [bind] in *.
             destruct s as [|v vs1]; [discriminate|]. cbn [e_enc l_elem bind] in *.
             destruct (enc_elem fld v) as [b1|e] eqn:E1; [|discriminate]. cbn [bind] in H.
             destruct (length rest' <? Z.to_nat (dX d))%nat; [discriminate|].
             destruct (walk _ _ _ _ _ f st _ vs1) as [[[st2 s2] w2]|e] eqn:E2; [|discriminate].
             cbn [bind] in H. inversion H; subst.
             destruct (IH _ _ _ _ _ _ E2) as (fl & D & C & ->).
             exists ((fld, v) :: fl). rewrite D. cbn [bind app map snd]. repeat split. exact (cat_cons _ _ _ _ _ E1 C).
          -- destruct (length rest0 <? Z.to_nat (dX d))%nat; [discriminate|].
             exact (IH _ _ _ _ _ _ H).
        * destruct (dF d =? 2).
          -- destruct (op_field st d) as [fld|].
             ++ destruct s as [|v vs1]; [discriminate|]. cbn [e_enc l_elem bind] in *.
                destruct (enc_elem fld v) as [b1|e] eqn:E1; [|discriminate]. cbn [bind] in H.
                destruct (walk _ _ _ _ _ f st rest0 vs1) as [[[st2 s2] w2]|e] eqn:E2; [|discriminate].
                cbn [bind] in H. inversion H; subst.
                destruct (IH _ _ _ _ _ _ E2) as (fl & D & C & ->).
                exists ((fld, v) :: fl). rewrite D. cbn [bind app map snd]. repeat split. exact (cat_cons _ _ _ _ _ E1 C).
             ++ destruct (resolve st d) as [st1|e]; [|discriminate]. cbn [bind] in *. exact (IH _ _ _ _ _ _ H).
          -- destruct (lookupD d) as [seq|]; [|discriminate]. exact (IH _ _ _ _ _ _ H).
  Qed.
  End Layout.
End Walker.
