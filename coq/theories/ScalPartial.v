(* ScalPartial.v — C08: the library's branchy float encoder returns i on the double its decoder produces for i.
   Full statement: ScalImplProof.C08_full_statement.  Proved here: the FINITE instance over every numeric/code/flag entry
   (width 1..32) of the five shipped Table B versions (GenTables.shipped_tables) x the raw-value grid [raw_grid]
   (16 lowest, 16 highest incl. the all-ones pattern, the sign change of i+ref, i+ref around 2^w-1 where the encoder
   switches branch, and the first multiples of 10^scale), by evaluation of the model with the correctly rounded pow10_rn,
   for BOTH variants of the negative-scale arithmetic (fx_neg, see ScalImpl.v). *)
From Coq Require Import ZArith List Bool Lia Reals Lra.
From Flocq Require Import Core BinarySingleNaN.
From V Require Import Fm94 GenTables ScalSpec ScalImpl ScalImplProof.
Import ListNotations.
Local Open Scope Z_scope.

(* the encoder looks at the descriptor only to recognise class 31 *)
Definition cdesc (d : Z) : Z := if desc_x d =? 31 then 31000 else 0.

Lemma cvt_desc_canon pow10 fx d en f : cvt_dval_to_i64 pow10 fx d en f = cvt_dval_to_i64 pow10 fx (cdesc d) en f.
Proof.
  unfold cvt_dval_to_i64, cdesc.
  destruct (desc_x d =? 31) eqn:E.
  - change (desc_x 31000 =? 31) with true. reflexivity.
  - change (desc_x 0 =? 31) with false. reflexivity.
Qed.

Definition in_scope (b : bent) : bool :=
  match b_kind b with
  | UStr => false
  | _ => (1 <=? b_width b) && (b_width b <=? 32)
  end.

Definition enc_of (b : bent) : enc := {| e_scale := b_scale b; e_ref := b_ref b; e_nbits := b_width b |}.

Fixpoint upto (n : nat) (i : Z) : list Z := match n with O => [] | S k => i :: upto k (i + 1) end.

Definition raw_grid (s r w : Z) : list Z :=
  filter (fun i => (0 <=? i) && (i <=? 2 ^ w - 1))
    (upto 16 0 ++ upto 16 (2 ^ w - 16) ++ upto 5 (- r - 2) ++ upto 3 (2 ^ w - 2 - r)
     ++ (if 0 <? s then upto 3 (10 ^ s - r - 1) ++ upto 3 (2 * 10 ^ s - r - 1) else [])).

Definition rt_ok (fx : bool) (d s r w i : Z) : bool :=
  let e := {| e_scale := s; e_ref := r; e_nbits := w |} in
  cvt_dval_to_i64 pow10_rn fx d e (cvt_i64_to_dval pow10_rn fx e i) =? i.

Definition key : Set := ((Z * Z) * (Z * Z))%type.
Definition key_of (db : Z * bent) : key := ((cdesc (fst db), b_scale (snd db)), (b_ref (snd db), b_width (snd db))).
Definition key_eqb (a b : key) : bool :=
  let '((a1, a2), (a3, a4)) := a in let '((b1, b2), (b3, b4)) := b in
  (a1 =? b1) && (a2 =? b2) && (a3 =? b3) && (a4 =? b4).

Lemma key_eqb_eq a b : key_eqb a b = true -> a = b.
Proof.
  destruct a as [[a1 a2] [a3 a4]], b as [[b1 b2] [b3 b4]]. unfold key_eqb. intro H.
  apply andb_true_iff in H. destruct H as [H H4]. apply andb_true_iff in H. destruct H as [H H3].
  apply andb_true_iff in H. destruct H as [H1 H2].
  apply Z.eqb_eq in H1, H2, H3, H4. subst. reflexivity.
Qed.

Fixpoint dedup (acc l : list key) : list key :=
  match l with
  | [] => acc
  | k :: t => if existsb (key_eqb k) acc then dedup acc t else dedup (k :: acc) t
  end.

Lemma dedup_In l : forall acc k, In k acc \/ In k l -> In k (dedup acc l).
Proof.
  induction l as [|x t IH]; intros acc k H; cbn [dedup].
  - destruct H as [H|[]]. exact H.
  - destruct (existsb (key_eqb x) acc) eqn:E.
    + apply IH. destruct H as [H|[H|H]]; [left; exact H| |right; exact H].
      subst x. apply existsb_exists in E. destruct E as [y [Hy Ey]]. apply key_eqb_eq in Ey. subst y. left. exact Hy.
    + apply IH. destruct H as [H|[H|H]]; [left; right; exact H|left; left; exact H|right; exact H].
Qed.

Definition all_keys : list key :=
  dedup [] (map key_of (filter (fun db => in_scope (snd db)) (flat_map tB shipped_tables))).

Definition key_ok (fx : bool) (k : key) : bool :=
  let '((d, s), (r, w)) := k in forallb (rt_ok fx d s r w) (raw_grid s r w).

Lemma all_keys_checked_div : forallb (key_ok false) all_keys = true.
Proof. vm_compute. reflexivity. Qed.

Lemma all_keys_checked_mul : forallb (key_ok true) all_keys = true.
Proof. vm_compute. reflexivity. Qed.

Theorem encode_float_eq_raw_partial :
  forall (fx_neg : bool) T, In T shipped_tables ->
  forall d b, In (d, b) (tB T) -> in_scope b = true ->
  forall i, In i (raw_grid (b_scale b) (b_ref b) (b_width b)) ->
  cvt_dval_to_i64 pow10_rn fx_neg d (enc_of b) (cvt_i64_to_dval pow10_rn fx_neg (enc_of b) i) = i.
Proof.
  intros fx T HT d b Hdb Hsc i Hi.
  assert (K : In (key_of (d, b)) all_keys).
  { unfold all_keys. apply dedup_In. right. apply in_map. apply filter_In. split; [|exact Hsc].
    apply in_flat_map. exists T. split; assumption. }
  assert (A : key_ok fx (key_of (d, b)) = true).
  { destruct fx; [exact (proj1 (forallb_forall _ _) all_keys_checked_mul _ K) | exact (proj1 (forallb_forall _ _) all_keys_checked_div _ K)]. }
  unfold key_of, key_ok in A. cbn [fst snd] in A.
  assert (B := proj1 (forallb_forall _ _) A _ Hi).
  unfold rt_ok in B. apply Z.eqb_eq in B.
  rewrite cvt_desc_canon. exact B.
Qed.

(* size of the finite domain, for the record *)
Definition partial_domain_size : Z :=
  fold_right (fun k acc => let '((d, s), (r, w)) := k in Z.of_nat (length (raw_grid s r w)) + acc) 0 all_keys.

(* ------------------------------------------------------------------ the negative-scale defect and its repair
   (proposed_fixes/C08_negscale_range.md / C08_remaining.diff; witnesses replayed on the C library by lib/c08.py) *)

(* variant fx_neg = false (x / pow(10,scale) with the inexact 10^scale): "the exactly representable physical value of a raw
   value below all-ones encodes to that raw value" fails: 0 02 067 (scale -5, reference 0, 15 bits), raw 32766, physical value
   3276600000 is stored as missing (all ones). *)
Theorem encode_exact_physical_refuted :
  exists en i d,
    (0 <= i <= 2 ^ e_nbits en - 2) /\ is_finite d = true /\
    B2R d = physR (e_scale en) (e_ref en) i /\
    cvt_dval_to_i64 pow10_rn false 2067 en d = 2 ^ e_nbits en - 1.
Proof.
  exists {| e_scale := -5; e_ref := 0; e_nbits := 15 |}, 32766, (d_of_Z 3276600000).
  destruct (d_of_Z_exact 3276600000) as [E F]; [vm_compute; reflexivity|].
  split; [cbn; lia|]. split; [exact F|]. split.
  - rewrite E. unfold physR. cbn [e_scale e_ref]. change (bpow radix10 (- -5)) with (IZR 100000).
    rewrite <- mult_IZR. reflexivity.
  - vm_compute. reflexivity.
Qed.

(* variant fx_neg = true (exact 10^-scale): the same value encodes to 32766 *)
Theorem encode_exact_physical_witness :
  cvt_dval_to_i64 pow10_rn true 2067 {| e_scale := -5; e_ref := 0; e_nbits := 15 |} (d_of_Z 3276600000) = 32766.
Proof. vm_compute. reflexivity. Qed.

(* the former counterexample of "out of range -> missing" (scale -1, reference -1000, 8 bits, -7440 was stored as 2^8;
   repaired in /repo by 3248512): now missing in both variants *)
Theorem encode_out_of_range_witness :
  forall fx_neg, cvt_dval_to_i64 pow10_rn fx_neg 1001 {| e_scale := -1; e_ref := -1000; e_nbits := 8 |} (d_of_Z (-7440)) = 2 ^ 8 - 1.
Proof. intros [|]; vm_compute; reflexivity. Qed.
