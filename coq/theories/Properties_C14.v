(* Properties_C14.v — C14: decoding a range of subsets equals the slice of the full decode; merged subsets stay equal. *)
From Coq Require Import List ZArith NArith Arith Lia Bool.
From V Require Import Walk Fm94 Fm94Proof Fm94Slice Fm94SliceProof.
From V Require IeeeCol IeeeColProof.
Import ListNotations.
Local Open Scope Z_scope.

(* one compressed column *)
Theorem C14_column_range_is_slice : forall nsub a b f l col tl,
  (1 <= a)%nat -> (a <= b)%nat -> (b <= nsub)%nat ->
  dec_col nsub f l = Ok (col, tl) -> dec_col_range nsub a b f l = Ok (slice a b col, tl).
Proof. exact col_range_is_slice. Qed.
Print Assumptions C14_column_range_is_slice.

(* compressed messages: any template, any 1 <= a <= b <= n *)
Theorem C14_compressed_range_is_slice : forall T ed fuel tmpl nsub a b l rows tl,
  (1 <= a)%nat -> (a <= b)%nat -> (b <= nsub)%nat ->
  dec_comp T ed fuel tmpl nsub l = Ok (rows, tl) ->
  dec_comp_range T ed fuel tmpl nsub a b l = Ok (slice a b rows, tl).
Proof. exact comp_range_is_slice. Qed.
Print Assumptions C14_compressed_range_is_slice.

(* uncompressed messages: decoding from the bit where subset a starts yields subsets a..b and stops where subset b+1 starts *)
Theorem C14_plain_decode_from_subset_start : forall T ed fuel tmpl pre mid post b tl,
  enc_plain T ed fuel tmpl (pre ++ mid ++ post) = Ok b ->
  exists bpre bmid bpost, b = bpre ++ bmid ++ bpost /\
    enc_plain T ed fuel tmpl pre = Ok bpre /\ enc_plain T ed fuel tmpl mid = Ok bmid /\ enc_plain T ed fuel tmpl post = Ok bpost /\
    dec_plain T ed fuel tmpl (length mid) (bmid ++ bpost ++ tl) = Ok (mid, bpost ++ tl).
Proof. exact plain_decode_from_subset_start. Qed.
Print Assumptions C14_plain_decode_from_subset_start.

(* ... and when every subset has the same length, that bit is (a-1) * length: the range decode is the slice *)
Theorem C14_plain_fixed_length_range_is_slice : forall T ed fuel tmpl rows sublen a b bts tl,
  (1 <= a)%nat -> (a <= b)%nat -> (b <= length rows)%nat ->
  enc_plain T ed fuel tmpl rows = Ok bts ->
  (forall r br, In r rows -> enc_plain T ed fuel tmpl [r] = Ok br -> length br = sublen) ->
  exists rest, dec_plain_range T ed fuel tmpl sublen a b (bts ++ tl) = Ok (slice a b rows, rest).
Proof. exact plain_fixed_range_is_slice. Qed.
Print Assumptions C14_plain_fixed_length_range_is_slice.

(* merging: the copied subsets sit at the requested positions and equal their sources; everything else is untouched;
   blanks are created up to the destination position; the count is clamped to what the source holds *)
Theorem C14_merge_spec : forall (A:Type) (blank:A) (dest:list A) dpos (src:list A) spos nb,
  let r := merge blank dest dpos src spos nb in
  let n := merge_count src spos nb in
  (forall i, (i < n)%nat -> nth_error r (dpos + i) = nth_error src (spos + i)) /\
  (forall j, (j < dpos)%nat -> (j < length dest)%nat -> nth_error r j = nth_error dest j) /\
  (forall j, (length dest <= j)%nat -> (j < dpos)%nat -> nth_error r j = Some blank) /\
  (forall j, (dpos + n <= j)%nat -> (j < length dest)%nat -> nth_error r j = nth_error dest j) /\
  length r = Nat.max (Nat.max (length dest) (S dpos)) (dpos + n) /\ (n <= nb)%nat /\ (spos + n <= Nat.max (length src) spos)%nat.
Proof. exact merge_spec. Qed.
Print Assumptions C14_merge_spec.

Example C14_slice_example : slice 2 3 [10; 20; 30; 40]%nat = [20; 30]%nat /\ merge 0%nat [1;2]%nat 4 [7;8;9]%nat 1 5 = [1;2;0;0;8;9]%nat.
Proof. split; reflexivity. Qed.

(* 2 09 YYY (IEEE 754) columns of a compressed message, in the library's convention (IeeeCol.v): the range decoder returns the
   slice and leaves the cursor behind the column - in particular it skips nothing when the column is stored once (NBINC = 0). *)
Theorem C14_ieee_column_range_is_slice : forall (w:nat) (vals:list N) (a b:nat) (tl:Fm94.bits),
  (8 <= w)%nat -> (w < 512)%nat -> Forall (fun v => (v < 2 ^ N.of_nat w)%N) vals ->
  (1 <= a)%nat -> (a <= b)%nat -> (b <= length vals)%nat ->
  IeeeCol.ieee_col_dec_range w (length vals) a b (IeeeCol.ieee_col_enc w vals ++ tl) = Some (IeeeCol.slice a b vals, tl).
Proof. exact IeeeColProof.ieee_col_range. Qed.
Print Assumptions C14_ieee_column_range_is_slice.
