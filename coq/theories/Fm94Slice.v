(* Fm94Slice.v — decoding a range of subsets a..b (1-based, inclusive) and merging subsets between datasets.
   Definitions only (proofs in Fm94SliceProof.v). *)
From Coq Require Import List ZArith NArith Arith Lia Bool.
From V Require Import Walk Fm94.
Import ListNotations.
Local Open Scope Z_scope.

Definition slice {A} (a b:nat) (l:list A) : list A := firstn (b - a + 1) (skipn (a - 1) l).

Fixpoint skip_bits (k:nat) (l:bits) : option bits :=
  match k with O => Some l | S k' => match l with [] => None | _ :: t => skip_bits k' t end end.

(* compressed numeric column restricted to subsets a..b: R0 and NBINC are read, the increments of subsets 1..a-1 and
   b+1..nsub are skipped over, exactly b-a+1 increments are decoded *)
Definition dec_numcol_range (w:Z) (miss:option N) (nsub a b:nat) (l:bits) : result (list N * bits) :=
  match dec_n (Z.to_nat w) 0%N l with
  | None => Err TypeErr
  | Some (r0, l1) =>
    match dec_n 6 0%N l1 with
    | None => Err TypeErr
    | Some (nb, l2) =>
      if N.eqb nb 0 then Ok (repeat r0 (b - a + 1), l2)
      else if (match miss with Some _ => (Z.to_N w <? nb)%N | None => false end) then Err Reject
      else
        match skip_bits ((a - 1) * N.to_nat nb) l2 with
        | None => Err TypeErr
        | Some l3 =>
          match dec_incs (b - a + 1) (N.to_nat nb) r0 miss l3 with
          | None => Err TypeErr
          | Some (vs, l4) =>
            match skip_bits ((nsub - b) * N.to_nat nb) l4 with
            | None => Err TypeErr
            | Some l5 => Ok (vs, l5)
            end
          end
        end
    end
  end.

Definition dec_strcol_range (w:Z) (nsub a b:nat) (l:bits) : result (list (list N) * bits) :=
  let wo := Z.to_nat (w / 8) in
  match dec_bytes wo l with
  | None => Err TypeErr
  | Some (r0, l1) =>
    match dec_n 6 0%N l1 with
    | None => Err TypeErr
    | Some (nb, l2) =>
      if N.eqb nb 0 then Ok (repeat r0 (b - a + 1), l2)
      else if negb (N.eqb nb (N.of_nat wo)) then Err Reject
      else
        match skip_bits ((a - 1) * (8 * wo)) l2 with
        | None => Err TypeErr
        | Some l3 =>
          match dec_strs (b - a + 1) wo l3 with
          | None => Err TypeErr
          | Some (ss, l4) =>
            match skip_bits ((nsub - b) * (8 * wo)) l4 with
            | None => Err TypeErr
            | Some l5 => Ok (ss, l5)
            end
          end
        end
    end
  end.

Definition dec_col_range (nsub a b:nat) (f:field) (l:bits) : result (column * bits) :=
  if negb (wf_field f) then Err Reject else
  if Nat.eqb nsub 0 then Err TypeErr else
  '(afs, l1) <- (if 0 <? f_afw f then dec_numcol_range (f_afw f) None nsub a b l else Ok (repeat 0%N (b - a + 1), l)) ;;
  '(col, l2) <- (if is_str (f_kind f)
                 then '(ss, t) <- dec_strcol_range (f_width f) nsub a b l1 ;; Ok (map (fun p => mkD (fst p) (VStr (snd p))) (combine afs ss), t)
                 else '(ns, t) <- dec_numcol_range (f_width f) (Some (allones (f_width f))) nsub a b l1 ;;
                      Ok (map (fun p => mkD (fst p) (VRaw (snd p))) (combine afs ns), t)) ;;
  if is_factor (f_desc f) && negb (match raws col with Some l => all_eq l | None => false end) then Err NotCompressible else
  Ok (col, l2).

Definition walk_decC_range (T:tables) (ed:Z) (nsub a b:nat) :=
  walk_dec opst field column (lookupD T) (mk_field T) (resolve ed) op_field post_col is_factor count_col (dec_col_range nsub a b).
Definition dec_comp_range (T:tables) (ed:Z) (fuel:nat) (tmpl:list Z) (nsub a b:nat) (l:bits) : result (list (list datum) * bits) :=
  '(_, l1, cols) <- walk_decC_range T ed nsub a b fuel op0 tmpl l ;;
  Ok (transpose (b - a + 1) cols, l1).

(* uncompressed data whose subsets all have the same length: skip (a-1) subsets worth of bits, decode b-a+1 subsets *)
Definition dec_plain_range (T:tables) (ed:Z) (fuel:nat) (tmpl:list Z) (sublen a b:nat) (l:bits) : result (list (list datum) * bits) :=
  match skip_bits ((a - 1) * sublen) l with
  | None => Err TypeErr
  | Some l1 => dec_plain T ed fuel tmpl (b - a + 1) l1
  end.

(* bufr_merge_dataset: copy nb subsets of src starting at spos (0-based) to positions dpos.. of dest; dest is extended
   with blank subsets up to and including dpos when dpos is beyond its end; the count is clamped to what src holds *)
Definition merge {A} (blank:A) (dest:list A) (dpos:nat) (src:list A) (spos nb:nat) : list A :=
  let nb' := Nat.min nb (length src - spos) in
  let dest' := dest ++ repeat blank (S dpos - length dest) in
  firstn dpos dest' ++ firstn nb' (skipn spos src) ++ skipn (dpos + nb') dest'.
Definition merge_count {A} (src:list A) (spos nb:nat) : nat := Nat.min nb (length src - spos).
