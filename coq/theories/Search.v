(* Search.v — executable mirror of the subset search of libecbufr (property C17):
     bufr_subset_find_descriptor, bufr_subset_find_values     API/Sources/bufr_api.c:150, 205
     bufr_set_key_* helpers                                    API/Sources/bufr_api.c:447-791
     bufr_compare_value, bufr_between_values, getters          API/Sources/bufr_value.c:782-993, 1572, 1655
     bufr_expand_qualifiers                                    API/Sources/bufr_dataset.c:276
     bufr_fetch_rtmd_qualifier                                 API/Sources/bufr_meta.c:387
   Values: a C float/double is represented by the exact rational it holds (Q); the "missing" float (FLT_MAX / DBL_MAX,
   what bufr_is_missing_float/double accept) by None.  Integers are unbounded Z (the property is not about widths).
   The only floating-point operations of the mirrored code are the subtraction in fabs(f1-f2) <= eps, eps = 0.5/pow(10,scale),
   and the order comparisons of bufr_between_values; they are modelled exactly, so model and library can differ only when
   |f1-f2| lies within a rounding error of eps (the check generates no such near ties).
   The record [variant] selects, per defect found in the current code, the current ("legacy") behaviour or the behaviour
   after the proposed fix; see /verif/proposed_fixes/C17_*.md. *)
From Coq Require Import List ZArith QArith Qabs Qround Bool Lia.
Import ListNotations.
Local Open Scope Z_scope.

Record variant := { fix_between : bool;   (* bufr_between_values accepts bounds of another numeric type / no (float) rounding *)
                    fix_misskey : bool;   (* bufr_set_key_int32 / _qualifier_int32 store the missing float for a missing int *)
                    fix_qualeps : bool;   (* qualifier keys are compared with half the precision of the QUALIFIER *)
                    fix_qualany : bool }. (* bufr_set_key_qualifier(cv,desc,NULL) = "qualifier present, any value" *)
Definition legacy := {| fix_between := false; fix_misskey := false; fix_qualeps := false; fix_qualany := false |}.
Definition fixed  := {| fix_between := true;  fix_misskey := true;  fix_qualeps := true;  fix_qualany := true |}.

(* ------------------------------------------------------------------ values (bufr_value.c) *)
Inductive vtype := TI32 | TI64 | TF32 | TF64 | TStr | TUndef.
Definition vtype_eqb (a b : vtype) : bool :=
  match a, b with TI32,TI32 | TI64,TI64 | TF32,TF32 | TF64,TF64 | TStr,TStr | TUndef,TUndef => true | _,_ => false end.

Inductive value :=
| VInt (t : vtype) (i : Z)           (* VALTYPE_INT8/INT32 (TI32) or INT64 (TI64); -1 is the missing integer *)
| VFlt (t : vtype) (q : option Q)    (* VALTYPE_FLT32 / FLT64; None = the missing float *)
| VStr (s : list Z)                  (* VALTYPE_STRING: the len bytes *)
| VUndef.                            (* VALTYPE_UNDEFINE (the ValueCallback of a callback key) *)

Definition vtype_of (v : value) : vtype :=
  match v with VInt t _ => t | VFlt t _ => t | VStr _ => TStr | VUndef => TUndef end.
Definition is_numeric (v : value) : bool := match v with VInt _ _ | VFlt _ _ => true | _ => false end.

(* bufr_value_get_int32 / get_int64: floats are truncated toward zero, missing and non-numeric give -1 *)
Definition get_int (v : value) : Z :=
  match v with
  | VInt _ i => i
  | VFlt _ None => -1
  | VFlt _ (Some q) => Z.quot (Qnum q) (Zpos (Qden q))
  | _ => -1
  end.
(* bufr_value_get_float / get_double: integer -1 and non-numeric give the missing float *)
Definition get_flt (v : value) : option Q :=
  match v with
  | VFlt _ q => q
  | VInt _ i => if i =? -1 then None else Some (inject_Z i)
  | _ => None
  end.

Fixpoint list_eqb (a b : list Z) : bool :=
  match a, b with
  | [], [] => true
  | x :: a', y :: b' => (x =? y) && list_eqb a' b'
  | _, _ => false
  end.

(* bufr_is_missing_string: trailing blanks (beyond the first byte) ignored, then every byte 255 *)
Fixpoint strip_blanks_rev (r : list Z) : list Z :=      (* r = reversed string *)
  match r with
  | c :: (_ :: _) as tl => if c =? 32 then strip_blanks_rev tl else r
  | _ => r
  end.
Definition is_missing_string (s : list Z) : bool := forallb (fun c => c =? 255) (rev (strip_blanks_rev (rev s))).

(* bufr_value_is_missing *)
Definition is_missing (v : value) : bool :=
  match v with
  | VInt _ i => i =? -1
  | VFlt _ None => true
  | VFlt _ (Some _) => false
  | VStr s => is_missing_string s
  | VUndef => true
  end.

(* 10^scale as a rational; half_prec scale = 0.5 / pow(10,scale) *)
Definition pow10Q (s : Z) : Q := if 0 <=? s then inject_Z (10 ^ s) else Qinv (inject_Z (10 ^ (- s))).
Definition half_prec (scale : Z) : Q := Qdiv (1 # 2) (pow10Q scale).

(* bufr_compare_value(e,k,eps) == 0.  The switch is on the type of the FIRST argument. *)
Definition cmp_eq (e k : value) (eps : Q) : bool :=
  match e with
  | VInt _ i1 => i1 =? get_int k
  | VFlt _ f1 =>
      match f1, get_flt k with
      | Some a, Some b => Qle_bool (Qabs (a - b)) eps
      | None, None => Qle_bool 0 eps          (* fabs(MAX - MAX) = 0 *)
      | _, _ => false                         (* |MAX - x| > eps *)
      end
  | VStr s1 =>
      match k with
      | VStr s2 => let n := Nat.min (length s1) (length s2) in list_eqb (firstn n s1) (firstn n s2)   (* strncmp(s1,s2,min) *)
      | _ => true       (* bufr_value_get_string gives (NULL,0): strncmp(s1,NULL,0) -- undefined in C, 0 in practice; outside the property's domain *)
      end
  | VUndef => false
  end.

(* order on floats where None is the (huge) missing value *)
Definition ole (a b : option Q) : bool :=
  match a, b with
  | Some x, Some y => Qle_bool x y
  | _, None => true
  | None, Some _ => false
  end.

(* rounding of a rational to IEEE single (round to nearest even; no overflow/subnormal handling: |q| moderate).
   Needed only for the current code's `ff = bufr_value_get_float( bv )` in the FLT64 branch of bufr_between_values. *)
Definition pow2Q (e : Z) : Q := if 0 <=? e then inject_Z (2 ^ e) else Qinv (inject_Z (2 ^ (- e))).
Definition rne (q : Q) : Z :=
  let f := Qfloor q in
  match Qcompare (q - inject_Z f) (1 # 2) with
  | Lt => f | Gt => f + 1 | Eq => if Z.even f then f else f + 1
  end.
Definition rnd32 (q : Q) : Q :=
  if Qeq_bool q 0 then 0%Q else
  let a := Qabs q in
  let e0 := Z.log2 (Qnum a) - Z.log2 (Zpos (Qden a)) in
  let e := if Qle_bool (pow2Q e0) a then (if Qle_bool (pow2Q (e0 + 1)) a then e0 + 1 else e0) else e0 - 1 in
  let n := rne (a * pow2Q (23 - e)) in
  let r := Qred (inject_Z n * pow2Q (e - 23)) in
  if Qle_bool 0 q then r else Qopp r.
Definition ornd32 (a : option Q) : option Q := match a with Some x => Some (rnd32 x) | None => None end.

(* bufr_between_values(lo,e,hi) == 1 *)
Definition between (vr : variant) (lo e hi : value) : bool :=
  if vtype_eqb (vtype_of lo) (vtype_of e) && vtype_eqb (vtype_of hi) (vtype_of e) then
    match vtype_of lo with
    | TI32 | TI64 => (get_int lo <=? get_int e) && (get_int e <=? get_int hi)
    | TF32 => ole (get_flt lo) (get_flt e) && ole (get_flt e) (get_flt hi)
    | TF64 => let ff := if fix_between vr then get_flt e else ornd32 (get_flt e) in   (* current code: ff = (float) value *)
              ole (get_flt lo) ff && ole ff (get_flt hi)
    | TStr => match lo, e, hi with
              | VStr s1, VStr s, VStr s2 => list_eqb s1 s || list_eqb s2 s        (* strcmp(s1,s)==0 || strcmp(s2,s)==0 *)
              | _, _, _ => false
              end
    | TUndef => false
    end
  else if fix_between vr && is_numeric lo && is_numeric e && is_numeric hi then
    ole (get_flt lo) (get_flt e) && ole (get_flt e) (get_flt hi)                   (* proposed fix: compare as doubles *)
  else false.                                                                     (* current code: return -1 *)

(* ------------------------------------------------------------------ subsets, qualifiers (bufr_dataset.c, bufr_meta.c) *)
Record elem := { e_desc : Z; e_val : option value; e_scale : Z; e_cls : bool (* FLAG_CLASS31|FLAG_CLASS33 *) }.
Definition elem0 := {| e_desc := -1; e_val := None; e_scale := 0; e_cls := false |}.

(* an entry of meta->qualifiers: a pointer to the qualifier's descriptor = its position and what is read through it *)
Record qent := { q_pos : nat; q_desc : Z; q_val : value; q_scale : Z }.

(* bufr_is_qualifier (C integer division) *)
Definition is_qualifier (d : Z) : bool :=
  if negb (Z.quot d 100000 =? 0) then false else
  let x := Z.rem (Z.quot d 1000) 100 in (1 <=? x) && (x <=? 9).

(* bufr_fetch_rtmd_qualifier: first entry with that descriptor *)
Definition fetch_qualifier (d : Z) (l : list qent) : option qent := find (fun q => q_desc q =? d) l.

(* the backwards search `for( qpos = nb_quals-1; qpos >= 0; qpos -- )` : index of the last entry with descriptor d *)
Fixpoint last_index (d : Z) (l : list qent) (pos : nat) (acc : option nat) : option nat :=
  match l with
  | [] => acc
  | q :: tl => last_index d tl (S pos) (if q_desc q =? d then Some pos else acc)
  end.
Fixpoint remove_at {A} (n : nat) (l : list A) : list A :=
  match l, n with
  | [], _ => []
  | _ :: tl, O => tl
  | x :: tl, S k => x :: remove_at k tl
  end.
Fixpoint replace_at {A} (n : nat) (y : A) (l : list A) : list A :=
  match l, n with
  | [], _ => []
  | _ :: tl, O => y :: tl
  | x :: tl, S k => x :: replace_at k y tl
  end.

(* one iteration of the loop of bufr_expand_qualifiers: the list assigned to the element, and the new stack *)
Definition expand_step (pos : nat) (e : elem) (quals : list qent) : list qent * list qent :=
  if e_cls e then ([], quals) else
  let assigned := if (0 <? length quals)%nat then filter (fun q => negb (is_missing (q_val q))) quals else [] in
  let quals' :=
    match e_val e with
    | Some v =>
        if is_qualifier (e_desc e) then
          let me := {| q_pos := pos; q_desc := e_desc e; q_val := v; q_scale := e_scale e |} in
          match last_index (e_desc e) quals O None with
          | Some qpos => if is_missing v then remove_at qpos quals else replace_at qpos me quals
          | None => if is_missing v then quals else quals ++ [me]
          end
        else quals
    | None => quals
    end in
  (assigned, quals').

Fixpoint expand_from (es : list elem) (pos : nat) (quals : list qent) : list (list qent) :=
  match es with
  | [] => []
  | e :: tl => let '(a, q') := expand_step pos e quals in a :: expand_from tl (S pos) q'
  end.
Definition expand_qualifiers (es : list elem) : list (list qent) := expand_from es O [].

(* ------------------------------------------------------------------ keys (bufr_api.c) *)
Definition TLC_FLAG_BIT := 524288.   (* 0x80000 *)
Definition QUAL_FLAG_BIT := 262144.  (* 0x40000 *)
Definition CB_FLAG_BIT := 131072.    (* 0x20000 *)
Definition FLAG_BITS := 917504.
Definition has_flag (d f : Z) : bool := negb (Z.land d f =? 0).
Definition clear_flags (d f : Z) : Z := Z.land d (Z.lnot f).      (* d & ~f *)

(* a comparison callback sees the descriptor (element) and, through bd->meta, its qualifier list; 0 = match *)
Definition callback := elem -> list qent -> Z.

Record key := { k_desc : Z;                 (* descriptor with the flag bits 17..19 *)
                k_vals : list value;        (* values[0..nbval-1] *)
                k_cb : option callback }.   (* the ValueCallback behind values[0] of a callback key *)
Definition nbval (k : key) : Z := Z.of_nat (length (k_vals k)).

Definition key_int_value (vr : variant) (v : Z) : value :=
  if v =? -1 then VFlt TF32 (if fix_misskey vr then None else Some (inject_Z (-1)))   (* (float)-1 stored by bufr_value_set_int32 *)
  else VInt TI32 v.
Definition set_key_int32 (vr : variant) (d : Z) (vals : list Z) : key :=
  {| k_desc := d; k_vals := map (key_int_value vr) vals; k_cb := None |}.
Definition set_key_flt32 (d : Z) (vals : list (option Q)) : key :=
  {| k_desc := d; k_vals := map (VFlt TF32) vals; k_cb := None |}.
Definition set_key_string (d : Z) (vals : list (list Z)) : key :=
  {| k_desc := d; k_vals := map VStr vals; k_cb := None |}.
Definition set_key_values (d : Z) (vals : list value) : key :=        (* hand-made: bufr_valloc_DescValue + bufr_create_value *)
  {| k_desc := d; k_vals := vals; k_cb := None |}.
Definition set_key_qualifier (d : Z) (v : option value) : key :=
  {| k_desc := Z.lor d QUAL_FLAG_BIT; k_vals := match v with Some x => [x] | None => [] end; k_cb := None |}.
Definition set_key_qualifier_int32 (vr : variant) (d : Z) (v : Z) : key :=
  {| k_desc := Z.lor d QUAL_FLAG_BIT; k_vals := [key_int_value vr v]; k_cb := None |}.
Definition set_key_qualifier_flt32 (d : Z) (v : option Q) : key :=
  {| k_desc := Z.lor d QUAL_FLAG_BIT; k_vals := [VFlt TF32 v]; k_cb := None |}.
Definition set_key_callback (d : Z) (cb : callback) : key :=
  {| k_desc := Z.lor d CB_FLAG_BIT; k_vals := [VUndef]; k_cb := Some cb |}.
Definition set_key_meta_callback (cb : callback) : key :=
  {| k_desc := Z.lor CB_FLAG_BIT QUAL_FLAG_BIT; k_vals := [VUndef]; k_cb := Some cb |}.

(* the callbacks used by harness/c17.c *)
Definition cb_missing : callback := fun e _ => match e_val e with Some v => if is_missing v then 0 else 1 | None => 1 end.
Definition cb_notmissing : callback := fun e _ => match e_val e with Some v => if is_missing v then 1 else 0 | None => 1 end.
Definition cb_qual (qd v : Z) : callback := fun _ ql =>
  match fetch_qualifier qd ql with
  | None => -1
  | Some q => if get_int (q_val q) =? v then 0 else 1      (* bufr_descriptor_get_ivalue(qd) != val *)
  end.

(* the three lists built at the top of bufr_subset_find_values *)
Fixpoint split_keys (ks : list key) : list key * list key * list key :=      (* (tlc, qual, desc) *)
  match ks with
  | [] => ([], [], [])
  | k :: tl =>
      let '(t, q, d) := split_keys tl in
      if has_flag (k_desc k) TLC_FLAG_BIT then
        ({| k_desc := clear_flags (k_desc k) TLC_FLAG_BIT; k_vals := k_vals k; k_cb := k_cb k |} :: t, q, d)
      else if has_flag (k_desc k) QUAL_FLAG_BIT then
        (t, {| k_desc := clear_flags (k_desc k) QUAL_FLAG_BIT; k_vals := k_vals k; k_cb := k_cb k |} :: q, d)
      else (t, q, k :: d)
  end.

(* one qualifier key against the element; None = the code dereferences a NULL pointer *)
Definition qual_ok (vr : variant) (cb : elem) (ql : list qent) (qk : key) : option bool :=
  if has_flag (k_desc qk) CB_FLAG_BIT then
    match k_vals qk, k_cb qk with
    | _ :: _, Some f => Some (f cb ql =? 0)
    | [], _ => None                               (* qual[k].values is NULL *)
    | _ :: _, None => None                        (* not a ValueCallback: outside the model *)
    end
  else
    match fetch_qualifier (clear_flags (k_desc qk) FLAG_BITS) ql with
    | None => Some false                          (* no meta, or the qualifier is not in effect *)
    | Some qd =>
        let eps := half_prec (if fix_qualeps vr then q_scale qd else e_scale cb) in
        match k_vals qk with
        | kv :: _ => Some (cmp_eq (q_val qd) kv eps)
        | [] => if fix_qualany vr then Some true else None       (* qual[k].values[0] with values == NULL *)
        end
    end.

Fixpoint quals_ok (vr : variant) (cb : elem) (ql : list qent) (qks : list key) : option bool :=
  match qks with
  | [] => Some true
  | qk :: tl =>
      match qual_ok vr cb ql qk with
      | None => None
      | Some false => Some false                  (* break: later keys are not evaluated *)
      | Some true => quals_ok vr cb ql tl
      end
  end.

(* the value test of one element key *)
Definition value_ok (vr : variant) (cb : elem) (ql : list qent) (dk : key) : option bool :=
  if has_flag (k_desc dk) CB_FLAG_BIT && (0 <? nbval dk) then
    match k_cb dk with Some f => Some (f cb ql =? 0) | None => None end
  else if 0 <? nbval dk then
    match e_val cb with
    | None => Some false
    | Some ev =>
        let eps := half_prec (e_scale cb) in
        match k_vals dk with
        | [lo; hi] => Some (between vr lo ev hi)
        | vals => Some (existsb (fun kv => cmp_eq ev kv eps) vals)
        end
    end
  else Some true.

(* everything the loop body checks at position i for element key j *)
Definition pos_match (vr : variant) (cb : elem) (ql : list qent) (quals : list key) (dk : key) : option bool :=
  if negb (e_desc cb =? clear_flags (k_desc dk) FLAG_BITS) then Some false else
  match quals_ok vr cb ql quals with
  | None => None
  | Some false => Some false
  | Some true => value_ok vr cb ql dk
  end.

(* ------------------------------------------------------------------ the search loop *)
Inductive result := Found (r : Z) | Crash | NoFuel | NotModelled.

Section Loop.
  Variable count nb : Z.
  Variable m : Z -> Z -> option bool.      (* m i j: position i against element key j *)

  (* for (i = startpos; j < nb_desc && i < count ; i++) { ... }   return (j==nb_desc) ? jj : -1; *)
  Fixpoint loop (fuel : nat) (i j jj : Z) : result :=
    match fuel with
    | O => NoFuel
    | S f =>
        if (j <? nb) && (i <? count) then
          match m i j with
          | None => Crash
          | Some true => loop f (i + 1) (j + 1) (if jj <? 0 then i else jj)          (* ++j; if( jj<0 ) jj = i;  i++ *)
          | Some false => loop f ((if 0 <=? jj then jj else i) + 1) 0 (-1)            (* if( jj>=0 ) i = jj; jj = -1; j = 0; i++ *)
          end
        else Found (if j =? nb then jj else -1)
    end.
  Definition loop_fuel (start : Z) : nat := S (Z.to_nat ((count - start + 1) * (nb + 1))).
End Loop.

Definition zlen {A} (l : list A) : Z := Z.of_nat (length l).
Definition znth {A} (l : list A) (i : Z) (d : A) : A := nth (Z.to_nat i) l d.
Definition key0 := {| k_desc := -1; k_vals := []; k_cb := None |}.

Definition find_values (vr : variant) (es : list elem) (keys : list key) (startpos : Z) : result :=
  let count := zlen es in
  if count =? 0 then Found (-1) else
  if (0 <=? startpos) && (count <=? startpos) then Found (-1) else
  let start := if startpos <? 0 then 0 else startpos in
  if zlen keys =? 0 then Found start else
  let '(tlc, qual, desc) := split_keys keys in
  match tlc with
  | _ :: _ => NotModelled                         (* time/location keys need the TLC meta data of the decoder: not modelled *)
  | [] =>
      let qls := expand_qualifiers es in
      let m := fun i j => pos_match vr (znth es i elem0) (znth qls i []) qual (znth desc j key0) in
      loop count (zlen desc) m (loop_fuel count (zlen desc) start) start 0 start
  end.

(* bufr_subset_find_descriptor *)
Fixpoint fd_loop (d : Z) (l : list elem) (i : Z) : Z :=
  match l with
  | [] => -1
  | e :: tl => if e_desc e =? d then i else fd_loop d tl (i + 1)
  end.
Definition find_descriptor (es : list elem) (d : Z) (startpos : Z) : Z :=
  let count := zlen es in
  let start := if startpos <? 0 then 0 else startpos in
  if count <=? start then -1 else fd_loop d (skipn (Z.to_nat start) es) start.

(* ------------------------------------------------------------------ the specification *)
(* keys 0..nb-1 match consecutively at p *)
Definition matches_at (mb : Z -> Z -> bool) (nb count p : Z) : Prop :=
  p + nb <= count /\ forall j, 0 <= j < nb -> mb (p + j) j = true.
Definition is_first_match (mb : Z -> Z -> bool) (nb count start r : Z) : Prop :=
  (r = -1 /\ forall p, start <= p -> ~ matches_at mb nb count p) \/
  (start <= r /\ matches_at mb nb count r /\ forall p, start <= p < r -> ~ matches_at mb nb count p).

(* executable brute-force specification *)
Fixpoint all_keys (mb : Z -> Z -> bool) (p : Z) (n : nat) (j : Z) : bool :=
  match n with O => true | S k => mb (p + j) j && all_keys mb p k (j + 1) end.
Definition matches_atb (mb : Z -> Z -> bool) (nb count p : Z) : bool :=
  (p + nb <=? count) && all_keys mb p (Z.to_nat nb) 0.
Fixpoint first_from (mb : Z -> Z -> bool) (nb count : Z) (n : nat) (p : Z) : Z :=
  match n with
  | O => -1
  | S k => if matches_atb mb nb count p then p else first_from mb nb count k (p + 1)
  end.
Definition first_match (mb : Z -> Z -> bool) (nb count start : Z) : Z :=
  first_from mb nb count (Z.to_nat (count - start + 1)) start.

(* the qualifier of descriptor d in effect before position p: the most recent (non class-31/33) occurrence of d with a
   value among the positions < p decides; a missing value cancels *)
Definition qual_upd (e : elem) (pos : nat) (d : Z) (cur : option qent) : option qent :=
  if e_cls e then cur else
  match e_val e with
  | Some v => if is_qualifier (e_desc e) && (e_desc e =? d)
              then (if is_missing v then None else Some {| q_pos := pos; q_desc := d; q_val := v; q_scale := e_scale e |})
              else cur
  | None => cur
  end.
Fixpoint qual_scan (es : list elem) (pos : nat) (d : Z) (cur : option qent) : option qent :=
  match es with [] => cur | e :: tl => qual_scan tl (S pos) d (qual_upd e pos d cur) end.
Definition qual_in_effect (es : list elem) (p : nat) (d : Z) : option qent := qual_scan (firstn p es) O d None.
