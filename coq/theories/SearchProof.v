(* SearchProof.v — proofs about the mirror Search.v (property C17) *)
From Coq Require Import List ZArith QArith Qabs Bool Lia ZifyBool.
From V Require Import Search.
Import ListNotations.
Local Open Scope Z_scope.
Ltac Zify.zify_post_hook ::= Z.div_mod_to_equations.

(* ================================================================== the search loop: first match, termination *)
Section LoopProof.
  Variable count nb : Z.
  Variable m : Z -> Z -> option bool.
  Variable mb : Z -> Z -> bool.
  Variable start : Z.
  Hypothesis Hnb : 0 <= nb.
  Hypothesis Hstart : 0 <= start <= count.
  Hypothesis Hm : forall i j, start <= i < count -> 0 <= j < nb -> m i j = Some (mb i j).

  (* the loop state (i,j,jj) is always "attempt based at b, j keys matched": i = b + j *)
  Definition inv (b j jj : Z) : Prop :=
    start <= b /\ 0 <= j <= nb /\ b + j <= count /\
    (jj = b \/ (jj = -1 /\ j = 0 /\ 0 < nb)) /\
    (forall p, start <= p < b -> ~ matches_at mb nb count p) /\
    (forall j', 0 <= j' < j -> mb (b + j') j' = true).

  Definition measure (b j : Z) : Z := (count - b) * (nb + 1) + (nb - j).

  Lemma loop_correct : forall fuel b j jj,
    inv b j jj -> measure b j < Z.of_nat fuel ->
    exists r, loop count nb m fuel (b + j) j jj = Found r /\ is_first_match mb nb count start r.
  Proof.
    induction fuel as [|fuel IH]; intros b j jj Hinv Hfuel.
    - exfalso. destruct Hinv as (Hb & Hj & Hbj & _). unfold measure in Hfuel.
      assert (0 <= (count - b) * (nb + 1)) by (apply Z.mul_nonneg_nonneg; lia). lia.
    - destruct Hinv as (Hb & Hj & Hbj & Hjj & Hnone & Hpre).
      cbn [loop].
      destruct ((j <? nb) && (b + j <? count)) eqn:Econd.
      + assert (Hjlt : j < nb) by lia. assert (Hilt : b + j < count) by lia.
        rewrite (Hm (b + j) j) by lia.
        destruct (mb (b + j) j) eqn:Emb.
        * (* match *)
          assert (Hjj' : (if jj <? 0 then b + j else jj) = b).
          { destruct Hjj as [-> | (-> & -> & _)].
            - destruct (b <? 0) eqn:E; lia.
            - cbn. lia. }
          rewrite Hjj'. replace (b + j + 1) with (b + (j + 1)) by lia.
          apply IH.
          -- split; [lia|]. split; [lia|]. split; [lia|]. split; [left; reflexivity|]. split; [exact Hnone|].
             intros j' Hj'. destruct (Z.eq_dec j' j) as [-> | Hne]; [exact Emb | apply Hpre; lia].
          -- unfold measure in *. lia.
        * (* mismatch: restart at b+1 *)
          assert (Hi' : (if 0 <=? jj then jj else b + j) + 1 = (b + 1) + 0).
          { destruct Hjj as [-> | (-> & -> & _)].
            - destruct (0 <=? b) eqn:E; lia.
            - cbn. lia. }
          rewrite Hi'.
          apply IH.
          -- split; [lia|]. split; [lia|]. split; [lia|]. split; [right; lia|]. split; [|intros j' Hj'; lia].
             intros p Hp. destruct (Z.eq_dec p b) as [-> | Hne].
             ++ intros (_ & Hall). rewrite (Hall j) in Emb by lia. discriminate.
             ++ apply Hnone. lia.
          -- unfold measure in *.
             replace ((count - (b + 1)) * (nb + 1)) with ((count - b) * (nb + 1) - (nb + 1)) by ring.
             lia.
      + (* exit *)
        destruct (j =? nb) eqn:Ejn.
        * assert (j = nb) by lia. subst j.
          assert (jj = b) by (destruct Hjj as [-> | (_ & ? & ?)]; lia). subst jj.
          exists b. split; [reflexivity|]. right. split; [lia|]. split; [|exact Hnone].
          split; [lia|]. intros j' Hj'. apply Hpre. lia.
        * assert (Hj' : j < nb) by lia. assert (Hi : count <= b + j) by lia.
          exists (-1). split; [reflexivity|]. left. split; [reflexivity|].
          intros p Hp. destruct (Z_lt_dec p b) as [Hlt | Hge].
          -- apply Hnone. lia.
          -- intros (Hlen & _). lia.
  Qed.

  (* the mirror of the loop of bufr_subset_find_values returns the first match; the fuel bound is sufficient *)
  Theorem find_is_first_match :
    exists r, loop count nb m (loop_fuel count nb start) start 0 start = Found r /\ is_first_match mb nb count start r.
  Proof.
    assert (H := loop_correct (loop_fuel count nb start) start 0 start).
    rewrite Z.add_0_r in H. apply H; clear H.
    - split; [lia|]. split; [lia|]. split; [lia|]. split; [left; reflexivity|]. split; intros; lia.
    - unfold measure, loop_fuel.
      assert (0 <= (count - start + 1) * (nb + 1)) by (apply Z.mul_nonneg_nonneg; lia).
      rewrite Nat2Z.inj_succ, Z2Nat.id by assumption.
      replace ((count - start + 1) * (nb + 1)) with ((count - start) * (nb + 1) + (nb + 1)) by ring. lia.
  Qed.

  Corollary loop_terminates : loop count nb m (loop_fuel count nb start) start 0 start <> NoFuel.
  Proof. destruct find_is_first_match as (r & Hr & _). rewrite Hr. discriminate. Qed.
End LoopProof.

(* a first match is unique *)
Lemma is_first_match_unique : forall mb nb count start r1 r2,
  is_first_match mb nb count start r1 -> is_first_match mb nb count start r2 -> r1 = r2.
Proof.
  intros mb nb count start r1 r2 [ (-> & H1) | (Hs1 & Hm1 & Hn1) ] [ (-> & H2) | (Hs2 & Hm2 & Hn2) ].
  - reflexivity.
  - exfalso. apply (H1 r2 Hs2 Hm2).
  - exfalso. apply (H2 r1 Hs1 Hm1).
  - destruct (Z_lt_dec r1 r2) as [Hlt|Hge1]; [exfalso; apply (Hn2 r1); [lia|exact Hm1]|].
    destruct (Z_lt_dec r2 r1) as [Hlt|Hge2]; [exfalso; apply (Hn1 r2); [lia|exact Hm2]|]. lia.
Qed.

(* ------------------------------------------------------------------ the executable specification first_match *)
Lemma all_keys_spec : forall mb p n j,
  all_keys mb p n j = true <-> (forall k, j <= k < j + Z.of_nat n -> mb (p + k) k = true).
Proof.
  induction n as [|n IH]; intros j; cbn [all_keys].
  - split; [intros _ k Hk; lia | reflexivity].
  - rewrite andb_true_iff, IH. split.
    + intros (H0 & H1) k Hk. destruct (Z.eq_dec k j) as [-> | Hne]; [exact H0 | apply H1; lia].
    + intros H. split; [apply H; lia | intros k Hk; apply H; lia].
Qed.

Lemma matches_atb_spec : forall mb nb count p, 0 <= nb ->
  matches_atb mb nb count p = true <-> matches_at mb nb count p.
Proof.
  intros mb nb count p Hnb. unfold matches_atb, matches_at.
  rewrite andb_true_iff, all_keys_spec, Z2Nat.id by lia. rewrite Z.leb_le.
  split; intros (H1 & H2); (split; [exact H1 | intros k Hk; apply H2; lia]).
Qed.

Lemma first_from_spec : forall mb nb count start, 0 <= nb -> forall n p,
  start <= p ->
  (forall q, start <= q < p -> ~ matches_at mb nb count q) ->
  (forall q, p + Z.of_nat n <= q -> ~ matches_at mb nb count q) ->
  is_first_match mb nb count start (first_from mb nb count n p).
Proof.
  intros mb nb count start Hnb. induction n as [|n IH]; intros p Hp Hbefore Hafter; cbn [first_from].
  - left. split; [reflexivity|]. intros q Hq. destruct (Z_lt_dec q p); [apply Hbefore; lia | apply Hafter; lia].
  - destruct (matches_atb mb nb count p) eqn:E.
    + right. split; [exact Hp|]. split; [apply matches_atb_spec; assumption | exact Hbefore].
    + apply IH; [lia | | ].
      * intros q Hq. destruct (Z.eq_dec q p) as [-> | Hne].
        -- intro Hm. apply matches_atb_spec in Hm; [congruence | exact Hnb].
        -- apply Hbefore. lia.
      * intros q Hq. apply Hafter. lia.
Qed.

Theorem first_match_spec : forall mb nb count start, 0 <= nb -> 0 <= start <= count ->
  is_first_match mb nb count start (first_match mb nb count start).
Proof.
  intros mb nb count start Hnb Hs. unfold first_match. apply first_from_spec; [exact Hnb | lia | | ].
  - intros q Hq. exfalso. lia.
  - intros q Hq (Hlen & _). rewrite Z2Nat.id in Hq by lia. lia.
Qed.

(* ================================================================== bufr_subset_find_descriptor *)
Lemma nth_skipn_add : forall (A : Type) (l : list A) n k d, nth k (skipn n l) d = nth (n + k) l d.
Proof.
  intros A l. induction l as [|x l IH]; intros n k d.
  - rewrite skipn_nil. destruct k, n; reflexivity.
  - destruct n; [reflexivity|]. cbn [skipn Nat.add nth]. apply IH.
Qed.

Lemma fd_loop_spec : forall d l i r, fd_loop d l i = r ->
  (r = -1 /\ forall k, (k < length l)%nat -> e_desc (nth k l elem0) <> d) \/
  (exists k, (k < length l)%nat /\ r = i + Z.of_nat k /\ e_desc (nth k l elem0) = d /\
             forall k', (k' < k)%nat -> e_desc (nth k' l elem0) <> d).
Proof.
  intros d l. induction l as [|e l IH]; intros i r Hr; cbn [fd_loop] in Hr.
  - left. split; [congruence|]. intros k Hk. cbn in Hk. lia.
  - destruct (e_desc e =? d) eqn:E.
    + right. exists O. cbn [length nth]. split; [lia|]. split; [lia|]. split; [lia|]. intros k' Hk'. lia.
    + destruct (IH (i + 1) r Hr) as [(-> & Hall) | (k & Hk & -> & Hd & Hpre)].
      * left. split; [reflexivity|]. intros [|k] Hk; cbn [nth]; [lia|]. apply Hall. cbn in Hk. lia.
      * right. exists (S k). cbn [length nth]. split; [lia|]. split; [lia|]. split; [exact Hd|].
        intros [|k'] Hk'; cbn [nth]; [lia|]. apply Hpre. lia.
Qed.

(* the plain descriptor search returns the first position >= max(startpos,0) holding the descriptor, else -1 *)
Theorem find_descriptor_first : forall es d startpos,
  let count := zlen es in
  let start := Z.max 0 startpos in
  let r := find_descriptor es d startpos in
  (r = -1 /\ forall p, start <= p < count -> e_desc (znth es p elem0) <> d) \/
  (start <= r < count /\ e_desc (znth es r elem0) = d /\ forall p, start <= p < r -> e_desc (znth es p elem0) <> d).
Proof.
  intros es d startpos count start r. subst r. unfold find_descriptor. fold count.
  assert (Hst : (if startpos <? 0 then 0 else startpos) = start) by (unfold start; destruct (startpos <? 0) eqn:E; lia).
  rewrite Hst. unfold count, zlen in *.
  destruct (Z.of_nat (length es) <=? start) eqn:Ecs.
  - left. split; [reflexivity|]. intros p Hp. lia.
  - assert (Hs0 : 0 <= start) by (unfold start; lia).
    destruct (fd_loop_spec d (skipn (Z.to_nat start) es) start _ eq_refl) as [(Hr & Hall) | (k & Hk & Hr & Hd & Hpre)].
    + left. split; [exact Hr|]. intros p Hp. unfold znth.
      specialize (Hall (Z.to_nat p - Z.to_nat start)%nat).
      rewrite nth_skipn_add in Hall. replace (Z.to_nat start + (Z.to_nat p - Z.to_nat start))%nat with (Z.to_nat p) in Hall by lia.
      apply Hall. rewrite skipn_length. lia.
    + rewrite skipn_length in Hk. rewrite nth_skipn_add in Hd.
      right. rewrite Hr. unfold znth. split; [lia|]. split.
      * replace (Z.to_nat (start + Z.of_nat k)) with (Z.to_nat start + k)%nat by lia. exact Hd.
      * intros p Hp. specialize (Hpre (Z.to_nat p - Z.to_nat start)%nat).
        rewrite nth_skipn_add in Hpre. replace (Z.to_nat start + (Z.to_nat p - Z.to_nat start))%nat with (Z.to_nat p) in Hpre by lia.
        apply Hpre. lia.
Qed.

(* ================================================================== the matcher: values, ranges, missing keys *)
Lemma pow10Q_pos : forall s, (0 < pow10Q s)%Q.
Proof.
  intros s. unfold pow10Q. destruct (0 <=? s) eqn:E.
  - change 0%Q with (inject_Z 0). rewrite <- Zlt_Qlt. apply Z.pow_pos_nonneg; lia.
  - apply Qinv_lt_0_compat. change 0%Q with (inject_Z 0). rewrite <- Zlt_Qlt. apply Z.pow_pos_nonneg; lia.
Qed.

Lemma half_prec_pos : forall s, (0 < half_prec s)%Q.
Proof.
  intros s. unfold half_prec. apply Qlt_shift_div_l; [apply pow10Q_pos|].
  rewrite Qmult_0_l. reflexivity.
Qed.

Lemma half_prec_lt_1 : forall s, 0 <= s -> (half_prec s < 1)%Q.
Proof.
  intros s Hs. unfold half_prec. apply Qlt_shift_div_r; [apply pow10Q_pos|].
  rewrite Qmult_1_l. unfold pow10Q. replace (0 <=? s) with true by lia.
  apply Qlt_le_trans with (y := 1%Q); [reflexivity|].
  change 1%Q with (inject_Z 1). rewrite <- Zle_Qle. assert (0 < 10 ^ s) by (apply Z.pow_pos_nonneg; lia). lia.
Qed.

Lemma Qabs_inject_Z_sub : forall a b, (Qabs (inject_Z a - inject_Z b) == inject_Z (Z.abs (a - b)))%Q.
Proof.
  intros a b. unfold Qminus. rewrite <- inject_Z_opp, <- inject_Z_plus. reflexivity.
Qed.

(* two integers are within half a unit of precision 10^-s (s >= 0) exactly when they are equal *)
Lemma int_close : forall a b s, 0 <= s -> ((Qabs (inject_Z a - inject_Z b) <= half_prec s)%Q <-> a = b).
Proof.
  intros a b s Hs. split.
  - intros H. rewrite Qabs_inject_Z_sub in H.
    assert (Hlt : (inject_Z (Z.abs (a - b)) < inject_Z 1)%Q) by (eapply Qle_lt_trans; [exact H | apply half_prec_lt_1; exact Hs]).
    rewrite <- Zlt_Qlt in Hlt. lia.
  - intros ->. rewrite Qabs_inject_Z_sub, Z.sub_diag. apply Qlt_le_weak. apply half_prec_pos.
Qed.

(* "equal within half the precision": both missing, or both present and |x - y| <= 0.5 * 10^-scale *)
Definition close (scale : Z) (a b : option Q) : Prop :=
  match a, b with
  | Some x, Some y => (Qabs (x - y) <= half_prec scale)%Q
  | None, None => True
  | _, _ => False
  end.

(* float-typed element (every numeric with a scale or a negative reference): exactly the property, for every key type *)
Theorem matcher_spec_float : forall t a k scale,
  cmp_eq (VFlt t a) k (half_prec scale) = true <-> close scale a (get_flt k).
Proof.
  intros t a k scale. unfold cmp_eq, close. destruct a as [a|], (get_flt k) as [b|].
  - apply Qle_bool_iff.
  - split; [discriminate | intros []].
  - split; [discriminate | intros []].
  - split; [reflexivity|]. intros _. apply Qle_bool_iff. apply Qlt_le_weak. apply half_prec_pos.
Qed.

(* keys that make sense for an integer-typed element: an integer, a missing float, or an integral float other than -1 *)
Definition int_key_ok (k : value) : Prop :=
  match k with
  | VInt _ _ => True
  | VFlt _ None => True
  | VFlt _ (Some q) => exists z, q = inject_Z z /\ z <> -1
  | _ => False
  end.

Theorem matcher_spec_int : forall t i k scale, 0 <= scale -> int_key_ok k ->
  cmp_eq (VInt t i) k (half_prec scale) = true <-> close scale (get_flt (VInt t i)) (get_flt k).
Proof.
  intros t i k scale Hs Hk. unfold cmp_eq. destruct k as [t2 i2 | t2 [q|] | s | ]; cbn [int_key_ok] in Hk; try contradiction.
  - cbn [get_int get_flt]. unfold close.
    destruct (i =? -1) eqn:E1, (i2 =? -1) eqn:E2.
    + split; [reflexivity | lia].
    + split; [lia | intros []].
    + split; [lia | intros []].
    + rewrite int_close by exact Hs. lia.
  - destruct Hk as (z & -> & Hz). cbn [get_int get_flt inject_Z Qnum Qden]. rewrite Z.quot_1_r. unfold close.
    destruct (i =? -1) eqn:E1.
    + split; [lia | intros []].
    + change (z # 1)%Q with (inject_Z z). rewrite int_close by exact Hs. lia.
  - cbn [get_int get_flt]. unfold close. destruct (i =? -1) eqn:E1.
    + split; [reflexivity | lia].
    + split; [lia | intros []].
Qed.

(* well-typed values: integer payload under an integer tag, float payload under a float tag *)
Definition wt (v : value) : Prop :=
  match v with
  | VInt t _ => t = TI32 \/ t = TI64
  | VFlt t _ => t = TF32 \/ t = TF64
  | _ => True
  end.

Lemma ole_pair : forall a x b, ole (Some a) (Some x) && ole (Some x) (Some b) = true <-> (a <= x)%Q /\ (x <= b)%Q.
Proof. intros. cbn [ole]. rewrite andb_true_iff, !Qle_bool_iff. reflexivity. Qed.

Lemma get_flt_numeric : forall v a, get_flt v = Some a -> is_numeric v = true.
Proof. intros [t i|t q|s|] a H; cbn in *; congruence. Qed.

Lemma get_flt_VInt : forall t i a, get_flt (VInt t i) = Some a -> a = inject_Z i.
Proof. intros t i a H. cbn in H. destruct (i =? -1); congruence. Qed.

Lemma int_typed_is_VInt : forall v, wt v -> vtype_of v = TI32 \/ vtype_of v = TI64 -> exists t i, v = VInt t i.
Proof.
  intros [t i|t q|s|] Hwt Ht; cbn in *.
  - eauto.
  - destruct Hwt as [-> | ->], Ht; discriminate.
  - destruct Ht; discriminate.
  - destruct Ht; discriminate.
Qed.

Lemma vtype_eqb_eq : forall a b, vtype_eqb a b = true -> a = b.
Proof. intros [] []; cbn; congruence. Qed.

(* two-value keys with the proposed fix: an inclusive range, whatever numeric types the bounds have *)
Theorem range_spec : forall lo e hi a x b,
  wt lo -> wt e -> wt hi ->
  get_flt lo = Some a -> get_flt e = Some x -> get_flt hi = Some b ->
  between fixed lo e hi = true <-> (a <= x)%Q /\ (x <= b)%Q.
Proof.
  intros lo e hi a x b Wlo We Whi Hlo He Hhi. unfold between.
  destruct (vtype_eqb (vtype_of lo) (vtype_of e) && vtype_eqb (vtype_of hi) (vtype_of e)) eqn:Et.
  - apply andb_true_iff in Et. destruct Et as (E1 & E2). apply vtype_eqb_eq in E1, E2.
    destruct (vtype_of lo) eqn:Tlo.
    + destruct (int_typed_is_VInt lo Wlo (or_introl Tlo)) as (t1 & i1 & ->).
      destruct (int_typed_is_VInt e We (or_introl (eq_sym E1))) as (t2 & i2 & ->).
      destruct (int_typed_is_VInt hi Whi (or_introl (eq_trans E2 (eq_sym E1)))) as (t3 & i3 & ->).
      apply get_flt_VInt in Hlo, He, Hhi. subst a x b. cbn [get_int]. rewrite <- !Zle_Qle. lia.
    + destruct (int_typed_is_VInt lo Wlo (or_intror Tlo)) as (t1 & i1 & ->).
      destruct (int_typed_is_VInt e We (or_intror (eq_sym E1))) as (t2 & i2 & ->).
      destruct (int_typed_is_VInt hi Whi (or_intror (eq_trans E2 (eq_sym E1)))) as (t3 & i3 & ->).
      apply get_flt_VInt in Hlo, He, Hhi. subst a x b. cbn [get_int]. rewrite <- !Zle_Qle. lia.
    + rewrite Hlo, He, Hhi. apply ole_pair.
    + cbn [fix_between fixed]. rewrite Hlo, He, Hhi. apply ole_pair.
    + destruct lo; cbn in Tlo, Hlo; try discriminate; destruct Wlo as [-> | ->]; discriminate.
    + destruct lo; cbn in Tlo, Hlo; try discriminate; destruct Wlo as [-> | ->]; discriminate.
  - cbn [fix_between fixed]. rewrite (get_flt_numeric _ _ Hlo), (get_flt_numeric _ _ He), (get_flt_numeric _ _ Hhi).
    cbn [andb]. rewrite Hlo, He, Hhi. apply ole_pair.
Qed.

(* a missing element is in no range with proper bounds (float-typed element) *)
Theorem range_missing_elem : forall vr lo t hi a b,
  t = TF32 \/ t = TF64 ->
  get_flt lo = Some a -> get_flt hi = Some b -> between vr lo (VFlt t None) hi = false.
Proof.
  intros vr lo t hi a b Ht Hlo Hhi. unfold between. cbn [vtype_of get_flt ornd32 is_numeric].
  destruct (vtype_eqb (vtype_of lo) t && vtype_eqb (vtype_of hi) t) eqn:Et.
  - apply andb_true_iff in Et. destruct Et as (E1 & E2). apply vtype_eqb_eq in E1, E2. rewrite E1.
    destruct Ht as [-> | ->].
    + rewrite Hlo, Hhi. reflexivity.
    + destruct (fix_between vr); rewrite Hlo, Hhi; reflexivity.
  - destruct (fix_between vr && is_numeric lo && true && is_numeric hi); [|reflexivity].
    rewrite Hlo, Hhi. reflexivity.
Qed.

(* the current code: FLT32 (or INT32) bounds never match a FLT64 element, and FLT64 bounds meet the element rounded to single *)
Theorem range_refuted :
  exists lo e hi a x b, wt lo /\ wt e /\ wt hi /\ get_flt lo = Some a /\ get_flt e = Some x /\ get_flt hi = Some b /\
    (a <= x)%Q /\ (x <= b)%Q /\ between legacy lo e hi = false.
Proof.
  exists (VFlt TF32 (Some (270 # 1))), (VFlt TF64 (Some (27315 # 100))), (VFlt TF32 (Some (280 # 1))), (270 # 1), (27315 # 100), (280 # 1).
  cbn [wt get_flt]. repeat split; auto; try discriminate.
Qed.
Theorem range_refuted_flt64_bounds :
  exists lo e hi x b, get_flt lo = Some x /\ get_flt e = Some x /\ get_flt hi = Some b /\ (x <= b)%Q /\
    vtype_of lo = TF64 /\ vtype_of e = TF64 /\ vtype_of hi = TF64 /\ between legacy lo e hi = false.
Proof.
  exists (VFlt TF64 (Some (27315 # 100))), (VFlt TF64 (Some (27315 # 100))), (VFlt TF64 (Some (280 # 1))), (27315 # 100), (280 # 1).
  repeat split; try discriminate; vm_compute; reflexivity.
Qed.

(* missing keys: with the proposed fix a missing integer key matches exactly the missing elements *)
Theorem missing_key_spec : forall e scale, is_numeric e = true ->
  cmp_eq e (key_int_value fixed (-1)) (half_prec scale) = true <-> is_missing e = true.
Proof.
  intros e scale Hn. cbn [key_int_value fixed fix_misskey Z.eqb]. destruct e as [t i|t [q|]|s|]; try discriminate; cbn [cmp_eq get_int get_flt is_missing].
  - reflexivity.
  - split; discriminate.
  - split; [reflexivity|]. intros _. apply Qle_bool_iff. apply Qlt_le_weak. apply half_prec_pos.
Qed.
Theorem missing_float_key_spec : forall e t scale, is_numeric e = true ->
  cmp_eq e (VFlt t None) (half_prec scale) = true <-> is_missing e = true.
Proof.
  intros e t scale Hn. destruct e as [t' i|t' [q|]|s|]; try discriminate; cbn [cmp_eq get_int get_flt is_missing].
  - reflexivity.
  - split; discriminate.
  - split; [reflexivity|]. intros _. apply Qle_bool_iff. apply Qlt_le_weak. apply half_prec_pos.
Qed.
(* the current code: (float)-1 is stored for a missing integer key; it does not match a missing FLT64 element *)
Theorem missing_key_refuted :
  exists e, is_numeric e = true /\ is_missing e = true /\ cmp_eq e (key_int_value legacy (-1)) (half_prec 2) = false.
Proof. exists (VFlt TF64 None). repeat split. Qed.

(* ================================================================== qualifiers: bufr_expand_qualifiers computes "the qualifier in effect" *)
Definition descs (l : list qent) : list Z := map q_desc l.
Definition stack_ok (quals : list qent) : Prop :=
  NoDup (descs quals) /\ Forall (fun q => is_missing (q_val q) = false) quals.

Lemma fetch_app : forall d l1 l2,
  fetch_qualifier d (l1 ++ l2) = match fetch_qualifier d l1 with Some q => Some q | None => fetch_qualifier d l2 end.
Proof.
  intros d l1 l2. unfold fetch_qualifier. induction l1 as [|q l1 IH]; cbn [app find]; [reflexivity|].
  destruct (q_desc q =? d); [reflexivity | exact IH].
Qed.

Lemma fetch_none : forall d l, (forall q, In q l -> q_desc q <> d) -> fetch_qualifier d l = None.
Proof.
  intros d l H. unfold fetch_qualifier. induction l as [|q l IH]; cbn [find]; [reflexivity|].
  destruct (q_desc q =? d) eqn:E.
  - exfalso. apply (H q); [left; reflexivity | lia].
  - apply IH. intros q' Hq'. apply H. right. exact Hq'.
Qed.

Lemma fetch_none_inv : forall d l, fetch_qualifier d l = None -> forall q, In q l -> q_desc q <> d.
Proof.
  intros d l H q Hq. unfold fetch_qualifier in H. pose proof (find_none _ _ H q Hq) as Hn. cbn in Hn. lia.
Qed.

Lemma last_index_acc : forall d l pos acc,
  last_index d l pos acc = match last_index d l pos None with Some n => Some n | None => acc end.
Proof.
  intros d l. induction l as [|q l IH]; intros pos acc; cbn [last_index]; [reflexivity|].
  rewrite (IH (S pos) (if q_desc q =? d then Some pos else acc)), (IH (S pos) (if q_desc q =? d then Some pos else None)).
  destruct (last_index d l (S pos) None); [reflexivity|]. destruct (q_desc q =? d); reflexivity.
Qed.

Lemma last_index_none : forall d l pos, last_index d l pos None = None -> forall q, In q l -> q_desc q <> d.
Proof.
  intros d l. induction l as [|q l IH]; intros pos H q' Hq'; [destruct Hq'|].
  cbn [last_index] in H. rewrite last_index_acc in H.
  destruct (last_index d l (S pos) None) eqn:E; [discriminate|].
  destruct (q_desc q =? d) eqn:Eq; [discriminate|].
  destruct Hq' as [<- | Hin]; [lia | exact (IH (S pos) E q' Hin)].
Qed.

Lemma last_index_some : forall d l pos n, last_index d l pos None = Some n ->
  exists l1 q l2, l = l1 ++ q :: l2 /\ q_desc q = d /\ n = (pos + length l1)%nat /\ (forall x, In x l2 -> q_desc x <> d).
Proof.
  intros d l. induction l as [|q l IH]; intros pos n H; [discriminate|].
  cbn [last_index] in H. rewrite last_index_acc in H.
  destruct (last_index d l (S pos) None) eqn:E.
  - injection H as <-. destruct (IH (S pos) n0 E) as (l1 & q' & l2 & -> & Hd & Hn & Hl2).
    exists (q :: l1), q', l2. cbn [app length]. repeat split; try assumption. lia.
  - destruct (q_desc q =? d) eqn:Eq; [|discriminate]. injection H as <-.
    exists [], q, l. cbn [app length]. repeat split; try lia. exact (last_index_none d l (S pos) E).
Qed.

Lemma remove_at_app : forall (A : Type) (l1 : list A) x l2, remove_at (length l1) (l1 ++ x :: l2) = l1 ++ l2.
Proof. intros A l1 x l2. induction l1 as [|y l1 IH]; cbn [length app remove_at]; [reflexivity | rewrite IH; reflexivity]. Qed.
Lemma replace_at_app : forall (A : Type) (l1 : list A) x y l2, replace_at (length l1) y (l1 ++ x :: l2) = l1 ++ y :: l2.
Proof. intros A l1 x y l2. induction l1 as [|z l1 IH]; cbn [length app replace_at]; [reflexivity | rewrite IH; reflexivity]. Qed.

Lemma filter_all : forall (A : Type) (f : A -> bool) l, Forall (fun x => f x = true) l -> filter f l = l.
Proof. intros A f l H. induction H as [|x l Hx Hl IH]; cbn [filter]; [reflexivity | rewrite Hx, IH; reflexivity]. Qed.

Lemma fetch_cons_ne : forall d q l, q_desc q <> d -> fetch_qualifier d (q :: l) = fetch_qualifier d l.
Proof. intros d q l H. unfold fetch_qualifier. cbn [find]. replace (q_desc q =? d) with false by lia. reflexivity. Qed.
Lemma fetch_cons_eq : forall d q l, q_desc q = d -> fetch_qualifier d (q :: l) = Some q.
Proof. intros d q l H. unfold fetch_qualifier. cbn [find]. replace (q_desc q =? d) with true by lia. reflexivity. Qed.

Lemma not_in_descs : forall d l, ~ In d (descs l) -> forall q, In q l -> q_desc q <> d.
Proof. intros d l H q Hq Heq. apply H. unfold descs. rewrite <- Heq. apply in_map. exact Hq. Qed.

(* one iteration of the loop keeps the stack well formed and updates "the qualifier in effect" of every descriptor *)
Lemma NoDup_snoc : forall (A : Type) (l : list A) x, NoDup l -> ~ In x l -> NoDup (l ++ [x]).
Proof.
  intros A l x H Hx. induction H as [|y l Hy Hl IH]; cbn [app].
  - constructor; [intros [] | constructor].
  - constructor.
    + intro Hin. apply in_app_or in Hin. destruct Hin as [Hin | [-> | []]]; [exact (Hy Hin) | apply Hx; left; reflexivity].
    + apply IH. intro Hin. apply Hx. right. exact Hin.
Qed.

Lemma expand_step_spec : forall pos e quals a q',
  stack_ok quals -> expand_step pos e quals = (a, q') ->
  stack_ok q' /\ (forall d, fetch_qualifier d q' = qual_upd e pos d (fetch_qualifier d quals)) /\
  (e_cls e = false -> a = quals).
Proof.
  intros pos e quals a q' (Hnd & Hnm) H. unfold expand_step in H. unfold qual_upd.
  destruct (e_cls e) eqn:Ecls.
  - injection H as <- <-. split; [split; assumption|]. split; [reflexivity | discriminate].
  - injection H as Ha Hq.
    assert (Ha' : a = quals).
    { rewrite <- Ha. destruct quals as [|q0 ql]; [reflexivity|]. cbn [length Nat.ltb Nat.leb].
      apply filter_all. eapply Forall_impl; [|exact Hnm]. intros q Hq0. cbn beta in Hq0. rewrite Hq0. reflexivity. }
    clear Ha. subst a.
    destruct (e_val e) as [v|] eqn:Ev.
    2:{ subst q'. split; [split; assumption|]. split; [reflexivity | intros _; reflexivity]. }
    destruct (is_qualifier (e_desc e)) eqn:Eq.
    2:{ subst q'. split; [split; assumption|]. split; [reflexivity | intros _; reflexivity]. }
    cbn [andb].
    set (de := e_desc e) in *.
    set (me := {| q_pos := pos; q_desc := de; q_val := v; q_scale := e_scale e |}) in *.
    destruct (last_index de quals 0 None) as [qpos|] eqn:El.
    + destruct (last_index_some de quals 0%nat qpos El) as (l1 & q & l2 & Hl & Hqd & Hn & Hl2).
      cbn [Nat.add] in Hn. subst qpos quals.
      unfold descs in Hnd. rewrite map_app in Hnd. cbn [map] in Hnd.
      pose proof (NoDup_remove_1 _ _ _ Hnd) as Hnd1. pose proof (NoDup_remove_2 _ _ _ Hnd) as Hnd2.
      rewrite Hqd in Hnd2.
      assert (Hl1 : forall x, In x l1 -> q_desc x <> de).
      { apply not_in_descs. intro Hin. apply Hnd2. apply in_or_app. left. exact Hin. }
      apply Forall_app in Hnm. destruct Hnm as (Hnm1 & Hnm2). pose proof (Forall_inv Hnm2) as Hq0. pose proof (Forall_inv_tail Hnm2) as Hnm2'.
      destruct (is_missing v) eqn:Emiss.
      * rewrite remove_at_app in Hq. subst q'. split; [|split; [|intros _; reflexivity]].
        -- split; [unfold descs; rewrite map_app; exact Hnd1 | apply Forall_app; split; assumption].
        -- intros d. rewrite !fetch_app. destruct (de =? d) eqn:Ed.
           ++ assert (d = de) by lia. subst d. rewrite (fetch_none de l1 Hl1), (fetch_none de l2 Hl2). reflexivity.
           ++ rewrite (fetch_cons_ne d q l2) by lia. reflexivity.
      * rewrite replace_at_app in Hq. subst q'. split; [|split; [|intros _; reflexivity]].
        -- split.
           ++ unfold descs. rewrite map_app. cbn [map]. cbn [q_desc me]. rewrite <- Hqd. exact Hnd.
           ++ apply Forall_app. split; [exact Hnm1|]. constructor; [exact Emiss | exact Hnm2'].
        -- intros d. rewrite !fetch_app. destruct (de =? d) eqn:Ed.
           ++ assert (d = de) by lia. subst d. rewrite (fetch_none de l1 Hl1).
              rewrite (fetch_cons_eq de me l2) by reflexivity. reflexivity.
           ++ rewrite (fetch_cons_ne d q l2) by lia. rewrite (fetch_cons_ne d me l2) by (cbn; lia). reflexivity.
    + pose proof (last_index_none de quals 0%nat El) as Hno.
      destruct (is_missing v) eqn:Emiss.
      * subst q'. split; [split; assumption|]. split; [|intros _; reflexivity].
        intros d. destruct (de =? d) eqn:Ed; [|reflexivity].
        assert (d = de) by lia. subst d. apply fetch_none. exact Hno.
      * subst q'. split; [|split; [|intros _; reflexivity]].
        -- split.
           ++ unfold descs. rewrite map_app. cbn [map]. apply NoDup_snoc; [exact Hnd|].
              intro Hin. apply in_map_iff in Hin. destruct Hin as (x & Hx & Hxin). exact (Hno x Hxin Hx).
           ++ apply Forall_app. split; [exact Hnm|]. constructor; [exact Emiss | constructor].
        -- intros d. rewrite fetch_app. destruct (de =? d) eqn:Ed.
           ++ assert (d = de) by lia. subst d. rewrite (fetch_none de quals Hno).
              rewrite (fetch_cons_eq de me []) by reflexivity. reflexivity.
           ++ destruct (fetch_qualifier d quals); [reflexivity|]. apply fetch_cons_ne. cbn. lia.
Qed.

Lemma expand_from_spec : forall es pos quals,
  stack_ok quals ->
  forall k, (k < length es)%nat -> e_cls (nth k es elem0) = false ->
  forall d, fetch_qualifier d (nth k (expand_from es pos quals) []) = qual_scan (firstn k es) pos d (fetch_qualifier d quals).
Proof.
  induction es as [|e tl IH]; intros pos quals Hok k Hk Hcls d; [cbn in Hk; lia|].
  cbn [expand_from]. destruct (expand_step pos e quals) as (a, q') eqn:Es.
  destruct (expand_step_spec _ _ _ _ _ Hok Es) as (Hok' & Hf & Ha).
  destruct k as [|k]; cbn [nth firstn qual_scan]; cbn [nth] in Hcls.
  - rewrite (Ha Hcls). reflexivity.
  - assert (Hk' : (k < length tl)%nat) by (cbn [length] in Hk; lia).
    rewrite (IH (S pos) q' Hok' k Hk' Hcls d). rewrite Hf. reflexivity.
Qed.

(* what bufr_expand_qualifiers attaches to an element IS the qualifier in effect: for every descriptor d, the entry found by
   bufr_fetch_rtmd_qualifier is the most recent occurrence of d (classes 01-09, not a class 31 / quality element, with a value)
   before the element, and there is none when that occurrence is missing (cancelled) *)
Theorem qualifiers_in_effect : forall es p d,
  (p < length es)%nat -> e_cls (nth p es elem0) = false ->
  fetch_qualifier d (nth p (expand_qualifiers es) []) = qual_in_effect es p d.
Proof.
  intros es p d Hp Hcls. unfold expand_qualifiers, qual_in_effect.
  rewrite (expand_from_spec es O [] (conj (NoDup_nil _) (Forall_nil _)) p Hp Hcls d). reflexivity.
Qed.

Lemma expand_from_cls : forall es pos quals k,
  (k < length es)%nat -> e_cls (nth k es elem0) = true -> nth k (expand_from es pos quals) [] = [].
Proof.
  induction es as [|e tl IH]; intros pos quals k Hk Hcls; [cbn in Hk; lia|].
  cbn [expand_from]. destruct (expand_step pos e quals) as (a, q') eqn:Es.
  destruct k as [|k]; cbn [nth]; cbn [nth] in Hcls.
  - unfold expand_step in Es. rewrite Hcls in Es. congruence.
  - apply IH; [cbn [length] in Hk; lia | exact Hcls].
Qed.
(* class 31 elements and quality information carry no qualifiers: no qualifier key can hold on them *)
Theorem qualifiers_of_cls_element : forall es p,
  (p < length es)%nat -> e_cls (nth p es elem0) = true -> nth p (expand_qualifiers es) [] = [].
Proof. intros. apply expand_from_cls; assumption. Qed.

(* ------------------------------------------------------------------ the flag bits of the key descriptor *)
Lemma testbit_small : forall d n, 0 <= d < 131072 -> 17 <= n -> Z.testbit d n = false.
Proof.
  intros d n Hd Hn. destruct (Z.eq_dec d 0) as [-> | Hne]; [apply Z.bits_0|].
  apply Z.bits_above_log2; [lia|]. assert (Z.log2 d < 17); [|lia].
  apply Z.log2_lt_pow2; [lia|]. change (2 ^ 17) with 131072. lia.
Qed.

Lemma land_small_pow2 : forall d k, 0 <= d < 131072 -> 17 <= k -> Z.land d (2 ^ k) = 0.
Proof.
  intros d k Hd Hk. apply Z.bits_inj'. intros n Hn. rewrite Z.land_spec, Z.bits_0, Z.pow2_bits_eqb by lia.
  destruct (k =? n) eqn:E; [|apply andb_false_r].
  assert (n = k) by lia. subst n. rewrite (testbit_small d k Hd Hk). reflexivity.
Qed.

Lemma clear_small : forall d c, 0 <= d < 131072 -> (forall n, 0 <= n < 17 -> Z.testbit c n = false) -> clear_flags d c = d.
Proof.
  intros d c Hd Hc. unfold clear_flags. apply Z.bits_inj'. intros n Hn. rewrite Z.land_spec, Z.lnot_spec by lia.
  destruct (Z_lt_dec n 17) as [Hlt | Hge].
  - rewrite (Hc n) by lia. apply andb_true_r.
  - rewrite (testbit_small d n Hd) by lia. reflexivity.
Qed.

Lemma flagbits_low : forall n, 0 <= n < 17 -> Z.testbit FLAG_BITS n = false.
Proof. intros n Hn. change FLAG_BITS with (7 * 2 ^ 17). apply Z.mul_pow2_bits_low. lia. Qed.
Lemma pow2_low : forall k n, 17 <= k -> 0 <= n < 17 -> Z.testbit (2 ^ k) n = false.
Proof. intros k n Hk Hn. rewrite Z.pow2_bits_eqb by lia. lia. Qed.

(* only F=0 descriptors (below 0x20000) can be keys: for them the flag bits are recovered exactly *)
Theorem key_flags : forall d, 0 <= d < 131072 ->
  (* a plain element key *)
  has_flag d TLC_FLAG_BIT = false /\ has_flag d QUAL_FLAG_BIT = false /\ has_flag d CB_FLAG_BIT = false /\
  clear_flags d FLAG_BITS = d /\
  (* bufr_set_key_qualifier* *)
  has_flag (Z.lor d QUAL_FLAG_BIT) TLC_FLAG_BIT = false /\ has_flag (Z.lor d QUAL_FLAG_BIT) QUAL_FLAG_BIT = true /\
  clear_flags (Z.lor d QUAL_FLAG_BIT) QUAL_FLAG_BIT = d /\
  (* bufr_set_key_callback *)
  has_flag (Z.lor d CB_FLAG_BIT) TLC_FLAG_BIT = false /\ has_flag (Z.lor d CB_FLAG_BIT) QUAL_FLAG_BIT = false /\
  has_flag (Z.lor d CB_FLAG_BIT) CB_FLAG_BIT = true /\ clear_flags (Z.lor d CB_FLAG_BIT) FLAG_BITS = d.
Proof.
  intros d Hd.
  assert (H17 := land_small_pow2 d 17 Hd ltac:(lia)). assert (H18 := land_small_pow2 d 18 Hd ltac:(lia)).
  assert (H19 := land_small_pow2 d 19 Hd ltac:(lia)).
  change (2 ^ 17) with CB_FLAG_BIT in H17. change (2 ^ 18) with QUAL_FLAG_BIT in H18. change (2 ^ 19) with TLC_FLAG_BIT in H19.
  unfold has_flag. rewrite H17, H18, H19. rewrite !Z.land_lor_distr_l, H17, H18, H19.
  repeat split; try reflexivity.
  - apply clear_small; [exact Hd | exact flagbits_low].
  - unfold clear_flags. rewrite Z.land_lor_distr_l. change (Z.land QUAL_FLAG_BIT (Z.lnot QUAL_FLAG_BIT)) with 0. rewrite Z.lor_0_r.
    apply (clear_small d QUAL_FLAG_BIT Hd). intros n Hn. change QUAL_FLAG_BIT with (2 ^ 18). apply pow2_low; lia.
  - unfold clear_flags. rewrite Z.land_lor_distr_l. change (Z.land CB_FLAG_BIT (Z.lnot FLAG_BITS)) with 0. rewrite Z.lor_0_r.
    apply (clear_small d FLAG_BITS Hd). exact flagbits_low.
Qed.

(* ------------------------------------------------------------------ qualifier keys *)
(* with the proposed fixes: a qualifier key holds on an element exactly when the qualifier in effect for it exists and equals the
   key value within half the precision OF THE QUALIFIER; a key without value holds when any qualifier is in effect *)
Theorem qual_key_spec : forall es p d kvs cb,
  0 <= d < 131072 -> (p < length es)%nat -> e_cls (nth p es elem0) = false ->
  qual_ok fixed (nth p es elem0) (nth p (expand_qualifiers es) []) {| k_desc := d; k_vals := kvs; k_cb := cb |} =
  Some match qual_in_effect es p d, kvs with
       | None, _ => false
       | Some q, kv :: _ => cmp_eq (q_val q) kv (half_prec (q_scale q))
       | Some q, [] => true
       end.
Proof.
  intros es p d kvs cb Hd Hp Hcls. unfold qual_ok. cbn [k_desc k_vals k_cb].
  destruct (key_flags d Hd) as (_ & _ & Hcb & Hclr & _). rewrite Hcb, Hclr.
  rewrite (qualifiers_in_effect es p d Hp Hcls).
  destruct (qual_in_effect es p d) as [q|]; [|reflexivity].
  destruct kvs; reflexivity.
Qed.

(* the current code compares with half the precision of the ELEMENT: a latitude qualifier 45.12 (precision 0.01) "equals" 45.30 on a
   wind direction element (precision 1) *)
Theorem qual_eps_refuted :
  exists es p d kv q, 0 <= d < 131072 /\ (p < length es)%nat /\ e_cls (nth p es elem0) = false /\
    qual_in_effect es p d = Some q /\ cmp_eq (q_val q) kv (half_prec (q_scale q)) = false /\
    qual_ok legacy (nth p es elem0) (nth p (expand_qualifiers es) []) {| k_desc := d; k_vals := [kv]; k_cb := None |} = Some true.
Proof.
  exists [ {| e_desc := 5002; e_val := Some (VFlt TF64 (Some (4512 # 100))); e_scale := 2; e_cls := false |};
           {| e_desc := 11001; e_val := Some (VInt TI32 225); e_scale := 0; e_cls := false |} ],
         1%nat, 5002, (VFlt TF32 (Some (4530 # 100))).
  eexists. split; [lia|]. split; [cbn; lia|]. split; [reflexivity|]. split; [vm_compute; reflexivity|].
  split; vm_compute; reflexivity.
Qed.

(* ================================================================== bufr_subset_find_values as a whole *)
Definition keys_wf (vr : variant) (qual desc : list key) : Prop :=
  (forall qk, In qk qual ->
     if has_flag (k_desc qk) CB_FLAG_BIT then k_vals qk <> [] /\ k_cb qk <> None
     else fix_qualany vr = true \/ k_vals qk <> []) /\
  (forall dk, In dk desc -> has_flag (k_desc dk) CB_FLAG_BIT = true -> 0 < nbval dk -> k_cb dk <> None).

Lemma quals_ok_total : forall vr cb ql qks,
  (forall qk, In qk qks ->
     if has_flag (k_desc qk) CB_FLAG_BIT then k_vals qk <> [] /\ k_cb qk <> None
     else fix_qualany vr = true \/ k_vals qk <> []) ->
  quals_ok vr cb ql qks <> None.
Proof.
  intros vr cb ql qks. induction qks as [|qk tl IH]; intros H; cbn [quals_ok]; [discriminate|].
  assert (Hq : qual_ok vr cb ql qk <> None).
  { specialize (H qk (or_introl eq_refl)). unfold qual_ok. destruct (has_flag (k_desc qk) CB_FLAG_BIT).
    - destruct H as (Hv & Hc). destruct (k_vals qk); [congruence|]. destruct (k_cb qk); [discriminate | congruence].
    - destruct (fetch_qualifier _ ql); [|discriminate]. destruct (k_vals qk); [|discriminate].
      destruct H as [-> | Hne]; [discriminate | congruence]. }
  destruct (qual_ok vr cb ql qk) as [[|]|]; [|discriminate|congruence].
  apply IH. intros qk' Hin. apply H. right. exact Hin.
Qed.

Lemma value_ok_total : forall vr cb ql dk,
  (has_flag (k_desc dk) CB_FLAG_BIT = true -> 0 < nbval dk -> k_cb dk <> None) -> value_ok vr cb ql dk <> None.
Proof.
  intros vr cb ql dk H. unfold value_ok.
  destruct (has_flag (k_desc dk) CB_FLAG_BIT && (0 <? nbval dk)) eqn:E.
  - apply andb_true_iff in E. destruct E as (E1 & E2). specialize (H E1 ltac:(lia)). destruct (k_cb dk); [discriminate | congruence].
  - destruct (0 <? nbval dk); [|discriminate]. destruct (e_val cb); [|discriminate].
    destruct (k_vals dk) as [|a [|b [|c l]]]; discriminate.
Qed.

Lemma pos_match_total : forall vr cb ql qual dk,
  (forall qk, In qk qual ->
     if has_flag (k_desc qk) CB_FLAG_BIT then k_vals qk <> [] /\ k_cb qk <> None
     else fix_qualany vr = true \/ k_vals qk <> []) ->
  (has_flag (k_desc dk) CB_FLAG_BIT = true -> 0 < nbval dk -> k_cb dk <> None) ->
  pos_match vr cb ql qual dk <> None.
Proof.
  intros vr cb ql qual dk Hq Hd. unfold pos_match. destruct (negb (e_desc cb =? clear_flags (k_desc dk) FLAG_BITS)); [discriminate|].
  pose proof (quals_ok_total vr cb ql qual Hq) as Ht.
  destruct (quals_ok vr cb ql qual) as [[|]|]; [|discriminate|congruence].
  apply value_ok_total. exact Hd.
Qed.

(* the per-position predicate the loop evaluates *)
Definition pos_matchb (vr : variant) (es : list elem) (qual desc : list key) (i j : Z) : bool :=
  match pos_match vr (znth es i elem0) (znth (expand_qualifiers es) i []) qual (znth desc j key0) with
  | Some b => b | None => false end.

Lemma zlen_pos : forall (A : Type) (l : list A), l <> [] -> 0 < zlen l.
Proof. intros A [|x l] H; [congruence|]. unfold zlen. cbn [length]. lia. Qed.

Theorem find_values_first_match : forall vr es keys startpos qual desc,
  es <> [] -> keys <> [] -> startpos < zlen es ->
  split_keys keys = ([], qual, desc) -> keys_wf vr qual desc ->
  exists r, find_values vr es keys startpos = Found r /\
            is_first_match (pos_matchb vr es qual desc) (zlen desc) (zlen es) (Z.max 0 startpos) r.
Proof.
  intros vr es keys startpos qual desc Hes Hkeys Hstart Hsplit (Hwq & Hwd).
  pose proof (zlen_pos _ es Hes) as Hc. pose proof (zlen_pos _ keys Hkeys) as Hk.
  unfold find_values. replace (zlen es =? 0) with false by lia.
  replace ((0 <=? startpos) && (zlen es <=? startpos)) with false by lia.
  replace (zlen keys =? 0) with false by lia. rewrite Hsplit.
  assert (Hst : (if startpos <? 0 then 0 else startpos) = Z.max 0 startpos) by (destruct (startpos <? 0) eqn:E; lia).
  rewrite Hst.
  apply find_is_first_match.
  - unfold zlen. lia.
  - lia.
  - intros i j Hi Hj. unfold pos_matchb.
    assert (Hin : In (znth desc j key0) desc).
    { unfold znth. apply nth_In. unfold zlen in Hj. lia. }
    pose proof (pos_match_total vr (znth es i elem0) (znth (expand_qualifiers es) i []) qual (znth desc j key0) Hwq (Hwd _ Hin)) as Ht.
    destruct (pos_match vr (znth es i elem0) (znth (expand_qualifiers es) i []) qual (znth desc j key0)); [reflexivity | congruence].
Qed.

(* the trivial exits *)
Theorem find_values_edges : forall vr es keys startpos,
  (es = [] -> find_values vr es keys startpos = Found (-1)) /\
  (zlen es <= startpos -> find_values vr es keys startpos = Found (-1)) /\
  (es <> [] -> startpos < zlen es -> keys = [] -> find_values vr es keys startpos = Found (Z.max 0 startpos)).
Proof.
  intros vr es keys startpos. split; [|split].
  - intros ->. reflexivity.
  - intros H. unfold find_values. destruct (zlen es =? 0) eqn:E0; [reflexivity|].
    assert (0 <= zlen es) by (unfold zlen; lia).
    replace ((0 <=? startpos) && (zlen es <=? startpos)) with true by lia. reflexivity.
  - intros Hes Hs ->. pose proof (zlen_pos _ es Hes) as Hc. unfold find_values.
    replace (zlen es =? 0) with false by lia. replace ((0 <=? startpos) && (zlen es <=? startpos)) with false by lia.
    cbn [zlen length Z.of_nat Z.eqb]. destruct (startpos <? 0) eqn:E; f_equal; lia.
Qed.

(* the current code: bufr_set_key_qualifier(cv, desc, NULL) -- "the qualifier is present, whatever its value" -- makes
   bufr_subset_find_values read qual[k].values[0] through a NULL pointer; with the proposed fix the search succeeds *)
Theorem qual_any_refuted :
  exists es keys, find_values legacy es keys 0 = Crash /\ find_values fixed es keys 0 = Found 1.
Proof.
  exists [ {| e_desc := 4005; e_val := Some (VInt TI32 11); e_scale := 0; e_cls := false |};
           {| e_desc := 12101; e_val := Some (VFlt TF64 (Some (28050 # 100))); e_scale := 2; e_cls := false |} ],
         [ set_key_qualifier 4005 None; set_key_int32 legacy 12101 [] ].
  split; vm_compute; reflexivity.
Qed.

(* ================================================================== the full statement *)
(* the search returns the first match with respect to the matcher that meets the property (the [fixed] one) *)
Definition full_statement (vr : variant) : Prop :=
  forall es keys startpos qual desc,
    es <> [] -> keys <> [] -> startpos < zlen es -> split_keys keys = ([], qual, desc) -> keys_wf fixed qual desc ->
    exists r, find_values vr es keys startpos = Found r /\
              is_first_match (pos_matchb fixed es qual desc) (zlen desc) (zlen es) (Z.max 0 startpos) r.

Theorem full_statement_fixed : full_statement fixed.
Proof. exact (find_values_first_match fixed). Qed.

Theorem full_statement_legacy_refuted : ~ full_statement legacy.
Proof.
  intros H.
  set (es := [ {| e_desc := 12101; e_val := Some (VFlt TF64 (Some (27315 # 100))); e_scale := 2; e_cls := false |} ]).
  set (k := set_key_flt32 12101 [Some (270 # 1); Some (280 # 1)]).
  destruct (H es [k] 0 [] [k]) as (r & Hr & Hfm).
  - discriminate.
  - discriminate.
  - reflexivity.
  - reflexivity.
  - split; [intros qk []|]. intros dk [<- | []] Hcb. vm_compute in Hcb. discriminate.
  - vm_compute in Hr. injection Hr as <-.
    destruct Hfm as [(_ & Hno) | (Hge & _)]; [|vm_compute in Hge; apply Hge; reflexivity].
    apply (Hno 0); [vm_compute; discriminate|].
    split; [vm_compute; discriminate|]. intros j Hj. change (zlen [k]) with 1 in Hj. assert (j = 0) by lia. subst j. vm_compute. reflexivity.
Qed.
