(* Properties_C11.v — property C11 (bit-level I/O) as theorems about the mirror BitIO.v.
   Only statements, `exact`, and Print Assumptions. *)
From Coq Require Import List NArith ZArith Arith Lia.
(* RWF, write_fields, read_fields, rst_of_pos are defined in BitProof.v *)
From V Require Import BitIO BitProof.
Import ListNotations.
Local Open Scope N_scope.

(* bits are packed most-significant first, without gaps, at every width 1..64 and every offset *)
Theorem C11_putbits_append : forall s v n,
  WF s -> (1 <= n <= 64)%nat ->
  exists s', putbits s v n = Some s' /\
    sval s' = sval s * 2^(N.of_nat n) + v mod 2^(N.of_nat n) /\
    slen s' = slen s + N.of_nat n /\ WF s'.
Proof. exact putbits_append. Qed.
Print Assumptions C11_putbits_append.

(* the numeric view (sval) is the MSB-first bit string of the section bytes *)
Theorem C11_written_bytes_are_the_bit_string : forall s,
  WF s -> rd (wbytes s) 0 (N.to_nat (slen s)) = sval s.
Proof. exact wbytes_rd. Qed.
Print Assumptions C11_written_bytes_are_the_bit_string.

(* the buffer grows as needed: the allocation invariant is kept and no write lands outside max_len = maxd+10 *)
Theorem C11_write_stays_in_allocation : forall s v n s',
  WF s -> WFalloc s -> (n <= 64)%nat -> putbits s v n = Some s' ->
  WFalloc s' /\ put_hi s n < maxd s + 10.
Proof. exact putbits_alloc. Qed.
Print Assumptions C11_write_stays_in_allocation.

(* reads: inside the section the value is the bit string at the cursor and the cursor advances by n;
   past the end an error is reported *)
Theorem C11_getbits_spec : forall d L s n,
  L = length d -> RWF L s -> (1 <= n <= 64)%nat ->
  ((rpos s + n <= 8 * L)%nat ->
     exists s', getbits d L s n = RRes (rd d (rpos s) n) 0%Z s' /\ rpos s' = (rpos s + n)%nat /\ RWF L s') /\
  ((rpos s + n > 8 * L)%nat ->
     exists v e s', getbits d L s n = RRes v e s' /\ (e < 0)%Z /\ RWF L s').
Proof. exact getbits_spec. Qed.
Print Assumptions C11_getbits_spec.

(* no read touches memory outside the section, whatever the cursor and the request *)
Theorem C11_getbits_no_oob : forall d L s n, (L <= length d)%nat -> getbits d L s n <> ROob.
Proof. exact getbits_no_oob. Qed.
Print Assumptions C11_getbits_no_oob.

(* skipping n bits leaves the cursor exactly where reading n bits would, with the same error code *)
Theorem C11_skip_eq_get : forall d L s n v e s',
  (L <= length d)%nat -> (n <= 64)%nat -> getbits d L s n = RRes v e s' -> skip_bits L s n = (e, s').
Proof. exact skip_eq_get. Qed.
Print Assumptions C11_skip_eq_get.

(* ... and for any length n >= 0 (skips are not limited to 64 bits) *)
Theorem C11_skip_spec : forall L s n,
  RWF L s ->
  ((rpos s + n <= 8 * L)%nat -> exists s', skip_bits L s n = (0%Z, s') /\ rpos s' = (rpos s + n)%nat /\ RWF L s') /\
  ((rpos s + n > 8 * L)%nat -> exists e s', skip_bits L s n = (e, s') /\ (e < 0)%Z).
Proof. exact skip_spec. Qed.
Print Assumptions C11_skip_spec.

(* what is written is what is read: any list of fields written after any well-formed prefix is read back identically *)
Theorem C11_write_read_roundtrip : forall s0 fs s,
  WF s0 -> Forall (fun f => (1 <= snd f <= 64)%nat) fs -> write_fields s0 fs = Some s ->
  let d := wbytes s in
  exists s', read_fields d (length d) (rst_of_pos (N.to_nat (slen s0))) (map snd fs)
             = Some (map (fun f => fst f mod 2^(N.of_nat (snd f))) fs, s')
          /\ rpos s' = N.to_nat (slen s).
Proof. exact write_read_roundtrip. Qed.
Print Assumptions C11_write_read_roundtrip.

(* character strings: written as consecutive octets, padded with blanks *)
Theorem C11_padstring_bytes : forall s str enclen s',
  WF s -> Forall (fun c => c < 256) str -> put_padstring s str enclen = Some s' ->
  let body := firstn enclen str in
  write_fields s (map (fun c => (c, 8%nat)) (body ++ repeat 32 (enclen - length body))) = Some s'.
Proof. exact padstring_fields. Qed.
Print Assumptions C11_padstring_bytes.

(* ... and read back identically by bufr_getstring, at ANY bit offset (the prefix s0 is arbitrary) *)
Theorem C11_string_roundtrip : forall s0 str enclen s,
  WF s0 -> Forall (fun c => c < 256) str -> put_padstring s0 str enclen = Some s ->
  let d := wbytes s in
  let body := firstn enclen str in
  exists s', getstring d (length d) (rst_of_pos (N.to_nat (slen s0))) enclen []
               = Some (body ++ repeat 32 (enclen - length body), 0%Z, s')
          /\ rpos s' = N.to_nat (slen s).
Proof. exact string_roundtrip. Qed.
Print Assumptions C11_string_roundtrip.

(* reading a string touches no memory outside the section, whatever the cursor and the length ... *)
Theorem C11_getstring_no_oob : forall len d L s acc, (L <= length d)%nat -> getstring d L s len acc <> None.
Proof. exact getstring_no_oob. Qed.
Print Assumptions C11_getstring_no_oob.

(* ... and a string that runs past the end of the section reports an error *)
Theorem C11_getstring_past_end : forall len d L s acc r,
  L = length d -> RWF L s -> (rpos s + 8 * len > 8 * L)%nat ->
  getstring d L s len acc = Some r -> (snd (fst r) < 0)%Z.
Proof. exact getstring_past_end. Qed.
Print Assumptions C11_getstring_past_end.

(* non-vacuity: a concrete non-trivial state meets the hypotheses *)
Example C11_example :
  exists s, write_fields (winit 4) [(5,3%nat); (1023,10%nat); (0xABCDE,20%nat); (2^64-1, 64%nat)] = Some s
            /\ WF s /\ wbytes s = [191;253;94;111;127;255;255;255;255;255;255;255;128].
Proof. eexists. vm_compute. split; [reflexivity|]. split; [|reflexivity].
  split; [lia|]. split; [repeat constructor|]. intros _. split; reflexivity. Qed.

Example C11_string_example :
  match write_fields (winit 4) [(5,3%nat)] with
  | Some s0 => match put_padstring s0 [65;66;67] 5 with
               | Some s => WF s0 /\ getstring (wbytes s) (length (wbytes s)) (rst_of_pos 3) 5 []
                             = Some ([65;66;67;32;32], 0%Z, rst_of_pos 43)
               | None => False end
  | None => False end.
Proof. vm_compute. split; [|reflexivity]. split; [lia|]. split; [repeat constructor|]. intros _. split; reflexivity. Qed.
