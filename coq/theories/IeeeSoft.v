(* IeeeSoft.v — executable model of API/Sources/bufr_ieee754.c (property C19).

   The portable ("software") IEEE 754 codec of libecbufr is mirrored statement by statement:
     bufr_ieee_decode_single/double  -> soft_decode      (with bufr_get_significand_value, init_numbers)
     bufr_ieee_encode_single/double  -> soft_encode      (with bufr_single/double_get_significand, bufr_leftest_bit)
     bufr_use_C_ieee754, check_C_ieee754_compliance -> use_C_ieee754, check_compliance
     the C_use_ieee754 shortcut      -> ieee_encode / ieee_decode (native path = identity on the memory image)
   The single and double versions of the C code are textually the same up to the constants; the model is written once
   over a format record [fmt] and instantiated by [fmt32] and [fmt64].

   C floats/doubles are NOT modelled as machine floats: every float or double quantity of the C code is an exact dyadic
   number  m * 2^e  (type [dy]); each C floating-point operation that occurs is modelled by the exact operation, and the two
   places where the C code stores a result into a float/double object are modelled by [store]/[fits], which FAIL (None) when the exact
   value is not representable in the format -- so "the C arithmetic is exact here" is part of what is proved, not assumed.
   libm enters as Section variables:
     ilog2 x  = (int)(logf(x)/logf(2.0))   resp. (int)(log(x)/log(2.0))     -- the exponent estimate
     pow2 e   = pow(2.0, e)                                                 -- used for x / 2^expon and the table 1/2^i
     pow2s e  = powf(2.0, (float)e) in the single decoder, pow(2, e) in the double decoder
   Their contracts are stated in IeeeSoftProof.v ([ilog2_ok]: between one below and two above floor(log2 x); [pow2_ok]: the result
   represents exactly 2^e) and the exact instances [ilog2_exact], [pow2_exact] are used for execution.

   Two places of the code are modelled in two variants selected by a boolean, because the unchanged tree is defective there
   (see proposed_fixes/C19_*.md):  fixsub = false is the code as it stands in bufr_*_get_significand (leading zero fraction
   bits of a subnormal are not counted), fixsub = true the proposed one-condition repair;  fixsel = false is
   check_C_ieee754_compliance with the stray ';' after `if (check_match_encoding2decoding() < 0)`, fixsel = true without it.
   The correspondence run of lib/c19.py determines which variant the tree under test follows. *)
From Coq Require Import ZArith Bool.
Open Scope Z_scope.

(* ---------------------------------------------------------------------------------------------------------------- *)
(* exact dyadic numbers  (m, e)  =  m * 2^e,  m >= 0 in every use below (signs are handled separately, as the C code does) *)
Definition dy := (Z * Z)%type.

Definition dy_pos (x : dy) : bool := 0 <? fst x.                                   (* x > 0 *)
Definition dy_mul2 (x : dy) : dy := (fst x, snd x + 1).                             (* x * 2 *)
Definition dy_ge1 (x : dy) : bool := 2 ^ Z.max 0 (- snd x) <=? fst x * 2 ^ Z.max 0 (snd x).       (* x >= 1.0 *)
Definition dy_sub_int (x : dy) (k : Z) : dy :=                                      (* x - k, k an integer *)
  (fst x * 2 ^ Z.max 0 (snd x) - k * 2 ^ Z.max 0 (- snd x), Z.min (snd x) 0).
Definition dy_trunc (x : dy) : Z := fst x * 2 ^ Z.max 0 (snd x) / 2 ^ Z.max 0 (- snd x).            (* (uintNN_t) x, x >= 0 *)
Definition dy_add (x y : dy) : dy :=
  let mn := Z.min (snd x) (snd y) in (fst x * 2 ^ (snd x - mn) + fst y * 2 ^ (snd y - mn), mn).
Definition dy_mul (x y : dy) : dy := (fst x * fst y, snd x + snd y).
(* x / p where p is the result of pow(2.0, .): exact when p is a power of two; anything else is outside the model *)
Definition dy_div_p2 (x p : dy) : option dy :=
  if (0 <? fst p) && (fst p =? 2 ^ Z.log2 (fst p)) then Some (fst x, snd x - snd p - Z.log2 (fst p)) else None.

(* ---------------------------------------------------------------------------------------------------------------- *)
(* formats: fb = FRACT_NBITS, eb = number of exponent bits; the other constants of bufr_ieee754.c are derived *)
Record fmt := Fmt { fb : Z; eb : Z;
                    den_or_exp : bool;   (* encoder, subnormal result: double ORs (exponent+bias-1)<<52 into it, single does not *)
                    wcast : Z }.         (* width of the unsigned integer type ival is cast to *)
Definition fmt32 := Fmt 23 8 false 32.
Definition fmt64 := Fmt 52 11 true 64.
Definition bias (f : fmt) := 2 ^ (eb f - 1) - 1.                       (* EXPON_BIAS *)
Definition emin (f : fmt) := 1 - bias f.                              (* -126 / -1022 *)
Definition emax (f : fmt) := bias f.                                  (* 127 / 1023 *)
Definition sign_bit (f : fmt) := Z.shiftl 1 (fb f + eb f).            (* SIGN_BIT *)
Definition expon_bits (f : fmt) := Z.shiftl (Z.ones (eb f)) (fb f).   (* EXPON_BITS *)
Definition fract_bits (f : fmt) := Z.ones (fb f).                     (* FRACT_BITS *)

(* values of C float/double objects *)
Inductive fval :=
| FZero (s : bool)                  (* s = true: negative *)
| FInf (s : bool)
| FNan
| FFin (s : bool) (m e : Z).        (* (-1)^s * m * 2^e, m > 0 *)

(* storing an exact non-negative dyadic into a float/double object of format f: Some (the canonical IEEE datum) when the
   value is representable (then the store is exact), None otherwise (rounding would occur: outside the model) *)
Definition store (f : fmt) (s : bool) (x : dy) : option fval :=
  let (m, e) := x in
  if m =? 0 then Some (FZero s) else
  let d := Z.log2 m + 1 in
  let ec := Z.max (e + d - (fb f + 1)) (emin f - fb f) in
  if emax f <? e + d - 1 then None
  else if ec <=? e then Some (FFin s (m * 2 ^ (e - ec)) ec)
  else if m mod 2 ^ (ec - e) =? 0 then Some (FFin s (m / 2 ^ (ec - e)) ec) else None.
Definition fits (f : fmt) (x : dy) : bool := match store f false x with Some _ => true | None => false end.

(* bufr_leftest_bit (bufr_tables.c): while (val > 0) { ++i; val >>= 1; }   on a uint64_t *)
Fixpoint leftest_loop (fuel : nat) (val i : Z) : Z :=
  match fuel with
  | O => i
  | S fuel' => if 0 <? val then leftest_loop fuel' (Z.shiftr val 1) (i + 1) else i
  end.
Definition leftest_bit (val : Z) : Z := leftest_loop 64 val 0.

Section Libm.
Variable ilog2 : dy -> Z.
Variable pow2 : Z -> dy.
Variable pow2s : Z -> dy.

(* ------------------------------------------------------------------------------------------------ decoder *)
(* init_numbers: fractions2[i] = 1.0 / pow(2, i) *)
Definition fraction2 (i : Z) : option dy := dy_div_p2 (1, 0) (pow2 i).

(* bufr_get_significand_value: for (i = 1; i <= nbits; i++) { mask = 1ULL<<(nbits-i); if (fraction & mask) s += fractions2[i]; } *)
Fixpoint sigval_loop (nbits fraction : Z) (k : nat) (i : Z) (s : dy) : option dy :=
  match k with
  | O => Some s
  | S k' =>
    let mask := Z.shiftl 1 (nbits - i) in
    if negb (Z.land fraction mask =? 0) then
      match fraction2 i with
      | Some fi => sigval_loop nbits fraction k' (i + 1) (dy_add s fi)
      | None => None
      end
    else sigval_loop nbits fraction k' (i + 1) s
  end.
Definition significand_value (fraction nbits : Z) (denormal : bool) : option dy :=
  match (if denormal then Some (0, 0) else fraction2 0) with
  | Some s0 => sigval_loop nbits fraction (Z.to_nat nbits) 1 s0
  | None => None
  end.

(* bufr_ieee_decode_single / bufr_ieee_decode_double, software path *)
Definition soft_decode (f : fmt) (bits : Z) : option fval :=
  let sign := negb (Z.land bits (sign_bit f) =? 0) in
  let exponent := Z.shiftr (Z.land bits (expon_bits f)) (fb f) in
  let signific := Z.land bits (fract_bits f) in
  if (exponent =? 0) && (signific =? 0) then Some (FZero sign)                       (* return sign * 0.0 *)
  else if exponent =? Z.ones (eb f) then
    (if signific =? 0 then Some (FInf sign) else Some FNan)                           (* sign * HUGE_VAL / nan("") *)
  else
    let denormal := exponent =? 0 in
    let exponent := if denormal then emin f else exponent - bias f in
    match significand_value signific (fb f) denormal with
    | Some signif => store f sign (dy_mul signif (pow2s exponent))                    (* sign * signif * pow(2, exponent) *)
    | None => None
    end.

(* ------------------------------------------------------------------------------------------------ encoder *)
(* the while loop of bufr_single/double_get_significand; fixc = fixsub && (expon == minimum exponent) *)
Fixpoint sig_while (fixc : bool) (nb : Z) (fuel : nat) (ival : Z) (dvalue : dy) (rem n ni0 : Z) : option (Z * Z * Z) :=
  match fuel with
  | O => None
  | S fuel' =>
    if dy_pos dvalue && (0 <? rem) then
      let n := n + 1 in
      let dvalue := dy_mul2 dvalue in
      let '(ival, dvalue, ni0) :=
        if dy_ge1 dvalue
        then (Z.lor (Z.shiftl ival 1) 1, dy_sub_int dvalue 1, if ni0 =? 0 then n else ni0)
        else (Z.shiftl ival 1, dvalue, ni0) in
      let rem := if (0 <? ni0) || (0 <? nb) || fixc then rem - 1 else rem in
      sig_while fixc nb fuel' ival dvalue rem n ni0
    else Some (ival, rem, ni0)
  end.

(* bufr_single_get_significand / bufr_double_get_significand: (fraction field, *exponent, *denormal) *)
Definition get_significand (f : fmt) (fixsub : bool) (x : dy) : option (Z * Z * bool) :=
  let nbits := fb f in
  let est := ilog2 x in                                                  (* expon = log(fvalue)/log(2.0) *)
  let expon := if est <? emin f then emin f else est in
  let expon := if emax f <? expon then emax f else expon in
  match dy_div_p2 x (pow2 expon) with                                    (* fvalue = fvalue / pow(2.0, expon) *)
  | None => None
  | Some q =>
    if negb (fits f q) then None else                                    (* ... stored into a float resp. double *)
    let ival := dy_trunc q in                                            (* ival = (uintNN_t)fvalue *)
    if 2 ^ wcast f <=? ival then None else
    let nb := if 0 <? ival then leftest_bit ival else 0 in
    let rem := if 0 <? nb then nbits - nb + 1 else nbits + 1 in
    let dvalue := dy_sub_int q ival in                                   (* dvalue = fvalue - ival *)
    match sig_while (fixsub && (expon =? emin f)) nb (Z.to_nat (Z.max 0 (- snd q)) + 1) ival dvalue rem 0 0 with
    | None => None
    | Some (ival, rem, ni0) =>
      if 0 <? nb then
        Some ((if 0 <? rem then Z.land (Z.shiftl ival rem) (fract_bits f) else Z.land ival (fract_bits f)),
              expon + nb - 1, false)
      else if expon =? emin f then
        Some ((if 1 <? rem then Z.land (Z.shiftl ival (rem - 1)) (fract_bits f) else ival), expon, true)
      else
        Some (Z.land (Z.shiftl ival rem) (fract_bits f), expon - ni0, false)
    end
  end.

(* bufr_ieee_encode_single / bufr_ieee_encode_double, software path *)
Definition soft_encode (f : fmt) (fixsub : bool) (x : fval) : option Z :=
  match x with
  | FNan => Some (Z.lor (expon_bits f) (Z.shiftl 1 (fb f - 1)))
  | FInf s => Some (if s then Z.lor (expon_bits f) (sign_bit f) else expon_bits f)
  | FZero s => Some (if s then Z.lor 0 (sign_bit f) else 0)
  | FFin s m e =>                                                       (* if (fvalue < 0) { sign = 1; fvalue = -fvalue; } *)
    match get_significand f fixsub (m, e) with
    | None => None
    | Some (ifract, exponent, denormal) =>
      let ival :=
        if denormal
        then (if den_or_exp f then Z.lor (Z.shiftl (exponent + bias f - 1) (fb f)) ifract else ifract)
        else Z.lor (Z.shiftl (exponent + bias f) (fb f)) ifract in
      Some (if s then Z.lor ival (sign_bit f) else ival)
    end
  end.

(* ------------------------------------------------------------------------------------------------ native path *)
(* A C float object is its memory image; host_val gives the value the platform attaches to an image.
   if (C_use_ieee754): the encoder returns the object reinterpreted as an unsigned integer, the decoder the integer
   reinterpreted as a float object (pointer casts in the C code). *)
Definition ieee_encode (f : fmt) (fixsub c_use : bool) (host_val : Z -> fval) (img : Z) : option Z :=
  if c_use then Some img else soft_encode f fixsub (host_val img).
Definition ieee_decode (f : fmt) (c_use : bool) (host_val : Z -> fval) (bits : Z) : option fval :=
  if c_use then Some (host_val bits) else soft_decode f bits.

End Libm.

(* ---------------------------------------------------------------------------------------------------------------- *)
(* check_C_ieee754_compliance on the outcomes (true = passed) of its five sub-checks, and bufr_use_C_ieee754 on the
   static `checked` (0 = not yet run) *)
Definition check_compliance (fixsel : bool) (sz sg sl dl m2 : bool) : bool :=
  let got_error := false in
  let got_error := if negb sz then true else got_error in        (* if (!check_type_size()) got_error = 1; *)
  let got_error := if negb sg then true else got_error in        (* if (check_sign_bit() < 0) ... *)
  let got_error := if negb sl then true else got_error in        (* check_single_mem_layout *)
  let got_error := if negb dl then true else got_error in        (* check_double_mem_layout *)
  let got_error := if fixsel then (if negb m2 then true else got_error)
                   else true in                                  (* if (check_match_encoding2decoding() < 0); got_error = 1; *)
  negb got_error.
Definition use_C_ieee754 (fixsel : bool) (checked : Z) (sz sg sl dl m2 : bool) (use : bool) : Z * bool :=
  let checked := if checked =? 0 then (if check_compliance fixsel sz sg sl dl m2 then 1 else -1) else checked in
  (checked, (0 <? checked) && use).

(* ---------------------------------------------------------------------------------------------------------------- *)
(* exact instances of the libm functions, used for execution *)
Definition ilog2_exact (x : dy) : Z := Z.log2 (fst x) + snd x.
Definition pow2_exact (e : Z) : dy := (1, e).
(* as the double 2^e really looks: mantissa 2^52 *)
Definition pow2_double (e : Z) : dy := (2 ^ 52, e - 52).

(* ---------------------------------------------------------------------------------------------------------------- *)
(* SPECIFICATION: the IEEE 754 binary interchange layout over (sign, biased exponent, fraction), stated directly.
   IeeeSoftProof.v proves it equal to Flocq's  binary_float_of_bits / bits_of_binary_float. *)
Definition spec_decode (f : fmt) (bits : Z) : fval :=
  let s := 2 ^ (fb f + eb f) <=? bits in
  let fr := bits mod 2 ^ fb f in
  let ex := (bits / 2 ^ fb f) mod 2 ^ eb f in
  if ex =? 0 then (if fr =? 0 then FZero s else FFin s fr (emin f - fb f))
  else if ex =? 2 ^ eb f - 1 then (if fr =? 0 then FInf s else FNan)
  else FFin s (fr + 2 ^ fb f) (ex - bias f - fb f).
Definition join (f : fmt) (s : bool) (ex fr : Z) : Z := ((if s then 2 ^ eb f else 0) + ex) * 2 ^ fb f + fr.
Definition spec_encode (f : fmt) (x : fval) : Z :=
  match x with
  | FZero s => join f s 0 0
  | FInf s => join f s (2 ^ eb f - 1) 0
  | FNan => join f false (2 ^ eb f - 1) (2 ^ (fb f - 1))
  | FFin s m e => if 2 ^ fb f <=? m then join f s (e + fb f + bias f) (m - 2 ^ fb f) else join f s 0 m
  end.

(* entry points used by the extracted driver: memory images in, memory images out, on an IEEE 754 host *)
Definition run_encode (f : fmt) (fixsub c_use : bool) (est : Z) (img : Z) : option Z :=
  ieee_encode (fun _ => est) pow2_double f fixsub c_use (spec_decode f) img.
Definition run_encode_exact (f : fmt) (fixsub : bool) (img : Z) : option Z :=
  ieee_encode ilog2_exact pow2_exact f fixsub false (spec_decode f) img.
Definition run_decode (f : fmt) (c_use : bool) (bits : Z) : option fval :=
  ieee_decode pow2_double pow2_double f c_use (spec_decode f) bits.
