(* OwnProof.v — proofs of the ownership-discipline lemmas about Own.v used by Properties_C16.v. *)
From Coq Require Import List Arith Lia Bool.
From V Require Import Own.
Import ListNotations.

Definition creates (o:op) : nat := match o with NewTables _ | NewTemplate _ _ | CopyTemplate _ _ | NewDataset _ _ | Encode _ _ | Decode _ _ _ => 1 | _ => 0 end.
Definition frees (o:op) : nat := match o with Free _ => 1 | _ => 0 end.

(* ---------- find ---------- *)
Lemma find_some_in : forall hp h o, find hp h = Some o -> In o hp /\ o_id o = h.
Proof.
  intros hp h o Hf. unfold find in Hf. apply find_some in Hf. destruct Hf as [Hin Heq].
  apply Nat.eqb_eq in Heq. split; assumption.
Qed.

Lemma find_none_notin : forall hp h, find hp h = None -> ~ In h (map o_id hp).
Proof.
  intros hp h Hf Hin. apply in_map_iff in Hin. destruct Hin as [o [Hid Hin]].
  unfold find in Hf. pose proof (find_none _ _ Hf o Hin) as Hn. simpl in Hn.
  rewrite Hid in Hn. rewrite Nat.eqb_refl in Hn. discriminate.
Qed.

Lemma notin_find_none : forall hp h, ~ In h (map o_id hp) -> find hp h = None.
Proof.
  intros hp h Hn. destruct (find hp h) as [o|] eqn:Hf; [|reflexivity].
  apply find_some_in in Hf. destruct Hf as [Hin Hid]. exfalso. apply Hn.
  apply in_map_iff. exists o. split; assumption.
Qed.

Lemma find_cons : forall a hp h, find (a :: hp) h = if o_id a =? h then Some a else find hp h.
Proof. intros a hp h. reflexivity. Qed.

Lemma find_filter : forall hp h h',
  find (filter (fun ob => negb (o_id ob =? h)) hp) h' = if h' =? h then None else find hp h'.
Proof.
  intros hp h h'. induction hp as [|a r IH].
  - cbn [filter]. destruct (h' =? h) eqn:E; reflexivity.
  - cbn [filter]. destruct (o_id a =? h) eqn:Eah; cbn [negb].
    + rewrite IH. destruct (h' =? h) eqn:Eh; [reflexivity|].
      rewrite find_cons. destruct (o_id a =? h') eqn:Eah'; [|reflexivity].
      apply Nat.eqb_eq in Eah. apply Nat.eqb_eq in Eah'. apply Nat.eqb_neq in Eh. lia.
    + rewrite !find_cons. destruct (o_id a =? h') eqn:Eah'.
      * destruct (h' =? h) eqn:Eh; [|reflexivity].
        apply Nat.eqb_eq in Eh. apply Nat.eqb_eq in Eah'. apply Nat.eqb_neq in Eah. lia.
      * exact IH.
Qed.

Lemma fresh_spec : forall hp h, fresh hp h = true -> find hp h = None /\ 0 < h.
Proof.
  intros hp h Hf. unfold fresh in Hf. destruct (find hp h) eqn:E; [discriminate|].
  apply Nat.ltb_lt in Hf. split; [reflexivity|assumption].
Qed.

Lemma live_kind_find : forall hp h k, live_kind hp h k = true ->
  exists o, find hp h = Some o /\ o_kind o = k.
Proof.
  intros hp h k Hl. unfold live_kind in Hl. destruct (find hp h) as [o|] eqn:E; [|discriminate].
  exists o. split; [reflexivity|]. destruct (o_kind o), k; simpl in Hl; try discriminate; reflexivity.
Qed.

Lemma kind_eqb_refl : forall k, kind_eqb k k = true.
Proof. destruct k; reflexivity. Qed.

Lemma live_kind_cons_other : forall a hp h k, find hp (o_id a) = None ->
  live_kind hp h k = true -> live_kind (a :: hp) h k = true.
Proof.
  intros a hp h k Hfr Hl. unfold live_kind. rewrite find_cons.
  destruct (o_id a =? h) eqn:E.
  - apply Nat.eqb_eq in E. subst h. unfold live_kind in Hl. rewrite Hfr in Hl. discriminate.
  - exact Hl.
Qed.

(* tables_of of any handle is 0 or live tables, under the invariant *)
Lemma tables_of_ok : forall hp h, inv hp -> tables_of hp h <> 0 -> live_kind hp (tables_of hp h) KTables = true.
Proof.
  intros hp h [_ [_ Href]] Hnz. unfold tables_of in *. destruct (find hp h) as [o|] eqn:E.
  - apply find_some_in in E. destruct E as [Hin _]. apply Href; assumption.
  - exfalso. apply Hnz. reflexivity.
Qed.

(* consing a fresh object whose reference is 0 or live tables keeps the invariant *)
Lemma inv_cons : forall hp h k t, inv hp -> fresh hp h = true ->
  (t <> 0 -> live_kind hp t KTables = true) -> inv (mkObj h k t :: hp).
Proof.
  intros hp h k t Hinv Hfr Ht. destruct (fresh_spec _ _ Hfr) as [Hnone Hpos].
  destruct Hinv as [Hnd [Hp Href]]. split; [|split].
  - simpl. constructor; [apply find_none_notin; assumption|assumption].
  - intros ob [Heq|Hin]; [subst ob; simpl; assumption|apply Hp; assumption].
  - intros ob [Heq|Hin] Hnz.
    + subst ob. simpl in *. apply live_kind_cons_other; [simpl; assumption|apply Ht; assumption].
    + apply live_kind_cons_other; [simpl; assumption|apply Href; assumption].
Qed.

Lemma NoDup_map_filter : forall (f:obj -> bool) hp, NoDup (map o_id hp) -> NoDup (map o_id (filter f hp)).
Proof.
  intros f hp. induction hp as [|a r IH]; intros Hnd; simpl; [constructor|].
  inversion Hnd as [|x l Hnin Hnd']; subst. destruct (f a) eqn:E.
  - simpl. constructor; [|apply IH; assumption].
    intros Hin. apply Hnin. apply in_map_iff in Hin. destruct Hin as [o [Hid Hin]].
    apply filter_In in Hin. destruct Hin as [Hin _]. apply in_map_iff. exists o. split; assumption.
  - apply IH; assumption.
Qed.

Lemma referenced_false : forall hp t ob, referenced hp t = false -> In ob hp -> o_tables ob <> t.
Proof.
  intros hp t ob Hr Hin Heq. unfold referenced in Hr.
  assert (Ht : existsb (fun o => o_tables o =? t) hp = true).
  { apply existsb_exists. exists ob. split; [assumption|apply Nat.eqb_eq; assumption]. }
  rewrite Ht in Hr. discriminate.
Qed.

Lemma inv_free : forall hp h, inv hp -> legal hp (Free h) = true -> inv (step hp (Free h)).
Proof.
  intros hp h Hinv Hleg. pose proof Hinv as [Hnd [Hp Href]]. simpl in *. split; [|split].
  - apply NoDup_map_filter; assumption.
  - intros ob Hin. apply filter_In in Hin. destruct Hin as [Hin _]. apply Hp; assumption.
  - intros ob Hin Hnz. apply filter_In in Hin. destruct Hin as [Hin _].
    pose proof (Href ob Hin Hnz) as Hl. unfold live_kind. rewrite find_filter.
    destruct (o_tables ob =? h) eqn:E; [|exact Hl]. exfalso.
    apply Nat.eqb_eq in E. rewrite E in Hl. unfold live_kind in Hl.
    destruct (find hp h) as [o|] eqn:Ef; [|discriminate].
    rewrite Hl in Hleg. apply negb_true_iff in Hleg.
    exact (referenced_false _ _ _ Hleg Hin E).
Qed.

Lemma inv_step : forall hp o, inv hp -> legal hp o = true -> inv (step hp o).
Proof.
  intros hp o Hinv Hleg. destruct o as [h|h t|h s|h t|d|h d|m|h m t|d s|h|h].
  - simpl in *. apply inv_cons; [assumption|assumption|]. intros Hc. exfalso. apply Hc. reflexivity.
  - simpl in *. apply andb_true_iff in Hleg. destruct Hleg as [Hfr Hl].
    apply inv_cons; [assumption|assumption|]. intros _. exact Hl.
  - simpl in *. apply andb_true_iff in Hleg. destruct Hleg as [Hfr Hl].
    apply inv_cons; [assumption|assumption|]. apply tables_of_ok. assumption.
  - simpl in *. apply andb_true_iff in Hleg. destruct Hleg as [Hfr Hl].
    apply inv_cons; [assumption|assumption|]. apply tables_of_ok. assumption.
  - exact Hinv.
  - simpl in *. apply andb_true_iff in Hleg. destruct Hleg as [Hfr Hl].
    apply inv_cons; [assumption|assumption|]. intros Hc. exfalso. apply Hc. reflexivity.
  - exact Hinv.
  - simpl in *. apply andb_true_iff in Hleg. destruct Hleg as [Hleg Hlt].
    apply andb_true_iff in Hleg. destruct Hleg as [Hfr Hlm].
    apply inv_cons; [assumption|assumption|]. intros _. exact Hlt.
  - exact Hinv.
  - exact Hinv.
  - apply inv_free; assumption.
Qed.

Lemma inv_nil : inv [].
Proof.
  split; [|split].
  - simpl. constructor.
  - intros ob Hin. destruct Hin.
  - intros ob Hin. destruct Hin.
Qed.

Lemma run_inv_gen : forall ops hp hp', inv hp -> run hp ops = Some hp' -> inv hp'.
Proof.
  induction ops as [|o r IH]; intros hp hp' Hinv Hrun; simpl in Hrun.
  - inversion Hrun; subst. assumption.
  - destruct (legal hp o) eqn:Hleg; [|discriminate].
    apply (IH (step hp o)); [apply inv_step; assumption|assumption].
Qed.

Lemma run_inv : forall ops hp, run [] ops = Some hp -> inv hp.
Proof. intros ops hp Hrun. apply (run_inv_gen ops [] hp inv_nil Hrun). Qed.

Lemma no_dangling_tables : forall ops hp ob,
  run [] ops = Some hp -> In ob hp -> o_tables ob <> 0 -> live_kind hp (o_tables ob) KTables = true.
Proof.
  intros ops hp ob Hrun Hin Hnz. destruct (run_inv _ _ Hrun) as [_ [_ Href]]. apply Href; assumption.
Qed.

(* ---------- a free removes exactly one object ---------- *)
Lemma filter_notin_id : forall hp h, ~ In h (map o_id hp) ->
  filter (fun ob => negb (o_id ob =? h)) hp = hp.
Proof.
  induction hp as [|a r IH]; intros h Hn; simpl; [reflexivity|].
  simpl in Hn. destruct (o_id a =? h) eqn:E.
  - apply Nat.eqb_eq in E. exfalso. apply Hn. left. assumption.
  - simpl. f_equal. apply IH. intros Hin. apply Hn. right. assumption.
Qed.

Lemma filter_length_one : forall hp h o, NoDup (map o_id hp) -> find hp h = Some o ->
  length (filter (fun ob => negb (o_id ob =? h)) hp) + 1 = length hp.
Proof.
  induction hp as [|a r IH]; intros h o Hnd Hf; [discriminate|].
  simpl in Hnd. inversion Hnd as [|x l Hnin Hnd']; subst.
  rewrite find_cons in Hf. simpl. destruct (o_id a =? h) eqn:E; simpl.
  - apply Nat.eqb_eq in E. rewrite <- E. rewrite filter_notin_id; [lia|assumption].
  - rewrite <- (IH h o Hnd' Hf). lia.
Qed.

Lemma legal_free_find : forall hp h, legal hp (Free h) = true -> exists o, find hp h = Some o.
Proof.
  intros hp h Hleg. simpl in Hleg. destruct (find hp h) as [o|] eqn:E; [|discriminate].
  exists o. reflexivity.
Qed.

Lemma free_exactly_one : forall hp h,
  inv hp -> legal hp (Free h) = true ->
  length (step hp (Free h)) + 1 = length hp /\ find (step hp (Free h)) h = None /\
  forall h', h' <> h -> find (step hp (Free h)) h' = find hp h'.
Proof.
  intros hp h [Hnd _] Hleg. destruct (legal_free_find _ _ Hleg) as [o Hf]. simpl. split; [|split].
  - apply (filter_length_one hp h o); assumption.
  - rewrite find_filter. rewrite Nat.eqb_refl. reflexivity.
  - intros h' Hne. rewrite find_filter. apply Nat.eqb_neq in Hne. rewrite Hne. reflexivity.
Qed.

(* ---------- accounting ---------- *)
Lemma step_length : forall hp o, inv hp -> legal hp o = true ->
  length (step hp o) + frees o = length hp + creates o.
Proof.
  intros hp o Hinv Hleg. destruct o as [h|h t|h s|h t|d|h d|m|h m t|d s|h|h];
    try (simpl; lia).
  destruct (free_exactly_one hp h Hinv Hleg) as [Hlen _]. simpl creates. simpl frees. lia.
Qed.

Lemma run_account : forall ops hp hp', inv hp -> run hp ops = Some hp' ->
  length hp' + fold_right (fun o a => frees o + a) 0 ops
  = length hp + fold_right (fun o a => creates o + a) 0 ops.
Proof.
  induction ops as [|o r IH]; intros hp hp' Hinv Hrun; simpl in Hrun.
  - inversion Hrun; subst. simpl. reflexivity.
  - destruct (legal hp o) eqn:Hleg; [|discriminate].
    pose proof (step_length hp o Hinv Hleg) as Hs.
    pose proof (IH (step hp o) hp' (inv_step hp o Hinv Hleg) Hrun) as Hr.
    simpl fold_right. lia.
Qed.

Lemma all_released : forall ops hp,
  run [] ops = Some hp ->
  length hp + fold_right (fun o a => frees o + a) 0 ops = fold_right (fun o a => creates o + a) 0 ops /\
  (fold_right (fun o a => frees o + a) 0 ops = fold_right (fun o a => creates o + a) 0 ops -> hp = []).
Proof.
  intros ops hp Hrun. pose proof (run_account ops [] hp inv_nil Hrun) as Hacc. simpl in Hacc.
  split; [exact Hacc|]. intros Heq. apply length_zero_iff_nil. lia.
Qed.

(* ---------- a freed handle is dead ---------- *)
Lemma dead_live_kind : forall hp h k, find hp h = None -> live_kind hp h k = false.
Proof. intros hp h k Hf. unfold live_kind. rewrite Hf. reflexivity. Qed.

Lemma freed_is_dead : forall hp h o,
  inv hp -> legal hp (Free h) = true ->
  (o = Use h \/ o = AddSubset h \/ o = Reread h \/ o = Free h \/ (exists x, o = Encode x h) \/ (exists x, o = NewDataset x h) \/ (exists x, o = CopyTemplate x h) \/ (exists x, o = Merge x h) \/ (exists x, o = Merge h x)) ->
  legal (step hp (Free h)) o = false.
Proof.
  intros hp h o Hinv Hleg Hcases.
  destruct (free_exactly_one hp h Hinv Hleg) as [_ [Hnone _]].
  pose proof (fun k => dead_live_kind _ _ k Hnone) as Hd.
  destruct Hcases as [E|[E|[E|[E|[[x E]|[[x E]|[[x E]|[[x E]|[x E]]]]]]]]]; subst o.
  - unfold legal. rewrite !Hd. reflexivity.
  - unfold legal. apply Hd.
  - unfold legal. apply Hd.
  - unfold legal. rewrite Hnone. reflexivity.
  - unfold legal. rewrite Hd. apply andb_false_r.
  - unfold legal. rewrite Hd. apply andb_false_r.
  - unfold legal. rewrite Hd. apply andb_false_r.
  - unfold legal. rewrite Hd. apply andb_false_r.
  - unfold legal. rewrite Hd. reflexivity.
Qed.
