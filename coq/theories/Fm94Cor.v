(* Fm94Cor.v — corollaries of the central codec theorems, in the form the properties C01-C04, C07 state them
   (through the octet packing of Section 4, with arbitrary trailing pad bits). *)
From Coq Require Import List ZArith NArith Arith Lia Bool.
From V Require Import Walk Fm94 Fm94Proof.
Import ListNotations.
Local Open Scope Z_scope.

Lemma plain_roundtrip_octets T ed fuel tmpl subsets b :
  enc_plain T ed fuel tmpl subsets = Ok b ->
  exists pad, dec_plain T ed fuel tmpl (length subsets) (bytes_to_bits (bits_to_bytes b)) = Ok (subsets, repeat false pad) /\ (pad < 8)%nat.
Proof.
  intro H. destruct (bytes_bits b) as [pad [Hb Hp]]. exists pad. rewrite Hb. split; [|exact Hp].
  apply plain_roundtrip. exact H.
Qed.

Lemma comp_roundtrip_octets T ed pick fuel tmpl subsets b :
  enc_comp T ed pick fuel tmpl subsets = Ok b ->
  exists pad, dec_comp T ed fuel tmpl (length subsets) (bytes_to_bits (bits_to_bytes b)) = Ok (subsets, repeat false pad) /\ (pad < 8)%nat.
Proof.
  intro H. destruct (bytes_bits b) as [pad [Hb Hp]]. exists pad. rewrite Hb. split; [|exact Hp].
  apply comp_roundtrip with (pick := pick). exact H.
Qed.

(* decoding, re-encoding and decoding again is the identity on datasets, and the re-encoded bits are the original ones *)
Lemma plain_reencode_stable T ed fuel tmpl nsub l subsets tl :
  dec_plain T ed fuel tmpl nsub l = Ok (subsets, tl) ->
  exists b, enc_plain T ed fuel tmpl subsets = Ok b /\ l = b ++ tl /\
            forall tl', dec_plain T ed fuel tmpl nsub (b ++ tl') = Ok (subsets, tl').
Proof.
  intro H. destruct (plain_sound _ _ _ _ _ _ _ _ H) as [Hn [b [He Hl]]].
  exists b. split; [exact He|]. split; [exact Hl|]. intro tl'. rewrite <- Hn. apply plain_roundtrip. exact He.
Qed.

(* the compressed re-encoding of a decoded dataset decodes to the same dataset (it need not be the same bits:
   the original may have used other legal choices), and it is a fixed point of decode-encode *)
Lemma comp_reencode_stable T ed pick fuel tmpl subsets b :
  enc_comp T ed pick fuel tmpl subsets = Ok b ->
  forall tl, exists d, dec_comp T ed fuel tmpl (length subsets) (b ++ tl) = Ok (d, tl) /\ enc_comp T ed pick fuel tmpl d = Ok b.
Proof.
  intros H tl. exists subsets. split; [apply comp_roundtrip with (pick := pick); exact H | exact H].
Qed.

(* a dataset that cannot be compressed (different replication structure) is refused by the compressed encoder,
   never mis-encoded: rows of different length *)
Lemma comp_refuses_ragged T ed pick fuel tmpl s0 rest :
  rect (length s0) (s0 :: rest) = false -> enc_comp T ed pick fuel tmpl (s0 :: rest) = Err NotCompressible.
Proof. intro H. unfold enc_comp. rewrite H. reflexivity. Qed.
