(* Config.v — the stateful shell around the pure codec: diagnostic switches, and the history-dependent Table B lookup
   (last hit + cache) of bufr_fetch_tableB, as a state machine over operations sharing one tables object.
   Outputs are encoded bits, decoded datasets and fetched entries; diagnostic text is NOT part of the output. *)
From Coq Require Import List ZArith NArith Arith Lia Bool.
From V Require Import Walk Fm94.
Import ListNotations.
Local Open Scope Z_scope.

Record config := mkCfg { c_debug : bool; c_verbose : bool; c_meta : bool; c_trimzero : bool }.

(* lookup state: EntryTableB *last_searched and the sorted tableB_cache *)
Record lstate := mkL { l_last : option (Z * bent); l_cache : list (Z * bent) }.
Definition l0 : lstate := mkL None [].

(* bufr_fetch_tableB: last hit, then the cache, then the table; a table hit is remembered *)
Definition fetch (T:tables) (s:lstate) (d:Z) : option bent * lstate :=
  match l_last s with
  | Some (d', e) =>
      if d =? d' then (Some e, s) else
      match assoc d (l_cache s) with
      | Some e1 => (Some e1, mkL (Some (d, e1)) (l_cache s))
      | None => match lookupB T d with
                | Some e2 => (Some e2, mkL (Some (d, e2)) ((d, e2) :: l_cache s))
                | None => (None, s)
                end
      end
  | None =>
      match assoc d (l_cache s) with
      | Some e1 => (Some e1, mkL (Some (d, e1)) (l_cache s))
      | None => match lookupB T d with
                | Some e2 => (Some e2, mkL (Some (d, e2)) ((d, e2) :: l_cache s))
                | None => (None, s)
                end
      end
  end.

(* the tables as seen through the lookup state: what a codec run that uses `fetch` for every element sees *)
Definition coherent (T:tables) (s:lstate) : Prop :=
  (forall d e, l_last s = Some (d, e) -> lookupB T d = Some e) /\
  (forall d e, assoc d (l_cache s) = Some e -> lookupB T d = Some e).

Inductive op :=
| OSet (c:config)
| OFetch (d:Z)
| OEncode (ed:Z) (comp:bool) (tmpl:list Z) (subsets:list (list datum))
| ODecode (ed:Z) (comp:bool) (nsub:nat) (tmpl:list Z) (l:bits).
Inductive out :=
| UNone
| UEntry (e:option bent)
| UBits (r:result bits)
| UData (r:result (list (list datum) * bits)).

Definition fuelC : nat := Z.to_nat 200000.
Definition pick0 (f:field) (c:column) : choice * choice := (choice0, choice0).

(* every element descriptor of a template is fetched (as the library does while building the template) *)
Fixpoint touch (T:tables) (s:lstate) (ds:list Z) : lstate :=
  match ds with [] => s | d :: r => touch T (if dF d =? 0 then snd (fetch T s d) else s) r end.

Definition pure_out (T:tables) (o:op) : out :=
  match o with
  | OSet _ => UNone
  | OFetch d => UEntry (lookupB T d)
  | OEncode ed comp tmpl subsets => UBits (if comp then enc_comp T ed pick0 fuelC tmpl subsets else enc_plain T ed fuelC tmpl subsets)
  | ODecode ed comp nsub tmpl l => UData (if comp then dec_comp T ed fuelC tmpl nsub l else dec_plain T ed fuelC tmpl nsub l)
  end.

Definition step (T:tables) (st:config * lstate) (o:op) : (config * lstate) * out :=
  let '(c, s) := st in
  match o with
  | OSet c' => ((c', s), UNone)
  | OFetch d => let '(e, s') := fetch T s d in ((c, s'), UEntry e)
  | OEncode ed comp tmpl subsets => ((c, touch T s tmpl), pure_out T o)
  | ODecode ed comp nsub tmpl l => ((c, touch T s tmpl), pure_out T o)
  end.

Fixpoint run (T:tables) (st:config * lstate) (h:list op) : (config * lstate) * list out :=
  match h with
  | [] => (st, [])
  | o :: r => let '(st1, u) := step T st o in let '(st2, us) := run T st1 r in (st2, u :: us)
  end.

(* ------------------------------------------------------------------ proofs *)
Lemma fetch_coherent T s d : coherent T s ->
  fst (fetch T s d) = lookupB T d /\ coherent T (snd (fetch T s d)).
Proof.
  intros Hco. pose proof Hco as [HL HC]. unfold fetch.
  assert (Hmiss : forall e1, assoc d (l_cache s) = Some e1 -> lookupB T d = Some e1) by (intros e1 H; apply HC; exact H).
  assert (Hgen :
    let r := match assoc d (l_cache s) with
             | Some e1 => (Some e1, mkL (Some (d, e1)) (l_cache s))
             | None => match lookupB T d with
                       | Some e2 => (Some e2, mkL (Some (d, e2)) ((d, e2) :: l_cache s))
                       | None => (None, s)
                       end
             end in fst r = lookupB T d /\ coherent T (snd r)).
  { destruct (assoc d (l_cache s)) as [e1|] eqn:EA.
    - cbn. split; [symmetry; apply Hmiss; reflexivity|]. split.
      + intros d0 e0 H. inversion H; subst. apply Hmiss. reflexivity.
      + exact HC.
    - destruct (lookupB T d) as [e2|] eqn:EB; cbn.
      + split; [reflexivity|]. split.
        * intros d0 e0 H. inversion H; subst. exact EB.
        * intros d0 e0 H. cbn in H. destruct (d0 =? d) eqn:E.
          -- apply Z.eqb_eq in E. subst. inversion H; subst. exact EB.
          -- apply HC. exact H.
      + split; [reflexivity|]. exact Hco. }
  destruct (l_last s) as [[d' e]|] eqn:EL.
  - destruct (d =? d') eqn:E.
    + apply Z.eqb_eq in E. subst d'. cbn. split; [symmetry; apply HL; reflexivity | exact Hco].
    + exact Hgen.
  - exact Hgen.
Qed.

Lemma touch_coherent T : forall ds s, coherent T s -> coherent T (touch T s ds).
Proof.
  induction ds as [|d r IH]; intros s H; cbn [touch]; [exact H|].
  apply IH. destruct (dF d =? 0); [apply fetch_coherent; exact H | exact H].
Qed.

Lemma step_spec T c s o : coherent T s ->
  snd (step T (c, s) o) = pure_out T o /\ coherent T (snd (fst (step T (c, s) o))).
Proof.
  intro H. destruct o as [c'|d|ed comp tmpl subsets|ed comp nsub tmpl l]; cbn [step].
  - split; [reflexivity | exact H].
  - destruct (fetch T s d) as [e s'] eqn:E. cbn.
    destruct (fetch_coherent T s d H) as [H1 H2]. rewrite E in H1, H2. cbn in H1, H2. rewrite H1. split; [reflexivity | exact H2].
  - split; [reflexivity | apply touch_coherent; exact H].
  - split; [reflexivity | apply touch_coherent; exact H].
Qed.

(* the output of every operation of every history, under every configuration, is the pure function of that operation *)
Theorem run_outputs_pure T : forall h c s, coherent T s -> snd (run T (c, s) h) = map (pure_out T) h.
Proof.
  induction h as [|o r IH]; intros c s H; cbn [run map]; [reflexivity|].
  destruct (step T (c, s) o) as [[c1 s1] u] eqn:E.
  destruct (step_spec T c s o H) as [H1 H2]. rewrite E in H1, H2. cbn in H1, H2.
  specialize (IH c1 s1 H2). destruct (run T (c1, s1) r) as [st2 us] eqn:E2. cbn in IH. cbn. rewrite H1, IH. reflexivity.
Qed.

Lemma coherent_l0 T : coherent T l0.
Proof. split; intros d e H; discriminate H. Qed.

(* corollaries: configuration and history independence *)
Theorem config_irrelevant T h c1 c2 : snd (run T (c1, l0) h) = snd (run T (c2, l0) h).
Proof. rewrite !run_outputs_pure by apply coherent_l0. reflexivity. Qed.

Theorem history_irrelevant T h1 h2 o c :
  last (snd (run T (c, l0) (h1 ++ [o]))) UNone = last (snd (run T (c, l0) (h2 ++ [o]))) UNone.
Proof.
  rewrite !run_outputs_pure by apply coherent_l0. rewrite !map_app. cbn [map]. rewrite !last_last. reflexivity.
Qed.
