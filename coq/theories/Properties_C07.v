(* Properties_C07.v — C07: decode-encode is idempotent. *)
From Coq Require Import List ZArith NArith Arith Lia Bool.
From V Require Import Walk Fm94 Fm94Proof Fm94Cor.
Import ListNotations.
Local Open Scope Z_scope.

(* uncompressed: re-encoding a decoded data section reproduces the very bits that were decoded *)
Theorem C07_plain_reencode_reproduces_the_message : forall T ed fuel tmpl nsub l subsets tl,
  dec_plain T ed fuel tmpl nsub l = Ok (subsets, tl) ->
  exists b, enc_plain T ed fuel tmpl subsets = Ok b /\ l = b ++ tl /\
            forall tl', dec_plain T ed fuel tmpl nsub (b ++ tl') = Ok (subsets, tl').
Proof. exact plain_reencode_stable. Qed.
Print Assumptions C07_plain_reencode_reproduces_the_message.

(* compressed: the re-encoding m' decodes to the same dataset and is a fixed point of decode-encode *)
Theorem C07_compressed_reencode_is_a_fixed_point : forall T ed pick fuel tmpl subsets b,
  enc_comp T ed pick fuel tmpl subsets = Ok b ->
  forall tl, exists d, dec_comp T ed fuel tmpl (length subsets) (b ++ tl) = Ok (d, tl) /\ enc_comp T ed pick fuel tmpl d = Ok b.
Proof. exact comp_reencode_stable. Qed.
Print Assumptions C07_compressed_reencode_is_a_fixed_point.
