(* Fm94SliceProof.v — proofs for C14: decoding a range of subsets equals the slice of the full decode; merge. *)
From Coq Require Import List ZArith NArith Arith Lia Bool.
From V Require Import Walk Fm94 Fm94Proof Fm94Slice.
Import ListNotations.
Local Open Scope Z_scope.

(* ------------------------------------------------------------------ a simulation between two decoding walks *)
(* Two instances of walk_dec over the same tables and operators but different datum types, element decoders,
   post and count functions, related by g : D1 -> D2 on data, RS on operator states and RF on fields. *)
Section WalkSim.
  Variables opstate field D1 D2 : Type.
  Variable lookupD : desc -> option (list desc).
  Variable mk_field : opstate -> desc -> result field.
  Variable resolve : opstate -> desc -> result opstate.
  Variable op_field : opstate -> desc -> option field.
  Variable is_factor : desc -> bool.
  Variable post1 : opstate -> field -> D1 -> opstate.
  Variable post2 : opstate -> field -> D2 -> opstate.
  Variable count1 : desc -> D1 -> nat.
  Variable count2 : desc -> D2 -> nat.
  Variable dec1 : field -> list bool -> result (D1 * list bool).
  Variable dec2 : field -> list bool -> result (D2 * list bool).
  Variable g : D1 -> D2.
  Variable RS : opstate -> opstate -> Prop.
  Variable RF : field -> field -> Prop.
  Hypothesis mk_sim : forall s1 s2 d f1, RS s1 s2 -> mk_field s1 d = Ok f1 ->
    exists f2, mk_field s2 d = Ok f2 /\ RF f1 f2.
  Hypothesis res_sim : forall s1 s2 d s1', RS s1 s2 -> resolve s1 d = Ok s1' ->
    exists s2', resolve s2 d = Ok s2' /\ RS s1' s2'.
  Hypothesis opf_sim : forall s1 s2 d, RS s1 s2 ->
    match op_field s1 d with
    | Some f1 => exists f2, op_field s2 d = Some f2 /\ RF f1 f2
    | None => op_field s2 d = None
    end.
  Hypothesis dec_sim : forall f1 f2 l v tl, RF f1 f2 -> dec1 f1 l = Ok (v, tl) -> dec2 f2 l = Ok (g v, tl).
  Hypothesis post_sim : forall s1 s2 f1 f2 l v tl, RS s1 s2 -> RF f1 f2 -> dec1 f1 l = Ok (v, tl) ->
    RS (post1 s1 f1 v) (post2 s2 f2 (g v)).
  Hypothesis count_sim : forall s1 c f1 l v tl, mk_field s1 c = Ok f1 -> is_factor c = true ->
    dec1 f1 l = Ok (v, tl) -> count2 c (g v) = count1 c v.

  Let wd1 := walk_dec opstate field D1 lookupD mk_field resolve op_field post1 is_factor count1 dec1.
  Let wd2 := walk_dec opstate field D2 lookupD mk_field resolve op_field post2 is_factor count2 dec2.

  Lemma e_dec_sim f1 f2 l s v w : RF f1 f2 -> e_dec field D1 dec1 f1 l = Ok (s, v, w) ->
    dec1 f1 l = Ok (v, s) /\ w = [v] /\ e_dec field D2 dec2 f2 l = Ok (s, g v, [g v]).
  Proof.
    intros R H. unfold e_dec in *.
    destruct (dec1 f1 l) as [[v0 t0]|e] eqn:E; [|discriminate]. cbn [bind] in H.
    inversion H; subst. rewrite (dec_sim _ _ _ _ _ R E). cbn [bind]. repeat split.
  Qed.

  Theorem walk_dec_sim : forall fuel s1 s2 ds l s1' tl vs, RS s1 s2 ->
    wd1 fuel s1 ds l = Ok (s1', tl, vs) ->
    exists s2', wd2 fuel s2 ds l = Ok (s2', tl, map g vs) /\ RS s1' s2'.
  Proof.
    induction fuel as [|f IH]; intros s1 s2 ds l s1' tl vs R H; [discriminate|].
    unfold wd1, wd2, walk_dec in *. cbn [walk] in *.
    destruct ds as [|d rest0].
    - inversion H; subst. exists s2. split; [reflexivity|exact R].
    - destruct (dF d =? 0) eqn:F0.
      + destruct (mk_field s1 d) as [fld|e] eqn:MK; [|discriminate]. cbn [bind] in H.
        destruct (mk_sim _ _ _ _ R MK) as (fld2 & MK2 & RFf). rewrite MK2. cbn [bind].
        destruct (e_dec field D1 dec1 fld l) as [[[l1 v] w1]|e] eqn:E1; [|discriminate]. cbn [bind] in H.
        destruct (e_dec_sim _ _ _ _ _ _ RFf E1) as (D1v & -> & E2). rewrite E2. cbn [bind].
        destruct (walk _ _ _ _ _ _ _ _ _ _ _ _ _ _ _ f (post1 s1 fld v) rest0 l1) as [[[st2 l2] w2]|e] eqn:W; [|discriminate].
        cbn [bind] in H. inversion H; subst.
        destruct (IH _ _ _ _ _ _ _ (post_sim _ _ _ _ _ _ _ R RFf D1v) W) as (s2' & W2 & R').
        exists s2'. rewrite W2. cbn [bind app map]. split; [reflexivity|exact R'].
      + destruct (dF d =? 1) eqn:F1.
        * destruct (dY d =? 0) eqn:Y0.
          -- destruct rest0 as [|c rest']; [discriminate|].
             destruct (is_factor c) eqn:ISF; [|discriminate].
             destruct (mk_field s1 c) as [fld|e] eqn:MK; [|discriminate]. cbn [bind] in H.
             destruct (mk_sim _ _ _ _ R MK) as (fld2 & MK2 & RFf). rewrite MK2. cbn [bind].
             destruct (e_dec field D1 dec1 fld l) as [[[l1 v] w1]|e] eqn:E1; [|discriminate]. cbn [bind] in H.
             destruct (e_dec_sim _ _ _ _ _ _ RFf E1) as (D1v & -> & E2). rewrite E2. cbn [bind].
             destruct (length rest' <? Z.to_nat (dX d))%nat; [discriminate|].
             rewrite (count_sim _ _ _ _ _ _ MK ISF D1v).
             destruct (walk _ _ _ _ _ _ _ _ _ _ _ _ _ _ _ f s1 _ l1) as [[[st2 l2] w2]|e] eqn:W; [|discriminate].
             cbn [bind] in H. inversion H; subst.
             destruct (IH _ _ _ _ _ _ _ R W) as (s2' & W2 & R').
             exists s2'. rewrite W2. cbn [bind app map]. split; [reflexivity|exact R'].
          -- destruct (length rest0 <? Z.to_nat (dX d))%nat; [discriminate|].
             exact (IH _ _ _ _ _ _ _ R H).
        * destruct (dF d =? 2).
          -- pose proof (opf_sim _ _ d R) as OP.
             destruct (op_field s1 d) as [fld|].
             ++ destruct OP as (fld2 & OP2 & RFf). rewrite OP2.
                destruct (e_dec field D1 dec1 fld l) as [[[l1 v] w1]|e] eqn:E1; [|discriminate]. cbn [bind] in H.
                destruct (e_dec_sim _ _ _ _ _ _ RFf E1) as (D1v & -> & E2). rewrite E2. cbn [bind].
                destruct (walk _ _ _ _ _ _ _ _ _ _ _ _ _ _ _ f s1 rest0 l1) as [[[st2 l2] w2]|e] eqn:W; [|discriminate].
                cbn [bind] in H. inversion H; subst.
                destruct (IH _ _ _ _ _ _ _ R W) as (s2' & W2 & R').
                exists s2'. rewrite W2. cbn [bind app map]. split; [reflexivity|exact R'].
             ++ rewrite OP.
                destruct (resolve s1 d) as [st1|e] eqn:RE; [|discriminate]. cbn [bind] in H.
                destruct (res_sim _ _ _ _ R RE) as (st2 & RE2 & R1). rewrite RE2. cbn [bind].
                exact (IH _ _ _ _ _ _ _ R1 H).
          -- destruct (lookupD d) as [seq|]; [|discriminate]. exact (IH _ _ _ _ _ _ _ R H).
  Qed.
End WalkSim.

(* ------------------------------------------------------------------ slices of lists *)
Lemma slice_app3 {A} a b (l1 l2 l3:list A) :
  length l1 = (a - 1)%nat -> length l2 = (b - a + 1)%nat -> slice a b (l1 ++ l2 ++ l3) = l2.
Proof.
  intros L1 L2. unfold slice. rewrite <- L1, skipn_app, Nat.sub_diag, skipn_all. cbn [skipn app].
  rewrite <- L2, firstn_app, Nat.sub_diag, firstn_all. cbn [firstn]. apply app_nil_r.
Qed.

Lemma slice_length {A} a b (l:list A) : (1 <= a)%nat -> (a <= b)%nat -> (b <= length l)%nat ->
  length (slice a b l) = (b - a + 1)%nat.
Proof. intros A1 AB BL. unfold slice. rewrite firstn_length, skipn_length. lia. Qed.

Lemma slice_repeat {A} (x:A) a b n : (1 <= a)%nat -> (a <= b)%nat -> (b <= n)%nat ->
  slice a b (repeat x n) = repeat x (b - a + 1).
Proof.
  intros A1 AB BN. replace n with ((a - 1) + ((b - a + 1) + (n - b)))%nat by lia.
  rewrite (repeat_app x (a - 1)), (repeat_app x (b - a + 1) (n - b)). apply slice_app3; apply repeat_length.
Qed.

Lemma combine_skipn {A B} : forall n (l:list A) (l':list B), skipn n (combine l l') = combine (skipn n l) (skipn n l').
Proof.
  induction n as [|n IH]; intros l l'; [reflexivity|].
  destruct l as [|x l]; [reflexivity|]. destruct l' as [|y l']; cbn [skipn combine].
  - destruct (skipn n l); reflexivity.
  - apply IH.
Qed.

Lemma slice_combine {A B} a b (l:list A) (l':list B) : slice a b (combine l l') = combine (slice a b l) (slice a b l').
Proof. unfold slice. rewrite combine_skipn, combine_firstn. reflexivity. Qed.

Lemma slice_map {A B} (f:A -> B) a b l : slice a b (map f l) = map f (slice a b l).
Proof. unfold slice. rewrite skipn_map, firstn_map. reflexivity. Qed.

Lemma slice_incl {A} a b (l:list A) : incl (slice a b l) l.
Proof.
  unfold slice. intros x Hx.
  rewrite <- (firstn_skipn (a - 1) l). apply in_or_app. right.
  rewrite <- (firstn_skipn (b - a + 1) (skipn (a - 1) l)). apply in_or_app. left. exact Hx.
Qed.

Lemma all_eq_incl l l' : all_eq l = true -> incl l' l -> all_eq l' = true.
Proof.
  intros H I. destruct l' as [|x t]; [reflexivity|]. cbn [all_eq]. apply forallb_forall. intros y Hy.
  apply N.eqb_eq. symmetry. apply (all_eq_same _ H x y); apply I; [left; reflexivity|right; exact Hy].
Qed.

Lemma raws_firstn : forall k col ns, raws col = Some ns -> raws (firstn k col) = Some (firstn k ns).
Proof.
  induction k as [|k IH]; intros col ns H; [reflexivity|].
  destruct col as [|d t].
  - cbn in H. inversion H; subst. reflexivity.
  - rewrite raws_cons in H. destruct (d_val d) as [n|s] eqn:DV; [|discriminate].
    destruct (raws t) as [l|] eqn:E; [|discriminate]. inversion H; subst.
    cbn [firstn]. rewrite raws_cons, DV, (IH _ _ E). reflexivity.
Qed.

Lemma raws_skipn : forall k col ns, raws col = Some ns -> raws (skipn k col) = Some (skipn k ns).
Proof.
  induction k as [|k IH]; intros col ns H; [exact H|].
  destruct col as [|d t].
  - cbn in H. inversion H; subst. reflexivity.
  - rewrite raws_cons in H. destruct (d_val d) as [n|s] eqn:DV; [|discriminate].
    destruct (raws t) as [l|] eqn:E; [|discriminate]. inversion H; subst.
    cbn [skipn]. exact (IH _ _ E).
Qed.

Lemma raws_slice a b col ns : raws col = Some ns -> raws (slice a b col) = Some (slice a b ns).
Proof. intro H. unfold slice. apply raws_firstn, raws_skipn, H. Qed.

(* ------------------------------------------------------------------ skipping bits *)
Lemma skip_bits_add : forall x y l l1, skip_bits x l = Some l1 -> skip_bits (x + y) l = skip_bits y l1.
Proof.
  induction x as [|x IH]; intros y l l1 H; cbn [skip_bits Nat.add] in *.
  - inversion H; subst. reflexivity.
  - destruct l as [|b0 t]; [discriminate|]. exact (IH _ _ _ H).
Qed.

Lemma skip_bits_app : forall (x:bits) y, skip_bits (length x) (x ++ y) = Some y.
Proof. induction x as [|b0 x IH]; intro y; cbn [length skip_bits app]; [reflexivity|apply IH]. Qed.

Lemma dec_n_skip : forall w acc l v tl, dec_n w acc l = Some (v, tl) -> skip_bits w l = Some tl.
Proof.
  induction w as [|w IH]; intros acc l v tl H; cbn [dec_n skip_bits] in *.
  - inversion H; subst. reflexivity.
  - destruct l as [|b0 t]; [discriminate|]. exact (IH _ _ _ _ H).
Qed.

Lemma dec_bytes_skip : forall k l s tl, dec_bytes k l = Some (s, tl) -> skip_bits (8 * k) l = Some tl.
Proof.
  induction k as [|k IH]; intros l s tl H; cbn [dec_bytes] in H.
  - inversion H; subst. reflexivity.
  - destruct (dec_n 8 0%N l) as [[c l1]|] eqn:E1; [|discriminate].
    destruct (dec_bytes k l1) as [[s' l2]|] eqn:E2; [|discriminate]. inversion H; subst.
    replace (8 * S k)%nat with (8 + 8 * k)%nat by lia.
    rewrite (skip_bits_add _ _ _ _ (dec_n_skip _ _ _ _ _ E1)). exact (IH _ _ _ E2).
Qed.

(* ------------------------------------------------------------------ increments and strings split *)
Lemma dec_incs_skip nb r0 miss : forall k l vs tl, dec_incs k nb r0 miss l = Some (vs, tl) ->
  skip_bits (k * nb) l = Some tl /\ length vs = k.
Proof.
  induction k as [|k IH]; intros l vs tl H; cbn [dec_incs] in H.
  - inversion H; subst. split; reflexivity.
  - destruct (dec_n nb 0%N l) as [[i l1]|] eqn:E1; [|discriminate].
    destruct (dec_incs k nb r0 miss l1) as [[vs' l2]|] eqn:E2; [|discriminate]. inversion H; subst.
    destruct (IH _ _ _ E2) as [S L]. split; [|cbn [length]; rewrite L; reflexivity].
    cbn [Nat.mul]. rewrite (skip_bits_add _ _ _ _ (dec_n_skip _ _ _ _ _ E1)). exact S.
Qed.

Lemma dec_incs_app nb r0 miss : forall k1 k2 l vs tl, dec_incs (k1 + k2) nb r0 miss l = Some (vs, tl) ->
  exists vs1 vs2 l1, dec_incs k1 nb r0 miss l = Some (vs1, l1) /\ dec_incs k2 nb r0 miss l1 = Some (vs2, tl) /\ vs = vs1 ++ vs2.
Proof.
  induction k1 as [|k1 IH]; intros k2 l vs tl H.
  - exists [], vs, l. repeat split. exact H.
  - cbn [Nat.add dec_incs] in H. cbn [dec_incs].
    destruct (dec_n nb 0%N l) as [[i l1]|] eqn:E1; [|discriminate].
    destruct (dec_incs (k1 + k2) nb r0 miss l1) as [[vs' l2]|] eqn:E2; [|discriminate]. inversion H; subst.
    destruct (IH _ _ _ _ E2) as (vs1 & vs2 & l3 & A & B & ->). rewrite A.
    eexists _, vs2, l3. repeat split. exact B.
Qed.

Lemma dec_strs_skip wo : forall k l ss tl, dec_strs k wo l = Some (ss, tl) ->
  skip_bits (k * (8 * wo)) l = Some tl /\ length ss = k.
Proof.
  induction k as [|k IH]; intros l ss tl H; cbn [dec_strs] in H.
  - inversion H; subst. split; reflexivity.
  - destruct (dec_bytes wo l) as [[s l1]|] eqn:E1; [|discriminate].
    destruct (dec_strs k wo l1) as [[ss' l2]|] eqn:E2; [|discriminate]. inversion H; subst.
    destruct (IH _ _ _ E2) as [S L]. split; [|cbn [length]; rewrite L; reflexivity].
    cbn [Nat.mul]. rewrite (skip_bits_add _ _ _ _ (dec_bytes_skip _ _ _ _ E1)). exact S.
Qed.

Lemma dec_strs_app wo : forall k1 k2 l ss tl, dec_strs (k1 + k2) wo l = Some (ss, tl) ->
  exists ss1 ss2 l1, dec_strs k1 wo l = Some (ss1, l1) /\ dec_strs k2 wo l1 = Some (ss2, tl) /\ ss = ss1 ++ ss2.
Proof.
  induction k1 as [|k1 IH]; intros k2 l ss tl H.
  - exists [], ss, l. repeat split. exact H.
  - cbn [Nat.add dec_strs] in H. cbn [dec_strs].
    destruct (dec_bytes wo l) as [[s l1]|] eqn:E1; [|discriminate].
    destruct (dec_strs (k1 + k2) wo l1) as [[ss' l2]|] eqn:E2; [|discriminate]. inversion H; subst.
    destruct (IH _ _ _ _ E2) as (ss1 & ss2 & l3 & A & B & ->). rewrite A.
    eexists _, ss2, l3. repeat split. exact B.
Qed.

(* ------------------------------------------------------------------ one numeric / character column restricted to a..b *)
Lemma numcol_range_is_slice w miss nsub a b l vs tl :
  (1 <= a)%nat -> (a <= b)%nat -> (b <= nsub)%nat ->
  dec_numcol w miss nsub l = Ok (vs, tl) ->
  dec_numcol_range w miss nsub a b l = Ok (slice a b vs, tl) /\ length vs = nsub.
Proof.
  intros A1 AB BN H. unfold dec_numcol in H. unfold dec_numcol_range.
  destruct (dec_n (Z.to_nat w) 0%N l) as [[r0 l1]|]; [|discriminate].
  destruct (dec_n 6 0%N l1) as [[nb l2]|]; [|discriminate].
  destruct (N.eqb nb 0).
  - inversion H; subst. rewrite slice_repeat by assumption. split; [reflexivity|apply repeat_length].
  - destruct (match miss with Some _ => (Z.to_N w <? nb)%N | None => false end); [discriminate|].
    destruct (dec_incs nsub (N.to_nat nb) r0 miss l2) as [[vs0 tl0]|] eqn:E; [|discriminate].
    inversion H; subst vs0 tl0. clear H.
    replace nsub with ((a - 1) + ((b - a + 1) + (nsub - b)))%nat in E by lia.
    destruct (dec_incs_app _ _ _ _ _ _ _ _ E) as (vs1 & vs23 & l3 & E1 & E23 & ->).
    destruct (dec_incs_app _ _ _ _ _ _ _ _ E23) as (vs2 & vs3 & l4 & E2 & E3 & ->).
    destruct (dec_incs_skip _ _ _ _ _ _ _ E1) as [S1 L1].
    destruct (dec_incs_skip _ _ _ _ _ _ _ E2) as [S2 L2].
    destruct (dec_incs_skip _ _ _ _ _ _ _ E3) as [S3 L3].
    rewrite S1, E2, S3. rewrite (slice_app3 a b vs1 vs2 vs3 L1 L2).
    split; [reflexivity|]. rewrite !app_length. lia.
Qed.

Lemma strcol_range_is_slice w nsub a b l ss tl :
  (1 <= a)%nat -> (a <= b)%nat -> (b <= nsub)%nat ->
  dec_strcol w nsub l = Ok (ss, tl) ->
  dec_strcol_range w nsub a b l = Ok (slice a b ss, tl) /\ length ss = nsub.
Proof.
  intros A1 AB BN H. unfold dec_strcol in H. unfold dec_strcol_range. cbv zeta in *.
  set (wo := Z.to_nat (w / 8)) in *.
  destruct (dec_bytes wo l) as [[r0 l1]|]; [|discriminate].
  destruct (dec_n 6 0%N l1) as [[nb l2]|]; [|discriminate].
  destruct (N.eqb nb 0).
  - inversion H; subst. rewrite slice_repeat by assumption. split; [reflexivity|apply repeat_length].
  - destruct (negb (N.eqb nb (N.of_nat wo))); [discriminate|].
    destruct (dec_strs nsub wo l2) as [[ss0 tl0]|] eqn:E; [|discriminate].
    inversion H; subst ss0 tl0. clear H.
    replace nsub with ((a - 1) + ((b - a + 1) + (nsub - b)))%nat in E by lia.
    destruct (dec_strs_app _ _ _ _ _ _ E) as (ss1 & ss23 & l3 & E1 & E23 & ->).
    destruct (dec_strs_app _ _ _ _ _ _ E23) as (ss2 & ss3 & l4 & E2 & E3 & ->).
    destruct (dec_strs_skip _ _ _ _ _ E1) as [S1 L1].
    destruct (dec_strs_skip _ _ _ _ _ E2) as [S2 L2].
    destruct (dec_strs_skip _ _ _ _ _ E3) as [S3 L3].
    rewrite S1, E2, S3. rewrite (slice_app3 a b ss1 ss2 ss3 L1 L2).
    split; [reflexivity|]. rewrite !app_length. lia.
Qed.

(* ------------------------------------------------------------------ one compressed column *)
Theorem col_range_is_slice : forall nsub a b f l col tl,
  (1 <= a)%nat -> (a <= b)%nat -> (b <= nsub)%nat ->
  dec_col nsub f l = Ok (col, tl) -> dec_col_range nsub a b f l = Ok (slice a b col, tl).
Proof.
  intros nsub a b f l col tl A1 AB BN H. unfold dec_col in H. unfold dec_col_range.
  destruct (negb (wf_field f)); [discriminate|].
  destruct (Nat.eqb nsub 0); [discriminate|].
  match type of H with bind ?X _ = _ => destruct X as [[afs l1]|e] eqn:EA; [|discriminate] end. cbn [bind] in H.
  match goal with |- bind ?X _ = _ => assert (HA : X = Ok (slice a b afs, l1)) end.
  { destruct (0 <? f_afw f).
    - exact (proj1 (numcol_range_is_slice _ _ _ _ _ _ _ _ A1 AB BN EA)).
    - inversion EA; subst. rewrite slice_repeat by assumption. reflexivity. }
  rewrite HA. cbn [bind]. clear HA.
  match type of H with bind ?X _ = _ => destruct X as [[col0 l2]|e] eqn:EV; [|discriminate] end. cbn [bind] in H.
  match goal with |- bind ?X _ = _ => assert (HV : X = Ok (slice a b col0, l2)) end.
  { destruct (is_str (f_kind f)).
    - destruct (dec_strcol (f_width f) nsub l1) as [[ss t]|e] eqn:ES; [|discriminate]. cbn [bind] in EV.
      inversion EV; subst. rewrite (proj1 (strcol_range_is_slice _ _ _ _ _ _ _ A1 AB BN ES)). cbn [bind].
      rewrite slice_map, slice_combine. reflexivity.
    - destruct (dec_numcol (f_width f) (Some (allones (f_width f))) nsub l1) as [[ns t]|e] eqn:ES; [|discriminate]. cbn [bind] in EV.
      inversion EV; subst. rewrite (proj1 (numcol_range_is_slice _ _ _ _ _ _ _ _ A1 AB BN ES)). cbn [bind].
      rewrite slice_map, slice_combine. reflexivity. }
  rewrite HV. cbn [bind]. clear HV.
  destruct (is_factor (f_desc f)); cbn [andb] in *.
  - destruct (raws col0) as [ns|] eqn:ER; [|discriminate].
    destruct (all_eq ns) eqn:AE; [|discriminate]. cbn [negb] in H. inversion H; subst.
    rewrite (raws_slice a b _ _ ER), (all_eq_incl _ _ AE (slice_incl a b ns)). reflexivity.
  - inversion H; subst. reflexivity.
Qed.

(* ------------------------------------------------------------------ rows <-> columns and slices *)
Lemma transpose_skipn {A} : forall s n (cols:list (list A)),
  transpose n (map (skipn s) cols) = skipn s (transpose (s + n) cols).
Proof.
  induction s as [|s IH]; intros n cols.
  - cbn [skipn Nat.add]. rewrite map_id. reflexivity.
  - cbn [Nat.add transpose skipn]. rewrite <- IH, map_map. f_equal.
    apply map_ext. intros [|x c]; [destruct s; reflexivity|reflexivity].
Qed.

Lemma transpose_firstn {A} : forall k n (cols:list (list A)), (k <= n)%nat ->
  transpose k (map (firstn k) cols) = firstn k (transpose n cols).
Proof.
  induction k as [|k IH]; intros n cols LE; [reflexivity|].
  destruct n as [|n]; [lia|]. cbn [transpose firstn]. f_equal.
  - induction cols as [|c cols IHc]; [reflexivity|]. cbn [map flat_map]. rewrite IHc. destruct c; reflexivity.
  - rewrite <- (IH n) by lia. rewrite !map_map. f_equal. apply map_ext. intros [|x c]; [destruct k; reflexivity|reflexivity].
Qed.

Lemma transpose_slice {A} a b nsub (cols:list (list A)) : (1 <= a)%nat -> (a <= b)%nat -> (b <= nsub)%nat ->
  transpose (b - a + 1) (map (slice a b) cols) = slice a b (transpose nsub cols).
Proof.
  intros A1 AB BN. unfold slice.
  replace nsub with ((a - 1) + (nsub - a + 1))%nat by lia.
  rewrite <- transpose_skipn, <- (transpose_firstn (b - a + 1) (nsub - a + 1)) by lia.
  rewrite map_map. reflexivity.
Qed.

(* ------------------------------------------------------------------ compressed Section 4 restricted to a..b *)
(* New reference values (2 03 YYY operands) may differ between subsets, so the operator state after a range
   decode can differ from the state after the full decode -- but only in o_refs, which never influences how
   bits are cut into fields: it only feeds f_ref. *)
Definition st_sim (s1 s2:opst) : Prop :=
  o_dw s1 = o_dw s2 /\ o_ds s1 = o_ds s2 /\ o_refdef s1 = o_refdef s2 /\ o_af s1 = o_af s2 /\
  o_locw s1 = o_locw s2 /\ o_207 s1 = o_207 s2 /\ o_cw s1 = o_cw s2.
Definition fld_sim (f1 f2:field) : Prop :=
  f_desc f1 = f_desc f2 /\ f_kind f1 = f_kind f2 /\ f_width f1 = f_width f2 /\ f_scale f1 = f_scale f2 /\ f_afw f1 = f_afw f2.

Lemma st_sim_refl s : st_sim s s.
Proof. unfold st_sim. repeat split. Qed.

Lemma mk_field_desc T st d f : mk_field T st d = Ok f -> f_desc f = d.
Proof.
  unfold mk_field. intro H.
  repeat match type of H with
         | context [match ?X with _ => _ end] => destruct X
         end; try discriminate; inversion H; reflexivity.
Qed.

Lemma mk_field_sim T s1 s2 d f1 : st_sim s1 s2 -> mk_field T s1 d = Ok f1 ->
  exists f2, mk_field T s2 d = Ok f2 /\ fld_sim f1 f2.
Proof.
  destruct s1 as [dw1 ds1 rd1 rf1 af1 lw1 x1 cw1], s2 as [dw2 ds2 rd2 rf2 af2 lw2 x2 cw2].
  unfold st_sim. cbn [o_dw o_ds o_refdef o_af o_locw o_207 o_cw]. intros (-> & -> & -> & -> & -> & -> & ->) H.
  unfold mk_field, afw in *. cbn [o_dw o_ds o_refdef o_refs o_af o_locw o_207 o_cw] in *.
  repeat match type of H with
         | context [match ?X with _ => _ end] => destruct X
         end; try discriminate; inversion H; subst; eexists; (split; [reflexivity|]); unfold fld_sim; cbn; repeat split.
Qed.

Lemma resolve_sim ed s1 s2 d s1' : st_sim s1 s2 -> resolve ed s1 d = Ok s1' ->
  exists s2', resolve ed s2 d = Ok s2' /\ st_sim s1' s2'.
Proof.
  destruct s1 as [dw1 ds1 rd1 rf1 af1 lw1 x1 cw1], s2 as [dw2 ds2 rd2 rf2 af2 lw2 x2 cw2].
  unfold st_sim. cbn [o_dw o_ds o_refdef o_af o_locw o_207 o_cw]. intros (-> & -> & -> & -> & -> & -> & ->) H.
  unfold resolve in *. cbv zeta in *.
  repeat match type of H with
         | context [if ?X then _ else _] => destruct X
         end; try discriminate; inversion H; subst; eexists; (split; [reflexivity|]); cbn; repeat split.
Qed.

Lemma post_st_sim s1 s2 f1 f2 v1 v2 : st_sim s1 s2 -> fld_sim f1 f2 -> st_sim (post s1 f1 v1) (post s2 f2 v2).
Proof.
  destruct s1 as [dw1 ds1 rd1 rf1 af1 lw1 x1 cw1], s2 as [dw2 ds2 rd2 rf2 af2 lw2 x2 cw2].
  unfold st_sim, fld_sim. cbn [o_dw o_ds o_refdef o_af o_locw o_207 o_cw].
  intros (-> & -> & -> & -> & -> & -> & ->) (_ & K & _). unfold post. rewrite K.
  destruct (f_kind f2); cbn [o_locw]; try destruct (0 <? lw2); try destruct (d_val v1); try destruct (d_val v2); cbn; repeat split.
Qed.

Lemma dec_col_range_fld nsub a b f1 f2 l : fld_sim f1 f2 -> dec_col_range nsub a b f1 l = dec_col_range nsub a b f2 l.
Proof.
  destruct f1 as [d1 k1 w1 sc1 r1 a1], f2 as [d2 k2 w2 sc2 r2 a2]. unfold fld_sim. cbn [f_desc f_kind f_width f_scale f_afw].
  intros (-> & -> & -> & -> & ->). reflexivity.
Qed.

Lemma dec_col_length nsub f l col tl : dec_col nsub f l = Ok (col, tl) -> length col = nsub /\ (1 <= nsub)%nat.
Proof.
  intro H. unfold dec_col in H.
  destruct (negb (wf_field f)); [discriminate|].
  destruct (Nat.eqb nsub 0) eqn:N0; [discriminate|]. apply Nat.eqb_neq in N0.
  assert (N1 : (1 <= nsub)%nat) by lia. split; [|exact N1].
  match type of H with bind ?X _ = _ => destruct X as [[afs l1]|e] eqn:EA; [|discriminate] end. cbn [bind] in H.
  assert (LA : length afs = nsub).
  { destruct (0 <? f_afw f).
    - exact (proj2 (numcol_range_is_slice _ _ _ 1 1 _ _ _ (le_n 1) (le_n 1) N1 EA)).
    - inversion EA; subst. apply repeat_length. }
  match type of H with bind ?X _ = _ => destruct X as [[col0 l2]|e] eqn:EV; [|discriminate] end. cbn [bind] in H.
  assert (LC : length col0 = nsub).
  { destruct (is_str (f_kind f)).
    - destruct (dec_strcol (f_width f) nsub l1) as [[ss t]|e] eqn:ES; [|discriminate]. cbn [bind] in EV.
      inversion EV; subst. rewrite map_length, combine_length.
      rewrite (proj2 (strcol_range_is_slice _ _ 1 1 _ _ _ (le_n 1) (le_n 1) N1 ES)). lia.
    - destruct (dec_numcol (f_width f) (Some (allones (f_width f))) nsub l1) as [[ns t]|e] eqn:ES; [|discriminate]. cbn [bind] in EV.
      inversion EV; subst. rewrite map_length, combine_length.
      rewrite (proj2 (numcol_range_is_slice _ _ _ 1 1 _ _ _ (le_n 1) (le_n 1) N1 ES)). lia. }
  destruct (is_factor (f_desc f) && negb (match raws col0 with Some l0 => all_eq l0 | None => false end)); [discriminate|].
  inversion H; subst. exact LC.
Qed.

Lemma dec_col_factor nsub f l col tl : dec_col nsub f l = Ok (col, tl) -> is_factor (f_desc f) = true ->
  exists ns, raws col = Some ns /\ all_eq ns = true.
Proof.
  intros H F. unfold dec_col in H.
  destruct (negb (wf_field f)); [discriminate|].
  destruct (Nat.eqb nsub 0); [discriminate|].
  match type of H with bind ?X _ = _ => destruct X as [[afs l1]|e]; [|discriminate] end. cbn [bind] in H.
  match type of H with bind ?X _ = _ => destruct X as [[col0 l2]|e]; [|discriminate] end. cbn [bind] in H.
  rewrite F in H. cbn [andb] in H.
  destruct (raws col0) as [ns|] eqn:ER; [|discriminate].
  destruct (all_eq ns) eqn:AE; [|discriminate]. inversion H; subst. exists ns. split; [exact ER|exact AE].
Qed.

Lemma count_col_slice c a b col ns : (1 <= a)%nat -> (a <= b)%nat -> (b <= length col)%nat ->
  raws col = Some ns -> all_eq ns = true -> count_col c (slice a b col) = count_col c col.
Proof.
  intros A1 AB BL ER AE.
  pose proof (slice_length a b col A1 AB BL) as SL.
  pose proof (raws_slice a b _ _ ER) as ERS.
  pose proof (slice_incl a b ns) as INC.
  destruct col as [|d t]; [cbn [length] in BL; lia|].
  destruct (slice a b (d :: t)) as [|d' t']; [cbn [length] in SL; lia|].
  rewrite raws_cons in ER, ERS.
  destruct (d_val d) as [n|s] eqn:DV; [|discriminate]. destruct (raws t) as [nt|]; [|discriminate]. inversion ER; subst ns.
  destruct (d_val d') as [n'|s'] eqn:DV'; [|discriminate]. destruct (raws t') as [nt'|]; [|discriminate].
  inversion ERS as [ES]. rewrite <- ES in INC.
  assert (n' = n).
  { apply (all_eq_same _ AE n n'); [left; reflexivity|]. apply INC. left. reflexivity. }
  subst n'. cbn [count_col]. unfold count_of. rewrite DV, DV'. reflexivity.
Qed.

Lemma walk_decC_range_sim T ed nsub a b fuel s1 s2 ds l s1' tl cols :
  (1 <= a)%nat -> (a <= b)%nat -> (b <= nsub)%nat -> st_sim s1 s2 ->
  walk_decC T ed nsub fuel s1 ds l = Ok (s1', tl, cols) ->
  exists s2', walk_decC_range T ed nsub a b fuel s2 ds l = Ok (s2', tl, map (slice a b) cols) /\ st_sim s1' s2'.
Proof.
  intros A1 AB BN R H. unfold walk_decC in H. unfold walk_decC_range.
  eapply (walk_dec_sim opst field column column (lookupD T) (mk_field T) (resolve ed) op_field is_factor
            post_col post_col count_col count_col (dec_col nsub) (dec_col_range nsub a b) (slice a b) st_sim fld_sim);
    [| | | | | |exact R|exact H].
  - intros. eapply mk_field_sim; eassumption.
  - intros. eapply resolve_sim; eassumption.
  - intros x1 x2 d _. unfold op_field. destruct (dX d =? 5); [|reflexivity].
    eexists. split; [reflexivity|]. unfold fld_sim. repeat split.
  - intros f1 f2 l0 v tl0 RF D. rewrite <- (dec_col_range_fld _ _ _ _ _ _ RF). apply col_range_is_slice; assumption.
  - intros x1 x2 f1 f2 l0 v tl0 RS RF D.
    destruct (dec_col_length _ _ _ _ _ D) as [L N1].
    assert (SL : length (slice a b v) = (b - a + 1)%nat) by (apply slice_length; lia).
    destruct v as [|d t]; [cbn [length] in L; lia|].
    destruct (slice a b (d :: t)) as [|d' t']; [cbn [length] in SL; lia|].
    cbn [post_col]. apply post_st_sim; assumption.
  - intros x1 c f1 l0 v tl0 MK F D.
    destruct (dec_col_length _ _ _ _ _ D) as [L N1].
    rewrite <- (mk_field_desc _ _ _ _ MK) in F.
    destruct (dec_col_factor _ _ _ _ _ D F) as (ns & ER & AE).
    eapply count_col_slice; try eassumption. lia.
Qed.

Theorem comp_range_is_slice : forall T ed fuel tmpl nsub a b l rows tl,
  (1 <= a)%nat -> (a <= b)%nat -> (b <= nsub)%nat ->
  dec_comp T ed fuel tmpl nsub l = Ok (rows, tl) ->
  dec_comp_range T ed fuel tmpl nsub a b l = Ok (slice a b rows, tl).
Proof.
  intros T ed fuel tmpl nsub a b l rows tl A1 AB BN H.
  unfold dec_comp, dec_comp_cols in H. unfold dec_comp_range.
  destruct (walk_decC T ed nsub fuel op0 tmpl l) as [[[st' l1] cols]|e] eqn:W; [|discriminate].
  cbn [bind] in H. inversion H; subst.
  destruct (walk_decC_range_sim _ _ _ _ _ _ _ _ _ _ _ _ _ A1 AB BN (st_sim_refl op0) W) as (s2' & W2 & _).
  rewrite W2. cbn [bind]. rewrite (transpose_slice a b nsub) by assumption. reflexivity.
Qed.

(* ------------------------------------------------------------------ uncompressed Section 4 *)
Lemma enc_plain_app T ed fuel tmpl : forall xs ys b,
  enc_plain T ed fuel tmpl (xs ++ ys) = Ok b ->
  exists bx by_, enc_plain T ed fuel tmpl xs = Ok bx /\ enc_plain T ed fuel tmpl ys = Ok by_ /\ b = bx ++ by_.
Proof.
  induction xs as [|s rest IH]; intros ys b H.
  - exists [], b. repeat split. exact H.
  - cbn [app enc_plain] in *.
    destruct (walk_enc1 T ed fuel op0 tmpl s) as [[[st' lft] b1]|e]; [|discriminate]. cbn [bind] in *.
    destruct lft; [|discriminate].
    destruct (enc_plain T ed fuel tmpl (rest ++ ys)) as [b2|e] eqn:E2; [|discriminate]. cbn [bind] in H.
    inversion H; subst.
    destruct (IH _ _ E2) as (bx & by_ & EX & EY & ->). rewrite EX. cbn [bind].
    exists (b1 ++ bx), by_. repeat split; [exact EY|apply app_assoc].
Qed.

Theorem plain_decode_from_subset_start : forall T ed fuel tmpl pre mid post b tl,
  enc_plain T ed fuel tmpl (pre ++ mid ++ post) = Ok b ->
  exists bpre bmid bpost, b = bpre ++ bmid ++ bpost /\
    enc_plain T ed fuel tmpl pre = Ok bpre /\ enc_plain T ed fuel tmpl mid = Ok bmid /\ enc_plain T ed fuel tmpl post = Ok bpost /\
    dec_plain T ed fuel tmpl (length mid) (bmid ++ bpost ++ tl) = Ok (mid, bpost ++ tl).
Proof.
  intros T ed fuel tmpl pre mid post b tl H.
  destruct (enc_plain_app _ _ _ _ _ _ _ H) as (bpre & b2 & EP & E2 & ->).
  destruct (enc_plain_app _ _ _ _ _ _ _ E2) as (bmid & bpost & EM & EPo & ->).
  exists bpre, bmid, bpost. repeat split; try assumption.
  apply plain_roundtrip. exact EM.
Qed.

Lemma enc_plain_fixed_length T ed fuel tmpl sublen : forall rows b,
  enc_plain T ed fuel tmpl rows = Ok b ->
  (forall r br, In r rows -> enc_plain T ed fuel tmpl [r] = Ok br -> length br = sublen) ->
  length b = (length rows * sublen)%nat.
Proof.
  induction rows as [|r rest IH]; intros b H FX.
  - cbn [enc_plain] in H. inversion H; subst. reflexivity.
  - change (r :: rest) with ([r] ++ rest) in H.
    destruct (enc_plain_app _ _ _ _ _ _ _ H) as (b1 & b2 & E1 & E2 & ->).
    rewrite app_length, (FX r b1 (or_introl eq_refl) E1).
    rewrite (IH _ E2) by (intros r' br' Hr'; apply FX; right; exact Hr'). cbn [length Nat.mul]. reflexivity.
Qed.

Theorem plain_fixed_range_is_slice : forall T ed fuel tmpl rows sublen a b bts tl,
  (1 <= a)%nat -> (a <= b)%nat -> (b <= length rows)%nat ->
  enc_plain T ed fuel tmpl rows = Ok bts ->
  (forall r br, In r rows -> enc_plain T ed fuel tmpl [r] = Ok br -> length br = sublen) ->
  exists rest, dec_plain_range T ed fuel tmpl sublen a b (bts ++ tl) = Ok (slice a b rows, rest).
Proof.
  intros T ed fuel tmpl rows sublen a b bts tl A1 AB BL H FX.
  set (pre := firstn (a - 1) rows). set (mid := slice a b rows).
  set (post := skipn (b - a + 1) (skipn (a - 1) rows)).
  assert (SPLIT : rows = pre ++ mid ++ post).
  { unfold pre, mid, post, slice. rewrite (firstn_skipn (b - a + 1)), (firstn_skipn (a - 1)). reflexivity. }
  assert (LP : length pre = (a - 1)%nat) by (unfold pre; rewrite firstn_length; lia).
  assert (LM : length mid = (b - a + 1)%nat) by (unfold mid; apply slice_length; assumption).
  rewrite SPLIT in H.
  destruct (plain_decode_from_subset_start _ _ _ _ _ _ _ _ tl H) as (bpre & bmid & bpost & -> & EP & EM & EPo & D).
  assert (LB : length bpre = ((a - 1) * sublen)%nat).
  { rewrite <- LP. apply (enc_plain_fixed_length _ _ _ _ _ _ _ EP).
    intros r br Hr. apply FX. rewrite SPLIT. apply in_or_app. left. exact Hr. }
  exists (bpost ++ tl). unfold dec_plain_range.
  rewrite <- LB, <- !app_assoc, skip_bits_app. fold mid. rewrite <- LM. exact D.
Qed.

(* ------------------------------------------------------------------ merging subsets *)
Lemma nth_error_firstn' {A} : forall k j (l:list A), (j < k)%nat -> nth_error (firstn k l) j = nth_error l j.
Proof.
  induction k as [|k IH]; intros j l LT; [lia|].
  destruct l as [|x l]; [reflexivity|]. destruct j as [|j]; [reflexivity|]. cbn [firstn nth_error]. apply IH. lia.
Qed.

Lemma nth_error_skipn' {A} : forall s j (l:list A), nth_error (skipn s l) j = nth_error l (s + j).
Proof.
  induction s as [|s IH]; intros j l; [reflexivity|].
  destruct l as [|x l]; [destruct j; reflexivity|]. cbn [skipn Nat.add nth_error]. apply IH.
Qed.

Theorem merge_spec : forall (A:Type) (blank:A) (dest:list A) dpos (src:list A) spos nb,
  let r := merge blank dest dpos src spos nb in
  let n := merge_count src spos nb in
  (forall i, (i < n)%nat -> nth_error r (dpos + i) = nth_error src (spos + i)) /\
  (forall j, (j < dpos)%nat -> (j < length dest)%nat -> nth_error r j = nth_error dest j) /\
  (forall j, (length dest <= j)%nat -> (j < dpos)%nat -> nth_error r j = Some blank) /\
  (forall j, (dpos + n <= j)%nat -> (j < length dest)%nat -> nth_error r j = nth_error dest j) /\
  length r = Nat.max (Nat.max (length dest) (S dpos)) (dpos + n) /\ (n <= nb)%nat /\ (spos + n <= Nat.max (length src) spos)%nat.
Proof.
  intros A blank dest dpos src spos nb. unfold merge, merge_count. cbv zeta.
  set (n := Nat.min nb (length src - spos)).
  set (dest' := dest ++ repeat blank (S dpos - length dest)).
  assert (LD : length dest' = Nat.max (length dest) (S dpos)).
  { unfold dest'. rewrite app_length, repeat_length. lia. }
  assert (L1 : length (firstn dpos dest') = dpos) by (rewrite firstn_length; lia).
  assert (L2 : length (firstn n (skipn spos src)) = n) by (rewrite firstn_length, skipn_length; unfold n; lia).
  assert (L3 : length (skipn (dpos + n) dest') = (length dest' - (dpos + n))%nat) by apply skipn_length.
  split; [|split; [|split; [|split; [|split; [|split]]]]].
  - intros i Hi. rewrite nth_error_app2 by lia. rewrite L1. replace (dpos + i - dpos)%nat with i by lia.
    rewrite nth_error_app1 by lia. rewrite nth_error_firstn' by exact Hi. apply nth_error_skipn'.
  - intros j J1 J2. rewrite nth_error_app1 by lia. rewrite nth_error_firstn' by exact J1.
    unfold dest'. apply nth_error_app1. exact J2.
  - intros j J1 J2. rewrite nth_error_app1 by lia. rewrite nth_error_firstn' by exact J2.
    unfold dest'. rewrite nth_error_app2 by exact J1. apply nth_error_repeat. lia.
  - intros j J1 J2. rewrite nth_error_app2 by lia. rewrite nth_error_app2 by lia. rewrite L1, L2.
    rewrite nth_error_skipn'. replace (dpos + n + (j - dpos - n))%nat with j by lia.
    unfold dest'. apply nth_error_app1. exact J2.
  - rewrite !app_length, L1, L2, L3, LD. lia.
  - unfold n. lia.
  - unfold n. lia.
Qed.
