(* Fm94.v — WMO FM 94 BUFR data description and data section, as the regulation states them
   (Table B/D lookup, Table C operators 2 01 .. 2 08, replication, plain and compressed Section 4).
   This is the *specification* stratum: an independent reference encoder/decoder, written from the regulation,
   not from the library.  Definitions only; proofs are in Fm94Proof.v. *)
From Coq Require Import List ZArith NArith Arith Lia Bool.
From V Require Import Walk.
Import ListNotations.
Local Open Scope Z_scope.

(* ------------------------------------------------------------------ tables *)
Inductive ukind := UNum | UCode | UFlag | UStr.
Record bent := mkB { b_kind : ukind; b_scale : Z; b_ref : Z; b_width : Z }.
Record tables := mkT { tB : list (Z * bent); tD : list (Z * list Z) }.

Fixpoint assoc {A} (k:Z) (l:list (Z*A)) : option A :=
  match l with [] => None | (k',v) :: t => if k =? k' then Some v else assoc k t end.
Definition lookupB (T:tables) (d:Z) : option bent := assoc d (tB T).
Definition lookupD (T:tables) (d:Z) : option (list Z) := assoc d (tD T).

(* local descriptors: X >= 48 or Y >= 192 *)
Definition is_local (d:Z) : bool := (48 <=? dX d) || (192 <=? dY d).

(* ------------------------------------------------------------------ fields and data *)
Inductive fkind := FNum | FCode | FFlag | FStr | FRefDef | FChars.
Record field := mkF { f_desc : Z; f_kind : fkind; f_width : Z; f_scale : Z; f_ref : Z; f_afw : Z }.
Inductive dval := VRaw (n:N) | VStr (s:list N).
Record datum := mkD { d_af : N; d_val : dval }.

(* ------------------------------------------------------------------ Table C operator state *)
Record opst := mkO {
  o_dw : Z;              (* 2 01 YYY : YYY-128 bits added to the data width (0 = not in force) *)
  o_ds : Z;              (* 2 02 YYY : YYY-128 added to the scale *)
  o_refdef : Z;          (* 2 03 YYY : > 0 while new reference values of YYY bits are being defined *)
  o_refs : list (Z*Z);   (* new reference values in force (most recent first) *)
  o_af : list Z;         (* 2 04 YYY : widths of the associated fields in force, most recent first *)
  o_locw : Z;            (* 2 06 YYY : width of the local descriptor that follows *)
  o_207 : Z;             (* 2 07 YYY *)
  o_cw : Z               (* 2 08 YYY : character width in octets *)
}.
Definition op0 : opst := mkO 0 0 0 [] [] 0 0 0.
Definition afw (st:opst) : Z := fold_right Z.add 0 (o_af st).

Definition set_dw st v := mkO v (o_ds st) (o_refdef st) (o_refs st) (o_af st) (o_locw st) (o_207 st) (o_cw st).
Definition set_ds st v := mkO (o_dw st) v (o_refdef st) (o_refs st) (o_af st) (o_locw st) (o_207 st) (o_cw st).
Definition set_refdef st v := mkO (o_dw st) (o_ds st) v (o_refs st) (o_af st) (o_locw st) (o_207 st) (o_cw st).
Definition set_refs st v := mkO (o_dw st) (o_ds st) (o_refdef st) v (o_af st) (o_locw st) (o_207 st) (o_cw st).
Definition set_af st v := mkO (o_dw st) (o_ds st) (o_refdef st) (o_refs st) v (o_locw st) (o_207 st) (o_cw st).
Definition set_locw st v := mkO (o_dw st) (o_ds st) (o_refdef st) (o_refs st) (o_af st) v (o_207 st) (o_cw st).
Definition set_207 st v := mkO (o_dw st) (o_ds st) (o_refdef st) (o_refs st) (o_af st) (o_locw st) v (o_cw st).
Definition set_cw st v := mkO (o_dw st) (o_ds st) (o_refdef st) (o_refs st) (o_af st) (o_locw st) (o_207 st) v.

(* Table C, operators 2 01 - 2 08 (2 05 carries data and is handled by op_field).  ed = BUFR edition. *)
Definition resolve (ed:Z) (st:opst) (d:Z) : result opst :=
  let x := dX d in let y := dY d in
  if x =? 1 then Ok (set_dw st (if y =? 0 then 0 else y - 128))
  else if x =? 2 then Ok (set_ds st (if y =? 0 then 0 else y - 128))
  else if x =? 3 then
    (if y =? 255 then Ok (set_refdef st 0)
     else if y =? 0 then Ok (set_refs (set_refdef st 0) [])
     else Ok (set_refdef st y))
  else if x =? 4 then
    (if y =? 0 then Ok (set_af st (tl (o_af st))) else Ok (set_af st (y :: o_af st)))
  else if x =? 6 then Ok (set_locw st y)
  else if x =? 7 then (if ed <? 4 then Err Reject else Ok (set_207 st y))
  else if x =? 8 then (if ed <? 4 then Err Reject else Ok (set_cw st y))
  else Err Reject.

Definition op_field (st:opst) (d:Z) : option field :=
  if (dX d =? 5) then Some (mkF d FChars (8 * dY d) 0 0 0) else None.

Definition pow10 (k:Z) : Z := 10 ^ k.

(* the data field an element descriptor denotes under the operators in force *)
Definition mk_field (T:tables) (st:opst) (d:Z) : result field :=
  match lookupB T d with
  | None =>
      if is_local d && (0 <? o_locw st) then Ok (mkF d FNum (o_locw st) 0 0 (afw st)) else Err Reject
  | Some e =>
      if dX d =? 31 then
        Ok (mkF d (match b_kind e with UNum => FNum | UCode => FCode | UFlag => FFlag | UStr => FStr end)
                (b_width e) (b_scale e) (b_ref e) 0)
      else
      match b_kind e with
      | UStr => Ok (mkF d FStr (if 0 <? o_cw st then 8 * o_cw st else b_width e) (b_scale e) (b_ref e) (afw st))
      | UCode => Ok (mkF d FCode (b_width e) (b_scale e) (b_ref e) (afw st))
      | UFlag => Ok (mkF d FFlag (b_width e) (b_scale e) (b_ref e) (afw st))
      | UNum =>
          if 0 <? o_refdef st then Ok (mkF d FRefDef (o_refdef st) 0 0 0)
          else
            let r0 := match assoc d (o_refs st) with Some r => r | None => b_ref e end in
            if is_local d && (0 <? o_locw st)
            then Ok (mkF d FNum (o_locw st) (b_scale e + o_ds st + o_207 st) (r0 * pow10 (o_207 st)) (afw st))
            else Ok (mkF d FNum (b_width e + o_dw st + (if o_207 st =? 0 then 0 else (10 * o_207 st + 2) / 3))
                         (b_scale e + o_ds st + o_207 st) (r0 * pow10 (o_207 st)) (afw st))
      end
  end.

(* value of a 2 03 YYY operand: sign bit then magnitude *)
Definition refdef_value (w:Z) (n:N) : Z :=
  let half := 2 ^ (w - 1) in
  if half <=? Z.of_N n then - (Z.of_N n - half) else Z.of_N n.

Definition post (st:opst) (f:field) (v:datum) : opst :=
  match f_kind f with
  | FRefDef => match d_val v with
               | VRaw n => set_refs st ((f_desc f, refdef_value (f_width f) n) :: o_refs st)
               | VStr _ => st
               end
  | FChars => st
  | _ => if 0 <? o_locw st then set_locw st 0 else st
  end.

Definition is_factor (d:Z) : bool :=
  (d =? 31000) || (d =? 31001) || (d =? 31002) || (d =? 31011) || (d =? 31012).
Definition count_raw (d:Z) (n:N) : nat :=
  if d =? 31000 then (if N.eqb n 0 then 0%nat else 1%nat)
  else if (d =? 31011) || (d =? 31012) then 1%nat
  else N.to_nat n.
Definition count_of (d:Z) (v:datum) : nat :=
  match d_val v with VRaw n => count_raw d n | VStr _ => 0%nat end.

(* ------------------------------------------------------------------ bit strings *)
Definition bits := list bool.
Fixpoint enc_n (w:nat) (v:N) : bits :=
  match w with O => [] | S k => N.testbit v (N.of_nat k) :: enc_n k v end.
Fixpoint dec_n (w:nat) (acc:N) (l:bits) : option (N * bits) :=
  match w with
  | O => Some (acc, l)
  | S k => match l with [] => None | b :: t => dec_n k (2 * acc + N.b2n b)%N t end
  end.
Fixpoint enc_bytes (s:list N) : bits := match s with [] => [] | c :: t => enc_n 8 c ++ enc_bytes t end.
Fixpoint dec_bytes (k:nat) (l:bits) : option (list N * bits) :=
  match k with
  | O => Some ([], l)
  | S k' => match dec_n 8 0%N l with
            | None => None
            | Some (c, l1) => match dec_bytes k' l1 with None => None | Some (s, l2) => Some (c :: s, l2) end
            end
  end.
Definition allones (w:Z) : N := (2 ^ Z.to_N w - 1)%N.
Definition is_str (k:fkind) : bool := match k with FStr | FChars => true | _ => false end.
Definition wf_field (f:field) : bool :=
  (0 <? f_width f) && (f_width f <=? (if is_str (f_kind f) then 8 * 255 else 64)) && (0 <=? f_afw f) && (f_afw f <=? 64)
  && (if is_str (f_kind f) then f_width f mod 8 =? 0 else true).

(* ------------------------------------------------------------------ one element, uncompressed *)
Definition enc_af (f:field) (v:datum) : result bits :=
  if 0 <? f_afw f then
    (if (d_af v <? 2 ^ Z.to_N (f_afw f))%N then Ok (enc_n (Z.to_nat (f_afw f)) (d_af v)) else Err TypeErr)
  else (if N.eqb (d_af v) 0 then Ok [] else Err TypeErr).
Definition enc_val (f:field) (v:dval) : result bits :=
  match v with
  | VStr s => if is_str (f_kind f) && (Z.of_nat (length s) * 8 =? f_width f) && forallb (fun c => (c <? 256)%N) s
              then Ok (enc_bytes s) else Err TypeErr
  | VRaw n => if negb (is_str (f_kind f)) && (n <? 2 ^ Z.to_N (f_width f))%N
              then Ok (enc_n (Z.to_nat (f_width f)) n) else Err TypeErr
  end.
Definition enc_elem (f:field) (v:datum) : result bits :=
  if wf_field f then
    a <- enc_af f v ;; b <- enc_val f (d_val v) ;; Ok (a ++ b)
  else Err Reject.

Definition dec_val (f:field) (l:bits) : result (dval * bits) :=
  if is_str (f_kind f) then
    match dec_bytes (Z.to_nat (f_width f / 8)) l with Some (s, t) => Ok (VStr s, t) | None => Err TypeErr end
  else
    match dec_n (Z.to_nat (f_width f)) 0%N l with Some (n, t) => Ok (VRaw n, t) | None => Err TypeErr end.
Definition dec_elem (f:field) (l:bits) : result (datum * bits) :=
  if wf_field f then
    (if 0 <? f_afw f then
       match dec_n (Z.to_nat (f_afw f)) 0%N l with
       | Some (a, t) => '(v, t2) <- dec_val f t ;; Ok (mkD a v, t2)
       | None => Err TypeErr
       end
     else '(v, t2) <- dec_val f l ;; Ok (mkD 0%N v, t2))
  else Err Reject.

(* ------------------------------------------------------------------ one element, compressed (a column over the subsets) *)
Definition column := list datum.
(* encoding freedoms of a column: local reference value below the minimum, increment width above the minimum *)
Record choice := mkC { c_r0off : N; c_extra : nat }.
Definition choice0 := mkC 0%N 0%nat.

(* smallest k >= 1 with x < 2^k - 1 : the all-ones increment stays reserved for "missing" *)
Fixpoint nbits_fuel (fuel:nat) (k:N) (x:N) : N :=
  match fuel with O => k | S f => if (x <? 2 ^ k - 1)%N then k else nbits_fuel f (k + 1)%N x end.
Definition nbits_inc (x:N) : N := nbits_fuel 70 1%N x.

Fixpoint minl (l:list N) (d:N) : N := match l with [] => d | x :: t => N.min x (minl t x) end.
Fixpoint maxl (l:list N) (d:N) : N := match l with [] => d | x :: t => N.max x (maxl t x) end.
Definition all_eq (l:list N) : bool := match l with [] => true | x :: t => forallb (N.eqb x) t end.

(* numeric column: w bits, missing pattern m (None for associated fields) *)
Definition enc_numcol (w:Z) (miss:option N) (c:choice) (vals:list N) : result bits :=
  let wn := Z.to_nat w in
  let present := match miss with Some m => filter (fun v => negb (N.eqb v m)) vals | None => vals end in
  if negb (forallb (fun v => (v <? 2 ^ Z.to_N w)%N) vals) then Err TypeErr else
  match present with
  | [] => match miss with Some m => Ok (enc_n wn m ++ enc_n 6 0%N) | None => Err TypeErr end
  | p0 :: _ =>
    if all_eq vals && N.eqb (c_r0off c) 0 && Nat.eqb (c_extra c) 0 then Ok (enc_n wn p0 ++ enc_n 6 0%N) else
    let mn0 := minl present p0 in
    if (mn0 <? c_r0off c)%N then Err TypeErr else
    let mn := (mn0 - c_r0off c)%N in
    let span := (maxl present p0 - mn)%N in
    let nb := (nbits_inc span + N.of_nat (c_extra c))%N in
    if (match miss with Some _ => (Z.to_N w <? nb)%N | None => false end) || (63 <? nb)%N then Err TypeErr else
    let nbn := N.to_nat nb in
    Ok (enc_n wn mn ++ enc_n 6 nb ++
        flat_map (fun v => enc_n nbn (match miss with
                                      | Some m => if N.eqb v m then (2 ^ nb - 1)%N else (v - mn)%N
                                      | None => (v - mn)%N end)) vals)
  end.

Fixpoint dec_incs (k:nat) (nb:nat) (r0:N) (miss:option N) (l:bits) : option (list N * bits) :=
  match k with
  | O => Some ([], l)
  | S k' => match dec_n nb 0%N l with
            | None => None
            | Some (i, l1) =>
              let v := match miss with
                       | Some m => if N.eqb i (2 ^ N.of_nat nb - 1)%N then m else (r0 + i)%N
                       | None => (r0 + i)%N end in
              match dec_incs k' nb r0 miss l1 with None => None | Some (vs, l2) => Some (v :: vs, l2) end
            end
  end.
Definition dec_numcol (w:Z) (miss:option N) (nsub:nat) (l:bits) : result (list N * bits) :=
  match dec_n (Z.to_nat w) 0%N l with
  | None => Err TypeErr
  | Some (r0, l1) =>
    match dec_n 6 0%N l1 with
    | None => Err TypeErr
    | Some (nb, l2) =>
      if N.eqb nb 0 then Ok (repeat r0 nsub, l2)
      else if (match miss with Some _ => (Z.to_N w <? nb)%N | None => false end) then Err Reject
      else match dec_incs nsub (N.to_nat nb) r0 miss l2 with Some r => Ok r | None => Err TypeErr end
    end
  end.

(* character column: w/8 octets; R0 is free when the strings differ (c_r0off taken as the fill octet) *)
Definition str_eqb (a b:list N) : bool := (Nat.eqb (length a) (length b)) && forallb (fun p => N.eqb (fst p) (snd p)) (combine a b).
Definition enc_strcol (w:Z) (c:choice) (vals:list (list N)) : result bits :=
  let wo := Z.to_nat (w / 8) in
  if negb (forallb (fun s => Nat.eqb (length s) wo && forallb (fun ch => (ch <? 256)%N) s) vals) then Err TypeErr else
  match vals with
  | [] => Err TypeErr
  | s0 :: t =>
    if forallb (str_eqb s0) t && Nat.eqb (c_extra c) 0 then Ok (enc_bytes s0 ++ enc_n 6 0%N)
    else if (63 <? wo)%nat then Err NotCompressible
    else Ok (enc_bytes (repeat (N.land (c_r0off c) 255) wo) ++ enc_n 6 (N.of_nat wo) ++ flat_map enc_bytes vals)
  end.
Fixpoint dec_strs (k:nat) (wo:nat) (l:bits) : option (list (list N) * bits) :=
  match k with
  | O => Some ([], l)
  | S k' => match dec_bytes wo l with
            | None => None
            | Some (s, l1) => match dec_strs k' wo l1 with None => None | Some (ss, l2) => Some (s :: ss, l2) end
            end
  end.
Definition dec_strcol (w:Z) (nsub:nat) (l:bits) : result (list (list N) * bits) :=
  let wo := Z.to_nat (w / 8) in
  match dec_bytes wo l with
  | None => Err TypeErr
  | Some (r0, l1) =>
    match dec_n 6 0%N l1 with
    | None => Err TypeErr
    | Some (nb, l2) =>
      if N.eqb nb 0 then Ok (repeat r0 nsub, l2)
      else if negb (N.eqb nb (N.of_nat wo)) then Err Reject
      else match dec_strs nsub wo l2 with Some r => Ok r | None => Err TypeErr end
    end
  end.

Definition raws (col:column) : option (list N) :=
  fold_right (fun d acc => match d_val d, acc with VRaw n, Some l => Some (n :: l) | _, _ => None end) (Some []) col.
Definition strs (col:column) : option (list (list N)) :=
  fold_right (fun d acc => match d_val d, acc with VStr s, Some l => Some (s :: l) | _, _ => None end) (Some []) col.

Section Compressed.
  Variable nsub : nat.
  Variable pick : field -> column -> choice * choice.   (* (choice for the AF column, choice for the value column) *)

  Definition enc_col (f:field) (col:column) : result bits :=
    if negb (wf_field f) then Err Reject else
    if negb (Nat.eqb (length col) nsub) || Nat.eqb nsub 0 then Err TypeErr else
    (* replication factors must be the same in every subset *)
    if is_factor (f_desc f) && negb (match raws col with Some l => all_eq l | None => false end) then Err NotCompressible else
    a <- (if 0 <? f_afw f then enc_numcol (f_afw f) None (fst (pick f col)) (map d_af col)
          else if forallb (fun d => N.eqb (d_af d) 0) col then Ok [] else Err TypeErr) ;;
    b <- (if is_str (f_kind f)
          then match strs col with Some ss => enc_strcol (f_width f) (snd (pick f col)) ss | None => Err TypeErr end
          else match raws col with Some ns => enc_numcol (f_width f) (Some (allones (f_width f))) (snd (pick f col)) ns | None => Err TypeErr end) ;;
    Ok (a ++ b).

  Definition dec_col (f:field) (l:bits) : result (column * bits) :=
    if negb (wf_field f) then Err Reject else
    if Nat.eqb nsub 0 then Err TypeErr else
    '(afs, l1) <- (if 0 <? f_afw f then dec_numcol (f_afw f) None nsub l else Ok (repeat 0%N nsub, l)) ;;
    '(col, l2) <- (if is_str (f_kind f)
                   then '(ss, t) <- dec_strcol (f_width f) nsub l1 ;; Ok (map (fun p => mkD (fst p) (VStr (snd p))) (combine afs ss), t)
                   else '(ns, t) <- dec_numcol (f_width f) (Some (allones (f_width f))) nsub l1 ;;
                        Ok (map (fun p => mkD (fst p) (VRaw (snd p))) (combine afs ns), t)) ;;
    if is_factor (f_desc f) && negb (match raws col with Some l => all_eq l | None => false end) then Err NotCompressible else
    Ok (col, l2).

  (* operator state and replication counts are driven by the first subset (all subsets agree on factors) *)
  Definition post_col (st:opst) (f:field) (col:column) : opst :=
    match col with d :: _ => post st f d | [] => st end.
  Definition count_col (d:Z) (col:column) : nat :=
    match col with v :: _ => count_of d v | [] => 0%nat end.
End Compressed.

(* ------------------------------------------------------------------ Section 4 *)
Section Sect4.
  Variable T : tables.
  Variable ed : Z.

  (* uncompressed: one walk per subset, each starting from the initial operator state *)
  Definition walk_enc1 := walk_enc opst field datum (lookupD T) (mk_field T) (resolve ed) op_field post is_factor count_of enc_elem.
  Definition walk_dec1 := walk_dec opst field datum (lookupD T) (mk_field T) (resolve ed) op_field post is_factor count_of dec_elem.

  Fixpoint enc_plain (fuel:nat) (tmpl:list Z) (subsets:list (list datum)) : result bits :=
    match subsets with
    | [] => Ok []
    | s :: rest =>
      '(_, lft, b) <- walk_enc1 fuel op0 tmpl s ;;
      match lft with
      | [] => b2 <- enc_plain fuel tmpl rest ;; Ok (b ++ b2)
      | _ :: _ => Err TypeErr
      end
    end.
  Fixpoint dec_plain (fuel:nat) (tmpl:list Z) (nsub:nat) (l:bits) : result (list (list datum) * bits) :=
    match nsub with
    | O => Ok ([], l)
    | S k =>
      '(_, l1, vs) <- walk_dec1 fuel op0 tmpl l ;;
      '(rest, l2) <- dec_plain fuel tmpl k l1 ;;
      Ok (vs :: rest, l2)
    end.

  (* the list of data fields (descriptor, width, scale, reference, AF width) a subset's data select: the layout *)
  Definition list_elem (f:field) (s:list datum) : result (list datum * datum * list (field * datum)) :=
    match s with [] => Err TypeErr | v :: vs => Ok (vs, v, [(f, v)]) end.
  Definition walk_list := walk opst field datum (lookupD T) (mk_field T) (resolve ed) op_field post is_factor count_of
                               (list datum) (list (field * datum)) [] (@app _) list_elem.
  Definition layout (fuel:nat) (tmpl:list Z) (s:list datum) : result (list (field * datum)) :=
    '(_, _, w) <- walk_list fuel op0 tmpl s ;; Ok w.

  (* compressed: one walk over the columns *)
  Section Comp.
    Variable nsub : nat.
    Variable pick : field -> column -> choice * choice.
    Definition walk_encC := walk_enc opst field column (lookupD T) (mk_field T) (resolve ed) op_field post_col is_factor count_col (enc_col nsub pick).
    Definition walk_decC := walk_dec opst field column (lookupD T) (mk_field T) (resolve ed) op_field post_col is_factor count_col (dec_col nsub).
    Definition enc_comp_cols (fuel:nat) (tmpl:list Z) (cols:list column) : result bits :=
      '(_, lft, b) <- walk_encC fuel op0 tmpl cols ;;
      match lft with [] => Ok b | _ :: _ => Err TypeErr end.
    Definition dec_comp_cols (fuel:nat) (tmpl:list Z) (l:bits) : result (list column * bits) :=
      '(_, l1, cols) <- walk_decC fuel op0 tmpl l ;; Ok (cols, l1).
  End Comp.
End Sect4.

(* rows <-> columns *)
Fixpoint transpose {A} (n:nat) (rows:list (list A)) : list (list A) :=
  (* n = length of every row; the result has n rows of length (length rows) *)
  match n with
  | O => []
  | S k => flat_map (fun r => match r with [] => [] | x :: _ => [x] end) rows :: transpose k (map (@tl A) rows)
  end.

Definition rect {A} (n:nat) (rows:list (list A)) : bool := forallb (fun r => Nat.eqb (length r) n) rows.

Definition enc_comp (T:tables) (ed:Z) (pick:field -> column -> choice * choice) (fuel:nat) (tmpl:list Z) (subsets:list (list datum)) : result bits :=
  match subsets with
  | [] => Err TypeErr
  | s0 :: _ =>
    let n := length s0 in
    if rect n subsets then enc_comp_cols T ed (length subsets) pick fuel tmpl (transpose n subsets) else Err NotCompressible
  end.
Definition dec_comp (T:tables) (ed:Z) (fuel:nat) (tmpl:list Z) (nsub:nat) (l:bits) : result (list (list datum) * bits) :=
  '(cols, l1) <- dec_comp_cols T ed nsub fuel tmpl l ;;
  Ok (transpose nsub cols, l1).

(* bits <-> octets of Section 4 (zero padded to an octet boundary) *)
Fixpoint bits_to_bytes_fuel (fuel:nat) (l:bits) : list N :=
  match fuel with
  | O => []
  | S f => match l with
           | [] => []
           | _ => let ch := firstn 8 l in
                  (match dec_n 8 0%N (ch ++ repeat false (8 - length ch)) with Some (c, _) => c | None => 0%N end)
                  :: bits_to_bytes_fuel f (skipn 8 l)
           end
  end.
Definition bits_to_bytes (l:bits) : list N := bits_to_bytes_fuel (S (length l / 8)) l.
Definition bytes_to_bits (s:list N) : bits := enc_bytes s.

Fixpoint concat_r (l:list (result bits)) : result bits :=
  match l with [] => Ok [] | r :: t => b <- r ;; b2 <- concat_r t ;; Ok (b ++ b2) end.
