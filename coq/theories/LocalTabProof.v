(* part 5: the hand-written Section 3 / Section 4 under the reference codec of Fm94.v *)
From Coq Require Import List ZArith NArith Arith Lia Bool ZifyBool.
From V Require Import Walk BitIO Fm94 Fm94Proof.
From V Require Import LocalTab LocalTabFmt LocalTabExtract LocalTabBytes.
Import ListNotations.
Local Open Scope Z_scope.
Ltac Zify.zify_post_hook ::= Z.to_euclidean_division_equations.

(* ------------------------------------------------------------------ field list -> encoder (converse of walk_enc_fields) *)
Section Conv.
  Variable opstate field datum : Type.
  Variable lookupD : desc -> option (list desc).
  Variable mk_field : opstate -> desc -> result field.
  Variable resolve  : opstate -> desc -> result opstate.
  Variable op_field : opstate -> desc -> option field.
  Variable post     : opstate -> field -> datum -> opstate.
  Variable is_factor : desc -> bool.
  Variable count_of : desc -> datum -> nat.
  Variable enc_elem : field -> datum -> result (list bool).
  Variable cat : list (field * datum) -> result (list bool).
  Hypothesis cat_nil_inv : forall b, cat [] = Ok b -> b = [].
  Hypothesis cat_cons_inv : forall f v fl b, cat ((f, v) :: fl) = Ok b ->
    exists b1 b2, enc_elem f v = Ok b1 /\ cat fl = Ok b2 /\ b = b1 ++ b2.

  Notation wfields := (walk_fields opstate field datum lookupD mk_field resolve op_field post is_factor count_of).
  Notation wenc := (walk_enc opstate field datum lookupD mk_field resolve op_field post is_factor count_of enc_elem).

  Theorem walk_fields_enc : forall fuel st ds s st' lft fl b,
    wfields fuel st ds s = Ok (st', lft, fl) -> cat fl = Ok b -> wenc fuel st ds s = Ok (st', lft, b).
  Proof.
    induction fuel as [|f IH]; intros st ds s st' lft fl b H C; [discriminate|].
    unfold walk_enc, walk_fields in *. cbn [walk] in *.
    destruct ds as [|d rest0].
    - inversion H; subst. rewrite (cat_nil_inv _ C). reflexivity.
    - destruct (dF d =? 0) eqn:F0.
      + destruct (mk_field st d) as [fld|e]; [|discriminate]. cbn [bind] in *.
        destruct s as [|v vs1]; [discriminate|]. cbn [e_enc l_elem bind] in *.
        destruct (walk _ _ _ _ _ _ _ _ _ _ _ _ _ _ _ f (post st fld v) rest0 vs1) as [[[st2 s2] w2]|e] eqn:E2; [|discriminate].
        cbn [bind] in H. inversion H; subst. cbn [app] in C.
        destruct (cat_cons_inv _ _ _ _ C) as (b1 & b2 & E1 & C2 & ->).
        rewrite E1. cbn [bind]. rewrite (IH _ _ _ _ _ _ _ E2 C2). reflexivity.
      + destruct (dF d =? 1) eqn:F1.
        * destruct (dY d =? 0) eqn:Y0.
          -- destruct rest0 as [|c rest']; [discriminate|].
             destruct (is_factor c); [|discriminate].
             destruct (mk_field st c) as [fld|e]; [|discriminate]. cbn [bind] in *.
             destruct s as [|v vs1]; [discriminate|]. cbn [e_enc l_elem bind] in *.
             destruct (length rest' <? Z.to_nat (dX d))%nat; [discriminate|].
             destruct (walk _ _ _ _ _ _ _ _ _ _ _ _ _ _ _ f st _ vs1) as [[[st2 s2] w2]|e] eqn:E2; [|discriminate].
             cbn [bind] in H. inversion H; subst. cbn [app] in C.
             destruct (cat_cons_inv _ _ _ _ C) as (b1 & b2 & E1 & C2 & ->).
             rewrite E1. cbn [bind]. rewrite (IH _ _ _ _ _ _ _ E2 C2). reflexivity.
          -- destruct (length rest0 <? Z.to_nat (dX d))%nat; [discriminate|].
             exact (IH _ _ _ _ _ _ _ H C).
        * destruct (dF d =? 2).
          -- destruct (op_field st d) as [fld|].
             ++ destruct s as [|v vs1]; [discriminate|]. cbn [e_enc l_elem bind] in *.
                destruct (walk _ _ _ _ _ _ _ _ _ _ _ _ _ _ _ f st rest0 vs1) as [[[st2 s2] w2]|e] eqn:E2; [|discriminate].
                cbn [bind] in H. inversion H; subst. cbn [app] in C.
                destruct (cat_cons_inv _ _ _ _ C) as (b1 & b2 & E1 & C2 & ->).
                rewrite E1. cbn [bind]. rewrite (IH _ _ _ _ _ _ _ E2 C2). reflexivity.
             ++ destruct (resolve st d) as [st1|e]; [|discriminate]. cbn [bind] in *. exact (IH _ _ _ _ _ _ _ H C).
          -- destruct (lookupD d) as [seq|]; [|discriminate]. exact (IH _ _ _ _ _ _ _ H C).
  Qed.
End Conv.

(* ------------------------------------------------------------------ the field every descriptor of a table update denotes *)
Definition fld_of (d:Z) : field :=
  match mk_field T0 op0 d with Ok f => f | Err _ => mkF d FNum 0 0 0 0 end.
Arguments fld_of : simpl never.
Definition dat (p:sfield) : datum := mkD 0%N (snd p).
Definition lay (p:sfield) : field * datum := (fld_of (fst p), dat p).

Definition sdescs : list Z := [1; 2; 3; 10; 11; 12; 13; 14; 15; 16; 17; 18; 19; 20; 30].
Definition is_sdesc (d:Z) : bool := existsb (Z.eqb d) sdescs.

Lemma sdesc_props d : is_sdesc d = true ->
  (dF d =? 0) = true /\ mk_field T0 op0 d = Ok (fld_of d) /\ f_desc (fld_of d) = d /\ f_kind (fld_of d) = FStr /\
  f_afw (fld_of d) = 0 /\ wf_field (fld_of d) = true /\ f_width (fld_of d) = 8 * (f_width (fld_of d) / 8) /\
  (forall v, post op0 (fld_of d) v = op0).
Proof.
  unfold is_sdesc, sdescs. cbn [existsb]. intro H.
  repeat (match type of H with
          | (d =? ?k) || _ = true =>
              destruct (Z.eq_dec d k) as [E|E];
              [subst d; clear H; vm_compute; repeat split; discriminate || reflexivity
              |replace (d =? k) with false in H by lia; cbn [orb] in H; clear E]
          end).
  discriminate.
Qed.

Lemma ndesc_props d : d = 31001 \/ d = 31002 ->
  is_factor d = true /\ mk_field T0 op0 d = Ok (fld_of d) /\ f_desc (fld_of d) = d /\ f_kind (fld_of d) = FNum /\
  f_afw (fld_of d) = 0 /\ wf_field (fld_of d) = true /\ f_width (fld_of d) = Z.of_nat (nbits_of d) /\
  (forall v, post op0 (fld_of d) v = op0).
Proof. intros [-> | ->]; vm_compute; repeat split; reflexivity. Qed.

(* ------------------------------------------------------------------ stepping the field-listing walk *)
Section Steps.
  Variable ed : Z.
  Notation WL := (walk_list T0 ed).

  Lemma wl_nil f st s : WL (S f) st [] s = Ok (st, s, []).
  Proof. reflexivity. Qed.

  Lemma wl_elem f d rest v vs r : is_sdesc d = true ->
    WL f op0 rest vs = Ok r ->
    WL (S f) op0 (d :: rest) (v :: vs) = Ok (fst (fst r), snd (fst r), (fld_of d, v) :: snd r).
  Proof.
    intros Hd H. destruct (sdesc_props d Hd) as (F0 & MK & _ & _ & _ & _ & _ & PO).
    unfold walk_list in *. cbn [walk]. rewrite F0, MK. cbn [bind list_elem]. rewrite PO, H.
    destruct r as [[st' lft] w]. reflexivity.
  Qed.

  Lemma wl_seq f st d seq rest s : lookupD T0 d = Some seq -> dF d = 3 ->
    WL (S f) st (d :: rest) s = WL f st (seq ++ rest) s.
  Proof.
    intros L F3. unfold walk_list. cbn [walk]. rewrite F3. cbn [Z.eqb Pos.eqb]. rewrite L. reflexivity.
  Qed.

  (* delayed replication of x descriptors, factor c in {0 31 001, 0 31 002} *)
  Lemma wl_delayed f d c rest' v vs r : dF d = 1 -> dY d = 0 -> (c = 31001 \/ c = 31002) ->
    (length rest' <? Z.to_nat (dX d))%nat = false ->
    WL f op0 (rep (count_of c v) (firstn (Z.to_nat (dX d)) rest') ++ skipn (Z.to_nat (dX d)) rest') vs = Ok r ->
    WL (S f) op0 (d :: c :: rest') (v :: vs) = Ok (fst (fst r), snd (fst r), (fld_of c, v) :: snd r).
  Proof.
    intros F1 Y0 Hc Hl H. destruct (ndesc_props c Hc) as (IF & MK & _).
    unfold walk_list in *. cbn [walk]. rewrite F1, Y0. cbn [Z.eqb Pos.eqb]. rewrite IF, MK. cbn [bind list_elem].
    rewrite Hl, H. destruct r as [[st' lft] w]. reflexivity.
  Qed.

  (* fixed replication 1 x y *)
  Lemma wl_fixed f st d rest s : dF d = 1 -> dY d <> 0 -> (length rest <? Z.to_nat (dX d))%nat = false ->
    WL (S f) st (d :: rest) s = WL f st (rep (Z.to_nat (dY d)) (firstn (Z.to_nat (dX d)) rest) ++ skipn (Z.to_nat (dX d)) rest) s.
  Proof.
    intros F1 Y0 Hl. unfold walk_list. cbn [walk]. rewrite F1. cbn [Z.eqb Pos.eqb].
    replace (dY d =? 0) with false by lia. rewrite Hl. reflexivity.
  Qed.

  (* ---- 3 00 004: one Table B entry ---- *)
  Lemma wl_b_block f rest vs r e :
    WL f op0 rest vs = Ok r ->
    WL (13 + f) op0 (300004 :: rest) (map dat (b_fields e) ++ vs) = Ok (fst (fst r), snd (fst r), map lay (b_fields e) ++ snd r).
  Proof.
    intro H. cbn [Nat.add].
    rewrite (wl_seq _ _ 300004 [300003; 13; 14; 15; 16; 17; 18; 19; 20]) by reflexivity. cbn [app].
    rewrite (wl_seq _ _ 300003 [10; 11; 12]) by reflexivity. cbn [app].
    unfold b_fields, fxy_fields. cbn [app map]. unfold lay, dat. cbn [fst snd].
    repeat (match goal with
            | |- WL (S _) op0 (_ :: _) (_ :: _) = Ok (?a, ?b, _ :: ?w) =>
                eapply (wl_elem _ _ _ _ _ (a, b, w)); [reflexivity|]
            end).
    destruct r as [[st' lft] w]. exact H.
  Qed.

  Lemma rep_succ {A} n (l:list A) : rep (S n) l = l ++ rep n l.
  Proof. reflexivity. Qed.

  Lemma wl_b_loop : forall es f rest vs r,
    WL f op0 rest vs = Ok r ->
    WL (13 * length es + f) op0 (rep (length es) [300004] ++ rest) (map dat (flat_map b_fields es) ++ vs)
      = Ok (fst (fst r), snd (fst r), map lay (flat_map b_fields es) ++ snd r).
  Proof.
    induction es as [|e t IH]; intros f rest vs r H.
    - cbn [length Nat.mul Nat.add rep app flat_map map]. destruct r as [[a b] c]. exact H.
    - cbn [length flat_map]. rewrite rep_succ. cbn [app]. rewrite !map_app, <- !app_assoc.
      replace (13 * S (length t) + f)%nat with (13 + (13 * length t + f))%nat by lia.
      pose proof (IH f rest vs r H) as H2.
      pose proof (wl_b_block _ _ _ _ e H2) as H3. cbn [fst snd] in H3. exact H3.
  Qed.

  (* ---- 3 00 010: one Table D entry ---- *)
  Lemma wl_30_loop : forall ds f rest vs r,
    WL f op0 rest vs = Ok r ->
    WL (length ds + f) op0 (rep (length ds) [30] ++ rest) (map dat (map f30 ds) ++ vs)
      = Ok (fst (fst r), snd (fst r), map lay (map f30 ds) ++ snd r).
  Proof.
    induction ds as [|d t IH]; intros f rest vs r H.
    - cbn [length Nat.add rep app map]. destruct r as [[a b] c]. exact H.
    - cbn [length Nat.add map]. rewrite rep_succ. cbn [app].
      pose proof (IH f rest vs r H) as H2.
      pose proof (wl_elem _ 30 _ (dat (f30 d)) _ _ eq_refl H2) as H3. cbn [fst snd] in H3. exact H3.
  Qed.

  Lemma wl_d_block f rest vs r e : (length (ld_seq e) <= 255)%nat ->
    WL f op0 rest vs = Ok r ->
    WL (6 + length (ld_seq e) + f) op0 (300010 :: rest) (map dat (d_fields e) ++ vs)
      = Ok (fst (fst r), snd (fst r), map lay (d_fields e) ++ snd r).
  Proof.
    intros Hl H. cbn [Nat.add].
    rewrite (wl_seq _ _ 300010 [300003; 101000; 31001; 30]) by reflexivity. cbn [app].
    rewrite (wl_seq _ _ 300003 [10; 11; 12]) by reflexivity. cbn [app].
    unfold d_fields, fxy_fields. cbn [app map].
    change (map (fun d => (30, VStr (fill_line (noct 30) (put_fmt 6 (fmt_prec 6 d))))) (ld_seq e)) with (map f30 (ld_seq e)).
    pose proof (wl_30_loop (ld_seq e) f rest vs r H) as H2.
    unfold lay at 1 2 3 4, dat at 1 2 3 4. cbn [fst snd].
    do 3 (match goal with
          | |- WL (S _) op0 (_ :: _) (_ :: _) = Ok (?a, ?b, _ :: ?w) => eapply (wl_elem _ _ _ _ _ (a, b, w)); [reflexivity|]
          end).
    match goal with
    | |- WL (S _) op0 (_ :: _) (_ :: _) = Ok (?a, ?b, _ :: ?w) =>
        eapply (wl_delayed _ 101000 31001 _ _ _ (a, b, w)); [reflexivity|reflexivity|left; reflexivity|reflexivity|]
    end.
    change (Z.to_nat (dX 101000)) with 1%nat. cbn [firstn skipn].
    replace (count_of 31001 _) with (length (ld_seq e)).
    - exact H2.
    - unfold count_of. cbn [d_val]. unfold count_raw. cbn [Z.eqb Pos.eqb orb]. lia.
  Qed.

  Lemma wl_d_loop : forall es f rest vs r, Forall (fun e => (length (ld_seq e) <= 255)%nat) es ->
    WL f op0 rest vs = Ok r ->
    WL (fold_right (fun e a => 6 + length (ld_seq e) + a)%nat f es) op0 (rep (length es) [300010] ++ rest) (map dat (flat_map d_fields es) ++ vs)
      = Ok (fst (fst r), snd (fst r), map lay (flat_map d_fields es) ++ snd r).
  Proof.
    induction es as [|e t IH]; intros f rest vs r Hl H.
    - cbn [length fold_right rep app flat_map map]. destruct r as [[a b] c]. exact H.
    - inversion Hl as [|? ? He Ht]; subst.
      cbn [length flat_map fold_right]. rewrite rep_succ. cbn [app]. rewrite !map_app, <- !app_assoc.
      pose proof (IH f rest vs r Ht H) as H2.
      pose proof (wl_d_block _ _ _ _ e He H2) as H3. cbn [fst snd] in H3. exact H3.
  Qed.
End Steps.

(* ------------------------------------------------------------------ the whole message *)
Definition d_steps (es:list ld_entry) : nat := fold_right (fun e a => 6 + length (ld_seq e) + a)%nat 1%nat es.
Definition need (T:ltables) : nat := (6 + 13 * length (lt_B T) + d_steps (lt_D T))%nat.

Lemma count_desc_cases n : count_desc n = 31001 \/ count_desc n = 31002.
Proof. unfold count_desc. destruct (n <? 256)%nat; auto. Qed.

Lemma dfxy_101 k : 0 < k <= 255 -> dF (101000 + k) = 1 /\ dX (101000 + k) = 1 /\ dY (101000 + k) = k.
Proof. intro H. unfold dF, dX, dY. repeat split; lia. Qed.

Theorem layout_store ed T : wf_t T ->
  walk_list T0 ed (need T) op0 (store_s3 T) (map dat (store_fields T)) = Ok (op0, [], map lay (store_fields T)).
Proof.
  intros (Hc & Ht & Hl & Hb & HB & Hd & HD).
  unfold store_s3, store_fields, need.
  replace (0 <? length (lt_B T))%nat with true by lia.
  set (tc := length (lt_B T)). set (dc := length (lt_D T)).
  cbn [app map]. unfold split_lines. cbn [fst snd].
  assert (HDl : Forall (fun e => (length (ld_seq e) <= 255)%nat) (lt_D T)).
  { eapply Forall_impl; [|exact HD]. intros e (_ & L & _). lia. }
  (* the tail: Table D, then the end of the descriptor list *)
  assert (TAIL : walk_list T0 ed (S (d_steps (lt_D T))) op0
                   (if (0 <? dc)%nat then [101000 + Z.of_nat dc; 300010] else [])
                   (map dat (if (0 <? dc)%nat then flat_map d_fields (lt_D T) else []))
                 = Ok (op0, [], map lay (if (0 <? dc)%nat then flat_map d_fields (lt_D T) else []))).
  { destruct (0 <? dc)%nat eqn:ED.
    - destruct (dfxy_101 (Z.of_nat dc) ltac:(lia)) as (F1 & X1 & Y1).
      unfold d_steps.
      pose proof (wl_d_loop ed (lt_D T) 1 [] [] (op0, [], []) HDl (wl_nil ed 0 op0 [])) as H.
      cbn [fst snd] in H. rewrite !app_nil_r in H.
      rewrite wl_fixed; [|exact F1|rewrite Y1; lia|rewrite X1; reflexivity].
      rewrite X1, Y1. change (Z.to_nat 1) with 1%nat. cbn [firstn skipn]. rewrite Nat2Z.id. fold dc.
      rewrite app_nil_r. exact H.
    - cbn [map]. unfold d_steps.
      subst dc. destruct (lt_D T); [|cbn in ED; discriminate]. reflexivity. }
  set (tailD := if (0 <? dc)%nat then [101000 + Z.of_nat dc; 300010] else []) in *.
  set (tailF := if (0 <? dc)%nat then flat_map d_fields (lt_D T) else []) in *.
  rewrite map_app.
  pose proof (wl_b_loop ed (lt_B T) _ _ _ _ TAIL) as HBL. cbn [fst snd] in HBL. fold tc in HBL.
  replace (6 + 13 * tc + d_steps (lt_D T))%nat with (S (S (S (S (S (13 * tc + S (d_steps (lt_D T)))))))) by lia.
  unfold lay at 1 2 3 4 5, dat at 1 2 3 4 5. cbn [fst snd].
  match goal with
  | |- walk_list T0 ed (S _) op0 (_ :: _) (_ :: _) = Ok (?a, ?b, _ :: ?w) =>
      eapply (wl_delayed ed _ 103000 31001 _ _ _ (a, b, w)); [reflexivity|reflexivity|left; reflexivity|reflexivity|]
  end.
  change (Z.to_nat (dX 103000)) with 3%nat. cbn [firstn skipn].
  change (count_of 31001 {| d_af := 0; d_val := VRaw 1 |}) with 1%nat. cbn [rep app].
  do 3 (match goal with
        | |- walk_list T0 ed (S _) op0 (_ :: _) (_ :: _) = Ok (?a, ?b, _ :: ?w) => eapply (wl_elem ed _ _ _ _ _ (a, b, w)); [reflexivity|]
        end).
  match goal with
  | |- walk_list T0 ed (S _) op0 (_ :: _) (_ :: _) = Ok (?a, ?b, _ :: ?w) =>
      eapply (wl_delayed ed _ 101000 (count_desc tc) _ _ _ (a, b, w)); [reflexivity|reflexivity|apply count_desc_cases|reflexivity|]
  end.
  change (Z.to_nat (dX 101000)) with 1%nat. cbn [firstn skipn].
  replace (count_of (count_desc tc) _) with tc.
  - subst tailD tailF. rewrite ?map_app. exact HBL.
  - unfold count_of. cbn [d_val]. unfold count_raw.
    destruct (count_desc_cases tc) as [-> | ->]; cbn [Z.eqb Pos.eqb orb]; lia.
Qed.

(* ------------------------------------------------------------------ consequences used by Properties_C20.v *)
Lemma set_aux_id : forall B, Forall (fun e => lb_aux e = (0, 0)) B -> map (set_aux (0, 0)) B = B.
Proof.
  induction B as [|e t IH]; intro H; cbn [map]; [reflexivity|].
  inversion H as [|? ? He Ht]; subst. rewrite IH by exact Ht. f_equal.
  destruct e as [a b c d e0 f g h]. cbn [lb_aux] in He. subst h. reflexivity.
Qed.

Theorem extract_store_initialised T : wf_t T -> Forall (fun e => lb_aux e = (0, 0)) (lt_B T) ->
  extract (0, 0) (store_fields T) = T.
Proof.
  intros W A. rewrite extract_store_fields by exact W. rewrite set_aux_id by exact A. destruct T. reflexivity.
Qed.

(* the reference decoder sees the same tables whatever the two unassigned fields hold *)
Theorem install_ignores_aux junk master T :
  install master (mkLT (lt_cat T) (lt_cdesc T) (map (set_aux junk) (lt_B T)) (lt_D T)) = install master T.
Proof. unfold install. cbn [lt_B lt_D]. rewrite map_map. reflexivity. Qed.
