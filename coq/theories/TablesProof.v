(* TablesProof.v — proofs about the Tables.v model (property C12). *)
From Coq Require Import List ZArith Arith Bool Lia Sorting.Sorted Sorting.Permutation FMapPositive ZifyBool.
From V Require Import Fm94.
From V Require Import Tables.
Import ListNotations.
Local Open Scope Z_scope.
Ltac Zify.zify_post_hook ::= Z.div_mod_to_equations.

(* ================================================================== association lists *)
Lemma assoc_app {A} (k : Z) (l1 l2 : list (Z * A)) :
  assoc k (l1 ++ l2) = match assoc k l1 with Some v => Some v | None => assoc k l2 end.
Proof.
  induction l1 as [|[k1 v1] t IH]; cbn [assoc app]; [reflexivity|].
  destruct (k =? k1); [reflexivity|exact IH].
Qed.

Lemma assoc_none_notin {A} (k : Z) (l : list (Z * A)) : assoc k l = None <-> ~ In k (map fst l).
Proof.
  induction l as [|[k1 v1] t IH]; cbn [assoc map fst In].
  - tauto.
  - destruct (k =? k1) eqn:E.
    + split; [discriminate|]. intros H. exfalso. apply H. left. lia.
    + rewrite IH. split; intros H; [intros [H1|H1]; [lia|tauto]|tauto].
Qed.

Lemma assoc_in {A} (k : Z) (v : A) (l : list (Z * A)) : NoDup (map fst l) -> In (k, v) l -> assoc k l = Some v.
Proof.
  induction l as [|[k1 v1] t IH]; cbn [assoc map fst In]; intros ND HI; [tauto|].
  inversion ND as [|? ? Hn ND']; subst.
  destruct HI as [HI|HI].
  - inversion HI; subst. rewrite Z.eqb_refl. reflexivity.
  - destruct (k =? k1) eqn:E.
    + exfalso. apply Hn. assert (k = k1) by lia. subst. change k1 with (fst (k1, v)). apply in_map. exact HI.
    + apply IH; assumption.
Qed.

Lemma assoc_some_in {A} (k : Z) (v : A) (l : list (Z * A)) : assoc k l = Some v -> In (k, v) l.
Proof.
  induction l as [|[k1 v1] t IH]; cbn [assoc In]; [discriminate|].
  destruct (k =? k1) eqn:E; intros H.
  - inversion H; subst. left. f_equal. lia.
  - right. auto.
Qed.

Lemma assoc_perm {A} (k : Z) (l l' : list (Z * A)) :
  NoDup (map fst l) -> Permutation l l' -> assoc k l = assoc k l'.
Proof.
  intros ND P.
  assert (ND' : NoDup (map fst l')) by (eapply Permutation_NoDup; [apply Permutation_map; exact P|exact ND]).
  destruct (assoc k l) as [v|] eqn:E.
  - symmetry. apply assoc_in; [exact ND'|]. eapply Permutation_in; [exact P|]. apply assoc_some_in. exact E.
  - symmetry. apply assoc_none_notin. apply assoc_none_notin in E. intros H. apply E.
    eapply Permutation_in; [apply Permutation_map; apply Permutation_sym; exact P|exact H].
Qed.

(* ================================================================== arr_sort *)
Section SortFacts.
  Context {A : Type} (kf : A -> Z).

  Lemma sinsert_perm (x : A) (l : list A) : Permutation (sinsert kf x l) (x :: l).
  Proof.
    induction l as [|y t IH]; cbn [sinsert]; [apply Permutation_refl|].
    destruct (kf x <=? kf y); [apply Permutation_refl|].
    eapply Permutation_trans; [apply perm_skip; exact IH|apply perm_swap].
  Qed.

  Lemma ssort_perm (l : list A) : Permutation (ssort kf l) l.
  Proof.
    induction l as [|x t IH]; cbn [ssort fold_right]; [apply Permutation_refl|].
    eapply Permutation_trans; [apply sinsert_perm|apply perm_skip; exact IH].
  Qed.

  Definition kle (a b : A) : Prop := kf a <= kf b.

  Lemma sinsert_sorted (x : A) (l : list A) : StronglySorted kle l -> StronglySorted kle (sinsert kf x l).
  Proof.
    induction l as [|y t IH]; cbn [sinsert]; intros S.
    - constructor; constructor.
    - destruct (kf x <=? kf y) eqn:E.
      + constructor; [exact S|]. inversion S as [|? ? S' F]; subst. constructor; [unfold kle; lia|].
        eapply Forall_impl; [|exact F]. unfold kle. intros; lia.
      + inversion S as [|? ? S' F]; subst. constructor; [apply IH; exact S'|].
        assert (P := sinsert_perm x t).
        rewrite Forall_forall in *. intros z Hz.
        apply (Permutation_in _ P) in Hz. destruct Hz as [Hz|Hz]; [subst; unfold kle; lia|apply F; exact Hz].
  Qed.

  Lemma ssort_sorted (l : list A) : StronglySorted kle (ssort kf l).
  Proof.
    induction l as [|x t IH]; cbn [ssort fold_right]; [constructor|]. apply sinsert_sorted. exact IH.
  Qed.

  Lemma ssort_length (l : list A) : length (ssort kf l) = length l.
  Proof. apply Permutation_length. apply ssort_perm. Qed.
End SortFacts.

Lemma sinsert_map {A B} (f : A -> B) (kb : B -> Z) (x : A) (l : list A) :
  map f (sinsert (fun a => kb (f a)) x l) = sinsert kb (f x) (map f l).
Proof.
  induction l as [|y t IH]; cbn [sinsert map]; [reflexivity|].
  destruct (kb (f x) <=? kb (f y)); cbn [map]; [reflexivity|]. rewrite IH. reflexivity.
Qed.

Lemma ssort_map {A B} (f : A -> B) (kb : B -> Z) (l : list A) :
  map f (ssort (fun a => kb (f a)) l) = ssort kb (map f l).
Proof.
  induction l as [|x t IH]; cbn [ssort fold_right map]; [reflexivity|].
  change (fold_right (sinsert (fun a => kb (f a))) [] t) with (ssort (fun a => kb (f a)) t).
  rewrite sinsert_map, IH. reflexivity.
Qed.

Lemma sinsert_ext {A} (k1 k2 : A -> Z) (x : A) (l : list A) :
  k1 x = k2 x -> (forall y, In y l -> k1 y = k2 y) -> sinsert k1 x l = sinsert k2 x l.
Proof.
  intros Hx. induction l as [|y t IH]; cbn [sinsert]; intros H; [reflexivity|].
  rewrite Hx, (H y (or_introl eq_refl)). destruct (k2 x <=? k2 y); [reflexivity|]. f_equal. apply IH. intros; apply H; right; assumption.
Qed.

Lemma ssort_ext {A} (k1 k2 : A -> Z) (l : list A) :
  (forall y, In y l -> k1 y = k2 y) -> ssort k1 l = ssort k2 l.
Proof.
  induction l as [|x t IH]; cbn [ssort fold_right]; intros H; [reflexivity|].
  change (fold_right (sinsert k1) [] t) with (ssort k1 t). change (fold_right (sinsert k2) [] t) with (ssort k2 t).
  rewrite IH by (intros; apply H; right; assumption).
  apply sinsert_ext; [apply H; left; reflexivity|].
  intros y Hy. apply H. right. eapply Permutation_in; [apply ssort_perm|exact Hy].
Qed.

(* sorted by <= and without duplicates = sorted by < *)
Lemma sorted_le_nodup_lt (l : list Z) : StronglySorted Z.le l -> NoDup l -> StronglySorted Z.lt l.
Proof.
  induction l as [|x t IH]; intros S ND; [constructor|].
  inversion S as [|? ? S' F]; subst. inversion ND as [|? ? Hn ND']; subst.
  constructor; [apply IH; assumption|].
  rewrite Forall_forall in *. intros y Hy. specialize (F y Hy).
  assert (x <> y) by (intros ->; tauto). lia.
Qed.

Lemma sorted_map_kle {A} (kf : A -> Z) (l : list A) : StronglySorted (kle kf) l -> StronglySorted Z.le (map kf l).
Proof.
  induction 1 as [|x t S IH F]; cbn [map]; constructor; [exact IH|].
  rewrite Forall_forall in *. intros y Hy. apply in_map_iff in Hy. destruct Hy as [z [<- Hz]]. apply F. exact Hz.
Qed.

Lemma ssort_keys_lt {A} (kf : A -> Z) (l : list A) : NoDup (map kf l) -> StronglySorted Z.lt (map kf (ssort kf l)).
Proof.
  intros ND. apply sorted_le_nodup_lt.
  - apply sorted_map_kle. apply ssort_sorted.
  - eapply Permutation_NoDup; [apply Permutation_map; apply Permutation_sym; apply ssort_perm|exact ND].
Qed.

(* ================================================================== arr_search (glibc bsearch) *)
Lemma bs_ext (g1 g2 : nat -> option Z) (k : Z) :
  (forall i, g1 i = g2 i) -> forall fuel lo hi, bs fuel g1 k lo hi = bs fuel g2 k lo hi.
Proof.
  intros E. induction fuel as [|f IH]; intros lo hi; cbn [bs]; [reflexivity|].
  destruct (lo <? hi)%nat; [|reflexivity]. rewrite E.
  destruct (g2 (Nat.div2 (lo + hi))) as [ki|]; [|reflexivity].
  destruct (k <? ki); [apply IH|]. destruct (ki <? k); [apply IH|reflexivity].
Qed.

Lemma div2_bounds (lo hi : nat) : (lo < hi)%nat -> (lo <= Nat.div2 (lo + hi) < hi)%nat.
Proof.
  intros H. pose proof (Nat.div2_odd (lo + hi)) as E.
  destruct (Nat.odd (lo + hi)); cbn [Nat.b2n] in E; set (q := Nat.div2 (lo + hi)) in *; clearbody q; lia.
Qed.

(* a found index carries the key *)
Lemma bs_found (get : nat -> option Z) (k : Z) : forall fuel lo hi i,
  bs fuel get k lo hi = BFound i -> (lo <= i < hi)%nat /\ get i = Some k.
Proof.
  induction fuel as [|f IH]; intros lo hi i; cbn [bs]; [discriminate|].
  destruct (lo <? hi)%nat eqn:L; [|discriminate].
  apply Nat.ltb_lt in L. pose proof (div2_bounds lo hi L) as B.
  destruct (get (Nat.div2 (lo + hi))) as [ki|] eqn:G; [|discriminate].
  destruct (k <? ki) eqn:C1.
  - intros H. apply IH in H. destruct H; split; [lia|assumption].
  - destruct (ki <? k) eqn:C2.
    + intros H. apply IH in H. destruct H; split; [lia|assumption].
    + intros H. inversion H; subst. split; [lia|]. rewrite G. f_equal. lia.
Qed.

(* on keys sorted by <= (duplicates allowed): not found means absent, and no dangling read happens *)
Section BsSorted.
  Variable ks : list Z.
  Hypothesis Hs : StronglySorted Z.le ks.
  Let get := fun i => nth i (map Some ks) None.

  Lemma get_lt i : (i < length ks)%nat -> get i = Some (nth i ks 0).
  Proof.
    intros H. unfold get. rewrite (nth_indep _ None (Some 0)) by (rewrite map_length; exact H).
    rewrite (map_nth Some ks 0 i). reflexivity.
  Qed.

  Lemma sorted_nth i j : (i <= j < length ks)%nat -> nth i ks 0 <= nth j ks 0.
  Proof.
    clear get. revert i j. induction Hs as [|x t St IH F]; intros i j H; cbn [length] in H; [lia|].
    destruct i as [|i], j as [|j]; cbn [nth]; try lia.
    - rewrite Forall_forall in F. apply F. apply nth_In. lia.
    - apply IH; [exact St|lia].
  Qed.

  Lemma bs_sorted (k : Z) : forall fuel lo hi,
    (hi <= length ks)%nat -> (hi - lo < fuel)%nat ->
    (forall j, (j < lo)%nat -> nth j ks 0 < k) ->
    (forall j, (hi <= j < length ks)%nat -> k < nth j ks 0) ->
    match bs fuel get k lo hi with
    | BFound i => nth_error ks i = Some k
    | BNone => ~ In k ks
    | BDang => False
    end.
  Proof.
    induction fuel as [|f IH]; intros lo hi Hh Hf Hl Hu; [lia|]. cbn [bs].
    destruct (lo <? hi)%nat eqn:L.
    - apply Nat.ltb_lt in L. pose proof (div2_bounds lo hi L) as B.
      set (m := Nat.div2 (lo + hi)) in *.
      rewrite get_lt by lia.
      destruct (k <? nth m ks 0) eqn:C1.
      + apply IH; [lia|lia|exact Hl|].
        intros j Hj. destruct (Nat.lt_ge_cases j hi) as [Hjh|Hjh]; [|apply Hu; lia].
        assert (nth m ks 0 <= nth j ks 0) by (apply sorted_nth; lia). lia.
      + destruct (nth m ks 0 <? k) eqn:C2.
        * apply IH; [lia|lia| |exact Hu].
          intros j Hj. destruct (Nat.lt_ge_cases j lo) as [Hjl|Hjl]; [apply Hl; exact Hjl|].
          assert (nth j ks 0 <= nth m ks 0) by (apply sorted_nth; lia). lia.
        * assert (nth m ks 0 = k) by lia.
          rewrite <- H. apply nth_error_nth'. lia.
    - apply Nat.ltb_ge in L. intros HI. apply In_nth with (d := 0) in HI. destruct HI as [j [Hj Hk]].
      destruct (Nat.lt_ge_cases j lo) as [Hjl|Hjl].
      + specialize (Hl j Hjl). lia.
      + specialize (Hu j ltac:(lia)). lia.
  Qed.

  Lemma bsearch_sorted (k : Z) :
    match bsearch (map Some ks) k with
    | BFound i => nth_error ks i = Some k
    | BNone => ~ In k ks
    | BDang => False
    end.
  Proof.
    unfold bsearch, bsearch_f. rewrite map_length.
    apply bs_sorted; [lia|lia|intros; lia|intros; lia].
  Qed.
End BsSorted.

(* with strictly sorted keys the index is the one of the association *)
Lemma nth_error_keys {A} (l : list (Z * A)) (i : nat) (k : Z) :
  nth_error (map fst l) i = Some k -> exists v, nth_error l i = Some (k, v).
Proof.
  revert i. induction l as [|[k1 v1] t IH]; intros [|i]; cbn [map nth_error fst]; try discriminate.
  - intros H. inversion H; subst. eauto.
  - apply IH.
Qed.

Lemma lt_sorted_nodup (l : list Z) : StronglySorted Z.lt l -> NoDup l.
Proof.
  induction 1 as [|x t S IH F]; constructor; [|exact IH].
  intros HI. rewrite Forall_forall in F. specialize (F x HI). lia.
Qed.

Lemma lt_sorted_le (l : list Z) : StronglySorted Z.lt l -> StronglySorted Z.le l.
Proof.
  induction 1 as [|x t S IH F]; constructor; [exact IH|]. eapply Forall_impl; [|exact F]. intros; lia.
Qed.

Definition vfind {A} (l : list (Z * A)) (k : Z) : option (Z * A) :=
  match assoc k l with Some v => Some (k, v) | None => None end.

Lemma dkeys_eq (l : list dent) : dkeys l = map Some (map fst l).
Proof. unfold dkeys. rewrite map_map. reflexivity. Qed.

(* lookup_correct: binary search in the sorted array = lookup in the association list *)
Lemma searchD_assoc (l : list dent) (k : Z) :
  StronglySorted Z.lt (map fst l) -> searchD (Some l) k = vfind l k.
Proof.
  intros S. unfold searchD, vfind. rewrite dkeys_eq.
  pose proof (bsearch_sorted (map fst l) (lt_sorted_le _ S) k) as H.
  destruct (bsearch (map Some (map fst l)) k) as [i| |]; cbv beta iota in H |- *; [| |tauto].
  - destruct (nth_error_keys l i k H) as [v Hv]. transitivity (Some (k, v)); [exact Hv|].
    rewrite (assoc_in k v l); [reflexivity|apply lt_sorted_nodup; exact S|eapply nth_error_In; exact Hv].
  - apply assoc_none_notin in H. rewrite H. reflexivity.
Qed.

(* with duplicate keys (sorted by <=): some entry of that key is returned, and absent means absent *)
Lemma searchD_duplicates (l : list dent) (k : Z) :
  StronglySorted Z.le (map fst l) ->
  match searchD (Some l) k with
  | Some e => In e l /\ fst e = k
  | None => forall e, In e l -> fst e <> k
  end.
Proof.
  intros S. unfold searchD. rewrite dkeys_eq.
  pose proof (bsearch_sorted (map fst l) S k) as H.
  destruct (bsearch (map Some (map fst l)) k) as [i| |]; cbv beta iota in H |- *; [| |tauto].
  - destruct (nth_error_keys l i k H) as [v Hv].
    assert (Hv' : @nth_error dent l i = Some (k, v)) by exact Hv. rewrite Hv'. split; [eapply nth_error_In; exact Hv|reflexivity].
  - intros e He Hk. apply H. rewrite <- Hk. apply in_map. exact He.
Qed.

Lemma NoDup_snoc {A} (l : list A) (x : A) : NoDup l -> ~ In x l -> NoDup (l ++ [x]).
Proof.
  intros ND Hn. eapply Permutation_NoDup; [apply Permutation_cons_append|]. constructor; assumption.
Qed.

(* ================================================================== merging at the level of values (repaired code) *)
Section MergeV.
  Context {A : Type}.
  Definition updk (ke : Z) (v : A) (x : Z * A) : Z * A := if fst x =? ke then (fst x, v) else x.
  Fixpoint mergeV (t es : list (Z * A)) : list (Z * A) :=
    match es with
    | [] => t
    | e :: r => if existsb (fun x => fst x =? fst e) t then mergeV (map (updk (fst e) (snd e)) t) r else mergeV (t ++ [e]) r
    end.

  Lemma existsb_assoc (k : Z) (t : list (Z * A)) :
    existsb (fun x => fst x =? k) t = match assoc k t with Some _ => true | None => false end.
  Proof.
    induction t as [|[k1 v1] t IH]; cbn [existsb assoc fst]; [reflexivity|].
    rewrite (Z.eqb_sym k1 k). destruct (k =? k1); [reflexivity|exact IH].
  Qed.

  Lemma assoc_updk (k ke : Z) (v : A) (t : list (Z * A)) :
    assoc k (map (updk ke v) t) =
    if k =? ke then match assoc k t with Some _ => Some v | None => None end else assoc k t.
  Proof.
    induction t as [|[k1 v1] t IH]; cbn [map assoc]; [destruct (k =? ke); reflexivity|].
    unfold updk at 1. cbn [fst]. destruct (k1 =? ke) eqn:E1; cbn [assoc]; destruct (k =? k1) eqn:E2.
    - assert (E3 : k =? ke = true) by lia. rewrite E3. reflexivity.
    - assert (E3 : k =? ke = false) by lia. rewrite IH, E3. reflexivity.
    - assert (E3 : k =? ke = false) by lia. rewrite E3. reflexivity.
    - exact IH.
  Qed.

  Lemma keys_updk (ke : Z) (v : A) (t : list (Z * A)) : map fst (map (updk ke v) t) = map fst t.
  Proof.
    induction t as [|[k1 v1] t IH]; cbn [map]; [reflexivity|]. rewrite IH. unfold updk. cbn [fst].
    destruct (k1 =? ke); reflexivity.
  Qed.

  Lemma mergeV_nodup (es t : list (Z * A)) : NoDup (map fst t) -> NoDup (map fst (mergeV t es)).
  Proof.
    revert t. induction es as [|e r IH]; intros t ND; cbn [mergeV]; [exact ND|].
    destruct (existsb (fun x => fst x =? fst e) t) eqn:E.
    - apply IH. rewrite keys_updk. exact ND.
    - apply IH. rewrite map_app. cbn [map]. rewrite existsb_assoc in E.
      destruct (assoc (fst e) t) eqn:E1; [discriminate|]. apply assoc_none_notin in E1.
      apply NoDup_snoc; assumption.
  Qed.

  Lemma mergeV_assoc (k : Z) (es t : list (Z * A)) :
    NoDup (map fst es) ->
    assoc k (mergeV t es) = match assoc k es with Some v => Some v | None => assoc k t end.
  Proof.
    revert t. induction es as [|[ke ve] r IH]; intros t ND; cbn [mergeV assoc]; [reflexivity|].
    cbn [map fst] in ND. inversion ND as [|? ? Hn ND']; subst. cbn [fst snd].
    assert (Hr : k =? ke = true -> assoc k r = None).
    { intros Hk. apply assoc_none_notin. assert (k = ke) by lia. subst. exact Hn. }
    rewrite existsb_assoc.
    destruct (assoc ke t) as [v0|] eqn:E.
    - rewrite IH by exact ND'. rewrite assoc_updk.
      destruct (k =? ke) eqn:Ek.
      + rewrite (Hr eq_refl). assert (k = ke) by lia. subst. rewrite E. reflexivity.
      + reflexivity.
    - rewrite IH by exact ND'. rewrite assoc_app. cbn [assoc].
      destruct (k =? ke) eqn:Ek.
      + rewrite (Hr eq_refl). assert (k = ke) by lia. subst. rewrite E. reflexivity.
      + destruct (assoc k r); [reflexivity|]. destruct (assoc k t); reflexivity.
  Qed.
End MergeV.

Lemma merge_D_fixed (t es : list dent) : merge_D all_fixed t es = mergeV t es.
Proof.
  revert t. induction es as [|e r IH]; intros t; cbn [merge_D mergeV]; [reflexivity|].
  cbn [all_fixed fx_merge]. destruct (existsb (fun x => fst x =? fst e) t); apply IH.
Qed.

(* a Table D array denotes a finite map *)
Definition dtbl_ok {A} (t : option (list (Z * A))) (sp : list (Z * A)) : Prop :=
  match t with
  | None => forall k, assoc k sp = None
  | Some l => StronglySorted Z.lt (map fst l) /\ forall k, assoc k l = assoc k sp
  end.

Lemma sorted_vals_ok {A} (l sp0 es : list (Z * A)) (t0 : list (Z * A)) :
  NoDup (map fst l) ->
  (forall k, assoc k l = match assoc k es with Some v => Some v | None => assoc k sp0 end) ->
  dtbl_ok (Some (ssort fst l)) (over sp0 es).
Proof.
  intros ND H. split.
  - apply ssort_keys_lt. exact ND.
  - intros k. unfold over. rewrite assoc_app, <- H. symmetry. apply assoc_perm; [exact ND|].
    apply Permutation_sym. apply ssort_perm.
Qed.

Lemma load_D_ok (t : option (list dent)) (sp es : list dent) :
  dtbl_ok t sp -> nodupk es -> dtbl_ok (Some (load_D all_fixed t es)) (over sp es).
Proof.
  intros Hok ND. unfold load_D. destruct t as [t0|].
  - destruct Hok as [S E]. rewrite merge_D_fixed. apply (sorted_vals_ok _ sp es t0).
    + apply mergeV_nodup. apply lt_sorted_nodup. exact S.
    + intros k. rewrite mergeV_assoc by exact ND. rewrite E. reflexivity.
  - apply (sorted_vals_ok _ sp es []); [exact ND|].
    intros k. rewrite (Hok k). destruct (assoc k es); reflexivity.
Qed.

Lemma vfind_app {A} (l1 l2 : list (Z * A)) (k : Z) :
  vfind (l1 ++ l2) k = match vfind l1 k with Some e => Some e | None => vfind l2 k end.
Proof. unfold vfind. rewrite assoc_app. destruct (assoc k l1); reflexivity. Qed.

Lemma searchD_ok (t : option (list dent)) (sp : list dent) (k : Z) : dtbl_ok t sp -> searchD t k = vfind sp k.
Proof.
  destruct t as [l|]; intros H.
  - destruct H as [S E]. rewrite searchD_assoc by exact S. unfold vfind. rewrite E. reflexivity.
  - cbn [searchD]. unfold vfind. rewrite (H k). reflexivity.
Qed.

(* ================================================================== the heap of Table B entries *)
Definition live (h : heap) (ids : list positive) : Prop := forall id, In id ids -> hget h id <> None.
Definition hwf (h : heap) : Prop := forall id, hget h id <> None -> (id < hnext h)%positive.

Lemma hget_hset h i e j : hget (hset h i e) j = if Pos.eqb j i then Some e else hget h j.
Proof.
  unfold hget, hset. cbn [hmap]. destruct (Pos.eqb j i) eqn:E.
  - apply Pos.eqb_eq in E. subst. apply PositiveMap.gss.
  - apply Pos.eqb_neq in E. apply PositiveMap.gso. exact E.
Qed.
Lemma hget_hfree h i j : hget (hfree h i) j = if Pos.eqb j i then None else hget h j.
Proof.
  unfold hget, hfree. cbn [hmap]. destruct (Pos.eqb j i) eqn:E.
  - apply Pos.eqb_eq in E. subst. apply PositiveMap.grs.
  - apply Pos.eqb_neq in E. apply PositiveMap.gro. exact E.
Qed.
Lemma hget_halloc h e j : hget (fst (halloc h e)) j = if Pos.eqb j (hnext h) then Some e else hget h j.
Proof.
  unfold hget, halloc. cbn [fst hmap]. destruct (Pos.eqb j (hnext h)) eqn:E.
  - apply Pos.eqb_eq in E. subst. apply PositiveMap.gss.
  - apply Pos.eqb_neq in E. apply PositiveMap.gso. exact E.
Qed.

Lemma hwf_hset h i e : hwf h -> hget h i <> None -> hwf (hset h i e).
Proof.
  intros W L j. rewrite hget_hset. cbn [hset hnext]. destruct (Pos.eqb j i) eqn:E.
  - apply Pos.eqb_eq in E. subst. intros _. apply W. exact L.
  - apply W.
Qed.
Lemma hwf_hfree h i : hwf h -> hwf (hfree h i).
Proof. intros W j. rewrite hget_hfree. cbn [hfree hnext]. destruct (Pos.eqb j i); [congruence|apply W]. Qed.
Lemma hwf_halloc h e : hwf h -> hwf (fst (halloc h e)).
Proof.
  intros W j. rewrite hget_halloc. cbn [halloc fst hnext]. destruct (Pos.eqb j (hnext h)) eqn:E.
  - apply Pos.eqb_eq in E. subst. intros _. lia.
  - intros H. specialize (W j H). lia.
Qed.

Lemma existsb_eqb_in (j : positive) (ids : list positive) : existsb (Pos.eqb j) ids = true <-> In j ids.
Proof.
  rewrite existsb_exists. split.
  - intros [x [Hx E]]. apply Pos.eqb_eq in E. subst. exact Hx.
  - intros H. exists j. split; [exact H|apply Pos.eqb_refl].
Qed.

Lemma hget_set_all e ids : forall h j, hget (set_all h ids e) j = if existsb (Pos.eqb j) ids then Some e else hget h j.
Proof.
  induction ids as [|i t IH]; intros h j; cbn [set_all fold_left existsb]; [reflexivity|].
  change (fold_left (fun h0 id => hset h0 id e) t (hset h i e)) with (set_all (hset h i e) t e).
  rewrite IH, hget_hset. destruct (Pos.eqb j i); destruct (existsb (Pos.eqb j) t); reflexivity.
Qed.
Lemma hnext_set_all e ids : forall h, hnext (set_all h ids e) = hnext h.
Proof. induction ids as [|i t IH]; intros h; cbn [set_all fold_left]; [reflexivity|]. unfold set_all in IH. rewrite IH. reflexivity. Qed.
Lemma hget_free_all ids : forall h j, hget (hfree_all h ids) j = if existsb (Pos.eqb j) ids then None else hget h j.
Proof.
  induction ids as [|i t IH]; intros h j; cbn [hfree_all fold_left existsb]; [reflexivity|].
  change (fold_left hfree t (hfree h i)) with (hfree_all (hfree h i) t).
  rewrite IH, hget_hfree. destruct (Pos.eqb j i); destruct (existsb (Pos.eqb j) t); reflexivity.
Qed.
Lemma hnext_free_all ids : forall h, hnext (hfree_all h ids) = hnext h.
Proof. induction ids as [|i t IH]; intros h; cbn [hfree_all fold_left]; [reflexivity|]. unfold hfree_all in IH. rewrite IH. reflexivity. Qed.

Lemma hwf_set_all h ids e : hwf h -> live h ids -> hwf (set_all h ids e).
Proof.
  intros W L j. rewrite hget_set_all, hnext_set_all. destruct (existsb (Pos.eqb j) ids) eqn:E.
  - intros _. apply W. apply L. apply existsb_eqb_in. exact E.
  - apply W.
Qed.
Lemma hwf_free_all h ids : hwf h -> hwf (hfree_all h ids).
Proof. intros W j. rewrite hget_free_all, hnext_free_all. destruct (existsb (Pos.eqb j) ids); [congruence|apply W]. Qed.

(* values of an array of pointers *)
Definition dummy_ent : ent := (0, mkB UNum 0 0 0).
Definition valof (h : heap) (id : positive) : ent := match hget h id with Some e => e | None => dummy_ent end.

Lemma avals_map h ids : live h ids -> avals h ids = map (valof h) ids.
Proof.
  induction ids as [|i t IH]; intros L; cbn [avals map]; [reflexivity|].
  unfold valof at 1. destruct (hget h i) eqn:E.
  - f_equal. apply IH. intros id Hid. apply L. right. exact Hid.
  - exfalso. apply (L i (or_introl eq_refl)). exact E.
Qed.
Lemma hkeyz_valof h id : hkeyz h id = fst (valof h id).
Proof. unfold hkeyz, hkey, valof. destruct (hget h id); reflexivity. Qed.
Lemma hkey_valof h id : hget h id <> None -> hkey h id = Some (fst (valof h id)).
Proof. unfold hkey, valof. destruct (hget h id); [reflexivity|congruence]. Qed.
Lemma avals_ext h h' ids : (forall id, In id ids -> hget h' id = hget h id) -> avals h' ids = avals h ids.
Proof.
  induction ids as [|i t IH]; intros E; cbn [avals]; [reflexivity|].
  rewrite (E i (or_introl eq_refl)). rewrite IH by (intros; apply E; right; assumption). reflexivity.
Qed.
Lemma live_ext h h' ids : (forall id, In id ids -> hget h' id = hget h id) -> live h ids -> live h' ids.
Proof. intros E L id Hid. rewrite (E id Hid). apply L. exact Hid. Qed.
Lemma avals_app h a b : avals h (a ++ b) = avals h a ++ avals h b.
Proof.
  induction a as [|i t IH]; cbn [avals app]; [reflexivity|]. destruct (hget h i); [cbn [app]; f_equal|]; exact IH.
Qed.
Lemma avals_length h ids : live h ids -> length (avals h ids) = length ids.
Proof. intros L. rewrite avals_map by exact L. apply map_length. Qed.
Lemma live_perm h a b : Permutation a b -> live h a -> live h b.
Proof. intros P L id Hid. apply L. eapply Permutation_in; [apply Permutation_sym; exact P|exact Hid]. Qed.

Lemma avals_ssort h ids : live h ids -> avals h (ssort (hkeyz h) ids) = ssort fst (avals h ids).
Proof.
  intros L.
  rewrite avals_map by (eapply live_perm; [apply Permutation_sym; apply ssort_perm|exact L]).
  rewrite avals_map by exact L.
  rewrite (ssort_ext (hkeyz h) (fun a => fst (valof h a))) by (intros; apply hkeyz_valof).
  apply (ssort_map (valof h) fst).
Qed.

(* arr_search through the pointers = bsearch on the list of keys *)
Lemma asearch_keys h ids k : live h ids -> asearch h ids k = bsearch (map Some (map fst (avals h ids))) k.
Proof.
  intros L. unfold asearch, bsearch, bsearch_f. rewrite !map_length, avals_length by exact L.
  apply bs_ext. intros i. rewrite avals_map by exact L.
  revert i. induction ids as [|a t IH]; intros [|i]; cbn [nth_error map nth]; try reflexivity.
  - apply hkey_valof. apply L. left. reflexivity.
  - apply IH. intros id Hid. apply L. right. exact Hid.
Qed.

Lemma nth_error_map' {A B} (f : A -> B) (l : list A) (i : nat) : nth_error (map f l) i = option_map f (nth_error l i).
Proof. revert i. induction l as [|x t IH]; intros [|i]; cbn [map nth_error option_map]; try reflexivity. apply IH. Qed.

Lemma searchB_ok h ids k :
  live h ids -> StronglySorted Z.lt (map fst (avals h ids)) ->
  match searchB h (Some ids) k with
  | SFound id => In id ids /\ exists e, hget h id = Some e /\ vfind (avals h ids) k = Some e
  | SNone => vfind (avals h ids) k = None
  | SDang => False
  end.
Proof.
  intros L S. unfold searchB. rewrite asearch_keys by exact L.
  pose proof (bsearch_sorted (map fst (avals h ids)) (lt_sorted_le _ S) k) as H.
  destruct (bsearch (map Some (map fst (avals h ids))) k) as [i| |]; cbv beta iota in H |- *; [| |exact H].
  - destruct (nth_error_keys _ i k H) as [v Hv].
    rewrite avals_map in Hv by exact L. rewrite nth_error_map' in Hv.
    destruct (nth_error ids i) as [id|] eqn:Ei; cbn [option_map] in Hv; [|discriminate].
    split; [eapply nth_error_In; exact Ei|].
    assert (Hl : hget h id <> None) by (apply L; eapply nth_error_In; exact Ei).
    unfold valof in Hv. destruct (hget h id) as [e|] eqn:Eg; [|congruence].
    exists e. split; [reflexivity|]. inversion Hv; subst. unfold vfind.
    rewrite (assoc_in k v); [reflexivity|apply lt_sorted_nodup; exact S|].
    rewrite avals_map by exact L. apply in_map_iff. exists id. split.
    + unfold valof. rewrite Eg. reflexivity.
    + eapply nth_error_In; exact Ei.
  - unfold vfind. apply assoc_none_notin in H. rewrite H. reflexivity.
Qed.

(* ------------------------------------------------------------------ the repaired merge refines mergeV *)
Lemma filter_hits h k t : live h t ->
  (filter (key_is h k) t = [] <-> existsb (fun x => fst x =? k) (avals h t) = false).
Proof.
  induction t as [|i t IH]; intros L; cbn [filter avals existsb]; [tauto|].
  assert (Li : hget h i <> None) by (apply L; left; reflexivity).
  assert (Lt : live h t) by (intros id Hid; apply L; right; exact Hid).
  unfold key_is at 1. unfold hkey. destruct (hget h i) as [e|] eqn:Eg; [|congruence]. cbn [option_map existsb].
  destruct (fst e =? k); cbn [orb].
  - split; discriminate.
  - apply IH. exact Lt.
Qed.

Lemma in_filter_key h k t id : In id (filter (key_is h k) t) <-> In id t /\ key_is h k id = true.
Proof. apply filter_In. Qed.

Lemma avals_set_all h t e : live h t ->
  avals (set_all h (filter (key_is h (fst e)) t) e) t = map (updk (fst e) (snd e)) (avals h t).
Proof.
  intros L. set (hits := filter (key_is h (fst e)) t).
  assert (G : forall id, In id t -> hget (set_all h hits e) id = option_map (updk (fst e) (snd e)) (hget h id)).
  { intros id Hid. rewrite hget_set_all.
    destruct (existsb (Pos.eqb id) hits) eqn:E.
    - apply existsb_eqb_in in E. apply in_filter_key in E. destruct E as [_ E]. unfold key_is, hkey in E.
      destruct (hget h id) as [x|]; [|discriminate]. cbn [option_map] in *. unfold updk. rewrite E.
      f_equal. destruct e as [ke ve]. cbn [fst snd] in *. f_equal. lia.
    - assert (N : ~ In id hits) by (intros HI; apply existsb_eqb_in in HI; congruence).
      assert (Lid := L id Hid). destruct (hget h id) as [x|] eqn:Eg; [|congruence]. cbn [option_map]. unfold updk.
      destruct (fst x =? fst e) eqn:Ek; [|reflexivity].
      exfalso. apply N. apply in_filter_key. split; [exact Hid|]. unfold key_is, hkey. rewrite Eg. cbn [option_map]. exact Ek. }
  clearbody hits. induction t as [|i t IH]; cbn [avals map]; [reflexivity|].
  rewrite (G i (or_introl eq_refl)).
  assert (Li : hget h i <> None) by (apply L; left; reflexivity).
  destruct (hget h i) as [x|]; [|congruence]. cbn [option_map map]. f_equal.
  apply IH; [intros id Hid; apply L; right; exact Hid|intros id Hid; apply G; right; exact Hid].
Qed.

Lemma merge_idsB_fixed : forall es h t h' t',
  hwf h -> live h t ->
  merge_idsB all_fixed h t es = (h', t') ->
  hwf h' /\ live h' t' /\ avals h' t' = mergeV (avals h t) es /\
  (hnext h <= hnext h')%positive /\
  (forall id, ~ In id t -> (id < hnext h)%positive -> hget h' id = hget h id) /\
  (forall id, In id t' -> In id t \/ (hnext h <= id)%positive).
Proof.
  induction es as [|e r IH]; intros h t h' t' W L E; cbn [merge_idsB mergeV] in *.
  - inversion E; subst. repeat split; try assumption; try lia; auto.
  - cbn [all_fixed fx_merge] in E.
    destruct (filter (key_is h (fst e)) t) as [|p q] eqn:EF.
    + (* appended *)
      assert (Ex : existsb (fun x => fst x =? fst e) (avals h t) = false) by (apply filter_hits; assumption).
      rewrite Ex. cbn [halloc] in E.
      set (h1 := mkH (PositiveMap.add (hnext h) e (hmap h)) (Pos.succ (hnext h))) in *.
      assert (G : forall j, hget h1 j = if Pos.eqb j (hnext h) then Some e else hget h j) by (intros j; apply (hget_halloc h e j)).
      assert (W1 : hwf h1) by (apply (hwf_halloc h e W)).
      assert (Lold : forall id, In id t -> hget h1 id = hget h id).
      { intros id Hid. rewrite G. destruct (Pos.eqb id (hnext h)) eqn:Eq; [|reflexivity].
        apply Pos.eqb_eq in Eq. specialize (W id (L id Hid)). lia. }
      assert (L1 : live h1 (t ++ [hnext h])).
      { intros id Hid. apply in_app_or in Hid. destruct Hid as [Hid|[<-|[]]].
        - rewrite Lold by exact Hid. apply L. exact Hid.
        - rewrite G, Pos.eqb_refl. discriminate. }
      assert (A1 : avals h1 (t ++ [hnext h]) = avals h t ++ [e]).
      { rewrite avals_app. rewrite (avals_ext h h1 t Lold). cbn [avals]. rewrite G, Pos.eqb_refl. reflexivity. }
      specialize (IH h1 (t ++ [hnext h]) h' t' W1 L1 E). destruct IH as (W' & L' & A' & N' & F' & I').
      rewrite A1 in A'. repeat split; try assumption.
      * unfold h1 in N'; cbn [hnext] in N'; lia.
      * intros id Hn Hlt. rewrite F'.
        -- rewrite G. destruct (Pos.eqb id (hnext h)) eqn:Eq; [apply Pos.eqb_eq in Eq; lia|reflexivity].
        -- intros Hi. apply in_app_or in Hi. destruct Hi as [Hi|[Hi|[]]]; [tauto|lia].
        -- unfold h1; cbn [hnext]; lia.
      * intros id Hid. destruct (I' id Hid) as [Hi|Hi].
        -- apply in_app_or in Hi. destruct Hi as [Hi|[<-|[]]]; [left; exact Hi|right; lia].
        -- right. unfold h1 in Hi; cbn [hnext] in Hi; lia.
    + (* every entry of the descriptor overwritten *)
      rewrite <- EF in E.
      assert (Ex : existsb (fun x => fst x =? fst e) (avals h t) = true).
      { destruct (existsb (fun x => fst x =? fst e) (avals h t)) eqn:X; [reflexivity|].
        apply filter_hits in X; [|exact L]. rewrite X in EF. discriminate. }
      rewrite Ex.
      set (hits := filter (key_is h (fst e)) t) in *.
      assert (Lh : live h hits) by (intros id Hid; apply L; apply in_filter_key in Hid; tauto).
      set (h1 := set_all h hits e) in *.
      assert (W1 : hwf h1) by (apply hwf_set_all; assumption).
      assert (L1 : live h1 t).
      { intros id Hid. unfold h1. rewrite hget_set_all. destruct (existsb (Pos.eqb id) hits); [discriminate|apply L; exact Hid]. }
      assert (A1 : avals h1 t = map (updk (fst e) (snd e)) (avals h t)) by (apply avals_set_all; exact L).
      specialize (IH h1 t h' t' W1 L1 E). destruct IH as (W' & L' & A' & N' & F' & I').
      rewrite A1 in A'. unfold h1 in N', F', I'. rewrite hnext_set_all in N', F', I'.
      repeat split; try assumption.
      intros id Hn Hlt. rewrite F' by assumption. rewrite hget_set_all.
      destruct (existsb (Pos.eqb id) hits) eqn:X; [|reflexivity].
      apply existsb_eqb_in in X. apply in_filter_key in X. tauto.
Qed.

Lemma alloc_all_ok : forall es h h' ids,
  hwf h -> alloc_all h es = (h', ids) ->
  hwf h' /\ live h' ids /\ avals h' ids = es /\ (hnext h <= hnext h')%positive /\
  (forall id, (id < hnext h)%positive -> hget h' id = hget h id) /\
  (forall id, In id ids -> (hnext h <= id)%positive).
Proof.
  induction es as [|e r IH]; intros h h' ids W E; cbn [alloc_all] in E.
  - inversion E; subst. repeat split; try assumption; try lia; auto; intros id [].
  - cbn [halloc] in E.
    set (h1 := mkH (PositiveMap.add (hnext h) e (hmap h)) (Pos.succ (hnext h))) in *.
    destruct (alloc_all h1 r) as [h2 ids2] eqn:E2. inversion E; subst. clear E.
    assert (G : forall j, hget h1 j = if Pos.eqb j (hnext h) then Some e else hget h j) by (intros j; apply (hget_halloc h e j)).
    assert (W1 : hwf h1) by (apply (hwf_halloc h e W)).
    destruct (IH h1 h' ids2 W1 E2) as (W' & L' & A' & N' & F' & I'). cbn [hnext] in *.
    assert (Hn : hget h' (hnext h) = Some e).
    { rewrite F' by (unfold h1; cbn [hnext]; lia). rewrite G, Pos.eqb_refl. reflexivity. }
    repeat split; try assumption.
    + intros id [<-|Hid]; [rewrite Hn; discriminate|apply L'; exact Hid].
    + cbn [avals]. rewrite Hn. f_equal. exact A'.
    + unfold h1 in N'. cbn [hnext] in N'. lia.
    + intros id Hlt. rewrite F' by (unfold h1; cbn [hnext]; lia). rewrite G.
      destruct (Pos.eqb id (hnext h)) eqn:Eq; [apply Pos.eqb_eq in Eq; lia|reflexivity].
    + intros id [<-|Hid]; [lia|]. specialize (I' id Hid). unfold h1 in I'. cbn [hnext] in I'. lia.
Qed.

(* ================================================================== a Table B array denotes a finite map *)
Definition ids_of (t : option (list positive)) : list positive := match t with Some l => l | None => [] end.
Definition btbl_ok (h : heap) (t : option (list positive)) (sp : list ent) : Prop :=
  match t with
  | None => forall k, assoc k sp = None
  | Some ids => live h ids /\ StronglySorted Z.lt (map fst (avals h ids)) /\ forall k, assoc k (avals h ids) = assoc k sp
  end.

Lemma btbl_frame h h' t sp :
  btbl_ok h t sp -> (forall id, In id (ids_of t) -> hget h' id = hget h id) -> btbl_ok h' t sp.
Proof.
  destruct t as [ids|]; cbn [btbl_ok ids_of]; [|auto].
  intros (L & S & E) F. rewrite (avals_ext h h' ids F). repeat split; try assumption. eapply live_ext; eassumption.
Qed.

Lemma sorted_ids_ok h t1 sp0 es :
  live h t1 -> NoDup (map fst (avals h t1)) ->
  (forall k, assoc k (avals h t1) = match assoc k es with Some v => Some v | None => assoc k sp0 end) ->
  btbl_ok h (Some (ssort (hkeyz h) t1)) (over sp0 es).
Proof.
  intros L ND H. cbn [btbl_ok]. rewrite avals_ssort by exact L.
  destruct (sorted_vals_ok (avals h t1) sp0 es [] ND H) as [S E].
  repeat split; try assumption. eapply live_perm; [apply Permutation_sym; apply ssort_perm|exact L].
Qed.

Lemma in_ssort {A} (kf : A -> Z) (l : list A) (x : A) : In x (ssort kf l) <-> In x l.
Proof.
  split; intros H; [eapply Permutation_in; [apply ssort_perm|exact H]|eapply Permutation_in; [apply Permutation_sym; apply ssort_perm|exact H]].
Qed.

Lemma load_B_ok h t own es sp h' t' :
  hwf h -> btbl_ok h t sp -> nodupk es ->
  load_B all_fixed h t own es = (h', t') ->
  hwf h' /\ btbl_ok h' (Some t') (over sp es) /\ (hnext h <= hnext h')%positive /\
  (forall id, ~ In id (ids_of t) -> (id < hnext h)%positive -> hget h' id = hget h id) /\
  (forall id, In id t' -> In id (ids_of t) \/ (hnext h <= id)%positive).
Proof.
  intros W Hok ND E. unfold load_B in E.
  destruct t as [ids|]; cbn [ids_of].
  - destruct Hok as (L & S & Eq).
    assert (NDk : NoDup (map fst (avals h ids))) by (apply lt_sorted_nodup; exact S).
    cbn [all_fixed fx_own andb] in E. destruct (negb own) eqn:Eo.
    + (* private copy of a referenced table, then the merge *)
      destruct (merge_idsB all_fixed h [] (avals h ids)) as [h0 ids0] eqn:E0.
      destruct (merge_idsB all_fixed h0 ids0 es) as [h1 t1] eqn:E1. inversion E; subst. clear E.
      destruct (merge_idsB_fixed _ _ _ _ _ W (fun id (H : In id []) => match H with end) E0) as (W0 & L0 & A0 & N0 & F0 & I0).
      destruct (merge_idsB_fixed _ _ _ _ _ W0 L0 E1) as (W1 & L1 & A1 & N1 & F1 & I1).
      cbn [avals] in A0.
      assert (ND0 : NoDup (map fst (avals h0 ids0))) by (rewrite A0; apply mergeV_nodup; constructor).
      split; [exact W1|]. split.
      * apply sorted_ids_ok; [exact L1|rewrite A1; apply mergeV_nodup; exact ND0|].
        intros k. rewrite A1, mergeV_assoc by exact ND. rewrite A0, mergeV_assoc by exact NDk. cbn [assoc].
        rewrite <- Eq. destruct (assoc k es); [reflexivity|]. destruct (assoc k (avals h ids)); reflexivity.
      * split; [lia|]. split.
        -- intros id Hn Hlt. rewrite F1; [apply F0; [intros []|exact Hlt]| |lia].
           intros Hi. destruct (I0 id Hi) as [[]|Hge]. lia.
        -- intros id Hid. apply in_ssort in Hid. right. destruct (I1 id Hid) as [Hi|Hge]; [|lia].
           destruct (I0 id Hi) as [[]|Hge]. exact Hge.
    + destruct (merge_idsB all_fixed h ids es) as [h1 t1] eqn:E1. inversion E; subst. clear E.
      destruct (merge_idsB_fixed _ _ _ _ _ W L E1) as (W1 & L1 & A1 & N1 & F1 & I1).
      split; [exact W1|]. split.
      * apply sorted_ids_ok; [exact L1|rewrite A1; apply mergeV_nodup; exact NDk|].
        intros k. rewrite A1, mergeV_assoc by exact ND. rewrite Eq. reflexivity.
      * split; [exact N1|]. split; [exact F1|].
        intros id Hid. apply in_ssort in Hid. apply I1. exact Hid.
  - destruct (alloc_all h es) as [h1 t1] eqn:E1. inversion E; subst. clear E.
    destruct (alloc_all_ok _ _ _ _ W E1) as (W1 & L1 & A1 & N1 & F1 & I1).
    split; [exact W1|]. split.
    + apply sorted_ids_ok; [exact L1|rewrite A1; exact ND|].
      intros k. rewrite A1. cbn [btbl_ok] in Hok. rewrite (Hok k). destruct (assoc k es); reflexivity.
    + split; [exact N1|]. split; [intros id _ Hlt; apply F1; exact Hlt|].
      intros id Hid. apply in_ssort in Hid. right. apply I1. exact Hid.
Qed.

(* ================================================================== bufr_fetch_tableB with its memoised pointers *)
Definition fchk (d : Z) : bool := (1 <=? descF d) && (descF d <=? 3).
Definition slow_id (s : tstate) (d : Z) : option positive :=
  match searchB (hp s) (lB s) d with
  | SFound id => Some id
  | _ => match searchB (hp s) (mB s) d with SFound id => Some id | _ => None end
  end.
Definition slow_answer (s : tstate) (d : Z) : option ent :=
  if fchk d then None else match slow_id s d with Some id => hget (hp s) id | None => None end.
(* a remembered pointer is coherent when the uncached search would return exactly it *)
Definition ptr_ok (s : tstate) (id : positive) : Prop :=
  exists e, hget (hp s) id = Some e /\ slow_id s (fst e) = Some id /\ fchk (fst e) = false.
Definition cache_ok (s : tstate) : Prop :=
  (forall id, In id (cache s) -> ptr_ok s id) /\
  match last s with Some id => ptr_ok s id | None => True end /\
  StronglySorted Z.lt (map fst (avals (hp s) (cache s))).

Lemma ptr_ok_ext s s' id : hp s' = hp s -> lB s' = lB s -> mB s' = mB s -> ptr_ok s id -> ptr_ok s' id.
Proof. intros E1 E2 E3 (e & G & S & F). exists e. unfold slow_id in *. rewrite E1, E2, E3. auto. Qed.

Lemma vfind_key {A} (l : list (Z * A)) k e : vfind l k = Some e -> fst e = k.
Proof. unfold vfind. destruct (assoc k l); [|discriminate]. intros H. inversion H. reflexivity. Qed.

Lemma searchB_found h t sp d :
  btbl_ok h t sp ->
  match searchB h t d with
  | SFound id => exists e, hget h id = Some e /\ vfind sp d = Some e
  | SNone => vfind sp d = None
  | SDang => False
  end.
Proof.
  destruct t as [ids|]; intros H.
  - destruct H as (L & S & E). pose proof (searchB_ok h ids d L S) as K.
    assert (V : vfind (avals h ids) d = vfind sp d) by (unfold vfind; rewrite E; reflexivity).
    destruct (searchB h (Some ids) d); [|rewrite <- V; exact K|exact K].
    destruct K as (_ & e & G & F). exists e. rewrite <- V. auto.
  - cbn [searchB]. unfold vfind. rewrite (H d). reflexivity.
Qed.

Lemma slow_id_spec s d spl spm :
  btbl_ok (hp s) (lB s) spl -> btbl_ok (hp s) (mB s) spm ->
  match slow_id s d with
  | Some id => exists e, hget (hp s) id = Some e /\ vfind (spl ++ spm) d = Some e
  | None => vfind (spl ++ spm) d = None
  end.
Proof.
  intros Hl Hm. unfold slow_id. pose proof (vfind_app spl spm d) as VA. unfold ent in *. rewrite VA. clear VA.
  pose proof (searchB_found _ _ _ d Hl) as K1. pose proof (searchB_found _ _ _ d Hm) as K2.
  destruct (searchB (hp s) (lB s) d).
  - destruct K1 as (e & G & F). exists e. rewrite F. auto.
  - rewrite K1. destruct (searchB (hp s) (mB s) d); [destruct K2 as (e & G & F); exists e; auto|exact K2|tauto].
  - tauto.
Qed.

Lemma slow_answer_spec s d spl spm :
  btbl_ok (hp s) (lB s) spl -> btbl_ok (hp s) (mB s) spm ->
  slow_answer s d = if fchk d then None else vfind (spl ++ spm) d.
Proof.
  intros Hl Hm. unfold slow_answer. destruct (fchk d); [reflexivity|].
  pose proof (slow_id_spec s d spl spm Hl Hm) as K. destruct (slow_id s d).
  - destruct K as (e & G & F). rewrite G, F. reflexivity.
  - rewrite K. reflexivity.
Qed.

Definition same_tables (s s' : tstate) : Prop :=
  hp s' = hp s /\ lB s' = lB s /\ mB s' = mB s /\ mBown s' = mBown s /\ lD s' = lD s /\ mD s' = mD s /\
  mver s' = mver s /\ lver s' = lver s.

Lemma same_tables_refl s : same_tables s s.
Proof. repeat split. Qed.

Definition fres_of (o : option ent) : fres := match o with Some e => FEntry e | None => FAbsent end.

Lemma fetchB_slow_ok s d spl spm :
  btbl_ok (hp s) (lB s) spl -> btbl_ok (hp s) (mB s) spm -> cache_ok s ->
  exists s', fetchB_slow s d = (fres_of (slow_answer s d), s') /\ same_tables s s' /\ cache_ok s'.
Proof.
  intros Hl Hm (Hc & Hlast & Hsorted).
  assert (Lc : live (hp s) (cache s)).
  { intros id Hid. destruct (Hc id Hid) as (e & G & _). congruence. }
  unfold fetchB_slow. rewrite asearch_keys by exact Lc.
  pose proof (bsearch_sorted _ (lt_sorted_le _ Hsorted) d) as B.
  destruct (bsearch (map Some (map fst (avals (hp s) (cache s)))) d) as [i| |]; cbv beta iota in B; [| |tauto].
  - (* found in the cache *)
    destruct (nth_error_keys _ i d B) as [v Hv].
    rewrite avals_map in Hv by exact Lc. rewrite nth_error_map' in Hv.
    destruct (nth_error (cache s) i) as [id|] eqn:Ei; cbn [option_map] in Hv; [|discriminate].
    assert (Hin : In id (cache s)) by (eapply nth_error_In; exact Ei).
    destruct (Hc id Hin) as (e & G & Sid & Fc).
    assert (e = (d, v)) by (unfold valof in Hv; rewrite G in Hv; congruence). subst e. cbn [fst] in *.
    exists (set_last s id). split; [|split].
    + unfold entry_of. rewrite G. unfold slow_answer. rewrite Fc, Sid, G. reflexivity.
    + repeat split.
    + split; [|split]; cbn [set_last cache last hp].
      * intros id' H'. eapply ptr_ok_ext; [..|apply Hc; exact H']; reflexivity.
      * eapply ptr_ok_ext; [..|apply Hc; exact Hin]; reflexivity.
      * exact Hsorted.
  - (* not in the cache *)
    change ((1 <=? descF d) && (descF d <=? 3)) with (fchk d).
    destruct (fchk d) eqn:Fd.
    + exists s. split; [unfold slow_answer; rewrite Fd; reflexivity|]. split; [apply same_tables_refl|]. repeat split; assumption.
    + pose proof (slow_id_spec s d spl spm Hl Hm) as K.
      pose proof (searchB_found _ _ _ d Hl) as K1. pose proof (searchB_found _ _ _ d Hm) as K2.
      unfold slow_answer. rewrite Fd. unfold slow_id in *.
      set (r := match searchB (hp s) (lB s) d with SFound id => SFound id | _ => searchB (hp s) (mB s) d end).
      assert (R : match r with
                  | SFound id => (match searchB (hp s) (lB s) d with SFound id => Some id | _ => match searchB (hp s) (mB s) d with SFound id => Some id | _ => None end end) = Some id
                  | _ => (match searchB (hp s) (lB s) d with SFound id => Some id | _ => match searchB (hp s) (mB s) d with SFound id => Some id | _ => None end end) = None end).
      { unfold r. destruct (searchB (hp s) (lB s) d); [reflexivity| |tauto]. destruct (searchB (hp s) (mB s) d); [reflexivity|reflexivity|tauto]. }
      destruct r as [id| |].
      * rewrite R in K |- *. destruct K as (e & G & F).
        assert (Ek : fst e = d) by (eapply vfind_key; exact F).
        assert (Hdang : existsb (fun j => match hget (hp s) j with None => true | Some _ => false end) (cache s ++ [id]) = false).
        { apply not_true_is_false. intros X. apply existsb_exists in X. destruct X as (j & Hj & Xj).
          apply in_app_or in Hj. destruct Hj as [Hj|[<-|[]]].
          - specialize (Lc j Hj). destruct (hget (hp s) j); [discriminate|congruence].
          - rewrite G in Xj. discriminate. }
        rewrite Hdang, andb_false_r.
        assert (Lc' : live (hp s) (cache s ++ [id])).
        { intros j Hj. apply in_app_or in Hj. destruct Hj as [Hj|[<-|[]]]; [apply Lc; exact Hj|congruence]. }
        exists (set_cache s (ssort (hkeyz (hp s)) (cache s ++ [id])) id). split; [|split].
        -- unfold entry_of. rewrite G. reflexivity.
        -- repeat split.
        -- assert (Pid : ptr_ok s id).
           { exists e. split; [exact G|]. split; [|rewrite Ek; exact Fd]. unfold slow_id. rewrite Ek. exact R. }
           split; [|split]; cbn [set_cache cache last hp].
           ++ intros id' H'. apply in_ssort in H'. apply in_app_or in H'.
              eapply ptr_ok_ext; [reflexivity|reflexivity|reflexivity|].
              destruct H' as [H'|[<-|[]]]; [apply Hc; exact H'|exact Pid].
           ++ eapply ptr_ok_ext; [reflexivity|reflexivity|reflexivity|exact Pid].
           ++ rewrite avals_ssort by exact Lc'. apply ssort_keys_lt.
              rewrite avals_app, map_app. cbn [avals]. rewrite G. cbn [map]. rewrite Ek.
              apply NoDup_snoc; [apply lt_sorted_nodup; exact Hsorted|exact B].
      * rewrite R. exists s. split; [reflexivity|]. split; [apply same_tables_refl|]. repeat split; assumption.
      * rewrite R. exists s. split; [reflexivity|]. split; [apply same_tables_refl|]. repeat split; assumption.
Qed.

Lemma fetchB_ok s d spl spm :
  btbl_ok (hp s) (lB s) spl -> btbl_ok (hp s) (mB s) spm -> cache_ok s ->
  exists s', fetchB s d = (fres_of (slow_answer s d), s') /\ same_tables s s' /\ cache_ok s'.
Proof.
  intros Hl Hm Hc. unfold fetchB.
  destruct (last s) as [id|] eqn:El; [|apply (fetchB_slow_ok s d spl spm); assumption].
  destruct Hc as (Hc1 & Hlast & Hs). rewrite El in Hlast. destruct Hlast as (e & G & Sid & Fc).
  rewrite G. destruct (fst e =? d) eqn:Ek.
  - assert (fst e = d) by lia. subst d. exists s. split.
    + unfold slow_answer. rewrite Fc, Sid, G. reflexivity.
    + split; [apply same_tables_refl|]. split; [exact Hc1|]. split; [rewrite El; exists e; auto|exact Hs].
  - apply (fetchB_slow_ok s d spl spm); try assumption. split; [exact Hc1|]. split; [rewrite El; exists e; auto|exact Hs].
Qed.

(* ================================================================== the invariant of a BUFR_Tables object (repaired code) *)
Record Inv (s : tstate) (sp : spec) : Prop := mkInv {
  inv_hwf : hwf (hp s);
  inv_lB : btbl_ok (hp s) (lB s) (sp_lB sp);
  inv_mB : btbl_ok (hp s) (mB s) (sp_mB sp);
  inv_disj : forall id, In id (ids_of (lB s)) -> In id (ids_of (mB s)) -> False;
  inv_lD : dtbl_ok (lD s) (sp_lD sp);
  inv_mD : dtbl_ok (mD s) (sp_mD sp);
  inv_cache : cache_ok s
}.

Lemma hwf_empty : hwf hempty.
Proof. intros id H. exfalso. apply H. unfold hget, hempty. cbn [hmap]. apply PositiveMap.gempty. Qed.

Lemma cache_ok_empty h mb own lb md ld mv lv : cache_ok (mkS h mb own lb md ld mv lv [] None).
Proof. split; [intros id []|]. split; [exact I|]. cbn [cache hp avals map]. constructor. Qed.

Lemma Inv_empty h : hwf h -> Inv (empty_state h) spec0.
Proof.
  intros W. constructor; cbn [empty_state hp lB mB lD mD spec0 sp_lB sp_mB sp_lD sp_mD btbl_ok dtbl_ok ids_of]; auto.
  apply cache_ok_empty.
Qed.

Lemma ids_below h t sp id : hwf h -> btbl_ok h t sp -> In id (ids_of t) -> (id < hnext h)%positive.
Proof. destruct t as [ids|]; cbn [btbl_ok ids_of]; [|intros _ _ []]. intros W (L & _) H. apply W. apply L. exact H. Qed.

(* what a load leaves alone *)
Definition untouched (h h' : heap) (t : option (list positive)) : Prop :=
  (hnext h <= hnext h')%positive /\ forall id, ~ In id (ids_of t) -> (id < hnext h)%positive -> hget h' id = hget h id.

Lemma do_loadLB_ok s sp v es :
  Inv s sp -> nodupk es ->
  let s' := do_loadLB all_fixed s v es in
  Inv s' (spec_step sp (OLoadLB v es)) /\ untouched (hp s) (hp s') (lB s) /\
  (forall id, In id (ids_of (lB s')) -> In id (ids_of (lB s)) \/ (hnext (hp s) <= id)%positive) /\
  mB s' = mB s /\ mBown s' = mBown s /\ lD s' = lD s /\ mD s' = mD s.
Proof.
  intros [W Hl Hm Hd HlD HmD Hc] ND. unfold do_loadLB.
  destruct (load_B all_fixed (hp s) (lB s) true es) as [h1 t1] eqn:E.
  destruct (load_B_ok _ _ _ _ _ _ _ W Hl ND E) as (W1 & Hl1 & N1 & F1 & I1).
  cbn [drop_cache all_fixed fx_cache hp mB mBown lB mD lD mver lver cache last spec_step sp_lB sp_mB sp_lD sp_mD ids_of].
  split; [|repeat split; auto].
  constructor; cbn [hp mB lB mD lD sp_lB sp_mB sp_lD sp_mD ids_of]; try assumption.
  - eapply btbl_frame; [exact Hm|]. intros id Hid. apply F1; [intros Hx; exact (Hd id Hx Hid)|exact (ids_below _ _ _ id W Hm Hid)].
  - intros id H1 H2. destruct (I1 id H1) as [Hx|Hx]; [exact (Hd id Hx H2)|].
    pose proof (ids_below _ _ _ id W Hm H2). lia.
  - apply cache_ok_empty.
Qed.

Lemma do_loadMB_ok s sp v es :
  Inv s sp -> nodupk es ->
  let s' := do_loadMB all_fixed s v es in
  Inv s' (spec_step sp (OLoadMB v es)) /\ untouched (hp s) (hp s') (mB s) /\
  (forall id, In id (ids_of (mB s')) -> In id (ids_of (mB s)) \/ (hnext (hp s) <= id)%positive) /\
  lB s' = lB s /\ lD s' = lD s /\ mD s' = mD s.
Proof.
  intros [W Hl Hm Hd HlD HmD Hc] ND. unfold do_loadMB.
  destruct (load_B all_fixed (hp s) (mB s) (mBown s) es) as [h1 t1] eqn:E.
  destruct (load_B_ok _ _ _ _ _ _ _ W Hm ND E) as (W1 & Hm1 & N1 & F1 & I1).
  cbn [drop_cache all_fixed fx_cache hp mB mBown lB mD lD mver lver cache last spec_step sp_lB sp_mB sp_lD sp_mD ids_of].
  split; [|repeat split; auto].
  constructor; cbn [hp mB lB mD lD sp_lB sp_mB sp_lD sp_mD ids_of]; try assumption.
  - eapply btbl_frame; [exact Hl|]. intros id Hid. apply F1; [intros Hx; exact (Hd id Hid Hx)|exact (ids_below _ _ _ id W Hl Hid)].
  - intros id H1 H2. destruct (I1 id H2) as [Hx|Hx]; [exact (Hd id H1 Hx)|].
    pose proof (ids_below _ _ _ id W Hl H1). lia.
  - apply cache_ok_empty.
Qed.

Lemma cache_ok_same s s' : hp s' = hp s -> lB s' = lB s -> mB s' = mB s -> cache s' = cache s -> last s' = last s -> cache_ok s -> cache_ok s'.
Proof.
  intros E1 E2 E3 E4 E5 (C1 & C2 & C3). unfold cache_ok. rewrite E4, E5, E1. split; [|split; [|exact C3]].
  - intros id H. eapply ptr_ok_ext; [exact E1|exact E2|exact E3|apply C1; exact H].
  - destruct (last s); [|exact I]. eapply ptr_ok_ext; [exact E1|exact E2|exact E3|exact C2].
Qed.

Lemma do_loadMD_ok s sp es :
  Inv s sp -> nodupk es ->
  let s' := snd (do_loadMD all_fixed s es) in
  Inv s' (spec_step sp (OLoadMD es)) /\ hp s' = hp s /\ lB s' = lB s /\ mB s' = mB s /\ mBown s' = mBown s /\ lD s' = lD s.
Proof.
  intros [W Hl Hm Hd HlD HmD Hc] ND. unfold do_loadMD. cbn [snd hp lB mB mBown lD].
  split; [|repeat split].
  constructor; cbn [hp mB lB mD lD spec_step sp_lB sp_mB sp_lD sp_mD]; try assumption.
  all: try (apply load_D_ok; assumption).
  all: try (eapply cache_ok_same; [..|exact Hc]; reflexivity).
Qed.

Lemma do_loadLD_ok s sp es :
  Inv s sp -> nodupk es ->
  let s' := snd (do_loadLD all_fixed s es) in
  Inv s' (spec_step sp (OLoadLD es)) /\ hp s' = hp s /\ lB s' = lB s /\ mB s' = mB s /\ mBown s' = mBown s /\ mD s' = mD s.
Proof.
  intros [W Hl Hm Hd HlD HmD Hc] ND. unfold do_loadLD. cbn [snd hp lB mB mBown mD].
  split; [|repeat split].
  constructor; cbn [hp mB lB mD lD spec_step sp_lB sp_mB sp_lD sp_mD]; try assumption.
  all: try (apply load_D_ok; assumption).
  all: try (eapply cache_ok_same; [..|exact Hc]; reflexivity).
Qed.

(* ------------------------------------------------------------------ the source object of a merge *)
Definition fresh_from (h : heap) (s : tstate) : Prop :=
  (hnext h <= hnext (hp s))%positive /\
  (forall id, (id < hnext h)%positive -> hget (hp s) id = hget h id) /\
  (forall id, In id (ids_of (lB s)) \/ In id (ids_of (mB s)) -> (hnext h <= id)%positive).

Lemma fresh_loadMB h s sp v es :
  Inv s sp -> nodupk es -> fresh_from h s -> fresh_from h (do_loadMB all_fixed s v es).
Proof.
  intros I ND (F1 & F2 & F3). destruct (do_loadMB_ok s sp v es I ND) as (_ & (U1 & U2) & Ids & E1 & _).
  split; [lia|]. split.
  - intros id Hid. rewrite U2; [apply F2; exact Hid| |lia]. intros Hx. specialize (F3 id (or_intror Hx)). lia.
  - intros id [Hx|Hx]; [rewrite E1 in Hx; apply F3; left; exact Hx|].
    destruct (Ids id Hx) as [Hy|Hy]; [apply F3; right; exact Hy|lia].
Qed.

Lemma fresh_loadLB h s sp v es :
  Inv s sp -> nodupk es -> fresh_from h s -> fresh_from h (do_loadLB all_fixed s v es).
Proof.
  intros I ND (F1 & F2 & F3). destruct (do_loadLB_ok s sp v es I ND) as (_ & (U1 & U2) & Ids & E1 & _).
  split; [lia|]. split.
  - intros id Hid. rewrite U2; [apply F2; exact Hid| |lia]. intros Hx. specialize (F3 id (or_introl Hx)). lia.
  - intros id [Hx|Hx]; [|rewrite E1 in Hx; apply F3; right; exact Hx].
    destruct (Ids id Hx) as [Hy|Hy]; [apply F3; left; exact Hy|lia].
Qed.

Lemma build_other_ok h a :
  hwf h -> wf_arg a ->
  let o := build_other all_fixed h a in
  Inv o (mkSp (match a_lb a with Some (_, es) => over [] es | None => [] end)
              (match a_mb a with Some (_, es) => over [] es | None => [] end)
              (match a_ld a with Some es => over [] es | None => [] end)
              (match a_md a with Some es => over [] es | None => [] end)) /\
  fresh_from h o /\
  (match a_mb a with Some _ => mB o <> None | None => mB o = None end) /\
  (match a_md a with Some _ => mD o <> None | None => mD o = None end).
Proof.
  intros W (N1 & N3 & N2 & N4). unfold build_other.
  set (s0 := empty_state h).
  assert (I0 : Inv s0 spec0) by (apply Inv_empty; exact W).
  assert (F0 : fresh_from h s0).
  { split; [cbn; lia|]. split; [intros; reflexivity|]. cbn [s0 empty_state lB mB ids_of]. intros id [[]|[]]. }
  (* master Table B *)
  set (s1 := match a_mb a with Some (v, es) => do_loadMB all_fixed s0 v es | None => s0 end).
  assert (S1 : Inv s1 (mkSp [] (match a_mb a with Some (_, es) => over [] es | None => [] end) [] []) /\ fresh_from h s1 /\
               mD s1 = None /\ match a_mb a with Some _ => mB s1 <> None | None => mB s1 = None end).
  { unfold s1. destruct (a_mb a) as [[v es]|].
    - destruct (do_loadMB_ok s0 spec0 v es I0 N1) as (I & _ & _ & _ & _ & E3).
      split; [exact I|]. split; [eapply fresh_loadMB; eassumption|]. split; [rewrite E3; reflexivity|].
      unfold do_loadMB. destruct (load_B all_fixed (hp s0) (mB s0) (mBown s0) es). cbn. discriminate.
    - split; [exact I0|]. split; [exact F0|]. split; reflexivity. }
  destruct S1 as (I1 & F1 & D1 & M1). clearbody s1. clear I0 F0 s0.
  (* master Table D *)
  set (s2 := match a_md a with Some es => snd (do_loadMD all_fixed s1 es) | None => s1 end).
  assert (S2 : Inv s2 (mkSp [] (match a_mb a with Some (_, es) => over [] es | None => [] end) []
                            (match a_md a with Some es => over [] es | None => [] end)) /\ fresh_from h s2 /\
               mB s2 = mB s1 /\ match a_md a with Some _ => mD s2 <> None | None => mD s2 = None end).
  { unfold s2. destruct (a_md a) as [es|].
    - destruct (do_loadMD_ok s1 _ es I1 N2) as (I & E1 & E2 & E3 & _).
      split; [exact I|]. split; [unfold fresh_from; rewrite E1, E2, E3; exact F1|]. split; [exact E3|].
      unfold do_loadMD. cbn. discriminate.
    - split; [exact I1|]. split; [exact F1|]. split; [reflexivity|exact D1]. }
  destruct S2 as (I2 & F2 & E2 & M2). clearbody s2. rewrite <- E2 in M1. clear I1 F1 D1 E2 s1.
  (* local Table B *)
  set (s3 := match a_lb a with Some (v, es) => do_loadLB all_fixed s2 v es | None => s2 end).
  assert (S3 : Inv s3 (mkSp (match a_lb a with Some (_, es) => over [] es | None => [] end)
                            (match a_mb a with Some (_, es) => over [] es | None => [] end) []
                            (match a_md a with Some es => over [] es | None => [] end)) /\ fresh_from h s3 /\
               mB s3 = mB s2 /\ mD s3 = mD s2).
  { unfold s3. destruct (a_lb a) as [[v es]|].
    - destruct (do_loadLB_ok s2 _ v es I2 N3) as (I & _ & _ & E1 & _ & _ & E4).
      split; [exact I|]. split; [eapply fresh_loadLB; eassumption|]. split; assumption.
    - split; [exact I2|]. split; [exact F2|]. split; reflexivity. }
  destruct S3 as (I3 & F3 & E3 & E3'). clearbody s3. rewrite <- E3 in M1. rewrite <- E3' in M2. clear I2 F2 E3 E3' s2.
  (* local Table D *)
  destruct (a_ld a) as [es|].
  - destruct (do_loadLD_ok s3 _ es I3 N4) as (I & E1 & E2 & E4 & _ & E5).
    split; [exact I|]. split; [unfold fresh_from; rewrite E1, E2, E4; exact F3|]. rewrite E4, E5. split; assumption.
  - split; [exact I3|]. split; [exact F3|]. split; assumption.
Qed.

(* ------------------------------------------------------------------ bufr_merge_tables (repaired code) *)
Lemma btbl_live h t sp : btbl_ok h t sp -> live h (ids_of t).
Proof. destruct t as [ids|]; cbn [btbl_ok ids_of]; [tauto|intros _ id []]. Qed.
Lemma btbl_vals h t sp : btbl_ok h t sp ->
  NoDup (map fst (avals h (ids_of t))) /\ forall k, assoc k (avals h (ids_of t)) = assoc k sp.
Proof.
  destruct t as [ids|]; cbn [btbl_ok ids_of avals map].
  - intros (L & S & E). split; [apply lt_sorted_nodup; exact S|exact E].
  - intros H. split; [constructor|]. intros k. rewrite (H k). reflexivity.
Qed.
Lemma dtbl_vals {A} (t : option (list (Z * A))) sp : dtbl_ok t sp ->
  NoDup (map fst (match t with Some l => l | None => [] end)) /\
  forall k, assoc k (match t with Some l => l | None => [] end) = assoc k sp.
Proof.
  destruct t as [l|]; cbn [dtbl_ok].
  - intros (S & E). split; [apply lt_sorted_nodup; exact S|exact E].
  - intros H. split; [constructor|]. intros k. rewrite (H k). reflexivity.
Qed.
Lemma assoc_over_nil {A} (k : Z) (es : list (Z * A)) : assoc k (over [] es) = assoc k es.
Proof. unfold over. rewrite assoc_app. destruct (assoc k es); reflexivity. Qed.

Lemma do_merge_ok s sp a : Inv s sp -> wf_arg a -> Inv (do_merge all_fixed s a) (spec_step sp (OMerge a)).
Proof.
  intros [W Hl Hm Hd HlD HmD Hc] WA.
  destruct (build_other_ok (hp s) a W WA) as (Io & (Fo1 & Fo2 & Fo3) & Mo & Do).
  unfold do_merge. set (o := build_other all_fixed (hp s) a) in *.
  destruct Io as [Wo Hlo Hmo Hdo HlDo HmDo _]. cbn [sp_lB sp_mB sp_lD sp_mD] in Hlo, Hmo, HlDo, HmDo.
  change (match lB s with Some ids => ids | None => [] end) with (ids_of (lB s)).
  (* the destination's own cells are untouched in the source object's heap *)
  assert (Bl : forall id, In id (ids_of (lB s)) -> (id < hnext (hp s))%positive) by (intros id H; exact (ids_below _ _ _ id W Hl H)).
  assert (Bm : forall id, In id (ids_of (mB s)) -> (id < hnext (hp s))%positive) by (intros id H; exact (ids_below _ _ _ id W Hm H)).
  (* h1: the heap after the destination's own master Table B was freed (when it is replaced and owned) *)
  set (olds := match mB o with Some _ => if mBown s then ids_of (mB s) else [] | None => [] end).
  set (h1 := hfree_all (hp o) olds).
  assert (Eh1 : (let '(h1', mB1, own1, mv1) :=
                   match mB o with
                   | Some ids => ((if mBown s then match mB s with Some old => hfree_all (hp o) old | None => hp o end else hp o), Some ids, false, mver o)
                   | None => (hp o, mB s, mBown s, mver s)
                   end in (h1', mB1)) = (h1, match mB o with Some ids => Some ids | None => mB s end)).
  { unfold h1, olds. destruct (mB o); [|reflexivity]. destruct (mBown s); [|reflexivity]. destruct (mB s); reflexivity. }
  assert (Holds : forall id, In id olds -> In id (ids_of (mB s))).
  { unfold olds. intros id. destruct (mB o); [|intros []]. destruct (mBown s); [auto|intros []]. }
  assert (W1 : hwf h1) by (apply hwf_free_all; exact Wo).
  assert (N1 : hnext h1 = hnext (hp o)) by (apply hnext_free_all).
  assert (G1 : forall id, ~ In id olds -> hget h1 id = hget (hp o) id).
  { intros id Hn. unfold h1. rewrite hget_free_all. destruct (existsb (Pos.eqb id) olds) eqn:X; [|reflexivity].
    apply existsb_eqb_in in X. tauto. }
  assert (P2 : forall id, In id (ids_of (lB s)) -> hget h1 id = hget (hp s) id).
  { intros id H. rewrite G1; [apply Fo2; apply Bl; exact H|]. intros Hx. exact (Hd id H (Holds id Hx)). }
  assert (P3 : forall id, (hnext (hp s) <= id)%positive -> hget h1 id = hget (hp o) id).
  { intros id H. apply G1. intros Hx. specialize (Bm id (Holds id Hx)). lia. }
  (* the merge of the local Table B *)
  destruct (btbl_vals _ _ _ Hl) as (NDl & El). destruct (btbl_vals _ _ _ Hlo) as (NDlo & Elo).
  assert (Vo : vals_of o (lB o) = avals (hp o) (ids_of (lB o))) by (unfold vals_of, ids_of; destruct (lB o); reflexivity).
  rewrite Vo.
  assert (L1 : live h1 (ids_of (lB s))) by (eapply live_ext; [exact P2|apply (btbl_live _ _ _ Hl)]).
  assert (A1 : avals h1 (ids_of (lB s)) = avals (hp s) (ids_of (lB s))) by (apply avals_ext; exact P2).
  (* split the big let *)
  destruct (match mB o with
            | Some ids => ((if mBown s then match mB s with Some old => hfree_all (hp o) old | None => hp o end else hp o), Some ids, false, mver o)
            | None => (hp o, mB s, mBown s, mver s)
            end) as [[[h1' mB1] own1] mv1] eqn:EE.
  cbv beta iota in Eh1. inversion Eh1; subst h1' mB1. clear Eh1.
  destruct (merge_idsB all_fixed h1 (ids_of (lB s)) (avals (hp o) (ids_of (lB o)))) as [h2 lB2] eqn:EM.
  destruct (merge_idsB_fixed _ _ _ _ _ W1 L1 EM) as (W2 & L2 & A2 & N2 & F2 & I2).
  rewrite A1 in A2.
  cbn [drop_cache all_fixed fx_cache hp mB mBown lB mD lD mver lver cache last].
  constructor; cbn [hp mB lB mD lD spec_step sp_lB sp_mB sp_lD sp_mD ids_of].
  - exact W2.
  - (* local Table B *)
    assert (K : btbl_ok h2 (Some (ssort (hkeyz h2) lB2)) (over (sp_lB sp) (match a_lb a with Some (_, es) => es | None => [] end))).
    { apply sorted_ids_ok; [exact L2|rewrite A2; apply mergeV_nodup; exact NDl|].
      intros k. rewrite A2, mergeV_assoc by exact NDlo. rewrite Elo, El.
      destruct (a_lb a) as [[v es]|]; [rewrite assoc_over_nil|]; reflexivity. }
    destruct (a_lb a) as [[v es]|]; exact K.
  - (* master Table B *)
    destruct (mB o) as [ids_o|] eqn:EmBo.
    + destruct (a_mb a) as [[v es]|]; [|congruence].
      assert (Fr : forall id, In id ids_o -> hget h2 id = hget (hp o) id).
      { intros id H. assert (Hge : (hnext (hp s) <= id)%positive) by (apply Fo3; right; exact H).
        rewrite F2; [apply P3; exact Hge| |].
        - intros Hx. specialize (Bl id Hx). lia.
        - rewrite N1. exact (ids_below _ _ _ id Wo Hmo H). }
      pose proof (btbl_frame _ h2 _ _ Hmo Fr) as K. destruct K as (K1 & K2 & K3).
      split; [exact K1|]. split; [exact K2|]. intros k. rewrite K3. apply assoc_over_nil.
    + destruct (a_mb a) as [[v es]|]; [congruence|].
      eapply btbl_frame; [exact Hm|]. intros id H.
      assert (Hlt := Bm id H).
      rewrite F2; [rewrite G1; [apply Fo2; exact Hlt|unfold olds; intros []]|intros Hx; exact (Hd id Hx H)|rewrite N1; lia].
  - (* disjointness *)
    intros id H1 H2. apply in_ssort in H1.
    destruct (mB o) as [ids_o|] eqn:EmBo; cbn [ids_of] in H2.
    + assert (Hge : (hnext (hp s) <= id)%positive) by (apply Fo3; right; exact H2).
      destruct (I2 id H1) as [Hx|Hx]; [specialize (Bl id Hx); lia|].
      rewrite N1 in Hx. pose proof (ids_below _ _ _ id Wo Hmo H2). lia.
    + destruct (I2 id H1) as [Hx|Hx]; [exact (Hd id Hx H2)|]. rewrite N1 in Hx. specialize (Bm id H2). lia.
  - (* local Table D *)
    rewrite merge_D_fixed.
    destruct (dtbl_vals _ _ HlD) as (NDd & Ed). destruct (dtbl_vals _ _ HlDo) as (NDdo & Edo).
    assert (K : dtbl_ok (Some (ssort fst (mergeV (match lD s with Some t => t | None => [] end) (match lD o with Some t => t | None => [] end))))
                        (over (sp_lD sp) (match a_ld a with Some es => es | None => [] end))).
    { apply (sorted_vals_ok _ _ _ []); [apply mergeV_nodup; exact NDd|].
      intros k. rewrite mergeV_assoc by exact NDdo. rewrite Edo, Ed.
      destruct (a_ld a) as [es|]; [rewrite assoc_over_nil|]; reflexivity. }
    destruct (a_ld a) as [es|]; exact K.
  - (* master Table D *)
    destruct (mD o) as [t|] eqn:EmDo.
    + destruct (a_md a) as [es|]; [|congruence]. destruct HmDo as (K1 & K2). split; [exact K1|].
      intros k. rewrite K2. apply assoc_over_nil.
    + destruct (a_md a) as [es|]; [congruence|]. exact HmD.
  - apply cache_ok_empty.
Qed.

(* ================================================================== histories (repaired code) *)
Lemma Inv_same s s' sp : same_tables s s' -> cache_ok s' -> Inv s sp -> Inv s' sp.
Proof.
  intros (E1 & E2 & E3 & E4 & E5 & E6 & E7 & E8) C [W Hl Hm Hd HlD HmD _].
  constructor; rewrite ?E1, ?E2, ?E3, ?E5, ?E6; assumption.
Qed.

Lemma spec_fetchB_vfind sp d : spec_fetchB sp d = if fchk d then None else vfind (sp_lB sp ++ sp_mB sp) d.
Proof. reflexivity. Qed.

Lemma fetchD_ok s sp d : Inv s sp -> fetchD s d = spec_fetchD sp d.
Proof.
  intros [_ _ _ _ HlD HmD _]. unfold fetchD, spec_fetchD. destruct (descF d =? 3); [|reflexivity].
  rewrite (searchD_ok _ _ d HlD), (searchD_ok _ _ d HmD).
  symmetry. exact (vfind_app (sp_lD sp) (sp_mD sp) d).
Qed.

Lemma exec_ok s sp o :
  Inv s sp -> wf_op o ->
  Inv (snd (exec all_fixed s o)) (spec_step sp o) /\ fst (exec all_fixed s o) <> RCrash /\
  match o with
  | OFetchB d => fst (exec all_fixed s o) = RB (spec_fetchB sp d)
  | OFetchD d => fst (exec all_fixed s o) = RD (spec_fetchD sp d)
  | _ => True
  end.
Proof.
  intros I WF. destruct o as [v es|v es|es|es|a|d|d|sq|]; cbn [exec wf_op] in *.
  - destruct (do_loadMB_ok s sp v es I WF) as (I' & _). cbn [fst snd]. split; [exact I'|]. split; [discriminate|exact Logic.I].
  - destruct (do_loadLB_ok s sp v es I WF) as (I' & _). cbn [fst snd]. split; [exact I'|]. split; [discriminate|exact Logic.I].
  - destruct (do_loadMD_ok s sp es I WF) as (I' & _). destruct (do_loadMD all_fixed s es) as [rc s1]. cbn [fst snd] in *.
    split; [exact I'|]. split; [discriminate|exact Logic.I].
  - destruct (do_loadLD_ok s sp es I WF) as (I' & _). destruct (do_loadLD all_fixed s es) as [rc s1]. cbn [fst snd] in *.
    split; [exact I'|]. split; [discriminate|exact Logic.I].
  - cbn [fst snd]. split; [apply do_merge_ok; assumption|]. split; [discriminate|exact Logic.I].
  - destruct (fetchB_ok s d _ _ (inv_lB _ _ I) (inv_mB _ _ I) (inv_cache _ _ I)) as (s' & E & ST & C).
    rewrite E. rewrite (slow_answer_spec s d _ _ (inv_lB _ _ I) (inv_mB _ _ I)), <- spec_fetchB_vfind.
    destruct (spec_fetchB sp d) as [e|]; cbn [fres_of fst snd spec_step];
      (split; [eapply Inv_same; eassumption|]; split; [discriminate|reflexivity]).
  - cbn [fst snd spec_step]. split; [exact I|]. split; [discriminate|]. rewrite (fetchD_ok s sp d I). reflexivity.
  - cbn [fst snd spec_step]. split; [exact I|]. split; [discriminate|exact Logic.I].
  - cbn [fst snd spec_step]. split; [exact I|]. split; [discriminate|exact Logic.I].
Qed.

Lemma run_ok : forall ops s sp,
  Inv s sp -> Forall wf_op ops ->
  Inv (snd (run all_fixed s ops)) (fold_left spec_step ops sp) /\ ~ In RCrash (fst (run all_fixed s ops)).
Proof.
  induction ops as [|o r IH]; intros s sp I WF; cbn [run fold_left fst snd]; [split; [exact I|intros []]|].
  inversion WF as [|? ? W1 W2]; subst.
  destruct (exec_ok s sp o I W1) as (I' & NC & _).
  destruct (exec all_fixed s o) as [x s1] eqn:E. cbn [fst snd] in *.
  destruct (IH s1 (spec_step sp o) I' W2) as (I'' & NC').
  destruct x; try congruence; destruct (run all_fixed s1 r) as [xs s2]; cbn [fst snd] in *;
    (split; [exact I''|]; intros [H|H]; [discriminate|exact (NC' H)]).
Qed.

Lemma state_after_inv ops : Forall wf_op ops -> Inv (state_after all_fixed ops) (spec_after ops).
Proof.
  intros WF. unfold state_after, spec_after. apply run_ok; [apply Inv_empty; exact hwf_empty|exact WF].
Qed.

(* cache_coherent, repaired code: whatever the history of loads, merges and lookups, the next lookup answers what the
   finite maps denoted by the files say *)
Theorem cache_coherent_fixed ops d :
  Forall wf_op ops ->
  fst (exec all_fixed (state_after all_fixed ops) (OFetchB d)) = RB (spec_fetchB (spec_after ops) d).
Proof. intros WF. exact (proj2 (proj2 (exec_ok _ _ (OFetchB d) (state_after_inv ops WF) Logic.I))). Qed.

Theorem tableD_coherent_fixed ops d :
  Forall wf_op ops ->
  fst (exec all_fixed (state_after all_fixed ops) (OFetchD d)) = RD (spec_fetchD (spec_after ops) d).
Proof. intros WF. exact (proj2 (proj2 (exec_ok _ _ (OFetchD d) (state_after_inv ops WF) Logic.I))). Qed.

Theorem no_crash_fixed ops : Forall wf_op ops -> ~ In RCrash (fst (run all_fixed (empty_state hempty) ops)).
Proof. intros WF. apply (run_ok ops _ spec0); [apply Inv_empty; exact hwf_empty|exact WF]. Qed.
