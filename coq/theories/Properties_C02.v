(* Properties_C02.v — C02: compression never changes content; incompressible datasets are refused by the
   compressed encoder (so the caller falls back to the uncompressed form), never mis-encoded. *)
From Coq Require Import List ZArith NArith Arith Lia Bool.
From V Require Import Walk Fm94 Fm94Proof Fm94Cor.
Import ListNotations.
Local Open Scope Z_scope.

Theorem C02_compression_preserves_content : forall T ed pick fuel tmpl subsets b1 b2 tl1 tl2,
  enc_plain T ed fuel tmpl subsets = Ok b1 ->
  enc_comp T ed pick fuel tmpl subsets = Ok b2 ->
  exists d, dec_plain T ed fuel tmpl (length subsets) (b1 ++ tl1) = Ok (d, tl1) /\
            dec_comp T ed fuel tmpl (length subsets) (b2 ++ tl2) = Ok (d, tl2) /\ d = subsets.
Proof. exact compression_preserves_content. Qed.
Print Assumptions C02_compression_preserves_content.

Theorem C02_compressed_roundtrip : forall T ed pick fuel tmpl subsets b tl,
  enc_comp T ed pick fuel tmpl subsets = Ok b ->
  dec_comp T ed fuel tmpl (length subsets) (b ++ tl) = Ok (subsets, tl).
Proof. exact comp_roundtrip. Qed.
Print Assumptions C02_compressed_roundtrip.

Theorem C02_column_roundtrip : forall nsub pick f col b tl,
  enc_col nsub pick f col = Ok b -> dec_col nsub f (b ++ tl) = Ok (col, tl).
Proof. exact col_rt. Qed.
Print Assumptions C02_column_roundtrip.

Theorem C02_ragged_refused : forall T ed pick fuel tmpl s0 rest,
  rect (length s0) (s0 :: rest) = false -> enc_comp T ed pick fuel tmpl (s0 :: rest) = Err NotCompressible.
Proof. exact comp_refuses_ragged. Qed.
Print Assumptions C02_ragged_refused.
