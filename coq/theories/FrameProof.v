(* FrameProof.v — proofs about the framing model Frame.v (property C06).  Qed only. *)
From Coq Require Import List ZArith Bool Lia ZifyBool.
From V Require Import Frame.
Import ListNotations.
Local Open Scope Z_scope.
Ltac Zify.zify_post_hook ::= Z.div_mod_to_equations.

(* ------------------------------------------------------------------------------------------------------------- *)
(* generalities *)
Definition octet (v : Z) : Prop := 0 <= v < 256.

Lemma zlen_app {A} (a b : list A) : zlen (a ++ b) = zlen a + zlen b.
Proof. unfold zlen. rewrite app_length. lia. Qed.
Lemma zlen_cons {A} (x : A) l : zlen (x :: l) = 1 + zlen l.
Proof. unfold zlen. cbn [length]. lia. Qed.
Lemma zlen_nil {A} : zlen (@nil A) = 0.
Proof. reflexivity. Qed.
Lemma zlen_nonneg {A} (l : list A) : 0 <= zlen l.
Proof. unfold zlen. lia. Qed.
Lemma zlen_zeros n : 0 <= n -> zlen (zeros n) = n.
Proof. intros Hn. unfold zlen, zeros. rewrite repeat_length. lia. Qed.

(* a boolean predicate checked on all 256 octet values holds for every octet *)
Lemma octet_forall (P : Z -> bool) :
  forallb P (map Z.of_nat (seq 0 256)) = true -> forall b, octet b -> P b = true.
Proof.
  intros HP b Hb. rewrite forallb_forall in HP. apply HP.
  replace b with (Z.of_nat (Z.to_nat b)) by (unfold octet in Hb; lia).
  apply in_map. apply in_seq. unfold octet in Hb. lia.
Qed.

(* ------------------------------------------------------------------------------------------------------------- *)
(* escaping *)
Definition opt_eqb (o : option Z) (v : Z) : bool := match o with Some x => x =? v | None => false end.

Lemma scan_oct_oct3 : forall b, octet b -> scan_oct (oct3 b) = Some b.
Proof.
  intros b Hb.
  assert (H : opt_eqb (scan_oct (oct3 b)) b = true).
  { revert b Hb. apply octet_forall. vm_compute. reflexivity. }
  unfold opt_eqb in H. destruct (scan_oct (oct3 b)) as [x|]; [|discriminate].
  f_equal. lia.
Qed.

Lemma oct3_first : forall b, octet b ->
  exists d1 d2 d3, oct3 b = [d1; d2; d3] /\ (d1 =? 92) = false /\ (d1 =? 110) = false /\
                   d1 <> 0 /\ d2 <> 0 /\ d3 <> 0.
Proof.
  intros b Hb. unfold oct3. do 3 eexists. split; [reflexivity|].
  unfold octet in Hb. repeat split; lia.
Qed.

Lemma oct2char_go_schar2oct : forall c s,
  Forall octet s -> (esc_bs c = true \/ Forall (fun b => b <> 92) s) ->
  oct2char_go (schar2oct c s) = Some s.
Proof.
  intros c s Hs. induction Hs as [|b t Hb Ht IH]; intros Hbs; [reflexivity|].
  assert (Hbs' : esc_bs c = true \/ Forall (fun b => b <> 92) t).
  { destruct Hbs as [H|H]; [left; exact H|right; inversion H; assumption]. }
  specialize (IH Hbs').
  cbn [schar2oct]. destruct (needs_esc c b) eqn:Hesc.
  - destruct (oct3_first b Hb) as (d1 & d2 & d3 & Ho & H92 & H110 & _).
    pose proof (scan_oct_oct3 b Hb) as Hscan. rewrite Ho in *.
    cbn [app oct2char_go]. rewrite Z.eqb_refl, H92, H110, Hscan, IH. reflexivity.
  - assert (Hne : (b =? 92) = false).
    { unfold needs_esc in Hesc. destruct Hbs as [H|H].
      - rewrite H in Hesc. lia.
      - inversion H; subst. lia. }
    cbn [app oct2char_go]. rewrite Hne, IH. reflexivity.
Qed.

Lemma schar2oct_no_nul : forall c s, Forall octet s -> existsb (fun b => b =? 0) (schar2oct c s) = false.
Proof.
  intros c s Hs. induction Hs as [|b t Hb Ht IH]; [reflexivity|].
  cbn [schar2oct]. rewrite existsb_app, IH, orb_false_r.
  destruct (needs_esc c b) eqn:Hesc.
  - destruct (oct3_first b Hb) as (d1 & d2 & d3 & Ho & _ & _ & H1 & H2 & H3). rewrite Ho.
    cbn [existsb]. lia.
  - unfold needs_esc in Hesc. cbn [existsb]. unfold octet in Hb. lia.
Qed.

Theorem escape_roundtrip_gen : forall c s,
  Forall octet s -> (esc_bs c = true \/ Forall (fun b => b <> 92) s) ->
  oct2char (schar2oct c s) = Some s.
Proof.
  intros c s Hs Hbs. unfold oct2char. rewrite schar2oct_no_nul by assumption.
  apply oct2char_go_schar2oct; assumption.
Qed.

Theorem escape_roundtrip_fixed : forall s, Forall octet s -> oct2char (schar2oct cfg_fixed s) = Some s.
Proof. intros s Hs. apply escape_roundtrip_gen; [assumption|left; reflexivity]. Qed.

Theorem escape_roundtrip_partial : forall s,
  Forall octet s -> Forall (fun b => b <> 92) s -> oct2char (schar2oct cfg_current s) = Some s.
Proof. intros s Hs Hb. apply escape_roundtrip_gen; [assumption|right; assumption]. Qed.

Theorem escape_roundtrip_refuted :
  exists s, Forall octet s /\ oct2char (schar2oct cfg_current s) = Some [65] /\ s <> [65].
Proof.
  exists [92; 49; 48; 49]. split.
  - repeat constructor; unfold octet; lia.
  - split; [vm_compute; reflexivity|discriminate].
Qed.

(* the escaped form is printable: no octet 0..32 or 127 is left *)
Lemma schar2oct_printable : forall c s, Forall octet s ->
  Forall (fun b => 32 < b /\ b <> 127) (schar2oct c s).
Proof.
  intros c s Hs. induction Hs as [|b t Hb Ht IH]; [constructor|].
  cbn [schar2oct]. apply Forall_app. split; [|exact IH].
  destruct (needs_esc c b) eqn:Hesc.
  - unfold oct3. unfold octet in Hb. repeat constructor; lia.
  - unfold needs_esc in Hesc. repeat constructor; lia.
Qed.

(* ------------------------------------------------------------------------------------------------------------- *)
(* the scanner bufr_seek_msg_start *)

(* specification: the longest-prefix automaton of "BUFR" (state = number of marker octets matched, 4 = found) *)
Definition next (st : nat) (c : byte) : nat :=
  match st with
  | 0%nat => if c =? 66 then 1%nat else 0%nat
  | 1%nat => if c =? 85 then 2%nat else if c =? 66 then 1%nat else 0%nat
  | 2%nat => if c =? 70 then 3%nat else if c =? 66 then 1%nat else 0%nat
  | _ => if c =? 82 then 4%nat else if c =? 66 then 1%nat else 0%nat
  end.

(* the header kept from the octets before the marker: an EOT (\004) is dropped unless it directly follows a partial
   marker B, BU or BUF *)
Fixpoint hdr_view (st : nat) (l : list byte) : list byte :=
  match l with
  | [] => []
  | c :: t => (if (c =? 4) && Nat.eqb st 0 then [] else [c]) ++ hdr_view (next st c) t
  end.

Fixpoint run (st : nat) (acc : list byte) (l : list byte) : sres :=
  match l with
  | [] => SEof
  | c :: t =>
    let acc' := if (c =? 4) && Nat.eqb st 0 then acc else c :: acc in
    if Nat.eqb (next st c) 4 then SFound (rev (skipn 4 acc')) t else run (next st c) acc' t
  end.

Definition st_of (c : byte) : nat := if c =? 66 then 1%nat else 0%nat.

Lemma run_skipB : forall l c acc, (c =? 66) = false ->
  run 0 acc l = match skipB c acc l with Some (acc1, l1) => run 1 acc1 l1 | None => SEof end.
Proof.
  induction l as [|c' l IH]; intros c acc Hc.
  - cbn [skipB run]. rewrite Hc. reflexivity.
  - cbn [skipB]. rewrite Hc. cbn [run next]. rewrite andb_true_r.
    destruct (c' =? 66) eqn:HB.
    + cbn [Nat.eqb]. assert (H4 : (c' =? 4) = false) by lia. rewrite H4.
      destruct l as [|c'' l']; cbn [skipB]; rewrite HB; reflexivity.
    + cbn [Nat.eqb]. rewrite (IH c' _ HB). reflexivity.
Qed.

Lemma skipB_len : forall l c acc acc1 l1, skipB c acc l = Some (acc1, l1) -> (length l1 <= length l)%nat.
Proof.
  induction l as [|c' l IH]; intros c acc acc1 l1 H; cbn [skipB] in H.
  - destruct (c =? 66); inversion H; subst; cbn; lia.
  - destruct (c =? 66).
    + inversion H; subst. lia.
    + apply IH in H. cbn [length]. lia.
Qed.

Lemma seek_run : forall fuel c acc l, (length l < fuel)%nat ->
  seek fuel c acc l = run (st_of c) acc l.
Proof.
  induction fuel as [|f IH]; intros c acc l Hf; [lia|].
  cbn [seek]. unfold st_of. destruct (c =? 66) eqn:HB.
  - (* already on a 'B' *)
    assert (Hs : skipB c acc l = Some (acc, l)) by (destruct l; cbn [skipB]; rewrite HB; reflexivity).
    rewrite Hs.
    destruct l as [|c1 l2]; [reflexivity|].
    cbn [run next]. cbn [Nat.eqb]. rewrite andb_false_r.
    destruct (c1 =? 85) eqn:HU.
    + cbn [Nat.eqb]. destruct l2 as [|c2 l3]; [reflexivity|].
      cbn [run next]. cbn [Nat.eqb]. rewrite andb_false_r.
      destruct (c2 =? 70) eqn:HF.
      * cbn [Nat.eqb]. destruct l3 as [|c3 l4]; [reflexivity|].
        cbn [run next]. cbn [Nat.eqb]. rewrite andb_false_r.
        destruct (c3 =? 82) eqn:HR; [reflexivity|].
        rewrite IH by (cbn [length] in Hf; lia). unfold st_of.
        destruct (c3 =? 66); reflexivity.
      * rewrite IH by (cbn [length] in Hf; lia). unfold st_of.
        destruct (c2 =? 66); reflexivity.
    + rewrite IH by (cbn [length] in Hf; lia). unfold st_of.
      destruct (c1 =? 66); reflexivity.
  - rewrite (run_skipB l c acc HB).
    destruct (skipB c acc l) as [[acc1 l1]|] eqn:Hs; [|reflexivity].
    pose proof (skipB_len _ _ _ _ _ Hs) as Hlen.
    (* now as in the first case, from state 1 *)
    destruct l1 as [|c1 l2]; [reflexivity|].
    cbn [run next]. cbn [Nat.eqb]. rewrite andb_false_r.
    destruct (c1 =? 85) eqn:HU.
    + cbn [Nat.eqb]. destruct l2 as [|c2 l3]; [reflexivity|].
      cbn [run next]. cbn [Nat.eqb]. rewrite andb_false_r.
      destruct (c2 =? 70) eqn:HF.
      * cbn [Nat.eqb]. destruct l3 as [|c3 l4]; [reflexivity|].
        cbn [run next]. cbn [Nat.eqb]. rewrite andb_false_r.
        destruct (c3 =? 82) eqn:HR; [reflexivity|].
        rewrite IH by (cbn [length] in Hlen; lia). unfold st_of.
        destruct (c3 =? 66); reflexivity.
      * rewrite IH by (cbn [length] in Hlen; lia). unfold st_of.
        destruct (c2 =? 66); reflexivity.
    + rewrite IH by (cbn [length] in Hlen; lia). unfold st_of.
      destruct (c1 =? 66); reflexivity.
Qed.

(* the fuel given by seek_start always suffices: the scanner never runs out of it *)
Lemma seek_start_run : forall l, seek_start l = run 0 [] l.
Proof.
  intros [|c l]; [reflexivity|].
  unfold seek_start. rewrite seek_run by lia.
  cbn [run next]. cbn [Nat.eqb]. rewrite andb_true_r. unfold st_of.
  destruct (c =? 66) eqn:HB; cbn [Nat.eqb]; [|reflexivity].
  assert (H4 : (c =? 4) = false) by lia. rewrite H4. reflexivity.
Qed.

Lemma run_not_fuel : forall l st acc, run st acc l <> SFuel.
Proof.
  induction l as [|c t IH]; intros st acc; cbn [run]; [discriminate|].
  destruct (Nat.eqb (next st c) 4); [discriminate|apply IH].
Qed.

Theorem seek_fuel_suffices : forall l, seek_start l <> SFuel.
Proof. intros l. rewrite seek_start_run. apply run_not_fuel. Qed.

(* occurrences of the start marker *)
Definition marker : list byte := [66; 85; 70; 82].
Definition starts_bufr (l : list byte) : bool :=
  match l with a :: b :: c :: d :: _ => (a =? 66) && (b =? 85) && (c =? 70) && (d =? 82) | _ => false end.
Fixpoint occurs (l : list byte) : bool :=
  match l with [] => false | _ :: t => starts_bufr l || occurs t end.
Definition no_bufr (l : list byte) : Prop := occurs l = false.

Lemma occurs_cons : forall x l, occurs (x :: l) = false -> occurs l = false.
Proof. intros x l H. cbn [occurs] in H. apply orb_false_iff in H. tauto. Qed.

Lemma occurs_app_r : forall a b, occurs (a ++ b) = false -> occurs b = false.
Proof. induction a as [|x a IH]; intros b H; [exact H|]. apply IH. exact (occurs_cons _ _ H). Qed.

(* pre st = the marker octets already matched in state st *)
Definition pre (st : nat) : list byte := firstn st marker.

Lemma step_ok : forall st c t, (st < 4)%nat -> occurs (pre st ++ c :: t) = false ->
  (next st c < 4)%nat /\ occurs (pre (next st c) ++ t) = false.
Proof.
  intros st c t Hst H.
  destruct st as [|[|[|[|st]]]]; [| | | |lia]; unfold pre, marker in *; cbn [firstn app] in *.
  - cbn [next]. destruct (c =? 66) eqn:HB.
    + split; [lia|]. cbn [firstn app]. assert (c = 66) by lia. subst c. exact H.
    + split; [lia|]. cbn [firstn app]. exact (occurs_cons _ _ H).
  - cbn [next]. destruct (c =? 85) eqn:HU.
    + split; [lia|]. cbn [firstn app]. assert (c = 85) by lia. subst c. exact H.
    + destruct (c =? 66) eqn:HB.
      * split; [lia|]. cbn [firstn app]. assert (c = 66) by lia. subst c. exact (occurs_cons _ _ H).
      * split; [lia|]. cbn [firstn app]. exact (occurs_cons _ _ (occurs_cons _ _ H)).
  - cbn [next]. destruct (c =? 70) eqn:HF.
    + split; [lia|]. cbn [firstn app]. assert (c = 70) by lia. subst c. exact H.
    + destruct (c =? 66) eqn:HB.
      * split; [lia|]. cbn [firstn app]. assert (c = 66) by lia. subst c.
        exact (occurs_cons _ _ (occurs_cons _ _ H)).
      * split; [lia|]. cbn [firstn app]. exact (occurs_cons _ _ (occurs_cons _ _ (occurs_cons _ _ H))).
  - cbn [next]. destruct (c =? 82) eqn:HR.
    + exfalso. assert (c = 82) by lia. subst c. cbn [occurs starts_bufr] in H.
      rewrite !Z.eqb_refl in H. discriminate.
    + destruct (c =? 66) eqn:HB.
      * split; [lia|]. cbn [firstn app]. assert (c = 66) by lia. subst c.
        exact (occurs_cons _ _ (occurs_cons _ _ (occurs_cons _ _ H))).
      * split; [lia|]. cbn [firstn app].
        exact (occurs_cons _ _ (occurs_cons _ _ (occurs_cons _ _ (occurs_cons _ _ H)))).
Qed.

(* from any state, the marker itself leads to "found" and the four marker octets are removed from the header again *)
Lemma run_marker : forall st acc rest, (st < 4)%nat ->
  run st acc (marker ++ rest) = SFound (rev acc) rest.
Proof.
  intros st acc rest Hst. unfold marker.
  destruct st as [|[|[|[|st]]]]; [| | | |lia]; reflexivity.
Qed.

Lemma run_found : forall sep st acc rest, (st < 4)%nat -> occurs (pre st ++ sep) = false ->
  run st acc (sep ++ marker ++ rest) = SFound (rev acc ++ hdr_view st sep) rest.
Proof.
  induction sep as [|c t IH]; intros st acc rest Hst Hocc.
  - cbn [app hdr_view]. rewrite app_nil_r. apply run_marker. exact Hst.
  - destruct (step_ok st c t Hst Hocc) as [Hn Hocc'].
    cbn [app run hdr_view].
    assert (Hne : Nat.eqb (next st c) 4 = false) by (apply Nat.eqb_neq; lia).
    rewrite Hne. rewrite IH by assumption.
    destruct ((c =? 4) && Nat.eqb st 0); cbn [app rev]; [reflexivity|].
    rewrite <- app_assoc. reflexivity.
Qed.

Lemma run_eof : forall l st acc, (st < 4)%nat -> occurs (pre st ++ l) = false -> run st acc l = SEof.
Proof.
  induction l as [|c t IH]; intros st acc Hst Hocc; [reflexivity|].
  destruct (step_ok st c t Hst Hocc) as [Hn Hocc'].
  cbn [run]. assert (Hne : Nat.eqb (next st c) 4 = false) by (apply Nat.eqb_neq; lia).
  rewrite Hne. apply IH; assumption.
Qed.

Theorem seek_found : forall sep rest, no_bufr sep ->
  seek_start (sep ++ marker ++ rest) = SFound (hdr_view 0 sep) rest.
Proof. intros sep rest H. rewrite seek_start_run. apply (run_found sep 0%nat [] rest); [lia|exact H]. Qed.

Theorem seek_none : forall l, no_bufr l -> seek_start l = SEof.
Proof. intros l H. rewrite seek_start_run. apply run_eof; [lia|exact H]. Qed.

(* without EOT octets the header is the separator itself; in general only EOT octets can be missing *)
Lemma hdr_view_no_eot : forall l st, Forall (fun b => b <> 4) l -> hdr_view st l = l.
Proof.
  induction l as [|c t IH]; intros st H; [reflexivity|].
  inversion H; subst. cbn [hdr_view]. rewrite IH by assumption.
  assert (Hc : (c =? 4) = false) by lia. rewrite Hc. reflexivity.
Qed.

Lemma hdr_view_filter : forall l st,
  filter (fun b => negb (b =? 4)) (hdr_view st l) = filter (fun b => negb (b =? 4)) l.
Proof.
  induction l as [|c t IH]; intros st; [reflexivity|].
  cbn [hdr_view]. rewrite filter_app, IH. cbn [filter].
  destruct (c =? 4) eqn:Hc; cbn [negb andb].
  - destruct (Nat.eqb st 0); cbn [filter app]; rewrite ?Hc; reflexivity.
  - cbn [filter]. rewrite Hc. reflexivity.
Qed.

(* ------------------------------------------------------------------------------------------------------------- *)
(* elementary readers on elementary writers *)
Lemma get1_u8 : forall v l, octet v -> get1 (u8 v ++ l) = Some (v, l).
Proof. intros v l Hv. unfold u8, octet in *. cbn [app get1]. do 2 f_equal. lia. Qed.

Lemma get2_u16 : forall v l, 0 <= v < 65536 -> get2 (u16 v ++ l) = Some (v, l).
Proof. intros v l Hv. unfold u16. cbn [app get2]. do 2 f_equal. lia. Qed.

Lemma get2s_u16 : forall v l, 0 <= v < 32768 -> get2s (u16 v ++ l) = Some (v, l).
Proof.
  intros v l Hv. unfold get2s. rewrite get2_u16 by lia.
  assert (H : (32768 <=? v) = false) by lia. rewrite H. reflexivity.
Qed.

Lemma get3_u24 : forall v l, 0 <= v < 16777216 -> get3 (u24 v ++ l) = Some (v, l).
Proof. intros v l Hv. unfold u24. cbn [app get3]. do 2 f_equal. lia. Qed.

Lemma getn_app : forall a l, getn (zlen a) (a ++ l) = Some (a, l).
Proof.
  intros a l. unfold getn.
  assert (H1 : (zlen a <? 0) = false) by (pose proof (zlen_nonneg a); lia).
  assert (H2 : (zlen a <=? zlen (a ++ l)) = true) by (rewrite zlen_app; pose proof (zlen_nonneg l); lia).
  rewrite H1, H2. unfold zlen. rewrite Nat2Z.id.
  rewrite firstn_app, Nat.sub_diag, firstn_all, firstn_O, app_nil_r.
  rewrite skipn_app, Nat.sub_diag, skipn_all. reflexivity.
Qed.

Lemma getn_app' : forall n a l, n = zlen a -> getn n (a ++ l) = Some (a, l).
Proof. intros n a l ->. apply getn_app. Qed.

Lemma skip_bytes_zeros1 : forall l, skip_bytes 1 (0 :: l) = Some l.
Proof. reflexivity. Qed.

(* ------------------------------------------------------------------------------------------------------------- *)
(* what the wire can carry *)
Definition desc_ok (d : Z) : Prop := 0 <= d /\ d / 100000 < 4 /\ (d / 1000) mod 100 < 64 /\ d mod 1000 < 256.

Record wire_ok (m : msg) : Prop := {
  w_ed : ed m = 2 \/ ed m = 3 \/ ed m = 4;
  w_centre : 0 <= centre (s1 m) < (if ed m =? 3 then 256 else 65536);
  w_sub : 0 <= subcentre (s1 m) < (if ed m =? 3 then 256 else 32768);
  w_upd : octet (upd (s1 m)); w_flag : octet (flag (s1 m)); w_cat : octet (cat (s1 m));
  w_isub : octet (isub (s1 m)); w_lsub : octet (lsub (s1 m)); w_mver : octet (mver (s1 m));
  w_lver : octet (lver (s1 m)); w_year : 0 <= year (s1 m) < 32768; w_month : octet (month (s1 m));
  w_day : octet (day (s1 m)); w_hour : octet (hour (s1 m)); w_minute : octet (minute (s1 m));
  w_second : octet (second (s1 m));
  w_nsub : 0 <= nsub m < 65536; w_s3flag : octet (s3flag m);
  w_descs : Forall desc_ok (descs m);
  w_s4bit : 0 <= s4bit m < 8;
  w_len : lenmsg m < 16777216
}.

(* the message as it can be read back: fields the edition has no octet for take the reader's defaults, the year of
   editions 2/3 is the year of the century, Section 2 and Section 4 carry their padding *)
Definition wire_s1 (m : msg) : sect1 :=
  let s := s1 m in let e := ed m in
  {| master := 0; centre := centre s; subcentre := if e =? 2 then 0 else subcentre s; upd := upd s;
     flag := flag_eff m; cat := cat s; isub := if 4 <=? e then isub s else 0; lsub := lsub s; mver := mver s;
     lver := lver s; year := if 4 <=? e then year s else Z.rem (year s - 1) 100 + 1; month := month s;
     day := day s; hour := hour s; minute := minute s; second := if 4 <=? e then second s else 0 |}.

Definition wire_view (m : msg) (hs : list byte) : msg :=
  {| ed := ed m; s1 := wire_s1 m; s2 := if has2 m then Some (s2data m) else None; nsub := nsub m;
     s3flag := s3flag m; descs := descs m; s4 := s4data m; s4bit := 0; s4cur := 0; hdr := hs |}.

Lemma lor128_octet : forall f, octet f -> octet (Z.lor f 128).
Proof.
  intros f Hf.
  assert (H : ((0 <=? Z.lor f 128) && (Z.lor f 128 <? 256)) = true).
  { revert f Hf. apply octet_forall. vm_compute. reflexivity. }
  unfold octet. lia.
Qed.

Lemma flag_eff_octet : forall m, octet (flag (s1 m)) -> octet (flag_eff m).
Proof. intros m H. unfold flag_eff. destruct (s2 m); [apply lor128_octet|]; exact H. Qed.

(* section lengths are what bufr_end_message says, and are non-negative *)
Lemma s3len_eq : forall m, s3len m = if ed m <=? 3 then 8 + 2 * zlen (descs m) else 7 + 2 * zlen (descs m).
Proof.
  intros m. unfold s3len.
  assert (H7 : Z.odd (7 + 2 * zlen (descs m)) = true) by (rewrite Z.odd_add_mul_2; reflexivity).
  rewrite H7, andb_true_r.
  destruct (ed m =? 3) eqn:E3.
  - assert (H8 : Z.odd (7 + 2 * zlen (descs m) + 1) = false).
    { replace (7 + 2 * zlen (descs m) + 1) with (8 + 2 * zlen (descs m)) by lia. rewrite Z.odd_add_mul_2. reflexivity. }
    rewrite H8, andb_false_r. assert (H3 : (ed m <=? 3) = true) by lia. rewrite H3. lia.
  - rewrite H7, andb_true_r. destruct (ed m <=? 3); lia.
Qed.

Lemma s3len_bounds : forall m, 7 + 2 * zlen (descs m) <= s3len m <= 8 + 2 * zlen (descs m).
Proof. intros m. rewrite s3len_eq. destruct (ed m <=? 3); lia. Qed.

Lemma s2len_nonneg : forall m, 0 <= s2len m.
Proof. intros m. unfold s2len. pose proof (zlen_nonneg (s2data m)). destruct (has2 m); lia. Qed.

Lemma s4len_ge : forall m, 4 <= s4len m.
Proof. intros m. unfold s4len. pose proof (zlen_nonneg (s4data m)). lia. Qed.

Lemma s1len_cases : forall e, (s1len e = 18 /\ s1hdrlen e = 17 /\ (4 <=? e) = false) \/
                              (s1len e = 22 /\ s1hdrlen e = 22 /\ (4 <=? e) = true).
Proof. intros e. unfold s1len, s1hdrlen. destruct (4 <=? e); [right|left]; auto. Qed.

(* ------------------------------------------------------------------------------------------------------------- *)
(* Section 0 *)
Lemma rd_sect0_wr : forall m l, wire_ok m ->
  rd_sect0 (u24 (lenmsg m) ++ u8 (ed m) ++ l) = Some ((lenmsg m, ed m), l).
Proof.
  intros m l W. unfold rd_sect0.
  assert (Hl : 0 <= lenmsg m < 16777216).
  { pose proof (w_len m W). unfold lenmsg in *. pose proof (s2len_nonneg m). pose proof (s3len_bounds m).
    pose proof (s4len_ge m). pose proof (zlen_nonneg (descs m)). destruct (s1len_cases (ed m)) as [Hc|Hc]; lia. }
  rewrite get3_u24 by exact Hl.
  assert (He : octet (ed m)) by (destruct (w_ed m W) as [E|[E|E]]; rewrite E; unfold octet; lia).
  rewrite get1_u8 by exact He.
  assert (Hb : ((ed m <? 2) || (5 <? ed m)) = false) by (destruct (w_ed m W) as [E|[E|E]]; rewrite E; reflexivity).
  rewrite Hb. reflexivity.
Qed.

(* ------------------------------------------------------------------------------------------------------------- *)
(* Section 1 *)
Lemma year_century : forall y, 0 <= y < 32768 -> octet (Z.rem (y - 1) 100 + 1).
Proof.
  intros y Hy. unfold octet.
  destruct (Z.eq_dec y 0) as [->|Hn]; [vm_compute; split; [discriminate|reflexivity]|].
  rewrite Z.rem_mod_nonneg by lia. lia.
Qed.

Ltac step := lazy beta iota; rewrite ?app_nil_l.

Lemma rd_sect1_wr : forall m l, wire_ok m ->
  rd_sect1 (ed m) (sect1_bytes m ++ l) = Some ((wire_s1 m, s1len (ed m), []), l).
Proof.
  intros m l W.
  pose proof (flag_eff_octet m (w_flag m W)) as Hfl.
  pose proof (year_century _ (w_year m W)) as Hyc.
  pose proof (w_centre m W) as Hce. pose proof (w_sub m W) as Hsu. pose proof (w_year m W) as Hyr.
  assert (H0 : octet 0) by (unfold octet; lia).
  unfold sect1_bytes, rd_sect1, wire_s1, s1len, s1hdrlen.
  destruct (w_ed m W) as [E|[E|E]]; rewrite E in *.
  - (* edition 2 *)
    change (4 <=? 2) with false. change (2 =? 3) with false. change (2 =? 2) with true. step.
    change (zeros (18 - 17)) with [0]. rewrite <- !app_assoc.
    rewrite get3_u24 by lia. change (18 <? 18) with false. change (18 =? 18) with true. step.
    rewrite get1_u8 by exact H0. step.
    rewrite get2_u16 by (change (2 =? 3) with false in Hce; lia). step.
    rewrite get1_u8 by apply (w_upd m W). step.
    rewrite get1_u8 by exact Hfl. step.
    rewrite get1_u8 by apply (w_cat m W). step.
    rewrite get1_u8 by apply (w_lsub m W). step.
    rewrite get1_u8 by apply (w_mver m W). step.
    rewrite get1_u8 by apply (w_lver m W). step.
    rewrite get1_u8 by exact Hyc. step.
    rewrite get1_u8 by apply (w_month m W). step.
    rewrite get1_u8 by apply (w_day m W). step.
    rewrite get1_u8 by apply (w_hour m W). step.
    rewrite get1_u8 by apply (w_minute m W). step.
    change (0 <? 0) with false. step.
    change (Z.to_nat (18 - 17 - 0)) with 1%nat. cbn [app]. rewrite skip_bytes_zeros1.
    reflexivity.
  - (* edition 3 *)
    change (4 <=? 3) with false. change (3 =? 3) with true. change (3 =? 2) with false. step.
    change (zeros (18 - 17)) with [0]. rewrite <- !app_assoc.
    rewrite get3_u24 by lia. change (18 <? 18) with false. change (18 =? 18) with true. step.
    rewrite get1_u8 by exact H0. step.
    change (3 =? 3) with true in Hce, Hsu.
    rewrite get1_u8 by exact Hsu. step.
    rewrite get1_u8 by exact Hce. step.
    rewrite get1_u8 by apply (w_upd m W). step.
    rewrite get1_u8 by exact Hfl. step.
    rewrite get1_u8 by apply (w_cat m W). step.
    rewrite get1_u8 by apply (w_lsub m W). step.
    rewrite get1_u8 by apply (w_mver m W). step.
    rewrite get1_u8 by apply (w_lver m W). step.
    rewrite get1_u8 by exact Hyc. step.
    rewrite get1_u8 by apply (w_month m W). step.
    rewrite get1_u8 by apply (w_day m W). step.
    rewrite get1_u8 by apply (w_hour m W). step.
    rewrite get1_u8 by apply (w_minute m W). step.
    change (0 <? 0) with false. step.
    change (Z.to_nat (18 - 17 - 0)) with 1%nat. cbn [app]. rewrite skip_bytes_zeros1.
    reflexivity.
  - (* edition 4 *)
    change (4 <=? 4) with true. change (4 =? 3) with false. change (4 =? 2) with false. step.
    change (zeros (22 - 22)) with (@nil byte). rewrite <- !app_assoc.
    rewrite get3_u24 by lia. change (22 <? 22) with false. change (22 =? 22) with true. step.
    rewrite get1_u8 by exact H0. step.
    change (4 =? 3) with false in Hce, Hsu.
    rewrite get2_u16 by exact Hce. step.
    rewrite get2s_u16 by exact Hsu. step.
    rewrite get1_u8 by apply (w_upd m W). step.
    rewrite get1_u8 by exact Hfl. step.
    rewrite get1_u8 by apply (w_cat m W). step.
    rewrite get1_u8 by apply (w_isub m W). step.
    rewrite get1_u8 by apply (w_lsub m W). step.
    rewrite get1_u8 by apply (w_mver m W). step.
    rewrite get1_u8 by apply (w_lver m W). step.
    rewrite get2s_u16 by exact Hyr. step.
    rewrite get1_u8 by apply (w_month m W). step.
    rewrite get1_u8 by apply (w_day m W). step.
    rewrite get1_u8 by apply (w_hour m W). step.
    rewrite get1_u8 by apply (w_minute m W). step.
    rewrite get1_u8 by apply (w_second m W). step.
    change (0 <? 0) with false. step.
    change (Z.to_nat (22 - 22 - 0)) with 0%nat. cbn [app skip_bytes].
    reflexivity.
Qed.

(* ------------------------------------------------------------------------------------------------------------- *)
(* Section 2 *)
Lemma rd_sect2_wr : forall m l, s2len m < 16777216 ->
  rd_sect2 (flag_eff m) (sect2_bytes m ++ l) =
  Some ((s2len m, if has2 m then Some (s2data m) else None), l).
Proof.
  intros m l Hlen. unfold rd_sect2, sect2_bytes. fold (has2 m).
  pose proof (s2len_nonneg m) as Hnn.
  destruct (has2 m) eqn:H2; [|unfold s2len; rewrite H2; reflexivity].
  rewrite <- !app_assoc. rewrite get3_u24 by lia. step.
  cbn [app get1]. step.
  rewrite getn_app' by (unfold s2len; rewrite H2; lia).
  reflexivity.
Qed.

(* ------------------------------------------------------------------------------------------------------------- *)
(* Section 3 *)
Lemma unpack_pack : forall d l, desc_ok d -> unpack_descs (pack_desc d ++ l) = d :: unpack_descs l.
Proof.
  intros d l (H0 & Hf & Hx & Hy). unfold pack_desc. cbv zeta. cbn [app unpack_descs]. f_equal.
  unfold unpack_desc. cbv zeta. lia.
Qed.

Lemma unpack_descs_pack : forall ds pad, Forall desc_ok ds -> (pad = [] \/ pad = [0]) ->
  unpack_descs (flat_map pack_desc ds ++ pad) = ds.
Proof.
  intros ds pad Hds Hpad. induction Hds as [|d t Hd Ht IH].
  - destruct Hpad as [->| ->]; reflexivity.
  - cbn [flat_map]. rewrite <- app_assoc, unpack_pack by exact Hd. rewrite IH. reflexivity.
Qed.

Lemma zlen_packed : forall ds, zlen (flat_map pack_desc ds) = 2 * zlen ds.
Proof.
  induction ds as [|d t IH]; [reflexivity|].
  cbn [flat_map]. rewrite zlen_app, IH, zlen_cons. unfold pack_desc. cbv zeta. rewrite !zlen_cons, zlen_nil. lia.
Qed.

Lemma rd_sect3_wr : forall m l, wire_ok m ->
  rd_sect3 (sect3_bytes m ++ l) = Some ((s3len m, nsub m, s3flag m, descs m), l).
Proof.
  intros m l W. unfold rd_sect3, sect3_bytes.
  pose proof (s3len_bounds m) as Hb. pose proof (zlen_nonneg (descs m)) as Hn.
  assert (Hl : s3len m < 16777216).
  { pose proof (w_len m W). unfold lenmsg in *. pose proof (s2len_nonneg m). pose proof (s4len_ge m).
    destruct (s1len_cases (ed m)) as [Hc|Hc]; lia. }
  rewrite <- !app_assoc. rewrite get3_u24 by lia. step.
  cbn [app get1]. step.
  rewrite get2_u16 by apply (w_nsub m W). step.
  rewrite get1_u8 by apply (w_s3flag m W). step.
  rewrite app_assoc.
  rewrite getn_app' by (rewrite zlen_app, zlen_packed, zlen_zeros by lia; lia).
  step. rewrite unpack_descs_pack; [reflexivity|apply (w_descs m W)|].
  assert (Hk : s3len m - 7 - 2 * zlen (descs m) = 0 \/ s3len m - 7 - 2 * zlen (descs m) = 1) by lia.
  destruct Hk as [-> | ->]; [left|right]; reflexivity.
Qed.

(* ------------------------------------------------------------------------------------------------------------- *)
(* Sections 4 and 5 *)
Lemma rd_sect4_wr : forall m l lm others, s4len m < 16777216 -> others + s4len m = lm ->
  rd_sect4 lm others (sect4_bytes m ++ l) = Some ((s4len m, s4data m), l).
Proof.
  intros m l lm others Hl Hsum. unfold rd_sect4, sect4_bytes.
  pose proof (s4len_ge m) as Hg.
  rewrite <- !app_assoc. rewrite get3_u24 by lia. step.
  cbn [app get1]. step.
  assert (Hq : (others + s4len m =? lm) = true) by lia. rewrite Hq.
  rewrite getn_app' by (unfold s4len; lia).
  do 3 f_equal. unfold s4len. lia.
Qed.

Lemma rd_sect5_wr : forall l, rd_sect5 (sect5_bytes ++ l) = Some l.
Proof. reflexivity. Qed.

(* ------------------------------------------------------------------------------------------------------------- *)
(* the whole message *)
Definition wr_tail (m : msg) : list byte :=
  u24 (lenmsg m) ++ u8 (ed m) ++ sect1_bytes m ++ sect2_bytes m ++ sect3_bytes m ++ sect4_bytes m ++ sect5_bytes.

Lemma wr_body_eq : forall m, wr_body m = marker ++ wr_tail m.
Proof. intros m. unfold wr_body, wr_tail, sect0_bytes, marker. rewrite <- !app_assoc. reflexivity. Qed.

Definition expected (m : msg) (hs : list byte) (used : Z) : rres :=
  {| r_msg := wire_view m hs; r_lm := lenmsg m; r_s1len := s1len (ed m); r_s1x := []; r_s2len := s2len m;
     r_s3len := s3len m; r_s4len := s4len m; r_used := used |}.

Lemma rd_sections_wr : forall m hs rest, wire_ok m ->
  rd_sections hs (wr_tail m ++ rest) = Some (expected m hs 0, rest).
Proof.
  intros m hs rest W. unfold rd_sections, wr_tail.
  pose proof (w_len m W) as Hlen. pose proof (s2len_nonneg m) as H2. pose proof (s3len_bounds m) as H3.
  pose proof (s4len_ge m) as H4. pose proof (zlen_nonneg (descs m)) as Hn.
  assert (H1 : 18 <= s1len (ed m)) by (destruct (s1len_cases (ed m)) as [Hc|Hc]; lia).
  unfold lenmsg in Hlen.
  rewrite <- !app_assoc.
  rewrite rd_sect0_wr by exact W. step.
  rewrite rd_sect1_wr by exact W. step.
  change (flag (wire_s1 m)) with (flag_eff m).
  rewrite rd_sect2_wr by lia. step.
  rewrite rd_sect3_wr by exact W. step.
  rewrite (rd_sect4_wr m) by (unfold lenmsg; lia). step.
  rewrite rd_sect5_wr. reflexivity.
Qed.

Definition hdr_bytes (m : msg) : list byte :=
  match hdr m with
  | [] => []
  | h => match oct2char h with Some hb => hb | None => [] end
  end.

Lemma wr_ok_inv : forall c m bs, wr c m = WOk bs -> bs = hdr_bytes m ++ wr_body m /\ lenmsg m <= maxlen c.
Proof.
  intros c m bs H. unfold wr in H. destruct (maxlen c <? lenmsg m) eqn:Hm; [discriminate|].
  split; [|lia]. unfold hdr_bytes. destruct (hdr m) as [|h0 ht]; [inversion H; reflexivity|].
  destruct (oct2char (h0 :: ht)); inversion H; reflexivity.
Qed.

Lemma set_used_expected : forall m hs u v, set_used (expected m hs u) v = expected m hs v.
Proof. reflexivity. Qed.

(* reading what was written, after arbitrary foreign bytes and before arbitrary following bytes *)
Theorem read_write : forall c m sep rest bs,
  wire_ok m -> wr c m = WOk bs -> no_bufr (sep ++ hdr_bytes m) ->
  rd c (sep ++ bs ++ rest) =
  Some (expected m (schar2oct c (hdr_view 0 (sep ++ hdr_bytes m))) (zlen sep + zlen bs), rest).
Proof.
  intros c m sep rest bs W Hwr Hnb.
  destruct (wr_ok_inv c m bs Hwr) as [Hbs _]. subst bs.
  unfold rd. rewrite wr_body_eq.
  replace (sep ++ (hdr_bytes m ++ marker ++ wr_tail m) ++ rest)
     with ((sep ++ hdr_bytes m) ++ marker ++ (wr_tail m ++ rest)) by (rewrite <- !app_assoc; reflexivity).
  rewrite seek_found by exact Hnb.
  rewrite rd_sections_wr by exact W.
  rewrite set_used_expected. do 3 f_equal.
  rewrite !zlen_app. lia.
Qed.

(* ------------------------------------------------------------------------------------------------------------- *)
(* streams *)
Definition wr_bytes (c : cfg) (m : msg) : list byte := match wr c m with WOk bs => bs | _ => [] end.

Fixpoint stream_of (c : cfg) (items : list (list byte * msg)) (trail : list byte) : list byte :=
  match items with
  | [] => trail
  | (sep, m) :: t => sep ++ wr_bytes c m ++ stream_of c t trail
  end.

Definition item_ok (c : cfg) (it : list byte * msg) : Prop :=
  wire_ok (snd it) /\ (exists bs, wr c (snd it) = WOk bs) /\ no_bufr (fst it ++ hdr_bytes (snd it)).

Definition item_result (c : cfg) (it : list byte * msg) : rres :=
  expected (snd it) (schar2oct c (hdr_view 0 (fst it ++ hdr_bytes (snd it))))
           (zlen (fst it) + zlen (wr_bytes c (snd it))).

Lemma rd_none_no_marker : forall c l, no_bufr l -> rd c l = None.
Proof. intros c l H. unfold rd. rewrite seek_none by exact H. reflexivity. Qed.

Lemma wr_body_len : forall m, (4 <= length (wr_body m))%nat.
Proof. intros m. rewrite wr_body_eq. unfold marker. rewrite app_length. cbn [length]. lia. Qed.

Lemma rd_stream_items : forall c items trail fuel,
  Forall (item_ok c) items -> no_bufr trail ->
  (length (stream_of c items trail) < fuel)%nat ->
  rd_stream fuel c (stream_of c items trail) = map (item_result c) items.
Proof.
  intros c items trail. induction items as [|[sep m] t IH]; intros fuel Hok Htr Hf.
  - cbn [stream_of map] in *. destruct fuel as [|f]; [lia|]. cbn [rd_stream].
    rewrite rd_none_no_marker by exact Htr. reflexivity.
  - inversion Hok as [|x y Hit Hrest]; subst. destruct Hit as (W & (bs & Hbs) & Hnb). cbn [fst snd] in *.
    cbn [stream_of map] in *. unfold item_result at 1. cbn [fst snd].
    unfold wr_bytes in *. rewrite Hbs in *.
    destruct fuel as [|f]; [lia|]. cbn [rd_stream].
    rewrite (read_write c m sep _ bs W Hbs Hnb).
    f_equal. apply IH; [assumption|assumption|].
    destruct (wr_ok_inv c m bs Hbs) as [Hb _]. pose proof (wr_body_len m) as Hl4.
    rewrite !app_length in Hf. subst bs. rewrite app_length in Hf. lia.
Qed.

(* every message of a concatenated stream is found exactly once and in order; the fuel of rd_all suffices *)
Theorem stream : forall c items trail,
  Forall (item_ok c) items -> no_bufr trail ->
  rd_all c (stream_of c items trail) = map (item_result c) items.
Proof. intros c items trail Hok Htr. unfold rd_all. apply rd_stream_items; [assumption|assumption|lia]. Qed.

(* ------------------------------------------------------------------------------------------------------------- *)
(* framing: lengths stored = bytes written = sum of the sections; parity; end mark *)
Lemma odd_mod : forall x, Z.odd x = (x mod 2 =? 1).
Proof. intros x. rewrite Zmod_odd. destruct (Z.odd x); reflexivity. Qed.
Lemma even_mod : forall x, Z.even x = (x mod 2 =? 0).
Proof. intros x. rewrite Zmod_even. destruct (Z.even x); reflexivity. Qed.

Definition be3 (l : list byte) : Z := match l with [a; b; c] => a * 65536 + b * 256 + c | _ => -1 end.
Lemma be3_u24 : forall v, 0 <= v < 16777216 -> be3 (u24 v) = v.
Proof. intros v Hv. unfold be3, u24. lia. Qed.

Lemma zlen_sect1 : forall m, 2 <= ed m -> zlen (sect1_bytes m) = s1len (ed m).
Proof.
  intros m He. unfold sect1_bytes, s1len, s1hdrlen, u8, u16, u24.
  destruct (ed m =? 2) eqn:E2; destruct (ed m =? 3) eqn:E3; destruct (4 <=? ed m) eqn:E4; try lia;
  lazy beta iota; rewrite ?zlen_app, ?zlen_cons, ?zlen_nil;
  try change (zeros (18 - 17)) with [0]; try change (zeros (22 - 22)) with (@nil byte);
  rewrite ?zlen_cons, ?zlen_nil; unfold zlen; cbn [length]; lia.
Qed.

Lemma zlen_sect2 : forall m, zlen (sect2_bytes m) = s2len m.
Proof.
  intros m. unfold sect2_bytes, s2len, u24. destruct (has2 m); [|reflexivity].
  rewrite ?zlen_app, ?zlen_cons, ?zlen_nil. lia.
Qed.

Lemma zlen_sect3 : forall m, zlen (sect3_bytes m) = s3len m.
Proof.
  intros m. pose proof (s3len_bounds m) as Hb. unfold sect3_bytes, u8, u16, u24.
  rewrite ?zlen_app, ?zlen_cons, ?zlen_nil, zlen_packed, zlen_zeros by lia. lia.
Qed.

Lemma zlen_sect4 : forall m, zlen (sect4_bytes m) = s4len m.
Proof. intros m. unfold sect4_bytes, s4len, u24. rewrite ?zlen_app, ?zlen_cons, ?zlen_nil. lia. Qed.

Lemma zlen_wr_body : forall m, 2 <= ed m -> zlen (wr_body m) = lenmsg m.
Proof.
  intros m He. unfold wr_body, sect0_bytes, sect5_bytes, u8, u24, lenmsg.
  rewrite ?zlen_app, ?zlen_cons, ?zlen_nil, zlen_sect1, zlen_sect2, zlen_sect3, zlen_sect4 by exact He. lia.
Qed.

Lemma s2len_even : forall m, ed m <= 3 -> Z.even (s2len m) = true.
Proof.
  intros m He. unfold s2len, s2data. destruct (has2 m); [|reflexivity].
  destruct (s2 m) as [p|]; [|reflexivity].
  assert (H3 : (ed m <=? 3) = true) by lia. rewrite H3, andb_true_l.
  rewrite even_mod. destruct (Z.odd (zlen p)) eqn:Ho; rewrite odd_mod in Ho;
  rewrite ?zlen_app, ?zlen_cons, ?zlen_nil; lia.
Qed.

Lemma s3len_even : forall m, ed m <= 3 -> Z.even (s3len m) = true.
Proof.
  intros m He. rewrite s3len_eq. assert (H3 : (ed m <=? 3) = true) by lia. rewrite H3.
  rewrite even_mod. lia.
Qed.

Lemma s4len_even : forall m, ed m <= 3 -> 0 <= s4bit m < 8 -> Z.even (s4len m) = true.
Proof.
  intros m He Hb. unfold s4len, s4data.
  assert (H3 : (ed m <=? 3) = true) by lia. rewrite H3, andb_true_l.
  rewrite even_mod.
  destruct (Z.odd (zlen (s4 m) + 4 + (if 0 <? s4bit m then 1 else 0))) eqn:Ho; rewrite odd_mod in Ho;
  destruct (0 <? s4bit m) eqn:Hp; destruct (s4bit m mod 8 =? 0) eqn:Hq;
  rewrite ?zlen_app, ?zlen_cons, ?zlen_nil; lia.
Qed.

Lemma firstn3_u24 : forall v l, firstn 3 (u24 v ++ l) = u24 v.
Proof. reflexivity. Qed.

Theorem framing_lengths : forall c m bs,
  2 <= ed m -> 0 <= s4bit m < 8 -> maxlen c <= 16777215 -> wr c m = WOk bs ->
  let b1 := sect1_bytes m in let b2 := sect2_bytes m in let b3 := sect3_bytes m in let b4 := sect4_bytes m in
  bs = hdr_bytes m ++ marker ++ u24 (lenmsg m) ++ u8 (ed m) ++ b1 ++ b2 ++ b3 ++ b4 ++ [55; 55; 55; 55]
  /\ zlen bs = zlen (hdr_bytes m) + lenmsg m
  /\ be3 (u24 (lenmsg m)) = lenmsg m
  /\ lenmsg m = 8 + zlen b1 + zlen b2 + zlen b3 + zlen b4 + 4
  /\ firstn 3 b1 = u24 (zlen b1)
  /\ (b2 = [] \/ firstn 3 b2 = u24 (zlen b2))
  /\ firstn 3 b3 = u24 (zlen b3)
  /\ firstn 3 b4 = u24 (zlen b4)
  /\ (ed m <= 3 -> Z.even (zlen b1) = true /\ Z.even (zlen b2) = true /\ Z.even (zlen b3) = true /\
                   Z.even (zlen b4) = true /\ Z.even (lenmsg m) = true).
Proof.
  intros c m bs He Hb Hmax Hwr. cbv zeta.
  destruct (wr_ok_inv c m bs Hwr) as [Hbs Hle].
  pose proof (s2len_nonneg m) as H2. pose proof (s3len_bounds m) as H3. pose proof (s4len_ge m) as H4.
  pose proof (zlen_nonneg (descs m)) as Hn.
  assert (H1 : 18 <= s1len (ed m) <= 22) by (destruct (s1len_cases (ed m)) as [Hc|Hc]; lia).
  rewrite zlen_sect1, zlen_sect2, zlen_sect3, zlen_sect4 by exact He.
  split; [|split; [|split; [|split; [|split; [|split; [|split; [|split]]]]]]].
  - rewrite Hbs. unfold wr_body, sect0_bytes, sect5_bytes, marker. rewrite <- !app_assoc. reflexivity.
  - rewrite Hbs, zlen_app, zlen_wr_body by exact He. reflexivity.
  - apply be3_u24. unfold lenmsg in *. lia.
  - reflexivity.
  - unfold sect1_bytes. apply firstn3_u24.
  - unfold sect2_bytes, s2len. destruct (has2 m); [right; apply firstn3_u24|left; reflexivity].
  - unfold sect3_bytes. apply firstn3_u24.
  - unfold sect4_bytes. apply firstn3_u24.
  - intros He3.
    pose proof (s2len_even m He3) as E2. pose proof (s3len_even m He3) as E3. pose proof (s4len_even m He3 Hb) as E4.
    assert (E1 : Z.even (s1len (ed m)) = true).
    { unfold s1len. assert (Hf : (4 <=? ed m) = false) by lia. rewrite Hf. reflexivity. }
    repeat split; try assumption.
    unfold lenmsg. rewrite even_mod in *. lia.
Qed.

(* with the limit of the current code (len_msg <= 2^24 accepted) the stored total length can be wrong *)
Definition s1_zero : sect1 :=
  {| master := 0; centre := 54; subcentre := 0; upd := 0; flag := 0; cat := 0; isub := 0; lsub := 0; mver := 13; lver := 0;
     year := 2024; month := 1; day := 2; hour := 3; minute := 4; second := 5 |}.
Definition bigmsg (n : Z) : msg :=
  {| ed := 4; s1 := s1_zero; s2 := None; nsub := 1; s3flag := 0; descs := []; s4 := zeros n; s4bit := 0; s4cur := 0; hdr := [] |}.

Lemma bigmsg_len : forall n, 0 <= n -> lenmsg (bigmsg n) = n + 45.
Proof.
  intros n Hn. unfold lenmsg, s4len, s4data, s3len, s2len, has2, flag_eff, s1len, bigmsg.
  cbn [ed s1 s2 descs s4 s4bit flag s1_zero].
  change (4 <=? 4) with true. change (4 <=? 3) with false. change (4 =? 3) with false. cbn [andb].
  change (0 <? 0) with false. change (has2flag 0) with false. lazy beta iota.
  rewrite zlen_zeros by exact Hn. change (zlen (@nil Z)) with 0. lia.
Qed.

Theorem framing_total_overflow_refuted :
  exists m bs, 2 <= ed m /\ 0 <= s4bit m < 8 /\ wr cfg_current m = WOk bs /\
               zlen bs = 16777216 /\ firstn 3 (skipn 4 bs) = [0; 0; 0] /\ be3 (firstn 3 (skipn 4 bs)) <> zlen bs.
Proof.
  exists (bigmsg 16777171), (wr_body (bigmsg 16777171)).
  assert (Hl : lenmsg (bigmsg 16777171) = 16777216) by (rewrite bigmsg_len; lia).
  assert (Hw : wr cfg_current (bigmsg 16777171) = WOk (wr_body (bigmsg 16777171))).
  { unfold wr. rewrite Hl. reflexivity. }
  assert (Hz : zlen (wr_body (bigmsg 16777171)) = 16777216).
  { rewrite zlen_wr_body; [exact Hl|]. cbn [ed bigmsg]. lia. }
  assert (Hs : firstn 3 (skipn 4 (wr_body (bigmsg 16777171))) = [0; 0; 0]).
  { rewrite wr_body_eq. unfold marker, wr_tail. cbn [app skipn]. rewrite firstn3_u24, Hl. reflexivity. }
  split; [cbn [ed bigmsg]; lia|]. split; [cbn [s4bit bigmsg]; lia|].
  split; [exact Hw|]. split; [exact Hz|]. split; [exact Hs|].
  rewrite Hs, Hz. unfold be3. lia.
Qed.

(* a concrete message meets the hypotheses (non-vacuity), and the model reads it back after foreign bytes *)
Definition sample_msg : msg :=
  {| ed := 3; s1 := s1_zero; s2 := Some [1; 2; 3]; nsub := 2; s3flag := 192; descs := [1001; 309052; 101000];
     s4 := [165; 90; 255]; s4bit := 3; s4cur := 160; hdr := [65; 92; 48; 49; 50] |}.

Lemma sample_wire_ok : wire_ok sample_msg.
Proof.
  constructor; cbn; unfold octet; try lia.
  repeat constructor; vm_compute; try reflexivity; discriminate.
Qed.

Lemma sample_no_marker : no_bufr ([13; 10; 4; 66; 85] ++ hdr_bytes sample_msg).
Proof. vm_compute. reflexivity. Qed.

Lemma sample_written : exists bs, wr cfg_current sample_msg = WOk bs /\ zlen bs = 62.
Proof. eexists. split; vm_compute; reflexivity. Qed.

(* the header string read back stands for the octets that preceded the marker: written again they are reproduced *)
Lemma schar2oct_nil_inv : forall c raw, schar2oct c raw = [] -> raw = [].
Proof.
  intros c [|b t] H; [reflexivity|]. cbn [schar2oct] in H.
  destruct (needs_esc c b); discriminate.
Qed.

Theorem header_reproduced : forall c m raw,
  Forall octet raw -> (esc_bs c = true \/ Forall (fun b => b <> 92) raw) ->
  hdr_bytes (wire_view m (schar2oct c raw)) = raw.
Proof.
  intros c m raw Ho Hb. unfold hdr_bytes. cbn [hdr wire_view].
  destruct (schar2oct c raw) as [|h0 ht] eqn:E.
  - symmetry. apply (schar2oct_nil_inv c). exact E.
  - rewrite <- E. rewrite escape_roundtrip_gen by assumption. reflexivity.
Qed.

Theorem escape_roundtrip_current_fails :
  ~ (forall s, Forall octet s -> oct2char (schar2oct cfg_current s) = Some s).
Proof.
  intros H. specialize (H [92; 49; 48; 49]).
  assert (Ho : Forall octet [92; 49; 48; 49]) by (repeat constructor; unfold octet; lia).
  specialize (H Ho). vm_compute in H. discriminate.
Qed.
