(* Properties_C01.v — C01: encode (uncompressed) then decode returns every value and the subset structure.
   Statements about the FM 94 reference codec (Fm94.v), which the correspondence run ties to the library's encoder
   (byte equality) and decoder (listing equality).  Values are raw (quantised) values; the physical-value half
   (|x - phys i| < 10^-s / 2) is C08's. *)
From Coq Require Import List ZArith NArith Arith Lia Bool.
From V Require Import Walk Fm94 Fm94Proof Fm94Cor.
Import ListNotations.
Local Open Scope Z_scope.

Theorem C01_roundtrip_bits : forall T ed fuel tmpl subsets b tl,
  enc_plain T ed fuel tmpl subsets = Ok b ->
  dec_plain T ed fuel tmpl (length subsets) (b ++ tl) = Ok (subsets, tl).
Proof. exact plain_roundtrip. Qed.
Print Assumptions C01_roundtrip_bits.

Theorem C01_roundtrip_octets : forall T ed fuel tmpl subsets b,
  enc_plain T ed fuel tmpl subsets = Ok b ->
  exists pad, dec_plain T ed fuel tmpl (length subsets) (bytes_to_bits (bits_to_bytes b)) = Ok (subsets, repeat false pad) /\ (pad < 8)%nat.
Proof. exact plain_roundtrip_octets. Qed.
Print Assumptions C01_roundtrip_octets.

Theorem C01_element_roundtrip : forall f v b tl, enc_elem f v = Ok b -> dec_elem f (b ++ tl) = Ok (v, tl).
Proof. exact elem_rt. Qed.
Print Assumptions C01_element_roundtrip.

Theorem C01_fuel_irrelevant : forall T ed f1 f2 tmpl s r,
  (f1 <= f2)%nat -> walk_enc1 T ed f1 op0 tmpl s = Ok r -> walk_enc1 T ed f2 op0 tmpl s = Ok r.
Proof. exact fuel_monotone. Qed.
Print Assumptions C01_fuel_irrelevant.
