(* BitIO.v — executable mirror of the Section 4 bit-level I/O of API/Sources/bufr_io.c
   (bufr_putbits, bufr_putstring, bufr_put_padstring, bufr_getbits, bufr_skip_bits,
   bufr_getstring, bufr_alloc_sect4 growth).  Definitions only; proofs are in BitProof.v. *)
From Coq Require Import List NArith ZArith Arith Lia.
Import ListNotations.
Local Open Scope N_scope.

(* ---------------------------------------------------------------------- *)
(* Writer.  State = zipper over the section-4 array:
   done_ = completed bytes (s4.filled = length done_), curb = byte under the cursor,
   bitno = bits already used in it, maxd = s4.max_data_len (allocation is maxd+10 bytes). *)
Record wst := { done_ : list N; curb : N; bitno : nat; maxd : N }.

Definition chunk (v:N) (left take:nat) : N :=
  N.land (N.shiftr v (N.of_nat left)) (N.ones (N.of_nat take)).

(* while (nbit_left > 0) loop of bufr_putbits *)
Fixpoint put_loop (fuel:nat) (v:N) (left:nat) (s:wst) : wst :=
  match fuel with
  | O => s
  | S f =>
    if Nat.eqb left 0 then s else
    let take := Nat.min left 8 in
    let left' := (left - take)%nat in
    let b := N.shiftl (chunk v left' take) (N.of_nat (8 - take)) in
    let bn := ((bitno s + take) mod 8)%nat in
    if Nat.eqb bn 0
    then put_loop f v left' {| done_ := done_ s ++ [b]; curb := 0; bitno := 0; maxd := maxd s |}
    else put_loop f v left' {| done_ := done_ s; curb := b; bitno := bn; maxd := maxd s |}
  end.

(* if (filled > max_data_len) bufr_alloc_sect4(max_data_len + 4096) *)
Definition grow (s:wst) : wst :=
  if N.ltb (maxd s) (N.of_nat (length (done_ s)))
  then {| done_ := done_ s; curb := curb s; bitno := bitno s; maxd := maxd s + 4096 |}
  else s.

Definition putbits_core (s:wst) (v:N) (n:nat) : wst :=
  let c0 := if Nat.eqb (bitno s) 0 then 0 else curb s in        (* if (bitno==0) *ptrData = 0 *)
  let p1 := (bitno s mod 8)%nat in
  let take := Nat.min n (8 - p1) in
  let left := (n - take)%nat in
  let move := (8 - bitno s - take)%nat in
  let b := N.lor c0 (N.shiftl (chunk v left take) (N.of_nat move)) in
  let bn := ((bitno s + take) mod 8)%nat in
  let s1 := if Nat.eqb bn 0
            then {| done_ := done_ s ++ [b]; curb := curb s (* next byte: not yet initialised *);
                    bitno := 0; maxd := maxd s |}
            else {| done_ := done_ s; curb := b; bitno := bn; maxd := maxd s |} in
  put_loop left v left s1.

(* bufr_putbits: nbbits<=0 is a no-op; nbbits>64 calls bufr_abort (None here) *)
Definition putbits (s:wst) (v:N) (n:nat) : option wst :=
  if Nat.eqb n 0 then Some s else
  if Nat.ltb 64 n then None else
  Some (grow (putbits_core s v n)).

(* highest array index written by one bufr_putbits call (incl. the "*ptrData = 0" after a completed byte) *)
Definition put_hi (s:wst) (n:nat) : N :=
  N.of_nat (length (done_ s)) + N.of_nat ((bitno s + n) / 8).

Fixpoint putstring (s:wst) (str:list N) : option wst :=
  match str with
  | [] => Some s
  | c :: t => match putbits s c 8 with Some s1 => putstring s1 t | None => None end
  end.

(* bufr_put_padstring(str,len,enclen): first min(len,enclen) bytes then blanks *)
Definition put_padstring (s:wst) (str:list N) (enclen:nat) : option wst :=
  let body := firstn enclen str in
  putstring s (body ++ repeat 32 (enclen - length body)).

(* abstraction: the written bit string as (length, value), and as a byte list *)
Fixpoint bytes_val (l:list N) : N :=
  match l with [] => 0 | b :: t => b * 2^(8 * N.of_nat (length t)) + bytes_val t end.

Definition slen (s:wst) : N := 8 * N.of_nat (length (done_ s)) + N.of_nat (bitno s).
Definition sval (s:wst) : N :=
  bytes_val (done_ s) * 2^(N.of_nat (bitno s)) +
  (if Nat.eqb (bitno s) 0 then 0 else curb s / 2^(N.of_nat (8 - bitno s))).
(* the section bytes as bufr_end_message sees them (a partial last byte counts) *)
Definition wbytes (s:wst) : list N :=
  if Nat.eqb (bitno s) 0 then done_ s else done_ s ++ [curb s].

Definition WF (s:wst) : Prop :=
  (bitno s < 8)%nat /\ Forall (fun b => b < 256) (done_ s) /\
  (bitno s <> 0%nat -> curb s < 256 /\ curb s mod 2^(N.of_nat (8 - bitno s)) = 0).
(* allocation invariant at entry of every write: filled <= max_data_len *)
Definition WFalloc (s:wst) : Prop := N.of_nat (length (done_ s)) <= maxd s.

Definition winit (len:N) : wst := {| done_ := []; curb := 0; bitno := 0; maxd := len |}.

(* ---------------------------------------------------------------------- *)
(* Reader (after the "fix:" commit: a fully consumed section leaves cur = L;
   zero-length requests are no-ops; skip has the same entry check as get). *)
Record rst := { cur : nat; rbit : nat }.

Definition take_bits (b:N) (shift take:nat) : N :=
  N.land (N.shiftr b (N.of_nat shift)) (N.ones (N.of_nat take)).

(* every array read goes through this: None = access outside the section *)
Definition rd_byte (d:list N) (L:nat) (i:nat) : option N :=
  if Nat.ltb i L then nth_error d i else None.

Inductive rres := ROob | RRes (bits:N) (err:Z) (s:rst).

Fixpoint get_loop (fuel:nat) (d:list N) (L:nat) (nbbits:nat) (left nread:nat) (bits:N) (s:rst) : rres :=
  match fuel with
  | O => RRes bits 0%Z s
  | S f =>
    if Nat.eqb left 0 then RRes bits 0%Z s else
    let take := Nat.min left 8 in
    let left' := (left - take)%nat in
    match rd_byte d L (cur s) with
    | None => ROob
    | Some byte =>
      let bits' := N.lor (N.shiftl bits (N.of_nat take)) (take_bits byte (8 - take) take) in
      let nread' := (nread + take)%nat in
      let bn := ((rbit s + take) mod 8)%nat in
      if Nat.eqb bn 0 then
        if Nat.leb (L - 1) (cur s)                      (* ptrData >= data + max_data_len - 1 *)
        then RRes bits' (if Nat.ltb nread' nbbits then (-1)%Z else 0%Z) {| cur := S (cur s); rbit := 0 |}
        else get_loop f d L nbbits left' nread' bits' {| cur := S (cur s); rbit := 0 |}
      else get_loop f d L nbbits left' nread' bits' {| cur := cur s; rbit := bn |}
    end
  end.

Definition getbits (d:list N) (L:nat) (s:rst) (n:nat) : rres :=
  if Nat.ltb 64 n then RRes 0 (-2)%Z s else
  if Nat.eqb n 0 then RRes 0 0%Z s else
  if Nat.leb L (cur s) then RRes 0 (-1)%Z s else
  let p1 := (rbit s mod 8)%nat in
  let take := Nat.min n (8 - p1) in
  let left := (n - take)%nat in
  match rd_byte d L (cur s) with
  | None => ROob
  | Some byte =>
    let bits := take_bits byte (8 - (take + p1)) take in
    let bn := ((rbit s + take) mod 8)%nat in
    if Nat.eqb bn 0 then
      if andb (Nat.leb (L - 1) (cur s)) (Nat.ltb take n) then RRes 0 (-1)%Z s
      else get_loop left d L n left take bits {| cur := S (cur s); rbit := 0 |}
    else get_loop left d L n left take bits {| cur := cur s; rbit := bn |}
  end.

(* bufr_skip_bits: same cursor arithmetic, no data access *)
Fixpoint skip_loop (fuel:nat) (L nbbits left nread:nat) (s:rst) : Z * rst :=
  match fuel with
  | O => (0%Z, s)
  | S f =>
    if Nat.eqb left 0 then (0%Z, s) else
    let take := Nat.min left 8 in
    let nread' := (nread + take)%nat in
    let bn := ((rbit s + take) mod 8)%nat in
    if Nat.eqb bn 0 then
      if Nat.leb (L - 1) (cur s)
      then ((if Nat.ltb nread' nbbits then (-1)%Z else 0%Z), {| cur := S (cur s); rbit := 0 |})
      else skip_loop f L nbbits (left - take) nread' {| cur := S (cur s); rbit := 0 |}
    else skip_loop f L nbbits (left - take) nread' {| cur := cur s; rbit := bn |}
  end.

Definition skip_bits (L:nat) (s:rst) (n:nat) : Z * rst :=
  if Nat.eqb n 0 then (0%Z, s) else
  if Nat.leb L (cur s) then ((-1)%Z, s) else
  let p1 := (rbit s mod 8)%nat in
  let take := Nat.min n (8 - p1) in
  let left := (n - take)%nat in
  let bn := ((rbit s + take) mod 8)%nat in
  if Nat.eqb bn 0 then
    if andb (Nat.leb (L - 1) (cur s)) (Nat.ltb take n) then ((-1)%Z, s)
    else skip_loop left L n left take {| cur := S (cur s); rbit := 0 |}
  else skip_loop left L n left take {| cur := cur s; rbit := bn |}.

(* bufr_getstring: len reads of 8 bits; stops at the first error (the byte of the failing read is stored) *)
Fixpoint getstring (d:list N) (L:nat) (s:rst) (len:nat) (acc:list N) : option (list N * Z * rst) :=
  match len with
  | O => Some (rev acc, 0%Z, s)
  | S k => match getbits d L s 8 with
           | ROob => None
           | RRes c e s1 => if Z.ltb e 0 then Some (rev (N.land c 255 :: acc), e, s1)
                            else getstring d L s1 k (N.land c 255 :: acc)
           end
  end.

(* ---------------------------------------------------------------------- *)
(* Specification side: the bit string of a byte list, MSB first. *)
Definition bit_at (d:list N) (i:nat) : bool := N.testbit (nth (i / 8) d 0) (N.of_nat (7 - i mod 8)).
(* value of the n bits starting at bit p, most significant first *)
Fixpoint rd (d:list N) (p n:nat) : N :=
  match n with O => 0 | S k => 2 * rd d p k + N.b2n (bit_at d (p + k)) end.
Definition rpos (s:rst) : nat := (8 * cur s + rbit s)%nat.
