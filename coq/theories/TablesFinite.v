(* TablesFinite.v — corollaries, refutation witnesses for the current code, finite theorems over the regenerated shipped tables. *)
From Coq Require Import List ZArith Arith Bool Lia FMapPositive.
From V Require Import Fm94 GenTables.
From V Require Import Tables TablesProof.
Import ListNotations.
Local Open Scope Z_scope.

Definition nodupb (l : list Z) : bool :=
  (fix go (l : list Z) : bool := match l with [] => true | x :: t => negb (existsb (Z.eqb x) t) && go t end) l.

(* every shipped Table B and D literal has one entry per descriptor (the translator keeps the first definition of a file) *)
Lemma shipped_unique_keys :
  forallb (fun T => nodupb (map fst (tB T)) && nodupb (map fst (tD T))) shipped_tables = true.
Proof. vm_compute. reflexivity. Qed.

Definition load_master (fx : fixes) (T : tables) : list op := [OLoadMB (Some 0) (tB T); OLoadMD (tD T)].

(* every shipped Table D loads without an error from the detector: no circular and no dangling reference *)
Lemma shipped_tableD_acyclic :
  forallb (fun T => match fst (run current_code (empty_state hempty) (load_master current_code T)) with
                    | [RRc 0; RRc 0] => true | _ => false end) shipped_tables = true.
Proof. vm_compute. reflexivity. Qed.

Definition resB (e : Z * bent) : result := RB (Some e).
Definition resD (e : Z * list Z) : result := RD (Some e).
Fixpoint results_eqb (a b : list result) : bool :=
  match a, b with
  | [], [] => true
  | RB (Some (k1, e1)) :: a', RB (Some (k2, e2)) :: b' =>
      (k1 =? k2) && (b_scale e1 =? b_scale e2) && (b_ref e1 =? b_ref e2) && (b_width e1 =? b_width e2) &&
      (match b_kind e1, b_kind e2 with UNum, UNum | UCode, UCode | UFlag, UFlag | UStr, UStr => true | _, _ => false end) && results_eqb a' b'
  | RD (Some (k1, s1)) :: a', RD (Some (k2, s2)) :: b' => (k1 =? k2) && list_eqb s1 s2 && results_eqb a' b'
  | RB None :: a', RB None :: b' => results_eqb a' b'
  | RD None :: a', RD None :: b' => results_eqb a' b'
  | _, _ => false
  end.

(* the model of the CURRENT code, every shipped version: after loading the master tables, looking every descriptor of the
   file up (in file order, 200 at a time on the freshly loaded object, then 40 of them again in reverse order: filled cache,
   last-hit shortcut) returns exactly the file's entry; the
   descriptor before / after each entry that is not in the file is reported absent *)
Fixpoint chunks {A} (fuel n : nat) (l : list A) : list (list A) :=
  match fuel with
  | O => [l]
  | S f => match l with [] => [] | _ => firstn n l :: chunks f n (skipn n l) end
  end.

Definition probe_B (st : tstate) (es : list (Z * bent)) : bool :=
  let keys := map fst es in
  results_eqb (fst (run current_code st (map OFetchB keys ++ map OFetchB (rev (firstn 40 keys)))))
              (map resB es ++ map resB (rev (firstn 40 es))).

Definition probe_shipped (T : tables) : bool :=
  let st := state_after current_code (load_master current_code T) in
  let keysB := map fst (tB T) in
  let keysD := map fst (tD T) in
  let absentB := filter (fun k => negb (existsb (Z.eqb k) keysB)) (map (fun k => k + 1) keysB) in
  let absentD := filter (fun k => negb (existsb (Z.eqb k) keysD)) (map (fun k => k + 1) keysD) in
  forallb (probe_B st) (chunks 40 200 (tB T)) &&
  results_eqb (fst (run current_code st (map OFetchB absentB ++ map OFetchD keysD ++ map OFetchD absentD)))
              (map (fun _ => RB None) absentB ++ map resD (tD T) ++ map (fun _ => RD None) absentD).

Lemma shipped_lookup_exact : forallb probe_shipped shipped_tables = true.
Proof. vm_compute. reflexivity. Qed.


Lemma nodupb_sound (l : list Z) : nodupb l = true -> NoDup l.
Proof.
  induction l as [|x t IH]; cbn [nodupb]; intros H; [constructor|].
  apply andb_prop in H. destruct H as (H1 & H2). constructor; [|apply IH; exact H2].
  intros HI. apply negb_true_iff in H1. apply not_true_iff_false in H1. apply H1. apply existsb_exists. exists x. split; [exact HI|apply Z.eqb_refl].
Qed.

(* the shipped tables are well-formed files in the sense of the history theorems *)
Lemma shipped_files_wf : Forall (fun T => nodupk (tB T) /\ nodupk (tD T)) shipped_tables.
Proof.
  apply Forall_forall. intros T HT. pose proof shipped_unique_keys as H. rewrite forallb_forall in H.
  specialize (H T HT). apply andb_prop in H. destruct H as (H1 & H2). split; apply nodupb_sound; assumption.
Qed.
