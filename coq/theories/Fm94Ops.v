(* Fm94Ops.v — what the Table C operators 2 01 - 2 08 do to a data field (lemmas about Fm94.mk_field / resolve / post). *)
From Coq Require Import List ZArith NArith Arith Lia Bool.
From V Require Import Walk Fm94.
Import ListNotations.
Local Open Scope Z_scope.
Ltac Zify.zify_post_hook ::= Z.div_mod_to_equations.
Arguments dY : simpl never.
Arguments dX : simpl never.
Arguments dF : simpl never.

Definition kind_of (k:ukind) : fkind := match k with UNum => FNum | UCode => FCode | UFlag => FFlag | UStr => FStr end.

(* class 31 elements are never touched by any operator *)
Lemma class31_untouched T st d e :
  lookupB T d = Some e -> dX d = 31 ->
  mk_field T st d = Ok (mkF d (kind_of (b_kind e)) (b_width e) (b_scale e) (b_ref e) 0).
Proof.
  intros H Hx. unfold mk_field. rewrite H, Hx. cbn. destruct (b_kind e); reflexivity.
Qed.

(* code and flag tables: width, scale and reference are the table's, whatever 2 01 / 2 02 / 2 03 / 2 06 / 2 07 / 2 08 say; only 2 04 adds its prefix *)
Lemma code_flag_only_af T st d e :
  lookupB T d = Some e -> dX d <> 31 -> (b_kind e = UCode \/ b_kind e = UFlag) ->
  mk_field T st d = Ok (mkF d (kind_of (b_kind e)) (b_width e) (b_scale e) (b_ref e) (afw st)).
Proof.
  intros H Hx Hk. unfold mk_field. rewrite H.
  destruct (dX d =? 31) eqn:E; [apply Z.eqb_eq in E; contradiction|].
  destruct Hk as [-> | ->]; reflexivity.
Qed.

(* character elements: only 2 08 (width in octets) and 2 04 (prefix) apply *)
Lemma string_only_208_and_af T st d e :
  lookupB T d = Some e -> dX d <> 31 -> b_kind e = UStr ->
  mk_field T st d = Ok (mkF d FStr (if 0 <? o_cw st then 8 * o_cw st else b_width e) (b_scale e) (b_ref e) (afw st)).
Proof.
  intros H Hx Hk. unfold mk_field. rewrite H.
  destruct (dX d =? 31) eqn:E; [apply Z.eqb_eq in E; contradiction|].
  rewrite Hk. reflexivity.
Qed.

(* numeric elements outside a 2 03 definition and without a pending 2 06: width + (Y-128) [2 01] + (10Y+2)/3 [2 07],
   scale + (Y-128) [2 02] + Y [2 07], reference (new value from 2 03 if any) x 10^Y [2 07], prefix of all nested 2 04 *)
Lemma numeric_operators T st d e :
  lookupB T d = Some e -> dX d <> 31 -> b_kind e = UNum -> o_refdef st <= 0 -> (is_local d = false \/ o_locw st <= 0) ->
  mk_field T st d = Ok (mkF d FNum
     (b_width e + o_dw st + (if o_207 st =? 0 then 0 else (10 * o_207 st + 2) / 3))
     (b_scale e + o_ds st + o_207 st)
     ((match assoc d (o_refs st) with Some r => r | None => b_ref e end) * 10 ^ o_207 st)
     (afw st)).
Proof.
  intros H Hx Hk Hr Hl. unfold mk_field. rewrite H.
  destruct (dX d =? 31) eqn:E; [apply Z.eqb_eq in E; contradiction|].
  rewrite Hk.
  destruct (0 <? o_refdef st) eqn:R; [apply Z.ltb_lt in R; lia|].
  assert (is_local d && (0 <? o_locw st) = false) as ->.
  { destruct Hl as [-> | Hl]; [reflexivity|]. destruct (0 <? o_locw st) eqn:L; [apply Z.ltb_lt in L; lia|]. apply andb_false_r. }
  reflexivity.
Qed.

(* inside 2 03 YYY ... 2 03 255 every numeric element is an operand of YYY bits carrying a new reference value, without prefix *)
Lemma refdef_operand T st d e :
  lookupB T d = Some e -> dX d <> 31 -> b_kind e = UNum -> 0 < o_refdef st ->
  mk_field T st d = Ok (mkF d FRefDef (o_refdef st) 0 0 0).
Proof.
  intros H Hx Hk Hr. unfold mk_field. rewrite H.
  destruct (dX d =? 31) eqn:E; [apply Z.eqb_eq in E; contradiction|].
  rewrite Hk. apply Z.ltb_lt in Hr. rewrite Hr. reflexivity.
Qed.

(* the operand's value becomes the reference of that element: sign bit + magnitude *)
Lemma refdef_takes_effect st d w n :
  assoc d (o_refs (post st (mkF d FRefDef w 0 0 0) (mkD 0 (VRaw n)))) = Some (refdef_value w n).
Proof. cbn. rewrite Z.eqb_refl. reflexivity. Qed.

Lemma refdef_value_sign w m : 1 < w -> 0 <= m < 2 ^ (w - 1) ->
  refdef_value w (Z.to_N m) = m /\ (0 < m -> refdef_value w (Z.to_N (2 ^ (w - 1) + m)) = - m).
Proof.
  intros Hw Hm. unfold refdef_value. rewrite !Z2N.id by lia. split.
  - destruct (2 ^ (w - 1) <=? m) eqn:E; [apply Z.leb_le in E; lia | reflexivity].
  - intro Hp. destruct (2 ^ (w - 1) <=? 2 ^ (w - 1) + m) eqn:E; [lia | apply Z.leb_gt in E; lia].
Qed.

(* cancellation and nesting *)
Lemma cancel_201 ed st y : 0 < y < 256 -> dX (201000 + y) = 1 /\
  forall st1, resolve ed st (201000 + y) = Ok st1 -> o_dw st1 = y - 128 /\
  exists st2, resolve ed st1 201000 = Ok st2 /\ o_dw st2 = 0 /\ o_ds st2 = o_ds st /\ o_af st2 = o_af st /\ o_cw st2 = o_cw st /\ o_207 st2 = o_207 st.
Proof.
  intros Hy. assert (Hx : dX (201000 + y) = 1) by (unfold dX; lia).
  assert (Hyy : dY (201000 + y) = y) by (unfold dY; lia).
  split; [exact Hx|]. intros st1 H. unfold resolve in H. rewrite Hx, Hyy in H. cbn in H.
  destruct (y =? 0) eqn:E; [apply Z.eqb_eq in E; lia|]. inversion H; subst. cbn. split; [reflexivity|].
  eexists. split; [reflexivity|]. cbn. repeat split.
Qed.

Lemma af_nesting ed st y : 0 < y < 256 ->
  exists st1, resolve ed st (204000 + y) = Ok st1 /\ afw st1 = y + afw st /\
  exists st2, resolve ed st1 204000 = Ok st2 /\ afw st2 = afw st /\ o_af st2 = o_af st.
Proof.
  intros Hy. assert (Hx : dX (204000 + y) = 4) by (unfold dX; lia).
  assert (Hyy : dY (204000 + y) = y) by (unfold dY; lia).
  unfold resolve. rewrite Hx, Hyy. cbn.
  destruct (y =? 0) eqn:E; [apply Z.eqb_eq in E; lia|].
  eexists. split; [reflexivity|]. split; [reflexivity|].
  eexists. split; [reflexivity|]. split; reflexivity.
Qed.

(* resolve, operator by operator *)
Lemma resolve_201 ed st d : dX d = 1 -> resolve ed st d = Ok (set_dw st (if dY d =? 0 then 0 else dY d - 128)).
Proof. intro H. unfold resolve. rewrite H. reflexivity. Qed.
Lemma resolve_202 ed st d : dX d = 2 -> resolve ed st d = Ok (set_ds st (if dY d =? 0 then 0 else dY d - 128)).
Proof. intro H. unfold resolve. rewrite H. reflexivity. Qed.
Lemma resolve_203 ed st d : dX d = 3 -> resolve ed st d =
  if dY d =? 255 then Ok (set_refdef st 0) else if dY d =? 0 then Ok (set_refs (set_refdef st 0) []) else Ok (set_refdef st (dY d)).
Proof. intro H. unfold resolve. rewrite H. reflexivity. Qed.
Lemma resolve_204 ed st d : dX d = 4 -> resolve ed st d =
  if dY d =? 0 then Ok (set_af st (tl (o_af st))) else Ok (set_af st (dY d :: o_af st)).
Proof. intro H. unfold resolve. rewrite H. reflexivity. Qed.
Lemma resolve_206 ed st d : dX d = 6 -> resolve ed st d = Ok (set_locw st (dY d)).
Proof. intro H. unfold resolve. rewrite H. reflexivity. Qed.
Lemma resolve_207 ed st d : dX d = 7 -> resolve ed st d = if ed <? 4 then Err Reject else Ok (set_207 st (dY d)).
Proof. intro H. unfold resolve. rewrite H. reflexivity. Qed.
Lemma resolve_208 ed st d : dX d = 8 -> resolve ed st d = if ed <? 4 then Err Reject else Ok (set_cw st (dY d)).
Proof. intro H. unfold resolve. rewrite H. reflexivity. Qed.

(* 2 07 and 2 08 exist from edition 4 on; 2 01 - 2 06 in every edition *)
Lemma edition_gate ed st y : 0 <= y < 256 ->
  (ed < 4 -> resolve ed st (207000 + y) = Err Reject /\ resolve ed st (208000 + y) = Err Reject) /\
  (4 <= ed -> (exists s, resolve ed st (207000 + y) = Ok s) /\ (exists s, resolve ed st (208000 + y) = Ok s)) /\
  (exists s, resolve ed st (201000 + y) = Ok s) /\ (exists s, resolve ed st (202000 + y) = Ok s) /\
  (exists s, resolve ed st (203000 + y) = Ok s) /\ (exists s, resolve ed st (204000 + y) = Ok s) /\ (exists s, resolve ed st (206000 + y) = Ok s).
Proof.
  intros Hy.
  assert (X7 : dX (207000 + y) = 7) by (unfold dX; lia).
  assert (X8 : dX (208000 + y) = 8) by (unfold dX; lia).
  assert (X1 : dX (201000 + y) = 1) by (unfold dX; lia).
  assert (X2 : dX (202000 + y) = 2) by (unfold dX; lia).
  assert (X3 : dX (203000 + y) = 3) by (unfold dX; lia).
  assert (X4 : dX (204000 + y) = 4) by (unfold dX; lia).
  assert (X6 : dX (206000 + y) = 6) by (unfold dX; lia).
  rewrite (resolve_207 _ _ _ X7), (resolve_208 _ _ _ X8), (resolve_201 _ _ _ X1), (resolve_202 _ _ _ X2),
          (resolve_203 _ _ _ X3), (resolve_204 _ _ _ X4), (resolve_206 _ _ _ X6).
  split; [|split].
  - intro H. apply Z.ltb_lt in H. rewrite H. split; reflexivity.
  - intro H. assert (ed <? 4 = false) as -> by (apply Z.ltb_ge; lia). split; eexists; reflexivity.
  - repeat split; try (eexists; reflexivity).
    + destruct (dY (203000 + y) =? 255); [eexists; reflexivity|]. destruct (dY (203000 + y) =? 0); eexists; reflexivity.
    + destruct (dY (204000 + y) =? 0); eexists; reflexivity.
Qed.

(* 2 06 YYY describes only the immediately following local descriptor *)
Lemma op206_one_shot T st d y : 0 < y ->
  lookupB T d = None -> is_local d = true ->
  mk_field T (set_locw st y) d = Ok (mkF d FNum y 0 0 (afw st)) /\
  forall v, o_locw (post (set_locw st y) (mkF d FNum y 0 0 (afw st)) v) = 0.
Proof.
  intros Hy Hl Hloc. apply Z.ltb_lt in Hy. split.
  - unfold mk_field. rewrite Hl, Hloc. unfold set_locw, o_locw, afw, o_af. rewrite Hy. reflexivity.
  - intro v. unfold post, f_kind, set_locw, o_locw. rewrite Hy. reflexivity.
Qed.
