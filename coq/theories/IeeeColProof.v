(* IeeeColProof.v — the compressed 2 09 YYY column convention (IeeeCol.v): round trip and range = slice, for every column. *)
From Coq Require Import List NArith Arith Lia Bool.
From V Require Import Walk Fm94 Fm94Proof IeeeCol.
Import ListNotations.

Lemma skipn_len_app {A} (x y:list A) k : skipn (length x + k) (x ++ y) = skipn k y.
Proof. induction x as [|h t IH]; cbn [length app Nat.add skipn]; [reflexivity|exact IH]. Qed.

Lemma in_firstn' {A} (x:A) n l : In x (firstn n l) -> In x l.
Proof. revert l; induction n as [|n IH]; intros l H; [destruct H|]. destruct l as [|h t]; [destruct H|].
  cbn [firstn] in H. destruct H as [H|H]; [left; exact H|right; apply IH; exact H]. Qed.

Lemma in_skipn' {A} (x:A) n l : In x (skipn n l) -> In x l.
Proof. revert l; induction n as [|n IH]; intros l H; [exact H|]. destruct l as [|h t]; [destruct H|].
  cbn [skipn] in H. right. apply IH. exact H. Qed.

Lemma flat_enc_length w vals : length (flat_map (enc_n w) vals) = w * length vals.
Proof. induction vals as [|v t IH]; cbn [flat_map length]; [lia|]. rewrite app_length, enc_n_length, IH. lia. Qed.

Lemma dec_vals_flat w vals tl :
  Forall (fun v => (v < 2 ^ N.of_nat w)%N) vals ->
  dec_vals (length vals) w (flat_map (enc_n w) vals ++ tl) = Some (vals, tl).
Proof.
  induction vals as [|v t IH]; intros HF; cbn [length dec_vals flat_map]; [reflexivity|].
  inversion HF as [|? ? Hv Ht]; subst.
  rewrite <- app_assoc, dec_enc_n_small by exact Hv.
  rewrite IH by exact Ht. reflexivity.
Qed.

Lemma skipn_flat w k vals tl : k <= length vals ->
  skipn (w * k) (flat_map (enc_n w) vals ++ tl) = flat_map (enc_n w) (skipn k vals) ++ tl.
Proof.
  revert vals; induction k as [|k IH]; intros vals Hk.
  - rewrite Nat.mul_0_r. reflexivity.
  - destruct vals as [|v t]; cbn [length] in Hk; [lia|].
    cbn [flat_map skipn]. rewrite <- app_assoc.
    replace (w * S k) with (length (enc_n w v) + w * k) by (rewrite enc_n_length; lia).
    rewrite skipn_len_app. apply IH. lia.
Qed.

Lemma pats_equal_repeat v0 t : pats_equal (v0 :: t) = true -> v0 :: t = repeat v0 (S (length t)).
Proof.
  cbn [pats_equal]. intros H. cbn [repeat]. f_equal.
  induction t as [|x t IH]; [reflexivity|].
  cbn [forallb] in H. apply andb_true_iff in H. destruct H as [Hx Ht].
  apply N.eqb_eq in Hx. subst x. cbn [length repeat]. f_equal. apply IH. exact Ht.
Qed.

Lemma six_small (w:nat) : 8 <= w -> w < 512 -> (N.of_nat (w / 8) < 2 ^ N.of_nat 6)%N /\ N.of_nat (w / 8) <> 0%N.
Proof.
  intros H1 H2. assert (1 <= w / 8) by (apply Nat.div_le_lower_bound; lia).
  assert (w / 8 < 64) by (apply Nat.div_lt_upper_bound; lia).
  change (2 ^ N.of_nat 6)%N with 64%N. lia.
Qed.

Lemma zero_small w : (0 < 2 ^ N.of_nat w)%N.
Proof. apply N.neq_0_lt_0, N.pow_nonzero. discriminate. Qed.

Theorem ieee_col_roundtrip w vals tl :
  8 <= w -> w < 512 -> vals <> [] -> Forall (fun v => (v < 2 ^ N.of_nat w)%N) vals ->
  ieee_col_dec w (length vals) (ieee_col_enc w vals ++ tl) = Some (vals, tl).
Proof.
  intros Hw1 Hw2 Hne HF. destruct vals as [|v0 t]; [congruence|].
  unfold ieee_col_enc, ieee_col_dec.
  destruct (pats_equal (v0 :: t)) eqn:E.
  - inversion HF as [|? ? Hv _]; subst.
    rewrite <- app_assoc, dec_enc_n_small by exact Hv.
    rewrite dec_enc_n_small by (change (2 ^ N.of_nat 6)%N with 64%N; lia).
    cbn [N.eqb]. rewrite (pats_equal_repeat v0 t E) at 2. reflexivity.
  - destruct (six_small w Hw1 Hw2) as [S6 N6].
    rewrite <- !app_assoc, dec_enc_n_small by apply zero_small.
    rewrite dec_enc_n_small by exact S6.
    destruct (N.eqb_spec (N.of_nat (w / 8)) 0) as [Z|_]; [congruence|].
    apply dec_vals_flat. exact HF.
Qed.

Theorem ieee_col_range w vals a b tl :
  8 <= w -> w < 512 -> Forall (fun v => (v < 2 ^ N.of_nat w)%N) vals ->
  1 <= a -> a <= b -> b <= length vals ->
  ieee_col_dec_range w (length vals) a b (ieee_col_enc w vals ++ tl) = Some (slice a b vals, tl).
Proof.
  intros Hw1 Hw2 HF Ha Hab Hb. destruct vals as [|v0 t]; [cbn [length] in Hb; lia|].
  unfold ieee_col_enc, ieee_col_dec_range.
  destruct (pats_equal (v0 :: t)) eqn:E.
  - inversion HF as [|? ? Hv _]; subst.
    rewrite <- app_assoc, dec_enc_n_small by exact Hv.
    rewrite dec_enc_n_small by (change (2 ^ N.of_nat 6)%N with 64%N; lia).
    cbn [N.eqb]. f_equal. f_equal.
    unfold slice. rewrite (pats_equal_repeat v0 t E).
    (* a slice of a constant list is a constant list *)
    assert (R: forall k n, skipn k (repeat v0 n) = repeat v0 (n - k)).
    { induction k as [|k IH]; intros n; [rewrite Nat.sub_0_r; reflexivity|].
      destruct n as [|n]; [reflexivity|]. cbn [repeat skipn]. apply IH. }
    assert (Fr: forall k n, k <= n -> firstn k (repeat v0 n) = repeat v0 k).
    { induction k as [|k IH]; intros n Hk; [reflexivity|].
      destruct n as [|n]; [lia|]. cbn [repeat firstn]. f_equal. apply IH. lia. }
    rewrite R, Fr; [reflexivity|]. cbn [length] in Hb. lia.
  - destruct (six_small w Hw1 Hw2) as [S6 N6].
    rewrite <- !app_assoc, dec_enc_n_small by apply zero_small.
    rewrite dec_enc_n_small by exact S6.
    destruct (N.eqb_spec (N.of_nat (w / 8)) 0) as [Z|_]; [congruence|].
    set (vals := v0 :: t) in *.
    unfold skip_bits at 1.
    rewrite app_length, flat_enc_length.
    assert (L1: Nat.leb (w * (a - 1)) (w * length vals + length tl) = true).
    { apply Nat.leb_le. assert (w * (a - 1) <= w * length vals) by (apply Nat.mul_le_mono_l; lia). lia. }
    rewrite L1, skipn_flat by lia.
    set (rest := skipn (a - 1) vals).
    assert (Lr: length rest = length vals - (a - 1)) by (unfold rest; apply skipn_length).
    set (m := b - a + 1).
    rewrite <- (firstn_skipn m rest) at 1. rewrite flat_map_app, <- app_assoc.
    assert (Lf: length (firstn m rest) = m) by (rewrite firstn_length; unfold m; lia).
    assert (HFf: Forall (fun v => (v < 2 ^ N.of_nat w)%N) (firstn m rest)).
    { apply Forall_forall. intros x Hx. apply (proj1 (Forall_forall _ _) HF).
      unfold rest in Hx. eapply in_skipn', in_firstn'; exact Hx. }
    rewrite <- Lf at 1. rewrite dec_vals_flat by exact HFf.
    unfold skip_bits. rewrite app_length, flat_enc_length.
    assert (Ls: length (skipn m rest) = length vals - b) by (rewrite skipn_length, Lr; unfold m; lia).
    rewrite Ls.
    assert (L2: Nat.leb (w * (length vals - b)) (w * (length vals - b) + length tl) = true) by (apply Nat.leb_le; lia).
    rewrite L2. rewrite <- Ls at 1. rewrite skipn_flat by lia.
    rewrite skipn_all. cbn [flat_map app]. reflexivity.
Qed.
