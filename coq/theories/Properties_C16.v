(* Properties_C16.v — C16 (partial by design): the ownership discipline of the API as theorems about Own.v.
   What is proved: the reachable heaps of legal client sequences never contain a dangling reference to freed tables,
   handles stay unique, a free releases exactly the object named, and once every created object has been freed
   nothing is live.  What is NOT provable here (no executable model can exhibit it): byte-level overflow inside a live
   object, real malloc/free pairing inside the library - observed by AddressSanitizer/LeakSanitizer in lib/c16.py on
   exactly the operation sequences this machine accepts. *)
From Coq Require Import List Arith Lia Bool.
From V Require Import Own OwnProof.
Import ListNotations.

Theorem C16_invariant_preserved : forall hp o, inv hp -> legal hp o = true -> inv (step hp o).
Proof. exact inv_step. Qed.
Print Assumptions C16_invariant_preserved.

Theorem C16_reachable_heaps_have_no_dangling_reference : forall ops hp,
  run [] ops = Some hp -> inv hp.
Proof. exact run_inv. Qed.
Print Assumptions C16_reachable_heaps_have_no_dangling_reference.

(* a reference held by a live template/dataset always names live tables: shared tables are never used after free *)
Theorem C16_no_use_after_free_of_shared_tables : forall ops hp ob,
  run [] ops = Some hp -> In ob hp -> o_tables ob <> 0 -> live_kind hp (o_tables ob) KTables = true.
Proof. exact no_dangling_tables. Qed.
Print Assumptions C16_no_use_after_free_of_shared_tables.

(* a free releases exactly the object named and nothing else *)
Theorem C16_free_releases_exactly_one : forall hp h,
  inv hp -> legal hp (Free h) = true ->
  length (step hp (Free h)) + 1 = length hp /\ find (step hp (Free h)) h = None /\
  forall h', h' <> h -> find (step hp (Free h)) h' = find hp h'.
Proof. exact free_exactly_one. Qed.
Print Assumptions C16_free_releases_exactly_one.

(* accounting: live objects = creations - frees; so once everything created has been freed, nothing is live *)
Theorem C16_all_released : forall ops hp,
  run [] ops = Some hp ->
  length hp + fold_right (fun o a => frees o + a) 0 ops = fold_right (fun o a => creates o + a) 0 ops /\
  (fold_right (fun o a => frees o + a) 0 ops = fold_right (fun o a => creates o + a) 0 ops -> hp = []).
Proof. exact all_released. Qed.
Print Assumptions C16_all_released.

(* a freed handle is not usable: every later operation naming it is illegal until it is created again *)
Theorem C16_freed_handle_is_dead : forall hp h o,
  inv hp -> legal hp (Free h) = true ->
  (o = Use h \/ o = AddSubset h \/ o = Reread h \/ o = Free h \/ (exists x, o = Encode x h) \/ (exists x, o = NewDataset x h) \/ (exists x, o = CopyTemplate x h) \/ (exists x, o = Merge x h) \/ (exists x, o = Merge h x)) ->
  legal (step hp (Free h)) o = false.
Proof. exact freed_is_dead. Qed.
Print Assumptions C16_freed_handle_is_dead.

Example C16_example :
  run [] [NewTables 1; NewTemplate 2 1; NewDataset 3 2; Free 2; AddSubset 3; Encode 4 3; Reread 4; Decode 5 4 1; Merge 5 3; Use 5; Free 3; Free 4; Free 5; Free 1] = Some []
  /\ run [] [NewTables 1; NewTemplate 2 1; Free 1] = None /\ run [] [NewTables 1; NewTemplate 2 1; Free 2; Use 2] = None.
Proof. repeat split; reflexivity. Qed.
