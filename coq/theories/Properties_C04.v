(* Properties_C04.v — C04: decoder completeness.  EVERY legal encoding of a dataset - any local reference value
   not above the minimum, any increment width from the minimum up, any fill for differing strings (the function
   'pick' is universally quantified), any trailing pad bits (the tail 'tl' is universally quantified) - decodes
   to the dataset that was encoded. *)
From Coq Require Import List ZArith NArith Arith Lia Bool.
From V Require Import Walk Fm94 Fm94Proof Fm94Cor.
Import ListNotations.
Local Open Scope Z_scope.

Theorem C04_every_compressed_encoding_decodes : forall T ed pick fuel tmpl subsets b tl,
  enc_comp T ed pick fuel tmpl subsets = Ok b ->
  dec_comp T ed fuel tmpl (length subsets) (b ++ tl) = Ok (subsets, tl).
Proof. exact comp_roundtrip. Qed.
Print Assumptions C04_every_compressed_encoding_decodes.

Theorem C04_every_column_encoding_decodes : forall nsub pick f col b tl,
  enc_col nsub pick f col = Ok b -> dec_col nsub f (b ++ tl) = Ok (col, tl).
Proof. exact col_rt. Qed.
Print Assumptions C04_every_column_encoding_decodes.

Theorem C04_plain_with_any_padding_decodes : forall T ed fuel tmpl subsets b tl,
  enc_plain T ed fuel tmpl subsets = Ok b ->
  dec_plain T ed fuel tmpl (length subsets) (b ++ tl) = Ok (subsets, tl).
Proof. exact plain_roundtrip. Qed.
Print Assumptions C04_plain_with_any_padding_decodes.

(* non-vacuity: a non-minimal encoding (reference value 3 below the minimum, 2 extra increment bits) is accepted by enc_col *)
Example C04_nonminimal_choice_is_legal :
  exists b, enc_col 3 (fun _ _ => (choice0, mkC 3 2)) (mkF 12101 FNum 16 2 0 0)
                    [mkD 0 (VRaw 27315); mkD 0 (VRaw 65535); mkD 0 (VRaw 27320)] = Ok b /\ length b = (16 + 6 + 3 * 6)%nat.
Proof. eexists. split; [vm_compute; reflexivity | reflexivity]. Qed.
