(* Properties_C08.v — property C08 (scaling arithmetic: every representable raw value survives decode then encode) as theorems
   about the regulation-level specification ScalSpec.v and the floating-point mirror ScalImpl.v of the library's conversion
   functions.  Only statements, `exact`, Print Assumptions and Examples.
   ScalImpl.v mirrors two variants of the negative-scale arithmetic (fx_neg = false: x / pow(10,scale), the code before
   proposed_fixes/C08_remaining.diff; fx_neg = true: x * pow(10,-scale), after it); lib/c08.py probes which one the tree
   implements.  Theorems quantified over fx_neg hold for both.
   The full claim about the library's branchy float encoder is ScalImplProof.C08_full_statement.  For the variant the library
   implements (fx_neg = true) it is PROVED: C08_encode_decode_roundtrip (ScalFull.v, error analysis of every branch), together
   with the agreement of the encoder with the specification on every double that is not within 2^-12 unit of a rounding tie
   (C08_encode_in_range_eq_quant, C08_encode_exact_range_eq_raw, C08_encode_out_of_range_eq_raw, C08_encode_eq_raw_or_quant).
   For fx_neg = false only the finite instance C08_encode_float_eq_raw_partial is proved, and
   C08_encode_exact_physical_refuted shows where that code departed from the property. *)
From Coq Require Import ZArith QArith Reals List.
From Flocq Require Import Core BinarySingleNaN.
From V Require Import Fm94 GenTables ScalSpec ScalSpecProof ScalImpl ScalImplProof ScalPartial ScalFull.
Local Open Scope Z_scope.

(* ---------------------------------------------------------------- the regulation's arithmetic, unbounded in s, ref, w, i *)

(* converting a raw value below all-ones to its physical value and back yields the raw value *)
Theorem C08_raw_phys_roundtrip : forall s ref w i,
  0 <= i <= 2 ^ w - 2 -> rawR s ref w (physR s ref i) = i.
Proof. exact raw_phys_roundtrip. Qed.
Print Assumptions C08_raw_phys_roundtrip.

(* physical values increase strictly with the raw value *)
Theorem C08_phys_strict_mono : forall s ref i j, i < j -> (physR s ref i < physR s ref j)%R.
Proof. exact phys_strict_mono. Qed.
Print Assumptions C08_phys_strict_mono.

(* the all-ones pattern, and only it, means missing: it is produced exactly for values outside the representable range *)
Theorem C08_missing_iff_allones : forall s ref w q,
  rawR s ref w q = 2 ^ w - 1 <-> (q < physR s ref 0 \/ physR s ref (2 ^ w - 2) < q)%R.
Proof. exact missing_iff_allones. Qed.
Print Assumptions C08_missing_iff_allones.

(* a physical value outside the representable range is stored as missing *)
Theorem C08_out_of_range_is_missing : forall s ref w q,
  (q < physR s ref 0 \/ physR s ref (2 ^ w - 2) < q)%R -> rawR s ref w q = 2 ^ w - 1.
Proof. exact out_of_range_is_missing. Qed.
Print Assumptions C08_out_of_range_is_missing.

(* ... also when the range test is made after rounding: from the all-ones value upwards, and from phys(-1) downwards *)
Theorem C08_quant_out_of_range : forall s ref w q,
  0 <= w -> (q <= physR s ref (-1) \/ physR s ref (2 ^ w - 1) <= q)%R -> quantR s ref w q = 2 ^ w - 1.
Proof. exact quant_out_of_range. Qed.
Print Assumptions C08_quant_out_of_range.

(* the lemma that makes floating-point error harmless: anything within half a unit of 10^-s of phys i encodes to i *)
Theorem C08_raw_tolerant : forall s ref w i q,
  0 <= i <= 2 ^ w - 2 ->
  (physR s ref 0 <= q <= physR s ref (2 ^ w - 2))%R ->
  (Rabs (q - physR s ref i) < bpow radix10 (- s) / 2)%R ->
  rawR s ref w q = i.
Proof. exact raw_tolerant. Qed.
Print Assumptions C08_raw_tolerant.

Theorem C08_quant_tolerant : forall s ref w i q,
  0 <= i <= 2 ^ w - 2 ->
  (Rabs (q - physR s ref i) < bpow radix10 (- s) / 2)%R ->
  quantR s ref w q = i.
Proof. exact quant_tolerant. Qed.
Print Assumptions C08_quant_tolerant.

(* the executable (extracted) rational-number definitions compute the real-number specification *)
Theorem C08_rawQ_is_rawR : forall s ref w q, rawQ s ref w q = rawR s ref w (Q2R q).
Proof. exact rawQ_correct. Qed.
Print Assumptions C08_rawQ_is_rawR.

Theorem C08_quantQ_is_quantR : forall s ref w q, quantQ s ref w q = quantR s ref w (Q2R q).
Proof. exact quantQ_correct. Qed.
Print Assumptions C08_quantQ_is_quantR.

Theorem C08_physQ_is_physR : forall s ref i, Q2R (physQ s ref i) = physR s ref i.
Proof. exact Q2R_physQ. Qed.
Print Assumptions C08_physQ_is_physR.

Theorem C08_rawQ_physQ_roundtrip : forall s ref w i,
  0 <= i <= 2 ^ w - 2 -> rawQ s ref w (physQ s ref i) = i.
Proof. exact rawQ_physQ_roundtrip. Qed.
Print Assumptions C08_rawQ_physQ_roundtrip.

(* ---------------------------------------------------------------- the library's decode (bufr_cvt_i64_to_dval) on binary64 *)

(* scale 0..22: one correctly rounded division of exact operands: within 2^-53 relative of the exact physical value *)
Theorem C08_decode_float_close : forall pow10 fx_neg, pow10_contract pow10 -> forall en i,
  0 <= e_scale en <= 22 -> 0 <= i -> i <> missing_ivalue (e_nbits en) ->
  Z.abs (i + e_ref en) < 2 ^ 53 ->
  (Rabs (B2R (cvt_i64_to_dval pow10 fx_neg en i) - physR (e_scale en) (e_ref en) i)
     <= bpow radix2 (- 53) * Rabs (physR (e_scale en) (e_ref en) i))%R
  /\ is_finite (cvt_i64_to_dval pow10 fx_neg en i) = true.
Proof. exact decode_float_close. Qed.
Print Assumptions C08_decode_float_close.

(* negative scale, fx_neg = false: pow(10,s) is itself rounded (contract: within 2^-52 relative): two roundings, within 2^-51 *)
Theorem C08_decode_float_close_neg_div : forall pow10, pow10_neg_contract pow10 -> forall en i,
  -22 <= e_scale en < 0 -> 0 <= i -> i <> missing_ivalue (e_nbits en) ->
  Z.abs (i + e_ref en) < 2 ^ 53 ->
  (Rabs (B2R (cvt_i64_to_dval pow10 false en i) - physR (e_scale en) (e_ref en) i)
     <= bpow radix2 (- 51) * Rabs (physR (e_scale en) (e_ref en) i))%R
  /\ is_finite (cvt_i64_to_dval pow10 false en i) = true.
Proof. exact decode_float_close_neg_div. Qed.
Print Assumptions C08_decode_float_close_neg_div.

(* negative scale, fx_neg = true: one correctly rounded product by the exact 10^-s: within 2^-53 *)
Theorem C08_decode_float_close_neg_mul : forall pow10, pow10_contract pow10 -> forall en i,
  -22 <= e_scale en < 0 -> 0 <= i -> i <> missing_ivalue (e_nbits en) ->
  Z.abs (i + e_ref en) < 2 ^ 53 ->
  (Rabs (B2R (cvt_i64_to_dval pow10 true en i) - physR (e_scale en) (e_ref en) i)
     <= bpow radix2 (- 53) * Rabs (physR (e_scale en) (e_ref en) i))%R
  /\ is_finite (cvt_i64_to_dval pow10 true en i) = true.
Proof. exact decode_float_close_neg_mul. Qed.
Print Assumptions C08_decode_float_close_neg_mul.

(* every representable raw value survives the library's decode followed by the regulation's quantisation *)
Theorem C08_spec_raw_of_library_decode : forall pow10 fx_neg, pow10_contract pow10 -> forall en i,
  0 <= e_scale en <= 22 -> 1 <= e_nbits en <= 32 -> - 2 ^ 31 <= e_ref en < 2 ^ 31 ->
  0 <= i <= 2 ^ e_nbits en - 2 ->
  quantR (e_scale en) (e_ref en) (e_nbits en) (B2R (cvt_i64_to_dval pow10 fx_neg en i)) = i.
Proof. exact spec_raw_of_library_decode. Qed.
Print Assumptions C08_spec_raw_of_library_decode.

Theorem C08_spec_raw_of_library_decode_neg : forall pow10 fx_neg en i,
  pow10_contract pow10 -> pow10_neg_contract pow10 ->
  -22 <= e_scale en < 0 -> 1 <= e_nbits en <= 32 -> - 2 ^ 31 <= e_ref en < 2 ^ 31 ->
  0 <= i <= 2 ^ e_nbits en - 2 ->
  quantR (e_scale en) (e_ref en) (e_nbits en) (B2R (cvt_i64_to_dval pow10 fx_neg en i)) = i.
Proof. exact spec_raw_of_library_decode_neg. Qed.
Print Assumptions C08_spec_raw_of_library_decode_neg.

(* the form the correspondence driver evaluates on every R case *)
Theorem C08_spec_raw_of_library_decode_Q : forall pow10 fx_neg en i,
  pow10_contract pow10 ->
  0 <= e_scale en <= 22 -> 1 <= e_nbits en <= 32 -> - 2 ^ 31 <= e_ref en < 2 ^ 31 ->
  0 <= i <= 2 ^ e_nbits en - 2 ->
  quantQ (e_scale en) (e_ref en) (e_nbits en) (B2Q (cvt_i64_to_dval pow10 fx_neg en i)) = i.
Proof. exact spec_raw_of_library_decode_Q. Qed.
Print Assumptions C08_spec_raw_of_library_decode_Q.

(* all ones <-> missing on the library side *)
Theorem C08_decode_allones_is_missing : forall pow10 fx_neg en,
  1 <= e_nbits en < 64 -> cvt_i64_to_dval pow10 fx_neg en (2 ^ e_nbits en - 1) = dbl_max.
Proof. exact decode_allones_is_missing. Qed.
Print Assumptions C08_decode_allones_is_missing.

Theorem C08_encode_missing_is_allones : forall pow10 fx_neg desc en,
  1 <= e_nbits en <= 32 -> cvt_dval_to_i64 pow10 fx_neg desc en dbl_max = 2 ^ e_nbits en - 1.
Proof. exact encode_missing_is_allones. Qed.
Print Assumptions C08_encode_missing_is_allones.

Theorem C08_decode_not_missing : forall pow10 fx_neg, pow10_contract pow10 -> forall en i,
  0 <= e_scale en <= 22 -> 0 <= i -> i <> missing_ivalue (e_nbits en) ->
  Z.abs (i + e_ref en) < 2 ^ 53 ->
  is_missing_double (cvt_i64_to_dval pow10 fx_neg en i) = false.
Proof. exact decode_not_missing. Qed.
Print Assumptions C08_decode_not_missing.

(* ---------------------------------------------------------------- the library's encoder (bufr_cvt_dval_to_i64): range guard *)

(* the encoder never returns a value wider than the field, whatever double it is given *)
Theorem C08_encode_never_wider : forall pow10 fx_neg desc en f,
  1 <= e_nbits en <= 32 ->
  0 <= cvt_dval_to_i64 pow10 fx_neg desc en f <= 2 ^ e_nbits en - 1.
Proof. exact encode_never_wider. Qed.
Print Assumptions C08_encode_never_wider.

(* ---------------------------------------------------------------- the library's encoder (bufr_cvt_dval_to_i64), variant fx_neg = true:
   general correctness.  enc_fmin / enc_fmax are the two range limits exactly as the function computes them;
   tie_margin = 1/2 - 2^-12.  Side conditions: width 1..32, reference an int, scale -22..22, pow(10,k) exact for 0<=k<=22. *)

(* every representable raw value survives the library's decode followed by the library's encode *)
Theorem C08_encode_decode_roundtrip : forall pow10, pow10_contract pow10 -> forall desc en i,
  -22 <= e_scale en <= 22 -> 1 <= e_nbits en <= 32 -> - 2 ^ 31 <= e_ref en < 2 ^ 31 ->
  0 <= i <= 2 ^ e_nbits en - 2 ->
  cvt_dval_to_i64 pow10 true desc en (cvt_i64_to_dval pow10 true en i) = i.
Proof. exact C08_full_statement_exact_variant. Qed.
Print Assumptions C08_encode_decode_roundtrip.

(* any non-missing double v that passes the two range tests and whose scaled value v*10^scale is within 1/2 - 2^-12 of an
   integer n (i.e. not within 2^-12 of a tie) is encoded as n - reference, which is a valid raw value below all-ones *)
Theorem C08_encode_in_range : forall pow10, pow10_contract pow10 -> forall desc en,
  -22 <= e_scale en <= 22 -> 1 <= e_nbits en <= 32 -> - 2 ^ 31 <= e_ref en < 2 ^ 31 ->
  forall v n,
  is_missing_double v = false ->
  bgt v (enc_fmax pow10 en) = false -> blt v (enc_fmin pow10 en) = false ->
  (Rabs (B2R v * bpow radix10 (e_scale en) - IZR n) <= tie_margin)%R ->
  cvt_dval_to_i64 pow10 true desc en v = n - e_ref en /\ 0 <= n - e_ref en <= 2 ^ e_nbits en - 2.
Proof. exact encode_in_range. Qed.
Print Assumptions C08_encode_in_range.

(* ... which is the specification's quantisation of v *)
Theorem C08_encode_in_range_eq_quant : forall pow10, pow10_contract pow10 -> forall desc en,
  -22 <= e_scale en <= 22 -> 1 <= e_nbits en <= 32 -> - 2 ^ 31 <= e_ref en < 2 ^ 31 ->
  forall v n,
  is_missing_double v = false ->
  bgt v (enc_fmax pow10 en) = false -> blt v (enc_fmin pow10 en) = false ->
  (Rabs (B2R v * bpow radix10 (e_scale en) - IZR n) <= tie_margin)%R ->
  cvt_dval_to_i64 pow10 true desc en v = quantR (e_scale en) (e_ref en) (e_nbits en) (B2R v).
Proof. exact encode_in_range_eq_quant. Qed.
Print Assumptions C08_encode_in_range_eq_quant.

(* inside the exact representable range [phys 0, phys (2^w-2)] the library's encoder IS the specification's encoder *)
Theorem C08_encode_exact_range_eq_raw : forall pow10, pow10_contract pow10 -> forall desc en,
  -22 <= e_scale en <= 22 -> 1 <= e_nbits en <= 32 -> - 2 ^ 31 <= e_ref en < 2 ^ 31 ->
  forall v n,
  is_missing_double v = false ->
  (Rabs (B2R v * bpow radix10 (e_scale en) - IZR n) <= tie_margin)%R ->
  (physR (e_scale en) (e_ref en) 0 <= B2R v <= physR (e_scale en) (e_ref en) (2 ^ e_nbits en - 2))%R ->
  cvt_dval_to_i64 pow10 true desc en v = rawR (e_scale en) (e_ref en) (e_nbits en) (B2R v).
Proof. exact encode_exact_range_eq_raw. Qed.
Print Assumptions C08_encode_exact_range_eq_raw.

(* the missing double, and every double failing one of the two range tests, is stored as all ones *)
Theorem C08_encode_out_of_range : forall pow10 desc en,
  1 <= e_nbits en <= 32 ->
  forall v,
  is_missing_double v = true \/ bgt v (enc_fmax pow10 en) = true \/ blt v (enc_fmin pow10 en) = true ->
  cvt_dval_to_i64 pow10 true desc en v = 2 ^ e_nbits en - 1.
Proof. exact encode_out_of_range. Qed.
Print Assumptions C08_encode_out_of_range.

(* a double failing a range test IS outside the exact representable range (the limits are correctly rounded) *)
Theorem C08_above_fmax_is_above_range : forall pow10, pow10_contract pow10 -> forall en,
  -22 <= e_scale en <= 22 -> 1 <= e_nbits en <= 32 -> - 2 ^ 31 <= e_ref en < 2 ^ 31 ->
  forall v, is_finite v = true -> bgt v (enc_fmax pow10 en) = true ->
  (physR (e_scale en) (e_ref en) (2 ^ e_nbits en - 2) < B2R v)%R.
Proof. exact above_fmax_is_above_range. Qed.
Print Assumptions C08_above_fmax_is_above_range.

Theorem C08_below_fmin_is_below_range : forall pow10, pow10_contract pow10 -> forall en,
  -22 <= e_scale en <= 22 -> - 2 ^ 31 <= e_ref en < 2 ^ 31 ->
  forall v, is_finite v = true -> blt v (enc_fmin pow10 en) = true ->
  (B2R v < physR (e_scale en) (e_ref en) 0)%R.
Proof. exact below_fmin_is_below_range. Qed.
Print Assumptions C08_below_fmin_is_below_range.

(* hence it is stored as the specification stores it: missing *)
Theorem C08_encode_out_of_range_eq_raw : forall pow10, pow10_contract pow10 -> forall desc en,
  -22 <= e_scale en <= 22 -> 1 <= e_nbits en <= 32 -> - 2 ^ 31 <= e_ref en < 2 ^ 31 ->
  forall v, is_finite v = true ->
  bgt v (enc_fmax pow10 en) = true \/ blt v (enc_fmin pow10 en) = true ->
  cvt_dval_to_i64 pow10 true desc en v = rawR (e_scale en) (e_ref en) (e_nbits en) (B2R v).
Proof. exact encode_out_of_range_eq_raw. Qed.
Print Assumptions C08_encode_out_of_range_eq_raw.

(* on every non-missing double away from ties the result is the strict (rawR) or the round-then-test (quantR) reading of the
   specification; the two differ only for values less than half a unit outside the extremes *)
Theorem C08_encode_eq_raw_or_quant : forall pow10, pow10_contract pow10 -> forall desc en,
  -22 <= e_scale en <= 22 -> 1 <= e_nbits en <= 32 -> - 2 ^ 31 <= e_ref en < 2 ^ 31 ->
  forall v n,
  is_missing_double v = false ->
  (Rabs (B2R v * bpow radix10 (e_scale en) - IZR n) <= tie_margin)%R ->
  cvt_dval_to_i64 pow10 true desc en v = rawR (e_scale en) (e_ref en) (e_nbits en) (B2R v) \/
  cvt_dval_to_i64 pow10 true desc en v = quantR (e_scale en) (e_ref en) (e_nbits en) (B2R v).
Proof. exact encode_eq_raw_or_quant. Qed.
Print Assumptions C08_encode_eq_raw_or_quant.

(* ---------------------------------------------------------------- the library's encoder (bufr_cvt_dval_to_i64): finite instance *)

(* for every numeric/code/flag entry (width 1..32) of the five shipped Table B versions and every raw value of raw_grid
   (16 lowest, 16 highest incl. all ones, the sign change of i+ref, i+ref around 2^w-1, first multiples of 10^scale):
   encode (decode i) = i, with the correctly rounded powers of ten *)
Theorem C08_encode_float_eq_raw_partial :
  forall (fx_neg : bool) T, In T shipped_tables ->
  forall d b, In (d, b) (tB T) -> in_scope b = true ->
  forall i, In i (raw_grid (b_scale b) (b_ref b) (b_width b)) ->
  cvt_dval_to_i64 pow10_rn fx_neg d (enc_of b) (cvt_i64_to_dval pow10_rn fx_neg (enc_of b) i) = i.
Proof. exact encode_float_eq_raw_partial. Qed.
Print Assumptions C08_encode_float_eq_raw_partial.

(* ---------------------------------------------------------------- the negative-scale defect (fx_neg = false) and its repair *)

(* fx_neg = false: an exactly representable physical value of a raw value below all-ones is stored as missing *)
Theorem C08_encode_exact_physical_refuted :
  exists en i d,
    (0 <= i <= 2 ^ e_nbits en - 2) /\ is_finite d = true /\
    B2R d = physR (e_scale en) (e_ref en) i /\
    cvt_dval_to_i64 pow10_rn false 2067 en d = 2 ^ e_nbits en - 1.
Proof. exact encode_exact_physical_refuted. Qed.
Print Assumptions C08_encode_exact_physical_refuted.

(* fx_neg = true: the same value is stored as its raw value *)
Theorem C08_encode_exact_physical_witness :
  cvt_dval_to_i64 pow10_rn true 2067 {| e_scale := -5; e_ref := 0; e_nbits := 15 |} (d_of_Z 3276600000) = 32766.
Proof. exact encode_exact_physical_witness. Qed.
Print Assumptions C08_encode_exact_physical_witness.

(* the former counterexample of "out of range -> missing" (repaired by 3248512) is missing in both variants *)
Theorem C08_encode_out_of_range_witness :
  forall fx_neg, cvt_dval_to_i64 pow10_rn fx_neg 1001 {| e_scale := -1; e_ref := -1000; e_nbits := 8 |} (d_of_Z (-7440)) = 2 ^ 8 - 1.
Proof. exact encode_out_of_range_witness. Qed.
Print Assumptions C08_encode_out_of_range_witness.

(* ---------------------------------------------------------------- the hypotheses are satisfiable *)
Theorem C08_pow10_contract_satisfiable : pow10_contract pow10_rn.
Proof. exact pow10_rn_contract. Qed.
Print Assumptions C08_pow10_contract_satisfiable.

Theorem C08_pow10_neg_contract_satisfiable : pow10_neg_contract pow10_rn.
Proof. exact pow10_rn_neg_contract. Qed.
Print Assumptions C08_pow10_neg_contract_satisfiable.

Example C08_ex_roundtrip : rawQ 1 (-2732) 12 (physQ 1 (-2732) 4000) = 4000.
Proof. reflexivity. Qed.
Example C08_ex_missing : rawQ 1 (-2732) 12 (500 # 1) = 4095.
Proof. reflexivity. Qed.
Example C08_ex_grid : In 4094 (raw_grid 1 (-2732) 12).
Proof. vm_compute. tauto. Qed.
Example C08_ex_in_scope : in_scope (mkB UNum 1 (-2732) 12) = true.
Proof. reflexivity. Qed.
Example C08_ex_tie_margin : tie_margin = (/ 2 - / 4096)%R.
Proof. reflexivity. Qed.
